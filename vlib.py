"""Shared driver plumbing for /verif/check.

Every check is a python function run(ctx) in checks/<id>.py.  ctx gives it:
  ctx.tlc(...)        run TLC on a scratch copy of /verif/spec (timeout, own metadir)
  ctx.build(cmd)      build a harness command from /verif/harness against /repo's working tree
  ctx.harness(...)    run a harness binary, collect its JSON verdict records
  ctx.mismatch(...)   record a disagreement between real code and spec (known-finding aware)
  ctx.finish(...)     write evidence/<id>.json, print VIOLATION / KNOWN-FINDING lines, exit

Exit codes: 0 held (KNOWN-FINDING lines allowed), 1 VIOLATION, 2 infrastructure problem.
"""
import atexit, json, os, re, shutil, subprocess, sys, tempfile, time, hashlib

VERIF = os.path.dirname(os.path.abspath(__file__))
REPO = os.environ.get("VERIF_REPO", "/repo")
GOENV = dict(GOFLAGS="-mod=mod", GOPROXY="off", GOSUMDB="off", GOTOOLCHAIN="local",
             CGO_ENABLED=os.environ.get("CGO_ENABLED", "1"))


class Infra(Exception):
    """Infrastructure problem: never a verdict about the code."""


class TLCResult:
    def __init__(self):
        self.out_path = None
        self.generated = 0
        self.distinct = 0
        self.depth = 0
        self.status = "unknown"   # ok | violation | error | timeout
        self.detail = ""
        self.wall = 0.0
        self.tail = ""
        self.cmd = ""


class Ctx:
    def __init__(self, pid, tier, seed):
        self.id = pid
        self.tier = tier
        self.seed = seed
        self.t0 = time.time()
        self.scratch = tempfile.mkdtemp(prefix="verif-%s-" % pid)
        if not os.environ.get("VERIF_KEEP_SCRATCH"):     # (debugging aid: keep the scratch directory of the run)
            atexit.register(lambda: shutil.rmtree(self.scratch, ignore_errors=True))
        self.violations = []      # (sig, detail, replay_path)
        self.known_hits = {}      # sig -> (desc, count)
        self.cov = dict(states=0, transitions=0, traces_validated_against_impl=0,
                        evaluations=0, distinct_nontrivial=0, samples=[], checker_cmd="")
        self.assumptions = []
        self.notes = []
        self.outdir = os.path.join(VERIF, "out", pid)
        self.alt_repo = REPO != "/repo"
        if self.alt_repo:
            # (VERIF_OUT: several scratch-worktree runs of the same property at the same time)
            self.outdir = os.environ.get("VERIF_OUT") or os.path.join("/tmp", "verif-out", pid)
        self.known = load_known(pid)
        self._nviol = 0
        self.replay_mode = False

    # ---------------------------------------------------------------- TLC
    def specdir(self):
        d = os.path.join(self.scratch, "spec")
        if not os.path.isdir(d):
            shutil.copytree(os.path.join(VERIF, "spec"), d)
        return d

    def tlc(self, module, cfg, workers=16, env=None, timeout=900, simulate=None,
            depth=None, out_name=None, extra=None, coverage=False, count=True, deque=False):
        """Run TLC; stdout goes to a file in scratch.  Returns TLCResult."""
        d = self.specdir()
        res = TLCResult()
        out_name = out_name or ("%s.%s.out" % (module, os.path.basename(cfg)))
        res.out_path = os.path.join(d, out_name)
        meta = tempfile.mkdtemp(prefix="md-", dir=self.scratch)
        cmd = ["timeout", str(timeout), "tlc", "-workers", str(workers), "-metadir", meta,
               "-config", cfg]
        if simulate:
            cmd += ["-simulate", simulate]
            if depth:
                cmd += ["-depth", str(depth)]
            cmd += ["-seed", str(self.seed)]
        if coverage:
            cmd += ["-coverage", "1"]
        if extra:
            cmd += extra
        cmd += [module + ".tla"]
        e = dict(os.environ)
        # TLC unpacks its standard modules into java.io.tmpdir on every start: keep that inside the scratch
        # directory of the run (removed at the end) instead of littering /tmp
        jtmp = os.path.join(self.scratch, "jtmp")
        os.makedirs(jtmp, exist_ok=True)
        jto = "-Xss256m -Djava.io.tmpdir=" + jtmp
        if deque:
            jto += " -Dtlc2.tool.queue.IStateQueue=StateDeque"
        e["JAVA_TOOL_OPTIONS"] = jto
        if env:
            e.update(env)
        res.cmd = " ".join(cmd[2:])
        t = time.time()
        with open(res.out_path, "w") as fh:
            p = subprocess.run(cmd, cwd=d, env=e, stdout=fh, stderr=subprocess.STDOUT)
        res.wall = time.time() - t
        shutil.rmtree(meta, ignore_errors=True)
        # parse the non-T lines
        tail = []
        completed = False   # (with -coverage the statistics that follow the verdict can be longer than the tail kept)
        with open(res.out_path, errors="replace") as fh:
            for line in fh:
                if line.startswith('<<"T"'):
                    continue
                if line.startswith("Model checking completed. No error has been found."):
                    completed = True
                tail.append(line)
                if len(tail) > 400:
                    tail = tail[-200:]
                m = re.match(r"(\d+) states generated, (\d+) distinct states found", line)
                if m:
                    res.generated, res.distinct = int(m.group(1)), int(m.group(2))
                m = re.match(r"The depth of the complete state graph search is (\d+)", line)
                if m:
                    res.depth = int(m.group(1))
        res.tail = "".join(tail[-60:])
        txt = "".join(tail)
        if p.returncode == 124:
            res.status = "timeout"
        elif completed or (simulate and p.returncode == 0):
            res.status = "ok"
        elif re.search(r"Error: (Invariant|Action property|Temporal properties|Deadlock|Postcondition|The postcondition)", txt) \
                or "is violated" in txt or "was violated" in txt:
            res.status = "violation"
            res.detail = txt[-3000:]
        else:
            res.status = "error"
            res.detail = txt[-3000:]
        if count and res.status == "ok":
            self.cov["states"] += res.distinct
            self.cov["transitions"] += res.generated
        if not self.cov["checker_cmd"]:
            self.cov["checker_cmd"] = res.cmd
        return res

    def tlc_ok(self, *a, **kw):
        """Model check the design; a failure here is a problem of the spec itself."""
        r = self.tlc(*a, **kw)
        if r.status != "ok":
            raise Infra("TLC %s on %s: %s\n%s" % (r.status, a[0], r.cmd, r.detail or r.tail))
        return r

    def validate_trace(self, module, cfg, trace_path, timeout=900, deque=False):
        """Check a recorded ndjson trace against a Trace spec.
        Returns (accepted, rejected_at, record_json, result)."""
        r = self.tlc(module, cfg, workers=1, env={"TRACE_FILE": trace_path}, timeout=timeout,
                     out_name=module + "." + os.path.basename(trace_path) + ".out", count=False,
                     deque=deque)
        txt = open(r.out_path, errors="replace").read()
        if r.status == "ok":
            return True, None, None, r
        if r.status in ("timeout", "error") and "TRACE_REJECTED_AT" not in txt and \
                "is violated" not in txt and "Invariant" not in txt:
            raise Infra("trace validation %s: %s\n%s" % (r.status, r.cmd, r.detail or r.tail))
        m = re.search(r'"TRACE_REJECTED_AT", (\d+), (\d+)', txt)
        at = int(m.group(1)) if m else None
        m2 = re.search(r'<<"REJECTED_RECORD", "(.*)">>', txt)
        rec = None
        if m2:
            try:
                rec = json.loads('"' + m2.group(1) + '"')
            except Exception:
                rec = m2.group(1)
        if at is None:
            # an invariant / action property of the trace cfg failed on an observed step
            m3 = re.search(r"(Invariant \w+ is violated|Action property \w+ is violated)", txt)
            rec = (m3.group(1) if m3 else "property violated on recorded trace") + "\n" + txt[-1500:]
        return False, at, rec, r

    # ------------------------------------------------------------- Go side
    def build(self, cmd, race=False, tags="verif", overlay=None):
        hdir = os.path.join(VERIF, "harness")
        if REPO != "/repo":
            # checks run against a scratch worktree (mutant testing): private copy of the
            # harness module whose replace directive points at that worktree
            hcopy = os.path.join(self.scratch, "harness")
            if not os.path.isdir(hcopy):
                shutil.copytree(hdir, hcopy)
                gm = open(os.path.join(hcopy, "go.mod")).read().replace("=> /repo", "=> " + REPO)
                open(os.path.join(hcopy, "go.mod"), "w").write(gm)
            hdir = hcopy
        try:
            shutil.copyfile(os.path.join(REPO, "go.sum"), os.path.join(hdir, "go.sum"))
        except OSError:
            pass
        out = os.path.join(self.scratch, "bin-" + cmd + ("-race" if race else ""))
        args = ["go", "build", "-o", out]
        if tags:
            args += ["-tags", tags]
        if race:
            args += ["-race"]
        if overlay:
            args += ["-overlay", overlay]
        args += ["./cmd/" + cmd]
        e = dict(os.environ)
        e.update(GOENV)
        p = subprocess.run(args, cwd=hdir, env=e, stdout=subprocess.PIPE, stderr=subprocess.STDOUT, text=True)
        if p.returncode != 0:
            raise Infra("go build %s failed:\n%s" % (cmd, p.stdout[-4000:]))
        return out

    def harness(self, binpath, args, timeout=900, env=None, stdin=None, allow_fail=False, stderr_to=None):
        """Run a harness binary; returns (records, returncode, stderr_tail).
        stderr_to: path that receives the complete stderr (race detector reports)."""
        e = dict(os.environ)
        if env:
            e.update(env)
        outp = os.path.join(self.scratch, "h-%d.out" % int(time.time() * 1e6))
        with open(outp, "w") as fh:
            try:
                p = subprocess.run([binpath] + [str(a) for a in args], env=e, stdout=fh,
                                   stderr=subprocess.PIPE, timeout=timeout, input=stdin)
                if stderr_to:
                    with open(stderr_to, "wb") as efh:
                        efh.write(p.stderr)
                rc, err = p.returncode, p.stderr.decode(errors="replace")[-4000:]
            except subprocess.TimeoutExpired as ex:
                rc, err = 124, "harness timeout"
        recs = []
        with open(outp, errors="replace") as fh:
            for line in fh:
                line = line.strip()
                if line.startswith("{"):
                    try:
                        recs.append(json.loads(line))
                    except ValueError:
                        pass
        if rc != 0 and not allow_fail:
            raise Infra("harness %s %s exited %d: %s" % (os.path.basename(binpath), args, rc, err))
        return recs, rc, err

    def summary(self, recs):
        for r in recs:
            if r.get("kind") == "summary":
                if r.get("infra_error"):
                    raise Infra("harness infra error: %s" % r["infra_error"])
                return r
        raise Infra("harness printed no summary")

    def take_mismatches(self, recs):
        for r in recs:
            if r.get("kind") == "mismatch":
                self.mismatch(r.get("sig", "?"), r.get("detail", ""), r.get("replay"))

    # ------------------------------------------------------------ verdicts
    def mismatch(self, sig, detail, replay):
        """Real code disagreed with the spec on one case."""
        for k in self.known:
            if k["sig"] == sig:
                d, n = self.known_hits.get(sig, (k["desc"], 0))
                self.known_hits[sig] = (d, n + 1)
                return
        self._nviol += 1
        self._persig = getattr(self, "_persig", {})
        self._persig[sig] = self._persig.get(sig, 0) + 1
        if self._persig[sig] > 3 or len(self.violations) >= 20:
            if len(self.violations) > 0:
                return
        path = None
        if not self.replay_mode:
            os.makedirs(self.outdir, exist_ok=True)
            path = os.path.join(self.outdir, "viol-%d.json" % self._nviol)
            with open(path, "w") as fh:
                json.dump({"property": self.id, "sig": sig, "detail": detail, "replay": replay}, fh)
        self.violations.append((sig, detail, path))

    def sample(self, s):
        if len(self.cov["samples"]) < 6:
            self.cov["samples"].append(s)

    def finish(self, level="model_checking", rule="", explanation=None, extra=None):
        wall = time.time() - self.t0
        cov = dict(self.cov)
        cov["rule"] = rule
        if explanation:
            cov["explanation"] = explanation
        if extra:
            cov.update(extra)
        if not cov["samples"]:
            cov["samples"] = ["(no sample recorded)"]
        cov["known_findings_hit"] = {k: v[1] for k, v in self.known_hits.items()}
        ev = dict(property_id=self.id, tier=self.tier, seed=self.seed, level=level,
                  coverage=cov, assumptions=self.assumptions, wall_s=round(wall, 2),
                  violations=len(self.violations), notes=self.notes)
        if not self.replay_mode and not self.alt_repo:
            os.makedirs(os.path.join(VERIF, "evidence"), exist_ok=True)
            with open(os.path.join(VERIF, "evidence", self.id + ".json"), "w") as fh:
                json.dump(ev, fh, indent=1, sort_keys=True)
                fh.write("\n")
        for sig, (desc, n) in sorted(self.known_hits.items()):
            print("KNOWN-FINDING: property=%s %s (sig=%s, hit %d times)" % (self.id, desc, sig, n))
        for sig, detail, path in self.violations:
            print("VIOLATION property=%s replay=%s" % (self.id, path))
            print("  sig=%s %s" % (sig, detail[:600]))
        print("%s %s seed=%d: states=%d transitions=%d validated=%d evaluations=%d nontrivial=%d violations=%d wall=%.1fs" % (
            self.id, self.tier, self.seed, cov["states"], cov["transitions"],
            cov["traces_validated_against_impl"], cov["evaluations"], cov["distinct_nontrivial"],
            len(self.violations), wall))
        sys.stdout.flush()
        sys.exit(1 if self.violations else 0)


def load_known(pid):
    out = []
    p = os.path.join(VERIF, "known-findings.txt")
    if not os.path.exists(p):
        return out
    for line in open(p):
        line = line.strip()
        m = re.match(r"finding:\s+property=(\S+)\s+sig=(\S+)\s+(.*)", line)
        if m and m.group(1) == pid:
            out.append(dict(sig=m.group(2), desc=m.group(3)))
    return out


def count_lines(path, prefix):
    n = 0
    with open(path, errors="replace") as fh:
        for line in fh:
            if line.startswith(prefix):
                n += 1
    return n


# ------------------------------------------------------------------ common patterns
def gen_and_replay(ctx, module, cfg, binp, mode="replay", timeout=1500, extra_args=None, workers=16,
                   harness_timeout=1500, simulate=None, depth=None):
    """TLC prints behaviours (T lines); the harness replays each into the real code.
    Returns (tlc_result, harness_summary)."""
    g = ctx.tlc(module, cfg, timeout=timeout, count=False, workers=workers, simulate=simulate, depth=depth,
                out_name="%s.%s.gen.out" % (module, os.path.basename(cfg)))
    if g.status != "ok":
        raise Infra("generator %s/%s failed: %s\n%s" % (module, cfg, g.cmd, g.detail or g.tail))
    recs, _, _ = ctx.harness(binp, [mode, g.out_path] + (extra_args or []), timeout=harness_timeout)
    s = ctx.summary(recs)
    ctx.take_mismatches(recs)
    if not s.get("behaviours"):
        raise Infra("no behaviours replayed from %s/%s" % (module, cfg))
    ctx.cov["traces_validated_against_impl"] += s["behaviours"]
    ctx.cov["evaluations"] += s.get("steps", s["behaviours"])
    ctx.cov["distinct_nontrivial"] += s.get("nontrivial", 0)
    for smp in (s.get("samples") or [])[:2]:
        ctx.sample({"replayed": smp})
    try:
        os.unlink(g.out_path)
    except OSError:
        pass
    return g, s


def record_and_validate(ctx, binp, args, trace_module, trace_cfg, name="trace.ndjson", sig="trace-rejected",
                        timeout=900, harness_timeout=900):
    """The harness records what the real code does (ndjson); the Trace spec judges it.
    Returns (accepted, trace_path, harness_summary)."""
    tr = os.path.join(ctx.scratch, name)
    recs, _, _ = ctx.harness(binp, [args[0], tr] + list(args[1:]), timeout=harness_timeout)
    s = ctx.summary(recs)
    ctx.take_mismatches(recs)
    ok, at, rec, _ = ctx.validate_trace(trace_module, trace_cfg, tr, timeout=timeout)
    if ok:
        ctx.cov["traces_validated_against_impl"] += s.get("traces", 1)
        ctx.cov["evaluations"] += s.get("records", 0)
        with open(tr) as fh:
            head = []
            for i, line in enumerate(fh):
                if i >= 4:
                    break
                head.append(json.loads(line))
        ctx.sample({"recorded": head[1:3]})
    else:
        ctx.mismatch(sig, "%s rejects the recorded history at record %s: %s" % (trace_module, at, str(rec)[:1500]),
                     {"kind": "trace", "prefix": trace_prefix(tr, at)})
    return ok, tr, s


def trace_prefix(path, at, reset_marker='"Reset"'):
    """records of the trace the rejected record belongs to, up to and including it"""
    if at is None:
        return None
    lines = open(path).read().splitlines()
    i = min(at - 1, len(lines) - 1)
    j = i
    while j > 0 and reset_marker not in lines[j]:
        j -= 1
    return [json.loads(x) for x in lines[j:i + 1]]


def corrupt_demo(ctx, tr, trace_module, trace_cfg, pick, mutate, keep_after=30):
    """Binding demonstration: corrupt one record of an accepted trace (pick(rec)->bool selects it,
    mutate(rec) changes it in place); the Trace spec must reject exactly there."""
    lines = open(tr).read().splitlines()
    for i, line in enumerate(lines):
        rec = json.loads(line)
        if pick(rec):
            mutate(rec)
            lines[i] = json.dumps(rec)
            p = os.path.join(ctx.scratch, "corrupt-%s.ndjson" % trace_module)
            open(p, "w").write("\n".join(lines[:i + keep_after]) + "\n")
            ok, at, _, _ = ctx.validate_trace(trace_module, trace_cfg, p)
            if ok or at != i + 1:
                raise Infra("binding demonstration failed: corrupted record %d not rejected there (ok=%s at=%s)" % (i + 1, ok, at))
            return "corrupted record %d rejected at record %d" % (i + 1, at)
    return "no suitable record found"


def replay_generic(ctx, path, cmd, trace_module=None, trace_cfg=None):
    data = json.load(open(path))
    rp = data.get("replay")
    if isinstance(rp, dict) and rp.get("kind") == "trace":
        p = os.path.join(ctx.scratch, "replay.ndjson")
        with open(p, "w") as fh:
            for rec in rp["prefix"]:
                fh.write(json.dumps(rec) + "\n")
        ok, at, rec, _ = ctx.validate_trace(trace_module, trace_cfg, p)
        print("recorded trace %s by %s%s" % ("accepted" if ok else "REJECTED", trace_module, "" if ok else " at %s: %s" % (at, rec)))
        print("(a recorded trace is re-validated as recorded; re-run the check to re-record against the working tree)")
        return
    p = os.path.join(ctx.scratch, "case.json")
    json.dump(rp, open(p, "w"))
    binp = ctx.build(cmd)
    recs, _, _ = ctx.harness(binp, ["one", p])
    for r in recs:
        if r.get("kind") == "mismatch":
            print("REPRODUCED sig=%s %s" % (r["sig"], r["detail"][:1000]))
            return
    print("not reproduced on the working tree")
