# table consumed by mkmanifest.py
NOTES = ("All checks: explicit TLA+ specification under /verif/spec, model-checked by TLC, and bound to the Go "
         "implementation both ways (TLC-generated behaviours replayed into the real code; traces recorded from the "
         "real code validated by TLC).  Harness module /verif/harness replaces go-imap by /repo, so every run rebuilds "
         "from the working tree.  Exit 2 = infrastructure problem, never a verdict.")
NA = {}
ENGINES = [
    dict(name="tlc", path="/usr/local/bin/tlc", serves_properties=[], kind_free_text="TLC 1.8.0 explicit-state model checker: design check, behaviour generator, trace judge"),
    dict(name="harness", path="/verif/harness", serves_properties=[], kind_free_text="Go conformance harnesses (stdlib only) driving the real go-imap code"),
]

chk("C07", "model_checking",
    "Tracker.tla is model-checked exhaustively (2 sessions, <=3 messages, increments <=2/3, queues <=2/3); every transition "
    "of the bounded graph is replayed against the real MailboxTracker/SessionTracker through a real imapserver.Conn, comparing "
    "wire output and the full DecodeSeqNum/EncodeSeqNum tables after every step; random longer histories (6 sessions, up to 24 "
    "messages, increments up to 6, IDLE) are recorded and validated line by line by TrackerTrace with the invariants evaluated on every observed state.",
    "Trusts TLC, the harness's own response tokenizer, and the small-scope hypothesis beyond the bounds; IDLE delivery is taken "
    "synchronously in the model (harness waits for it).",
    "TLA+ spec + TLC exhaustive check; transition-coverage replay into real code; trace validation of recorded histories",
    "DESIGN.md 3 (C07)", "tlc+harness/cmd/tracker")

chk("C05", "model_checking",
    "ServerConn.tla (RFC 9051 state machine, backend gating, auth gating, capability advertisement) is model-checked for all 128 "
    "configurations {TLS}x{InsecureAuth}x{PREAUTH}x{TLSConfig}x{MOVE,NAMESPACE,UNAUTHENTICATE}; every transition of its graph (38 commands x "
    "well-formed/malformed x every backend outcome) and every command sequence up to depth 2 (quick) / 3 (thorough) over command families (incl. STARTTLS with plaintext commands pipelined behind it: the handshake breaks, nothing is executed) "
    "is replayed on a real imapserver connection (real TLS where configured) with a scripted Session, comparing tagged class, BYE, continuation "
    "requests, the exact list of backend calls, the post-state (black-box probes) and advertised capabilities after every step; long random "
    "sequences are validated by ServerConnTrace with the gating invariants evaluated on every observed state.",
    "Trusts TLC, the harness tokenizer and probes (CAPABILITY/FETCH/STATUS) to observe the state; only OK vs not-OK of tagged responses is "
    "compared (the property does not fix NO vs BAD); SessionSASL mechanisms of the stub are PLAIN, XTEST (one challenge) and XFINAL (final data).",
    "TLA+ spec + TLC exhaustive check over the configuration product; transition-coverage and depth-bounded replay; trace validation",
    "DESIGN.md 3 (C05)", "tlc+harness/cmd/serverconn")

chk("C04", "model_checking",
    "ServerFraming.tla specifies, per unit (command x argument as quoted / synchronising / non-synchronising literal x size class below/above "
    "4096 / above the APPEND limit x benign or command-like payload, plus literals after syntax errors and unknown commands, AUTHENTICATE, IDLE), what a "
    "conforming server may do (one tagged completion or close; '+' only for an accepted synchronising literal / AUTHENTICATE / IDLE; refused "
    "non-synchronising literal consumed or connection closed; payload only as the announced argument). TLC enumerates every unit sequence of depth 2 "
    "(all units incl. FETCH-hdr, whose string argument is echoed in the response; both start states, LITERAL+ on/off, UTF8=ACCEPT enabled or not; thorough adds depth 3 over the "
    "refusal core); each is executed against a real server by a "
    "mechanical literal-protocol client, the reaction is recorded (including whether everything the server wrote was a whole well-formed response line, by an independent tokenizer) "
    "and ServerFramingTrace judges every record. Independently of the spec the harness "
    "reports any response to a tag occurring only inside a payload, any backend call with the marker argument, stalls and malformed output.",
    "Trusts TLC and the harness tokenizer; oversized literals are announced (104857601) but never sent in full; a stall is 3 s of silence on an open connection; "
    "closing the connection is accepted wherever the property allows it.",
    "TLA+ spec + TLC enumeration of unit sequences; real-server execution; trace validation with RFC 7888 nondeterminism; direct smuggling monitors",
    "DESIGN.md 3 (C04)", "tlc+harness/cmd/framing")

chk("C15", "model_checking",
    "NumSet.tla (state = range list as the code keeps it plus ghost members = union of insertions, over a symbolic domain whose top points stand for "
    "2^32-2 and 2^32-1, with a gap point so no false adjacency arises) is model-checked exhaustively for canonical form, membership = union, "
    "Contains/Dynamic agreement, text round trip and ascending exact enumeration. Every transition of the complete bounded graph (AddNum, AddRange in both "
    "endpoint orders with '*' on either side, AddSet from a catalogue) and every token string up to length 5 (quick) / 7 (thorough) is replayed against "
    "imapnum.Set, imap.SeqSet and imap.UIDSet and all parse paths, comparing after every op; Nums() runs in a limited child process (non-return is an "
    "observation). Random 50-op histories and random valid/edited/invalid texts are recorded and NumSetTrace re-judges every record.",
    "Trusts TLC, the point-to-uint32 table (order- and adjacency-preserving) and the small-scope hypothesis beyond the bounded domain. Nums() is observed "
    "only for sets of at most 16 elements. internal/imapnum is reached through an overlay-injected re-export package; /repo is not modified.",
    "TLA+ spec + TLC exhaustive check; complete-graph transition replay and exhaustive parse vectors; child-process termination observation; trace validation",
    "DESIGN.md 3 (C15)", "tlc+harness/cmd/numset")

chk("C16", "model_checking",
    "Utf7.tla specifies modified UTF-7 arithmetically (UTF-16/UTF-8, bit packing, base64 alphabet). TLC checks Decode(Encode(s))=s, printable-ASCII output, "
    "MustAccept = image of Encode, MustAccept/MustReject disjoint, and that a transformer state machine (carried ascii flag, nil/ShortSrc/ShortDst/Invalid, dst "
    "growth) gives the one-shot result under every buffer schedule and always terminates. Every input of the bounded space (code-point strings up to 3/4, byte "
    "strings up to 4/5, token strings up to 3/4) is run on the real internal/utf7 one-shot and under 40 explicit Transform schedules against the predicted "
    "encoding or verdict. Random inputs with random schedules are recorded from the real code and re-evaluated by Utf7Trace.",
    "Trusts TLC, the overlay shim (a pure re-export) and the harness's transform-contract driver. Compares accumulated output and final verdict, not per-call "
    "byte counts. Unspecified decoder inputs are only checked for no panic, valid UTF-8 and termination. Strings of 41-200 code points get a Go-side round trip only.",
    "TLA+ reference operators + transformer state machine, TLC bounded-exhaustive check; exhaustive vector replay under buffer schedules; trace re-evaluation",
    "DESIGN.md 3 (C16)", "tlc+harness/cmd/utf7")

chk("C19", "model_checking",
    "TLC model-checks the reference conjunction AndRef of SearchAlg.tla (intersection law, commutation, key folding under every permutation, universe distinguishes "
    "every bound). Every enumerated criteria pair goes through the real SearchCriteria.And and every sequence of <=2 (quick) / <=3 (thorough) keys of a 25-key catalogue "
    "goes as a raw SEARCH line through a real imapserver connection; the recorded struct is judged by TLC (SearchAlgTrace) on every message of a universe with a "
    "message on each side of every bound. Random criteria trees (depth <=3) and key lists (<=8) are recorded and judged the same way.",
    "Oracle is entirely in TLA+; the harness only builds, calls and records. Bounded-exhaustive over the stated catalogues and random beyond them. ModSeq, "
    "CHARSET and dynamic '*' sets are excluded; '$' (the saved search result) is a UID set value of the specification. Operands are built in five time zones at any hour: the calendar date in the value's own location is what the "
    "specification's day numbers stand for.",
    "TLA+ reference operators + TLC-enumerated vectors through the real code; recorded-result validation by TLC",
    "DESIGN.md 3 (C19)", "tlc+harness/cmd/searchalg")

chk("C20", "model_checking",
    "ListMatch.tla defines reference resolution and the textbook recursive wildcard matcher over code-point sequences; TLC model-checks sanity lemmas on it over the "
    "bounded space. TLC enumerates every name <=3/4 over {a,b,/}, pattern <=3/4 over {a,b,/,*,%}, 6 references with and without trailing delimiter, delimiter '/' or none "
    "(74,880 / 1,134,012 vectors) with the expected answer and the real imapserver.MatchList is run on each. Random vectors of length <=12 (delimiters '/', '.', none, "
    "non-ASCII; regexp metacharacters; non-ASCII characters) are recorded with the real result and re-evaluated one by one by ListMatchTrace.",
    "Trusts TLC and the small-scope hypothesis between the exhaustive bounds and the random lengths. An absolute pattern with an empty reference accepts two readings; "
    "references containing '*' or '%' are outside the explored space; reference resolution is the rule documented by TestMatchList.",
    "TLA+ reference operators + TLC lemma check; exhaustive bounded vector generation replayed into real code; TLC re-evaluation of recorded random vectors",
    "DESIGN.md 3 (C20)", "tlc+harness/cmd/listmatch")

chk("C06", "model_checking",
    "ServerLife.tla (connection life cycle with explicit reader modes line / literal / SASL / IDLE, disconnect enabled everywhere, resource guards "
    "LitMax and AppendMax) is model-checked for exactly-once Session.Close and, under fairness, for complete cleanup after a disconnect. 9 valid "
    "multi-command transcripts (two of them for a LITERAL+ server: non-synchronising literals at and over 4096 octets in every buffered position, an APPEND over the limit) are cut at every byte offset (clean close, close after the server went quiet, reset) and token-level mutations, deep "
    "nesting and garbage are sent to a real server; the ordered life-cycle events of every connection (NewSession, every backend call with the size of what "
    "was buffered, IDLE goroutine start/stop, Session.Close, connection close) are recorded and ServerLifeTrace judges each trace, which must end clean. "
    "Server-log panics, leftover goroutines and connections that never end are reported directly.",
    "Go's runtime is the oracle for panics; 'spin'/'never ends' is a 3 s bound; goroutine leak = imapserver.(*Conn) frames alive 2 s after the batch; "
    "100 MiB payloads are only announced; memory safety and super-linear time are not decided by TLC (coarse run-time monitors only).",
    "TLA+ life-cycle spec + TLC (safety and liveness); crash-point enumeration at every byte offset; trace validation of recorded life cycles; fuzz monitors",
    "DESIGN.md 3 (C06)", "tlc+harness/cmd/life")

chk("C12", "model_checking",
    "Client.tla is the meaning of the transcript: from the greeting (OK / PREAUTH), the commands submitted and the lines a protocol-conformant server has sent (pipelines of RFC 9051 5.5, "
    "out-of-order tagged completions OK/NO/BAD with COPYUID/APPENDUID codes, untagged data, continuation request and DONE of IDLE, unsolicited EXISTS/EXPUNGE/FLAGS/PERMANENTFLAGS/FETCH/"
    "METADATA/CLOSED/BYE anywhere) it computes the connection state, the selected-mailbox summary, which command is complete with which status and which data each was given, for the "
    "whole command set of the client (30 kinds: fetch class incl. STORE and UID FETCH matched by UID, expunge and list classes, LIST-STATUS, SEARCH/ESEARCH/SORT/THREAD, CAPABILITY, "
    "ENABLE, NAMESPACE, quota, metadata, COPY/MOVE/APPEND, IDLE, CLOSE, UNAUTHENTICATE, SELECT data incl. UIDNEXT/UIDVALIDITY/LIST); TLC checks exactly-once "
    "completion, isolation of NO/BAD, data only to a command of the right kind and name, IDLE alone on the connection, and the state diagram on eight bounded instances. One behaviour per "
    "transition of every instance (the view keeps the pending positions and the completions each pending command has witnessed) plus EVERY behaviour of a pipeline alphabet to depth 6/7 "
    "is replayed against a real imapclient.Client facing a scripted server; after every line (NOOP barrier; handler events while an IDLE runs) State(), Mailbox(), the unilateral handler, "
    "completion statuses and delivered data are compared. Long random sessions are validated by ClientTrace; the thorough tier adds simulation-mode behaviours of larger instances.",
    "Trusts TLC and the NOOP barrier (the client's reader is sequential); the mailbox summary is compared only while no SELECT is in progress; the capability mirror (Caps()) is not "
    "judged; the MOVE fallback (COPY+STORE+EXPUNGE) is not exercised; refusal of a literal is covered by C18.",
    "TLA+ spec + TLC exhaustive check; transition-coverage replay against the real client; trace validation of random sessions",
    "DESIGN.md 3 (C12)", "tlc+harness/cmd/client")

chk("C18", "model_checking",
    "ClientLit.tla specifies which representation of a string / literal argument is legal for what the server advertised (quoted: no CR/LF/NUL, 8-bit only with "
    "IMAP4rev2 or UTF8=ACCEPT enabled; {n+}: LITERAL+ or LITERAL-/rev2 up to 4096; {n}: always) and the synchronising-literal handshake (payload only after the "
    "continuation request, never after a tagged refusal, a refusal is local and the connection stays usable); TLC checks the handshake machine. Every case of "
    "configuration x command x argument class x server reaction (1140 + APPEND literals written with several Write calls) plus random configurations/bytes/lengths around 4096 is executed with a real client against a "
    "scripted server that records each argument token's representation and the real order of events (the continuation request is held back for a grace period); "
    "ClientLitTrace judges every record.",
    "'No payload before +' is observed with a 25 ms grace period: a violation can be missed on a very slow machine, never falsely reported. Only representation and ordering "
    "are judged here; argument fidelity is C02.",
    "TLA+ spec + TLC; exhaustive case enumeration executed against the real client; trace validation of recorded token streams and handshake events",
    "DESIGN.md 3 (C18)", "tlc+harness/cmd/clientlit")

chk("C17", "model_checking",
    "StartTLS.tla (extending ServerConn) models one direction of a connection as socket bytes, buffered bytes and the layer switch, for every segmentation of "
    "STARTTLS-line + plaintext suffix, and is model-checked over all catalogue inputs, segmentations and the InsecureAuth x TLSConfig configurations (a deliberately "
    "faulty design variant must violate NoParseAfterSwitch, which guards against vacuity). Every generated (stream, segmentation) case is re-enacted against the real "
    "imapserver and imapclient.NewStartTLS with real TLS handshakes; randomised byte-level segmentations from a larger catalogue are recorded event by event and "
    "trace-validated against the same actions.",
    "Bounded: <=4 lines per stream, <=4 writes at 4 cut points per line in generated cases; random cases use arbitrary byte cuts; connections start in plaintext (implicit "
    "TLS is C05). Plaintext behind the switch must not be interpreted; whether the handshake then fails is unconstrained.",
    "TLA+ spec + TLC; spec-generated conformance cases with real TLS; trace validation with silent steps",
    "DESIGN.md 3 (C17)", "tlc+harness/cmd/starttls")

chk("C03", "model_checking",
    "RespSpace.tla / RespSpaceNorm.tla catalogue every structure a backend can hand to the imapserver writers under both configurations (IMAP4rev2 enabled or not) and define "
    "Norm, the representation changes the protocol itself imposes (17 clauses, each cited). TLC checks Norm idempotent and the catalogue inside the writers' contract and "
    "prints every case with exp = Norm(data); a real imapclient issues each request against a real imapserver over an in-memory connection while a stub Session writes "
    "the data through the real writer API, and the delivered values (literals read fully, byte for byte, in wire order) are compared with exp. Random deeper structures "
    "go through the same pipe and RespSpaceTrace applies Norm to both sides of every recorded (supplied, delivered) pair.",
    "The Go side holds a port of Norm used only on the delivered side in the generated direction; it is checked against TLC's exp on every case, and TLC alone judges "
    "recorded cases. Strings are opaque identities (text, or length + fingerprint); numbers above 2^31-1 are symbolic points. CONDSTORE items and UTF8=ACCEPT as a third "
    "configuration are excluded.",
    "TLA+ value-space spec + TLC; bounded-exhaustive pairwise catalogue enumeration through real client and server; trace validation of random structures",
    "DESIGN.md 3 (C03)", "tlc+harness/cmd/respspace")

chk("C02", "model_checking",
    "CmdSpace.tla is the written-down value space of every command the client can issue and the server implements (LOGIN, CREATE, DELETE, RENAME, SUBSCRIBE, LIST with "
    "select/return options, STATUS, APPEND, SELECT/EXAMINE, UNSELECT/CLOSE, FETCH, STORE, SEARCH with RETURN options, COPY, MOVE, EXPUNGE, ENABLE, NAMESPACE, IDLE, UID forms) on "
    "a configuration state machine (rev1 / rev1+rev2 / LITERAL+, ENABLE UTF8=ACCEPT / IMAP4rev2: 8 reachable configurations) together with Norm, the semantic normal form "
    "(every clause cites the RFC or doc sentence). TLC checks Norm/catalogue consistency and enumerates every command instance (7.6k quick, 24.7k thorough); each is issued "
    "through a real imapclient.Client to a real imapserver whose stub session records what it received; TLC judges each recorded observation, and 800/12000 random larger ones, "
    "with Norm(received) = Exp(cfg, sent).",
    "The state machine is thin (configuration only); the substance is the explicit value space and Norm. Byte coverage is by class representatives plus random strings. The "
    "harness has no oracle (binding shown by corrupted observations being rejected). Commands outside the server's feature set (SORT, THREAD, METADATA, QUOTA, CONDSTORE, SPECIAL-USE options) are excluded by the property's quantifier.",
    "TLA+ value-space + normal-form spec on a configuration machine; TLC enumeration through real client and server; TLC judges recorded observations",
    "DESIGN.md 3 (C02)", "tlc+harness/cmd/cmdspace")

chk("C01", "model_checking",
    "Wire.tla is a reference decoder for the IMAP value grammar (atom, quoted with escapes, {n}/{n+} literals, numbers, flags, mailbox = astring + modified UTF-7 + INBOX, "
    "number sets via NumSet.tla, lists with depth) plus, per encoder mode (side x QuotedUTF8 x LITERAL- x LITERAL+), LegalRep/Reps/Canon/MustRefuse; TLC checks on the bounded "
    "space that every conforming representation reference-decodes to the canonical value consuming exactly its bytes. Every value of the space (strings to length 2/3 over 19 "
    "class representatives, 4095/4096/4097 length classes, names, flags, numbers, sets, trees to depth 3, nestings 999/1000/1001) is run through go-imap's real Encoder in all 16 "
    "modes and the peer's real decoding functions; WireTrace judges bytes, refusals, decoded value and unread bytes, and every representation TLC lists (including ones the "
    "encoder never chooses) is fed to the real Decoder, each followed by two different continuations of the stream (a plain atom; a quoted string with an escaped quote, a literal "
    "look-alike and a parenthesis). Random values beyond the bounds are recorded and re-evaluated by TLC.",
    "Trusts TLC, the overlay shim (pure re-export) and the harness's value<->Go-type mapping (symbolic points for 2^32-3..2^32-1, long strings as length classes). "
    "Canonicalisations compared modulo (both sides canonicalised). Continuation requests are pre-satisfied (the handshake is C18). Byte coverage beyond class representatives only "
    "through the random direction.",
    "TLA+ reference decoder + per-mode legality predicates, TLC bounded-exhaustive self-check; exhaustive encoder/decoder replay in 16 modes; trace re-evaluation",
    "DESIGN.md 3 (C01)", "tlc+harness/cmd/wire")

chk("C13", "model_checking",
    "ClientConc.tla models imapclient's concurrency design at critical-section granularity (submitters from beginCommand to Wait, the reader, closeWithError run by the "
    "reader or by a submitter whose write failed, encMutex, the client mutex, delivery of streamed data) and TLC checks: no race on pendingCmds, at most one completion, "
    "nobody blocked forever, every maximal behaviour ends with every Wait returned; the as-found design (register before initialise) and the streaming design (submitter "
    "completes a command the reader is handing data to), a literal-bearing submitter keeping encMutex after a refusal, and a reader that leaves a command pending between reading the "
    "tag of its tagged response and completing it must fail their invariants on every run (vacuity guards / design-level evidence of the findings). Every maximal "
    "behaviour (2 submitters: all 2270 + 6128 with streamed data; 3 submitters: sampled in thorough) is re-enacted on a real client with the verif hooks as gates (the reader is parked mid-response, whole line buffered, through the client's DebugWriter), built with "
    "-race; free-running stress runs (connection loss, Close, Caps/State/Mailbox readers) record the hook log, which ClientConcTrace validates.",
    "Data-race freedom is ultimately decided by the Go race detector on the TLC-enumerated schedules and stress runs; TLA+ supplies the schedules at hook granularity (7 hook "
    "points). Races inside one critical section or in library code are outside the model. One design-level defect (a submitter's closeWithError vs the reader's send) is a "
    "recorded known finding.",
    "TLA+ concurrency spec + TLC; exhaustive schedule re-enactment through blocking hooks under the race detector; trace validation of stress hook logs",
    "DESIGN.md 3 (C13)", "tlc+harness/cmd/clientconc")

chk("C10", "model_checking",
    "ClientFault.tla specifies the blocking calls of a client session under faults (EOF, read error, failing writes, stall followed by the client's own timeout or by "
    "Close): success only with the tagged completion fully delivered (safety) and, under fairness, every issued call returns, Close returns and the reader exits "
    "(liveness) - model-checked by TLC. Six session scripts covering every kind of blocking call (Wait; streaming Collect with body literals; STORE/EXPUNGE streams; "
    "APPEND with continuation request; AUTHENTICATE exchange; IDLE; three pipelined commands answered out of order; LOGOUT; unsolicited / repeated / UID-late FETCH data with literals "
    "and no handler; Next with partly read literals and early Close, two streaming commands in flight; CAPABILITY, ENABLE, NAMESPACE, LIST-STATUS, quota, metadata, SORT, THREAD, "
    "ESEARCH, MOVE, UID EXPUNGE, UNSELECT) are run against a scripted server whose reply "
    "stream is cut at every byte offset with each fault (quick: every 3rd offset plus all completion boundaries), with deadlines in virtual time; ClientFaultTrace judges every run; a script that does not terminate without any fault is a verdict too.",
    "Deadlines are virtual (once the connection has stalled and the client is at rest the clock jumps past every timeout: a read blocked with a deadline armed fails); where the client has none the caller closes 40 ms later; 'does not return' = 4 s; STARTTLS transcripts are "
    "not in the corpus. One benign deviation (success once the CR of the tagged line is read) is a recorded known finding.",
    "TLA+ spec + TLC (safety and liveness); fault injection at every byte offset of scripted sessions; trace validation of recorded runs",
    "DESIGN.md 3 (C10)", "tlc+harness/cmd/clientfault")

chk("C11", "model_checking",
    "RespFuzz.tla specifies the response grammar as 202 token productions over 30 contexts with slot classes (boundary numbers 0, 2^32-1, 2^32, 2^63-1, 2^63, 20 digits; nesting "
    "generators '('^d up to 10^5/10^6) and classifies every line MustDeliver / MustError / Either; TLC checks that the classification is total and disjoint, that every kind is "
    "covered, and enumerates the mutation space (drop / duplicate / swap / replace / truncate, single and double). Each line is run against a fresh real imapclient.Client by a "
    "scripted server in sharded child processes (64 MiB stack, time and RSS limits) with every accessor of every returned value invoked; MustError lines must yield an error "
    "and deliver nothing. Resource families (growing nesting, numbers, literals, ranges, and literal headers that ANNOUNCE 2^12..2^28 octets which never arrive) are regressed against the "
    "input size. Recorded random token lines are re-classified and judged by RespFuzzTrace; raw random bytes are monitored.",
    "The panic, unbounded-recursion and time/memory clauses are exploration-level: observed on real code under limits; the resource rules are coarse (64x growth for 4x input, "
    "128x allocation for 16x input) and cannot prove linearity. For mutated input the spec is a generator and classifier, not a behavioural model. A conformant line that is "
    "refused is only noted (delivery is C03's matter).",
    "TLA+ grammar/classifier spec + TLC enumeration of the mutation space; process-isolated execution against the real client; trace-judged random lines",
    "DESIGN.md 3 (C11)", "tlc+harness/cmd/respfuzz")

chk("C08", "model_checking",
    "MemViews.tla (one user, mailboxes A/B, per-session announced view and pending-update queue, 14 IMAP commands in UID and non-UID form with n, n:m, n:*, *, exact "
    "flush points, IDLE) is model-checked for the five C08 clauses over the predicted response streams on an all-command instance and on 6 (quick) / 8 (thorough) "
    "command-family instances (2 sessions, 3 in one family, <=3 messages). Every transition of each family graph (62k quick / 612k thorough behaviours) is replayed "
    "against a real imapserver+imapmemserver, one raw connection per session read with the harness's own tokenizer, compared after every step and audited with UID "
    "FETCH 1:* after every NOOP. Seeded random histories (1..4 sessions, 200 commands, stale views forced) are judged record by record by MemViewsTrace with the five "
    "clauses as invariants of the trace cfg.",
    "Trusts TLC, the vh tokenizer and the small-scope hypothesis beyond 2-3 sessions / 3 messages (traces go to 4 sessions). Commands are issued one at a time. IDLE "
    "delivery timing is latitude (a late wake-up is tolerated until DONE). Which messages '*' selects and the completion of an empty COPY/MOVE are latitude, not verdicts.",
    "TLA+ spec + TLC exhaustive check (action properties, VIEW); transition-coverage replay into the real server; trace validation with a non-stopping judge",
    "DESIGN.md 3 (C08)", "tlc+harness/cmd/memviews")

chk("C14", "model_checking",
    "Lock templates of every command kind are mined from the working tree through a generated go-build-overlay instrumentation of every Mutex operation in imapserver and "
    "imapmemserver (78 sites). Locks.tla runs any mined command on 2-3 (thorough 4) sessions over up to 3 shared mailboxes; TLC explores every interleaving and prints every "
    "stuck state; each stuck signature is re-enacted on the real server through lock gates and counts only if the commands really never complete with the goroutines confirmed in "
    "sync.(*Mutex).Lock at the predicted sites. Random 2-8-session stress histories are validated by LocksTrace (mutual exclusion, nothing held across commands, every acquisition "
    "context covered by the mined lock-order edges). IdleNotify.tla specifies the wake-up channel of an idling session (producer holding the mailbox lock for a burst of "
    "changes, consumer, client that reads / stops reading / ends its IDLE / drops; the blocking-send variant must get stuck); every scenario (client behaviour x burst size below / at / "
    "above / far above the channel capacity) is run on the real server with the in-memory backend and judged by IdleNotifyTrace.",
    "Deadlock freedom is decided by TLC on mined templates after sound reductions (cross-checked against the unreduced 2-session model in thorough). Data-race freedom is NOT decided "
    "by TLC: it is decided by the Go race detector on the re-enacted and stress schedules; races between accesses the drivers never overlap are not found. Of the waits that are not mutexes only the idle wake-up channel is "
    "modelled (IdleNotify); socket writes to a client that never reads are bounded by the server's write timeout, not by the model.",
    "TLA+ lock-template spec + TLC bounded exhaustive interleaving; schedule re-enactment through lock gates; trace validation; race-detector stress",
    "DESIGN.md 3 (C14)", "tlc+harness/cmd/locks")

chk("C09", "model_checking",
    "MemModel.tla is a reference mailbox model giving the normalised result of every command (CREATE / DELETE / RENAME / SUBSCRIBE / LIST / LSUB / STATUS / APPEND / SELECT / EXAMINE / "
    "STORE / COPY / MOVE / EXPUNGE / SEARCH with flags, sets, sizes, dates, headers, text, NOT/OR depth 2 / FETCH with sections and partial ranges up to 2^63-1). TLC model-checks UID "
    "monotonicity and non-reuse, UIDVALIDITY freshness, APPENDUID/COPYUID exactness, STORE/EXPUNGE/MOVE exactness and totality on bounded instances. Every transition of those instances, "
    "5,040 query vectors and seeded random walks are replayed against a real imapserver+imapmemserver over raw IMAP; random two-connection histories recorded from the server are re-judged "
    "step by step by MemModelTrace.",
    "Body, section and search truth comes from tables generated from five real RFC 5322 texts (own MIME slicing, independent of go-message). A crash, drop or stall is a runtime observation no "
    "model result equals. Random walks and recorded histories are sampled. After a known-finding step the rest of that behaviour is not compared. Stale views are C08's area (NOOP-sync before audits).",
    "TLA+ reference model + TLC; bounded-exhaustive transition and query-vector replay on the real server; trace validation of recorded histories",
    "DESIGN.md 3 (C09)", "tlc+harness/cmd/memmodel")


# additions of later rounds (appended to the text of the level claimed)
EXTRA = {
 "C01": "The flag catalogue holds one keyword in three spellings decoded in one process (a keyword is delivered as written, whatever was decoded before); "
        "string catalogue values are followed by sentinels so that a decoder reading past its value is seen, and after every representation the same decoder "
        "is asked for the tokens that follow (a decoder left unusable is reported as poisoned); the mailbox catalogue has names of more than 128 octets of UTF-8; one Decoder of each side decodes several thousand conforming representations in "
        "a row (what it hands out for the n-th value must not depend on the values before).",
 "C02": "The value space includes keywords spelled like system flags without the backslash (Seen, deleted, RECENT) in search criteria and flag lists.",
 "C03": "The catalogue includes SEARCH results of 2500 and 1000+1501 numbers, LIST data crossed with the (reference, pattern) the command was issued with, "
        "and literal-carrying data in every position.",
 "C04": "Sessions with their own SASL mechanisms are a start configuration; unit AUTH-FINAL (a mechanism that ends with data for the client) must consume the "
        "client's answer; a server that stops answering after an authentication it accepted is reported as out-of-step. Units APPEND-fail / APPEND-panic: a backend "
        "that refuses or panics before it has read the literal it was handed (the octets still on the wire are message data); units TAG-lit / UID-lit: a literal "
        "where the command name should be (such a line may end the connection, nothing of the literal may be executed); the line that answers a continuation request is followed in the same write "
        "by a NOOP that must be answered.",
 "C05": "SessionSASL backends (PLAIN, XTEST) are a configuration; AUTHENTICATE with its credentials on the command line or after the continuation request, "
        "accepted, rejected or cancelled, is an action; Authenticate counts as a credential-bearing backend call. Quick replays the transitions of the 32 "
        "core configurations, thorough all of them. STARTTLS-GARBAGE: after the OK no handshake but octets that are no TLS record, then plaintext commands - the "
        "connection is over, nothing is executed.",
 "C06": "Transcripts include a LITERAL+ server with literals at and over the limits, credentials the backend rejects nine times in a row through LOGIN and both forms "
        "of AUTHENTICATE, SEARCH keys nested up to 20000 deep (NestMax: beyond the bound the backend is not reached); cut kinds include the peer vanishing "
        "altogether (gone), before the greeting (doa) and Server.Close; a third server upgrades its connections (STARTTLS, handshake, transcript inside TLS); when every "
        "connection of a run has ended the servers' registries of connections must be empty (accessor added to package imapserver with go build -overlay).",
 "C08": "Taking the pending updates and writing them are two steps of the model (held / STALL / RESUME: a NOOP from a client that has stopped reading blocks the "
        "server in its first write; other sessions' updates queue behind what has been taken): generator instances q_slow / t_slow / t_slow3 and stalls in the "
        "random driver. The model's mailbox A is INBOX on the wire and a third party renames INBOX away and back between commands (a no-op for every session).",
 "C09": "STORE flag lists naming a flag twice in different spellings are part of the command alphabet; the catalogue has seven messages (one without any header field, "
        "one multipart without any part); ENVELOPE, BODYSTRUCTURE and BODY ride along with RFC822.SIZE (they must be answered at all: no valid command crashes the connection).",
 "C10": "The client's own read deadline is part of the model: none between responses, armed inside a response and while a literal is consumed; SpecNoClose (a caller "
        "that never closes the client) satisfies StallInsideResponseTimesOut, and every recorded run carries mid (cut inside a response) and self (all calls returned "
        "before the caller's Close), judged by fault = stall /\\ inside => self. Scripts: mail, auth, idlepipe, unsol, stream (incl. a caller that takes its time "
        "between calls), conc (2 and 3 goroutines), ext (extension commands), authslow (AUTHENTICATE / APPEND / IDLE over a connection whose writes return late). After the first failure one more command is issued: it has to fail, "
        "and at once (IssueDead; End.dead in the trace).",
 "C13": "The stress driver also issues LOGIN answered without CAPABILITY code (the client's internal CAPABILITY command competes with the other goroutines) and "
        "APPEND; it selects, expunges and gets unilateral EXISTS / EXPUNGE / FLAGS while other goroutines read the snapshots Client.Mailbox() hands out; "
        "it authenticates (continuation request, response, completion), and one round in three runs over a connection whose writes return late; "
        "the hook log of a round is taken at quiescence.",
 "C14": "IdleNotify.tla specifies the wake-up protocol between a command holding the mailbox lock and an idling session (bounded channel, non-blocking send; the "
        "blocking variant is the vacuity guard) and is replayed for every (client behaviour x burst class) on the real server; its safety part (no stuck "
        "state, no lost wake-up) is also proved for every channel capacity and burst size by an inductive invariant discharged with Apalache "
        "(IdleNotifyInd.tla: base, step, implication, two non-vacuity guards). A stress stall explained by a "
        "logged server panic is reported as command-never-completes/server-panic.",
 "C15": "Every flavour (imapnum.Set, SeqSet, UIDSet; value, pointer) also starts from an empty literal and from make(T, 0); one random text in ten is a long "
        "list (28-51 elements, unsorted, with repetitions).",
 "C16": "Every encode vector and every long random round trip also goes through the real call sites (imapwire.Encoder.Mailbox -> wire text -> Decoder.ExpectMailbox); "
        "every third long string is made of runs of one class of character.",
 "C17": "Sessions with their own SASL mechanisms are among the configurations; AUTHENTICATE-X lines in front of and behind the STARTTLS line; on the client side "
        "capabilities announced in plaintext between the STARTTLS command and its OK, and on that OK itself (exchange line TOKC), are plaintext knowledge "
        "(ClientTrustsOnlyTLS); a continuation request written in plaintext in front of the completion (CONT) must not satisfy a command issued inside TLS (the harness "
        "issues IDLE after the upgrade); nothing a server writes before TLS is active may offer an authentication mechanism when InsecureAuth is off.",
 "C18": "Dimensions stale (capabilities invalidated by LOGIN and not yet re-announced advertise nothing), unauth (UNAUTHENTICATE undoes every ENABLE) and saslir "
        "(initial response on the command line only with SASL-IR or IMAP4rev2); APPEND written in split writes and with a mailbox name that is a literal of its own "
        "(AnnounceAgain: several synchronising literals in one command); 17 commands carrying caller-supplied strings.",
 "C19": "Operands are built in five time zones with clock times on both sides of midnight (date bounds compare by calendar date); '$' (saved search result) is a UID "
        "set value that must survive And; And leaves its operands alone and a result stays what it is when other criteria are derived from the same operands.",
 "C20": "Random vectors include spellings of 'inbox' as first hierarchy component of name and pattern (ordinary characters to the matcher).",
 "C11": "Bases include the short form of an encapsulated message (message/rfc822 with the basic fields only), alone and inside a multipart; every accessor of "
        "every delivered value is called inside recover; context enable2: ENABLE in a session that follows UNAUTHENTICATE.",
 "C07": "The replay stops once 2000 mismatches have been recorded (behaviours that wait for a missing response each wait 2 s); the spelling of the command that "
        "polls without EXPUNGE varies (FETCH / fetch / Fetch).",
 "C12": "Client.tla covers 37 command kinds (incl. SORT, THREAD, quota, metadata, NAMESPACE, ENABLE, MOVE, APPEND with synchronising literal, IDLE, AUTHENTICATE with "
        "its continuation request, DELETE / RENAME / SUBSCRIBE / UNSUBSCRIBE / SETQUOTA / SETMETADATA, LIST with a reference; SubmitDead: a command submitted after the connection has been lost completes at once with an error) and is instantiated "
        "nine times through Kinds/Greetings; the generator's view carries the completions witnessed per pending command, and the pipe instance enumerates every "
        "behaviour of a small pipeline alphabet to depth 6/7.",
}
for _k, _v in EXTRA.items():
    CHECKS[_k]["level_claimed"]["text"] += " Later rounds: " + _v
