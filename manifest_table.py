# table consumed by mkmanifest.py
NOTES = ("All checks: explicit TLA+ specification under /verif/spec, model-checked by TLC, and bound to the Go "
         "implementation both ways (TLC-generated behaviours replayed into the real code; traces recorded from the "
         "real code validated by TLC).  Harness module /verif/harness replaces go-imap by /repo, so every run rebuilds "
         "from the working tree.  Exit 2 = infrastructure problem, never a verdict.")
NA = {}
ENGINES = [
    dict(name="tlc", path="/usr/local/bin/tlc", serves_properties=[], kind_free_text="TLC 1.8.0 explicit-state model checker: design check, behaviour generator, trace judge"),
    dict(name="harness", path="/verif/harness", serves_properties=[], kind_free_text="Go conformance harnesses (stdlib only) driving the real go-imap code"),
]

chk("C07", "model_checking",
    "Tracker.tla is model-checked exhaustively (2 sessions, <=3 messages, increments <=2/3, queues <=2/3); every transition "
    "of the bounded graph is replayed against the real MailboxTracker/SessionTracker through a real imapserver.Conn, comparing "
    "wire output and the full DecodeSeqNum/EncodeSeqNum tables after every step; random longer histories (6 sessions, up to 24 "
    "messages, increments up to 6, IDLE) are recorded and validated line by line by TrackerTrace with the invariants evaluated on every observed state.",
    "Trusts TLC, the harness's own response tokenizer, and the small-scope hypothesis beyond the bounds; IDLE delivery is taken "
    "synchronously in the model (harness waits for it).",
    "TLA+ spec + TLC exhaustive check; transition-coverage replay into real code; trace validation of recorded histories",
    "DESIGN.md 3 (C07)", "tlc+harness/cmd/tracker")

chk("C05", "model_checking",
    "ServerConn.tla (RFC 9051 state machine, backend gating, auth gating, capability advertisement) is model-checked for all 128 "
    "configurations {TLS}x{InsecureAuth}x{PREAUTH}x{TLSConfig}x{MOVE,NAMESPACE,UNAUTHENTICATE}; every transition of its graph (38 commands x "
    "well-formed/malformed x every backend outcome) and every command sequence up to depth 2 (quick) / 3 (thorough) over command families "
    "is replayed on a real imapserver connection (real TLS where configured) with a scripted Session, comparing tagged class, BYE, continuation "
    "requests, the exact list of backend calls, the post-state (black-box probes) and advertised capabilities after every step; long random "
    "sequences are validated by ServerConnTrace with the gating invariants evaluated on every observed state.",
    "Trusts TLC, the harness tokenizer and probes (CAPABILITY/FETCH/STATUS) to observe the state; only OK vs not-OK of tagged responses is "
    "compared (the property does not fix NO vs BAD); SessionSASL backends are not modelled (PLAIN via Login only).",
    "TLA+ spec + TLC exhaustive check over the configuration product; transition-coverage and depth-bounded replay; trace validation",
    "DESIGN.md 3 (C05)", "tlc+harness/cmd/serverconn")
