#!/usr/bin/env python3
"""Regenerates MANIFEST.json from the table below (single source of truth for the interface)."""
import json, os, subprocess
V = os.path.dirname(os.path.abspath(__file__))
ALL = ["C%02d" % i for i in range(1, 21)]
CHECKS = {}

def chk(pid, category, text, note, technique, design_ref, engine):
    CHECKS[pid] = dict(
        property_id=pid,
        quick_cmd="./check %s quick" % pid,
        thorough_cmd="./check %s thorough" % pid,
        evidence_file="/verif/evidence/%s.json" % pid,
        replay_cmd_template="./check %s --replay {path}" % pid,
        engine=engine,
        level_claimed=dict(category=category, text=text, design_ref=design_ref),
        level_note=note,
        technique=technique,
    )

exec(open(os.path.join(V, "manifest_table.py")).read())

hooks_commits = [l.split()[0] for l in subprocess.run(
    ["git", "-C", "/repo", "log", "--format=%h %s"], capture_output=True, text=True).stdout.splitlines()
    if l.split(" ", 1)[1].startswith("verif hook")]

m = dict(
    version=1,
    setup_cmd="cd /verif/harness && cp /repo/go.sum . && GOFLAGS=-mod=mod GOPROXY=off GOSUMDB=off GOTOOLCHAIN=local go build ./vh && python3 -c 'import json;json.load(open(\"/verif/MANIFEST.json\"))'",
    hooks=dict(guard="verif", enable="go build -tags verif (harness module /verif/harness, replace github.com/emersion/go-imap/v2 => /repo)",
               baseline_off_cmd="cd /repo && go test -vet=off -count=1 ./...",
               source_commits=hooks_commits, add_only=True),
    engines=ENGINES,
    checks=[CHECKS[k] for k in sorted(CHECKS)],
    notes=NOTES,
    not_applicable=[dict(property_id=p, reason=NA.get(p, "check not built yet (work in progress; see DESIGN.md section 3)")) for p in ALL if p not in CHECKS],
)
json.dump(m, open(os.path.join(V, "MANIFEST.json"), "w"), indent=1)
print("MANIFEST.json: %d checks, %d not_applicable" % (len(m["checks"]), len(m["not_applicable"])))
