"""C04 — server command framing (spec/ServerFraming.tla).

1. TLC model-checks ServerFraming (continuation only when willing, payload only as argument,
   one completion per unit).
2. ServerFramingGen enumerates all unit sequences (depth 2 over all 117 units x 2 start states x
   LITERAL+ on/off; thorough adds depth 3 over the refusal core); the harness executes each against a
   real server playing the client side of the literal protocol mechanically and records the reaction;
   ServerFramingTrace judges every record (the spec is nondeterministic where RFC 7888 lets the
   server choose between consuming a refused non-synchronising literal and closing).
   Independently of the spec, any response to a tag that only occurs inside a payload / any backend
   call with the marker argument / a stall / malformed output is reported directly.
3. Random long unit streams with random write segmentation are recorded and judged the same way.
"""
import os
import vlib


def run(ctx):
    quick = ctx.tier == "quick"
    r = ctx.tlc_ok("ServerFraming", "ServerFraming_mc.cfg", timeout=600)
    binp = ctx.build("framing")
    total_records = 0
    for cfg in (["ServerFramingGen_d2.cfg"] if quick else ["ServerFramingGen_d2.cfg", "ServerFramingGen_d3.cfg"]):
        g = ctx.tlc("ServerFramingGen", cfg, timeout=1500, count=False, out_name="gen-" + cfg + ".out")
        if g.status != "ok":
            raise vlib.Infra("generator failed: %s\n%s" % (g.cmd, g.detail or g.tail))
        tr = os.path.join(ctx.scratch, "framing-" + cfg + ".ndjson")
        recs, _, _ = ctx.harness(binp, ["run", g.out_path, tr], timeout=2400)
        s = ctx.summary(recs)
        ctx.take_mismatches(recs)
        os.unlink(g.out_path)
        ok, at, rec, _ = ctx.validate_trace("ServerFramingTrace", "ServerFramingTrace.cfg", tr, timeout=1800)
        if ok:
            ctx.cov["traces_validated_against_impl"] += s["behaviours"]
            ctx.cov["evaluations"] += s["steps"]
            ctx.cov["distinct_nontrivial"] += s["nontrivial"]
            for smp in (s.get("samples") or [])[:2]:
                ctx.sample({"unit_sequence": smp})
            total_records += s["records"]
            last_ok = tr
        else:
            ctx.mismatch("trace-rejected", "ServerFramingTrace rejects the recorded reaction at record %s: %s" % (at, str(rec)[:1200]),
                         {"kind": "trace", "prefix": vlib.trace_prefix(tr, at)})
            last_ok = None
    ntr, steps = (300, 25) if quick else (3000, 40)
    ok, tr2, s3 = vlib.record_and_validate(ctx, binp, ["random", "-seed", ctx.seed, "-traces", ntr, "-steps", steps],
                                           "ServerFramingTrace", "ServerFramingTrace.cfg", name="framing-random.ndjson", timeout=1800)
    demo = "skipped"
    if ok:
        def mut(rec):
            rec["obs"]["cont"] = 1 - rec["obs"]["cont"]
        demo = vlib.corrupt_demo(ctx, tr2, "ServerFramingTrace", "ServerFramingTrace.cfg",
                                 lambda rec: rec.get("ev") == "Unit" and rec["u"]["form"] == "sync" and rec["obs"]["tagged"] == "OK", mut)
    ctx.assumptions += ["oversized literals are only announced (104857601), never sent in full",
                        "a stall is declared after 3 s without a tagged completion or continuation request on an open connection"]
    ctx.finish(rule="behaviour = (LITERAL+ on/off, start state, sequence of units (command x argument form x size class x payload)); "
               "non-trivial = the sequence contains a literal the server must refuse or a literal after a syntax error; "
               "every enumerated sequence is distinct",
               extra={"binding_demo": demo, "mc_states": r.distinct, "recorded_units": total_records,
                      "random_records": s3.get("records")})


def replay(ctx, path):
    import json
    data = json.load(open(path))
    rp = data.get("replay")
    if isinstance(rp, dict) and rp.get("kind") == "trace":
        return vlib.replay_generic(ctx, path, "framing", "ServerFramingTrace", "ServerFramingTrace.cfg")
    p = os.path.join(ctx.scratch, "case.json")
    json.dump(rp, open(p, "w"))
    binp = ctx.build("framing")
    tr = os.path.join(ctx.scratch, "one.ndjson")
    recs, _, _ = ctx.harness(binp, ["one", p, tr])
    for r in recs:
        if r.get("kind") == "mismatch":
            print("REPRODUCED sig=%s %s" % (r["sig"], r["detail"][:800]))
            return
    ok, at, rec, _ = ctx.validate_trace("ServerFramingTrace", "ServerFramingTrace.cfg", tr)
    print("not reproduced on the working tree" if ok else "REPRODUCED: trace rejected at %s: %s" % (at, rec))
