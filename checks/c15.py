"""C15 — number sets (spec/NumSet.tla).

1. TLC model-checks NumSet (design): after every AddNum / AddRange (all ordered endpoint pairs,
   '*' on either side) / AddSet over the symbolic domain (top points = 2^32-2, 2^32-1, a gap point
   in between) the transcribed insert/search/Merge yields a canonical list whose members are the
   union of the insertions, Contains agrees on every probe, Dynamic iff '*' was inserted, the
   text form is valid sequence-set text with the same members and parses back to an equal set.
2. spec -> impl: NumSetGen prints every transition of the (complete) bounded state graph with the
   predicted observation after every op; NumSetParseGen prints every token string up to a length
   bound with the reference parser's verdict and value.  The harness (cmd/numset) applies each op
   to a real imapnum.Set, imap.SeqSet and imap.UIDSet and compares range list, String(),
   Dynamic(), Contains(q) for every probe, ParseSet(String()) and Nums().  Nums() runs in a child
   process (2 s / 32 MiB) and only where the specification says the result has <= 16 elements;
   "did not return" is an observation the specification judges.  Anything that differs from the
   exact prediction in another way is recorded and handed to the judge (3), which applies only
   the clauses of the statement (e.g. "5:4294967295,*" and "5:*" are both canonical).
3. impl -> spec: random op sequences (28-point domain: 1..10, 100..102, 65535..65537,
   2^31-1..2^31+1, 2^32-5..2^32-1, '*') and random valid / edited / random texts are run through
   the real code and recorded; NumSetTrace re-evaluates every record and prints one BAD line per
   disagreement with a signature computed by the specification (it does not stop at the first).
4. binding demonstration: six recorded fields are corrupted, NumSetTrace must flag exactly those
   records with the expected signatures.
"""
import json, os, re, time
from concurrent.futures import ThreadPoolExecutor
import vlib

BRIDGE = os.path.join(vlib.VERIF, "harness", "cmd", "numset", "verifnum.go.txt")


def build(ctx):
    """cmd/numset needs the internal packages: a bridge package is injected with -overlay
    (nothing is written to the repository)."""
    ov = os.path.join(ctx.scratch, "numset-overlay.json")
    with open(ov, "w") as fh:
        json.dump({"Replace": {os.path.join(vlib.REPO, "verifnum", "verifnum.go"): BRIDGE}}, fh)
    return ctx.build("numset", tags="verif,verifnum", overlay=ov)


def bad_lines(out_path):
    out = []
    for line in open(out_path, errors="replace"):
        if line.startswith('<<"BAD", "') and line.rstrip().endswith('">>'):
            body = line.rstrip()[len('<<"BAD", "'):-3]
            try:
                out.append(json.loads(json.loads('"' + body + '"')))
            except ValueError:
                raise vlib.Infra("unparsable BAD line: %s" % line[:200])
    return out


def judge(ctx, path, what):
    """Run NumSetTrace on a recorded file.  Returns (bad, result); bad = list of
    {line, f, sig} computed by the specification."""
    ok, at, rec, r = ctx.validate_trace("NumSetTrace", "NumSetTrace.cfg", path, timeout=1500)
    bad = bad_lines(r.out_path)
    nrec = sum(1 for _ in open(path))
    if r.generated != nrec + 1:
        raise vlib.Infra("%s: NumSetTrace walked %d of %d records (stuck at record %s: %s)\n%s"
                         % (what, r.generated - 1, nrec, at, str(rec)[:400], r.tail[-1500:]))
    if ok and bad:
        raise vlib.Infra("%s: BAD lines but trace accepted" % what)
    if not ok and not bad:
        raise vlib.Infra("%s: trace rejected at %s without a BAD line\n%s" % (what, at, r.tail[-1500:]))
    harness_faults = [b for b in bad if b["sig"].startswith("harness/")]
    if harness_faults:
        raise vlib.Infra("%s: the harness produced an illegal record: %s" % (what, harness_faults[:3]))
    return bad, r


def history_of(lines, i):
    """records of the history record i (0-based) belongs to, with the Domain record in front"""
    rec = json.loads(lines[i])
    if rec.get("ev") == "Parse":
        return [json.loads(lines[0]), rec]
    j = i
    while j > 0 and '"ev":"Reset"' not in lines[j]:
        j -= 1
    return [json.loads(lines[0])] + [json.loads(x) for x in lines[j:i + 1]]


def describe(rec, b):
    if rec.get("ev") == "Parse":
        res = [p for p in rec["res"] if p["f"] == b["f"]]
        return "%s on text %r (tokens %s): %s" % (b["f"], rec.get("text"), rec.get("toks"),
                                                  json.dumps(res[0] if res else rec["res"])[:300])
    obs = [o for o in rec.get("obs", []) if o["f"] == b["f"]]
    o = obs[0] if obs else {}
    arg = {k: rec[k] for k in ("vs", "x", "y", "t") if k in rec}
    return "%s after %s %s: set %r ranges(points)=%s nums=%s" % (
        b["f"], rec.get("ev"), arg, o.get("text"), o.get("ranges"), o.get("nums"))


def report_bad(ctx, path, bad, per_sig=3):
    """turn the judge's BAD lines into mismatches (a few per signature, all counted)"""
    lines = open(path).read().splitlines()
    seen = {}
    for b in bad:
        seen[b["sig"]] = seen.get(b["sig"], 0) + 1
        if seen[b["sig"]] > per_sig:
            # still counted as a hit of a known finding / as a violation, without a new replay file
            if any(k["sig"] == b["sig"] for k in ctx.known):
                ctx.mismatch(b["sig"], "", None)
            continue
        i = b["line"] - 1
        hist = history_of(lines, i)
        payload = None
        for h in hist:
            if isinstance(h, dict) and h.get("payload"):
                payload = h["payload"]
        replay = payload if payload else {"kind": "trace", "prefix": hist}
        ctx.mismatch(b["sig"], "judge NumSetTrace, record %d: %s" % (b["line"], describe(json.loads(lines[i]), b)),
                     replay)
    return seen


def completed_ok(out_path):
    txt = open(out_path, errors="replace").read()
    return "Model checking completed. No error has been found." in txt and "Error:" not in txt


def vacuity(out_path, module):
    bad = []
    for line in open(out_path, errors="replace"):
        m = re.match(r"<(\w+) line \d+, col \d+ to line \d+, col \d+ of module %s>: (\d+):(\d+)" % module, line)
        if m and m.group(3) == "0" and m.group(1) != "Init":
            bad.append(m.group(1))
    return bad


def run(ctx):
    quick = ctx.tier == "quick"
    phases = {}
    t = [time.time()]

    def lap(name):
        phases[name] = round(time.time() - t[0], 1)
        t[0] = time.time()

    ctx.specdir()
    tier = "quick" if quick else "thorough"
    # 1 + generators, concurrently (three independent TLC runs)
    with ThreadPoolExecutor(3) as ex:
        f_mc = ex.submit(ctx.tlc, "NumSet", "NumSet_mc.cfg" if quick else "NumSet_mc_thorough.cfg",
                         timeout=1500, coverage=not quick, count=False)
        f_gen = ex.submit(ctx.tlc, "NumSetGen", "NumSetGen_%s.cfg" % tier, timeout=1500, count=False)
        f_pgen = ex.submit(ctx.tlc, "NumSetParseGen", "NumSetParseGen_%s.cfg" % tier, timeout=1500, count=False)
        binp = build(ctx)
        mc, g, pg = f_mc.result(), f_gen.result(), f_pgen.result()
    if mc.status == "error" and completed_ok(mc.out_path):
        mc.status = "ok"      # the long -coverage listing pushes TLC's verdict line out of the parsed tail
    if mc.status != "ok":
        raise vlib.Infra("TLC %s on NumSet: %s\n%s" % (mc.status, mc.cmd, mc.detail or mc.tail))
    ctx.cov["states"] += mc.distinct
    ctx.cov["transitions"] += mc.generated
    ctx.cov["checker_cmd"] = mc.cmd
    if not quick:
        vac = vacuity(mc.out_path, "NumSet")
        if vac:
            raise vlib.Infra("vacuous actions in NumSet model: %s" % vac)
    for r in (g, pg):
        if r.status != "ok":
            raise vlib.Infra("generator failed: %s\n%s" % (r.cmd, r.detail or r.tail))
    # ParseGen also checks ParserAgrees (reference parser = transcribed ParseSet) on every text
    ctx.cov["states"] += pg.distinct
    ctx.cov["transitions"] += pg.generated
    lap("tlc_mc_and_generators")

    # 2a. replay every transition
    side = os.path.join(ctx.scratch, "side-ops.ndjson")
    recs, _, _ = ctx.harness(binp, ["replay", g.out_path, side, "-wrapof", 4 if quick else 2], timeout=1500)
    s = ctx.summary(recs)
    ctx.take_mismatches(recs)
    for sig, n in (s.get("per_sig") or {}).items():
        # the harness prints a few mismatches per signature; account for the rest of a known finding
        for _ in range(max(0, n - 4)):
            if any(k["sig"] == sig for k in ctx.known):
                ctx.mismatch(sig, "", None)
    if s["behaviours"] != g.generated - 1 or s["behaviours"] == 0:
        raise vlib.Infra("replayed %d behaviours, TLC generated %d transitions" % (s["behaviours"], g.generated - 1))
    latitude = 0
    if s["divergent"]:
        bad, _ = judge(ctx, side, "divergent behaviours")
        report_bad(ctx, side, bad)
        latitude += s["divergent_recorded"] - len({b["line"] for b in bad})
    ctx.cov["traces_validated_against_impl"] += s["behaviours"]
    ctx.cov["evaluations"] += s["steps"]
    ctx.cov["distinct_nontrivial"] += s["nontrivial"]
    for smp in s.get("samples") or []:
        ctx.sample({"replayed_behaviour": smp})
    lap("replay_ops")

    # 2b. parse vectors
    side2 = os.path.join(ctx.scratch, "side-parse.ndjson")
    recs, _, _ = ctx.harness(binp, ["replay", pg.out_path, side2], timeout=1500)
    s2 = ctx.summary(recs)
    ctx.take_mismatches(recs)
    if s2["vectors"] == 0 or s2["vectors"] != vlib.count_lines(pg.out_path, '<<"T"') or s2["valid_vectors"] == 0:
        raise vlib.Infra("parse vectors: replayed %d (valid %d)" % (s2["vectors"], s2["valid_vectors"]))
    if s2["divergent"]:
        bad, _ = judge(ctx, side2, "divergent parse vectors")
        report_bad(ctx, side2, bad)
        latitude += s2["divergent_recorded"] - len({b["line"] for b in bad})
    ctx.cov["traces_validated_against_impl"] += s2["vectors"]
    ctx.cov["evaluations"] += s2["vectors"] * 4
    ctx.cov["distinct_nontrivial"] += s2["valid_vectors"]
    for smp in (s2.get("samples") or [])[:1]:
        ctx.sample({"parse_vector": smp})
    lap("replay_parse")

    # 3. impl -> spec
    tr = os.path.join(ctx.scratch, "numset.ndjson")
    ntr, steps, texts, numsof = (150, 50, 4000, 8) if quick else (500, 50, 20000, 4)
    recs, _, _ = ctx.harness(binp, ["random", tr, "-seed", ctx.seed, "-traces", ntr, "-steps", steps,
                                    "-texts", texts, "-numsof", numsof, "-wrapof", 3], timeout=1500)
    s3 = ctx.summary(recs)
    lap("record_random")
    bad, tr_res = judge(ctx, tr, "recorded traces")
    seen = report_bad(ctx, tr, bad)
    ctx.cov["traces_validated_against_impl"] += s3["traces"] + s3["texts"]
    ctx.cov["evaluations"] += s3["records"]
    with open(tr) as fh:
        lines = [next(fh) for _ in range(4)]
    ctx.sample({"recorded_trace_prefix": [json.loads(x) for x in lines[2:4]]})
    for smp in (s3.get("samples") or [])[:1]:
        ctx.sample({"recorded_text": smp})
    lap("judge_random")

    # 4. binding demonstration
    demo = binding_demo(ctx, tr, {b["line"] for b in bad})
    lap("binding_demo")
    ctx.finish(rule="behaviour = history reaching one transition of the complete bounded NumSet graph (one per "
               "transition) or one token string; non-trivial = the last insertion merged with / was absorbed by "
               "existing ranges or has '*', 2^32-2 or 2^32-1 among its arguments; for texts: the valid ones",
               extra={"binding_demo": demo, "mc_states": mc.distinct, "mc_transitions": mc.generated,
                      "gen_transitions": g.generated - 1, "parse_vectors": s2["vectors"],
                      "valid_parse_vectors": s2["valid_vectors"], "trace_records": s3["records"],
                      "random_traces": s3["traces"], "random_texts": s3["texts"],
                      "random_texts_accepted_by_code": s3["texts_accepted"],
                      "nums_children": s["nums_children"] + s3["nums_children"],
                      "nums_children_without_result": s["nums_children_without_result"] + s3["nums_children_without_result"],
                      "alt_canonical_hits": s["alt_canonical_hits"], "within_latitude": latitude,
                      "judge_findings_by_sig": seen, "phases_s": phases})


def binding_demo(ctx, tr, already_bad):
    """corrupt six recorded fields in a copy of (a prefix of) the trace; the judge must flag
    exactly those records with the expected signatures"""
    lines = open(tr).read().splitlines()
    ops = [i for i, x in enumerate(lines) if '"obs"' in x][:600]
    parses = [i for i, x in enumerate(lines) if '"ev":"Parse"' in x][:200]
    keep = [0] + [i for i in range(1, (ops[-1] if ops else 0) + 1)] + parses
    index = {orig: k for k, orig in enumerate(keep)}
    out = [lines[i] for i in keep]
    want = {}   # new line number (1-based) -> (description, set of acceptable sigs)

    def pick(pred, cands):
        for i in cands:
            if (i + 1) in already_bad or (index[i] + 1) in want:
                continue
            rec = json.loads(lines[i])
            if pred(rec):
                return i, rec
        return None, None

    def put(i, rec, desc, sigs):
        out[index[i]] = json.dumps(rec)
        want[index[i] + 1] = (desc, sigs)

    i, rec = pick(lambda r: len(r["obs"][0]["ranges"]) >= 2, ops)
    if rec:
        rec["obs"][0]["ranges"] = rec["obs"][0]["ranges"][1:]
        put(i, rec, "first range dropped from the recorded list", {"ranges/members"})
    i, rec = pick(lambda r: True, ops)
    if rec:
        rec["obs"][0]["dyn"] = not rec["obs"][0]["dyn"]
        put(i, rec, "Dynamic() flipped", {"dynamic"})
    i, rec = pick(lambda r: True, ops)
    if rec:
        rec["obs"][0]["con"][0] = 1 - min(1, rec["obs"][0]["con"][0])
        put(i, rec, "Contains(1) flipped", {"contains"})
    i, rec = pick(lambda r: len(r["obs"][0]["str"]) >= 3, ops)
    if rec:
        rec["obs"][0]["str"] = rec["obs"][0]["str"][:-2]
        put(i, rec, "last two tokens of String() removed", {"string/not-same-members"})
    i, rec = pick(lambda r: r["obs"][0]["nums"]["returned"] and len(r["obs"][0]["nums"]["vals"]) >= 2, ops)
    if rec:
        v = rec["obs"][0]["nums"]["vals"]
        v[0], v[1] = v[1], v[0]
        put(i, rec, "first two numbers of Nums() swapped", {"nums-wrong"})
    i, rec = pick(lambda r: r["res"][0]["ok"], parses)
    if rec:
        rec["res"][0]["ok"] = False
        put(i, rec, "parser verdict on a valid text flipped", {"parse/rejects-valid"})
    if len(want) < 4:
        raise vlib.Infra("binding demonstration: only %d suitable records" % len(want))
    p = os.path.join(ctx.scratch, "corrupt.ndjson")
    open(p, "w").write("\n".join(out) + "\n")
    bad, _ = judge(ctx, p, "binding demonstration")
    got = {}
    for b in bad:
        got.setdefault(b["line"], set()).add(b["sig"])
    # records that were already flagged in the original keep their line only inside the prefix
    orig_bad = {index[i - 1] + 1 for i in already_bad if (i - 1) in index}
    for ln, (desc, sigs) in want.items():
        if not (got.get(ln, set()) & sigs):
            raise vlib.Infra("binding demonstration failed: %s in record %d not flagged (%s)" % (desc, ln, got.get(ln)))
    extra = set(got) - set(want) - orig_bad
    if extra:
        raise vlib.Infra("binding demonstration: judge flagged uncorrupted records %s" % sorted(extra)[:5])
    return "; ".join("record %d: %s -> %s" % (ln, d, "/".join(sorted(got[ln] & s))) for ln, (d, s) in sorted(want.items()))


def replay(ctx, path):
    data = json.load(open(path))
    rp = data.get("replay")
    binp = build(ctx)
    if isinstance(rp, dict) and rp.get("kind") == "trace":
        src = os.path.join(ctx.scratch, "replay-in.ndjson")
        with open(src, "w") as fh:
            for rec in rp["prefix"]:
                fh.write(json.dumps(rec) + "\n")
        dst = os.path.join(ctx.scratch, "replay-out.ndjson")
        recs, _, _ = ctx.harness(binp, ["rerun", src, dst])
        ctx.summary(recs)
        bad, _ = judge(ctx, dst, "re-executed trace")
        show(bad, dst)
        return
    p = os.path.join(ctx.scratch, "payload.json")
    json.dump(rp, open(p, "w"))
    side = os.path.join(ctx.scratch, "side-one.ndjson")
    recs, _, _ = ctx.harness(binp, ["one", p, side])
    s = ctx.summary(recs)
    hit = False
    for r in recs:
        if r.get("kind") == "mismatch":
            print("REPRODUCED sig=%s %s" % (r["sig"], r["detail"]))
            hit = True
    if s["divergent"]:
        bad, _ = judge(ctx, side, "divergent case")
        hit = show(bad, side) or hit
    if not hit:
        print("not reproduced on the working tree")


def show(bad, path):
    lines = open(path).read().splitlines()
    for b in bad:
        print("REPRODUCED sig=%s judge NumSetTrace, record %d: %s" % (
            b["sig"], b["line"], describe(json.loads(lines[b["line"] - 1]), b)))
    if not bad:
        print("not reproduced on the working tree")
    return bool(bad)
