"""C19 — SearchCriteria.And is intersection; multi-key SEARCH is order-independent (spec/SearchAlg.tla).

1. TLC model-checks the reference of SearchAlg: Match(AndRef(a,b),m) <=> Match(a,m) /\\ Match(b,m)
   over the bounded space of criteria pairs and messages, AndRef commutes in meaning, folding
   single-key criteria with AndRef is the conjunction of the keys under every permutation, and the
   message universe has a message on each side of every constraint.
2. SearchAlgGen prints every criteria pair (all value pairs of every single field, unset vs set in
   both orders, crossed with background criteria; thorough: plus all pairs of a mixed catalogue)
   and every key sequence (all multisets of <= 2 / 3 keys of a 25-key catalogue in every order).
   The harness builds the real imap.SearchCriteria values and calls the real And, resp. sends the
   real `SEARCH ...` line to an imapserver connection whose stub Session records the criteria it
   receives, and RECORDS the resulting struct field by field.  The harness has no matcher (it only checks that And leaves its operands alone and that a result is not aliased).
3. SearchAlgTrace (TLC) judges every record: Match(result, m) against Match(a,m) /\\ Match(b,m),
   resp. against the conjunction of the keys' meanings, for every message of the universe.
4. The same for random criteria trees (depth <= 3, larger values, times of day) and random key
   lists of up to 8 keys (nested NOT / OR / parenthesised lists).
"""
import json, os, time
import vlib

NCHUNKS = 64  # SearchAlgTrace!NChunks


def run(ctx):
    quick = ctx.tier == "quick"
    walls, t = {}, time.time()

    def lap(name):
        nonlocal t
        walls[name] = round(time.time() - t, 1)
        t = time.time()
    # 1. design-level model check of the reference
    r = ctx.tlc_ok("SearchAlg", "SearchAlg_mc.cfg" if quick else "SearchAlg_mc_thorough.cfg", timeout=900)
    lap("model_check")
    # 2. spec -> impl: every enumerated pair / key sequence through the real code
    g = ctx.tlc("SearchAlgGen", "SearchAlgGen_quick.cfg" if quick else "SearchAlgGen_thorough.cfg",
                timeout=900, count=False)
    if g.status != "ok":
        raise vlib.Infra("generator failed: %s\n%s" % (g.cmd, g.detail or g.tail))
    ncases = vlib.count_lines(g.out_path, '<<"T"')
    lap("generate")
    binp = ctx.build("searchalg")
    lap("go_build")
    rec = os.path.join(ctx.scratch, "searchalg-enum.ndjson")
    recs, _, _ = ctx.harness(binp, ["gen", g.out_path, rec], timeout=900)
    ctx.take_mismatches(recs)      # (operand modified / result aliased: what the harness itself looks at)
    s = ctx.summary(recs)
    if s["records"] != ncases or ncases == 0:
        raise vlib.Infra("generator printed %d cases, harness recorded %d" % (ncases, s["records"]))
    # 3. the same for random trees / key lists beyond the bounds
    rnd = os.path.join(ctx.scratch, "searchalg-random.ndjson")
    npairs, ncmds = (400, 400) if quick else (4000, 4000)
    recs, _, _ = ctx.harness(binp, ["random", rnd, "-seed", ctx.seed, "-pairs", npairs, "-cmds", ncmds], timeout=900)
    ctx.take_mismatches(recs)
    s2 = ctx.summary(recs)
    lap("real_code")
    # 4. impl -> spec: TLC judges every record (enumerated and random in one run)
    allp = os.path.join(ctx.scratch, "searchalg-all.ndjson")
    with open(allp, "w") as fh:
        fh.write(open(rec).read())
        fh.write(open(rnd).read())
    n, bad = judge(ctx, allp, "all")
    lap("judge")
    report(ctx, allp, bad)
    n1, n2 = s["records"], n - s["records"]
    bad1 = [d for d in bad if d["line"] <= n1]
    bad2 = [d for d in bad if d["line"] > n1]
    if n2 != s2["records"]:
        raise vlib.Infra("random mode recorded %d cases, file has %d" % (s2["records"], n2))

    accepted = n1 + n2 - len(bad1) - len(bad2)
    ctx.cov["traces_validated_against_impl"] += accepted
    ctx.cov["evaluations"] += n1 + n2
    ctx.cov["distinct_nontrivial"] += s["nontrivial"] + s2["nontrivial"]
    for smp in (s.get("samples") or [])[:3] + (s2.get("samples") or [])[:2]:
        ctx.sample({"recorded": smp})
    demo = binding_demo(ctx, rec, {d["line"] for d in bad1})
    lap("binding_demo")
    ctx.finish(rule="one case = one criteria pair run through the real SearchCriteria.And, or one SEARCH command "
               "sent to a real imapserver connection, recorded and judged by TLC on every message of the universe; "
               "non-trivial = both operands populate at least one field (pairs) / the command has at least two keys; "
               "enumerated cases are distinct by construction (one per generated state)",
               extra={"binding_demo": demo, "phase_wall_s": walls, "mc_states": r.distinct, "enumerated_pairs": s["pairs"],
                      "enumerated_commands": s["commands"], "random_pairs": s2["pairs"],
                      "random_commands": s2["commands"], "records_rejected": len(bad),
                      "rejected_enumerated": len(bad1), "rejected_random": len(bad2),
                      "records_accepted": accepted})


# ----------------------------------------------------------------- judging
def judge(ctx, path, name, timeout=1200):
    """TLC (SearchAlgTrace) judges every record of an ndjson file.
    Returns (number of records, list of diagnosis dicts of rejected records)."""
    n = sum(1 for _ in open(path))
    r = ctx.tlc("SearchAlgTrace", "SearchAlgTrace.cfg", workers=16, env={"TRACE_FILE": path},
                timeout=timeout, out_name="SearchAlgTrace.%s.out" % name, count=False)
    if r.status != "ok":
        raise vlib.Infra("judge failed (%s): %s\n%s" % (r.status, r.cmd, r.detail or r.tail))
    if r.distinct != NCHUNKS + n:
        raise vlib.Infra("judge visited %d states, expected %d + %d records" % (r.distinct, NCHUNKS, n))
    bad = []
    pre = '<<"BAD", "'
    with open(r.out_path, errors="replace") as fh:
        for line in fh:
            line = line.rstrip("\n")
            if line.startswith(pre) and line.endswith('">>'):
                try:
                    bad.append(json.loads(json.loads('"' + line[len(pre):-3] + '"')))
                except ValueError as e:
                    raise vlib.Infra("unparsable BAD line: %s (%s)" % (line[:300], e))
    bad.sort(key=lambda d: d["line"])
    return n, bad


FIELDS = ["seq", "uid", "since", "before", "sentsince", "sentbefore", "header", "body", "text",
          "flag", "notflag", "larger", "smaller", "not", "or"]


def compact(c):
    """only the populated fields of a criteria record"""
    out = {}
    for f in FIELDS:
        v = c.get(f)
        if v in (0, [], None):
            continue
        if f == "not":
            v = [compact(x) for x in v]
        elif f == "or":
            v = [[compact(x[0]), compact(x[1])] for x in v]
        out[f] = v
    return out


def has_key(keys, name):
    return any(k["k"] == name or has_key(k.get("sub") or [], name) for k in keys)


def nav(c, path):
    """value at a path printed by SearchAlgTrace!DiffPaths (list indices are 1-based strings)"""
    for p in path:
        c = c[int(p) - 1] if p.isdigit() else c[p]
    return c


def place(path):
    """path without list indices, so that signatures are stable"""
    return ".".join(p for p in path if not p.isdigit())


def sigs_for(rec, d):
    """Stable signatures of a rejected record.  Diagnosis only (the verdict is TLC's): every field
    whose meaning differs from the reference conjunction either shows one of the two narrow known
    patterns or is named in the signature."""
    kind = "and" if rec["kind"] == "and" else "search"
    if not d.get("ok"):
        return ["search-rejected"]
    new_present = rec["kind"] == "keys" and has_key(rec["keys"], "NEW")
    labels, rest = set(), []
    for path in d.get("diff") or []:
        f = path[-1]
        try:
            got, ref, drop = nav(rec["r"], path), nav(d["ref"], path), nav(d["drop"], path)
        except (IndexError, KeyError, TypeError):
            rest.append(place(path))
            continue
        if f == "smaller" and got == drop and got != ref:
            # exactly the value predicted by "And lets an unset Smaller of the argument win"
            labels.add("and-drops-smaller")
        elif f == "notflag" and new_present:
            labels.add("search-new-notflag")
        else:
            rest.append(place(path))
    out = sorted(labels)
    if rest or not out:
        out.append("%s-mismatch/%s" % (kind, ",".join(sorted(set(rest))) or "?"))
    return out


def replay_case(rec):
    if rec["kind"] == "keys":
        return {"fam": "keys", "keys": rec["keys"]}
    return {"fam": "pair", "a": rec["a"], "b": rec["b"], "ha": rec.get("ha", 0), "hb": rec.get("hb", 0)}


def describe(rec, d):
    w = d.get("witness")
    if rec["kind"] == "keys":
        head = "%r -> Session.Search received %s" % (rec.get("wire"), json.dumps(compact(rec["r"])))
        if not d.get("ok"):
            return "%s; server answered %r (command did not reach Session.Search exactly once with OK)" % (
                rec.get("wire"), rec.get("resp"))
        return "%s; expected the conjunction of the keys, e.g. %s; message %s: received criteria match=%s, all keys match=%s" % (
            head, json.dumps(compact(d["ref"])), json.dumps(w), d["got"], d["want"])
    return "a=%s b=%s; a.And(&b) -> %s; expected meaning of %s; message %s: result matches=%s, (a matches and b matches)=%s" % (
        json.dumps(compact(rec["a"])), json.dumps(compact(rec["b"])), json.dumps(compact(rec["r"])),
        json.dumps(compact(d["ref"])), json.dumps(w), d["got"], d["want"])


def report(ctx, path, bad):
    if not bad:
        return
    lines = open(path).read().splitlines()
    for d in bad:
        rec = json.loads(lines[d["line"] - 1])
        detail = describe(rec, d)
        for sig in sigs_for(rec, d):
            ctx.mismatch(sig, detail, replay_case(rec))


# ----------------------------------------------------------------- binding demonstration
def binding_demo(ctx, rec_path, bad_lines):
    """Weaken one field of one accepted record (drop a constraint from the recorded result);
    the judge must reject exactly that record."""
    lines = open(rec_path).read().splitlines()
    picked, ctxt = None, []
    for i, line in enumerate(lines):
        if (i + 1) in bad_lines:
            continue
        rec = json.loads(line)
        if picked is None and rec["kind"] == "and" and rec["r"]["since"] != 0 and rec["a"]["since"] != 0 \
                and rec["b"]["since"] not in (0, rec["a"]["since"]):
            rec["r"]["since"] = min(rec["a"]["since"], rec["b"]["since"])   # the weaker bound
            picked = (i + 1, rec)
        elif len(ctxt) < 6:
            ctxt.append(rec)
        if picked and len(ctxt) >= 6:
            break
    if not picked:
        return "no suitable accepted record"
    p = os.path.join(ctx.scratch, "corrupt.ndjson")
    recs = ctxt[:3] + [picked[1]] + ctxt[3:]
    with open(p, "w") as fh:
        for x in recs:
            fh.write(json.dumps(x) + "\n")
    n, bad = judge(ctx, p, "corrupt")
    if [d["line"] for d in bad] != [4]:
        raise vlib.Infra("binding demonstration failed: corrupted record 4 of %d, judge rejected %s" % (
            n, [d["line"] for d in bad]))
    return ("accepted record %d of the enumeration re-submitted with result.since weakened to the earlier of the two "
            "operands' dates among 6 untouched accepted records: judge rejects exactly that record (witness %s)" % (
                picked[0], json.dumps(bad[0].get("witness"))))


# ----------------------------------------------------------------- replay
def replay(ctx, path):
    data = json.load(open(path))
    case = data.get("replay")
    cp = os.path.join(ctx.scratch, "case.json")
    json.dump(case, open(cp, "w"))
    binp = ctx.build("searchalg")
    out = os.path.join(ctx.scratch, "one.ndjson")
    recs, _, _ = ctx.harness(binp, ["one", cp, out])
    ctx.summary(recs)
    n, bad = judge(ctx, out, "one")
    rec = json.loads(open(out).read().splitlines()[0])
    if bad:
        print("REPRODUCED sig=%s %s" % ("+".join(sigs_for(rec, bad[0])), describe(rec, bad[0])))
    else:
        print("not reproduced on the working tree: %s" % json.dumps(
            {"wire": rec.get("wire"), "result": compact(rec["r"])}))
