"""C09 — the in-memory backend obeys IMAP mailbox semantics (spec/MemModel.tla).

1. TLC model-checks the reference model on bounded instances (namespace commands; message
   commands on one and on two connections): UIDs ascending and never reused, UIDVALIDITY fresh
   for a recreated name, APPENDUID / COPYUID name the new messages, STORE / EXPUNGE / MOVE touch
   exactly the addressed / eligible messages, type invariant, queries are pure; every command of
   the alphabet has a defined OK/NO outcome in every reachable state (TLC evaluates Exec for all
   of them; an undefined case would be a TLC evaluation error).
2. spec -> impl: MemModelGen prints every reachable state of the bounded instances with all its
   outgoing commands and the predicted normalised results (so every transition once), the query
   vectors (all SEARCH key combinations to depth 2, all sections / partial ranges, LIST / LSUB
   patterns) over three prepared scenarios, and random walks over the full alphabet
   (TLC!RandomElement, tlc -seed = VERIF_SEED).  harness/cmd/memmodel replays them against a
   fresh real imapserver + imapmemserver per behaviour over raw IMAP and compares after every
   step; a panic in the server log, a dropped connection or a reply that never completes is an
   observation no prediction equals.
3. impl -> spec: the harness's own random driver (6 names incl. a/b/c, 2 connections, all five
   catalogue texts) records ndjson; MemModelTrace re-computes every record, prints one BAD line
   per history that disagrees (with the signature MemModel!Sig computes) and goes on with the
   next history.
"""
import json, os, re, threading, time
from concurrent.futures import ThreadPoolExecutor
import vlib

CAT = os.path.join(vlib.VERIF, "spec", "catalogue")

RULE = ("behaviour = one command applied in one reachable model state (shortest history + command, "
        "replayed on a fresh server), or one complete random walk / recorded history; non-trivial = the "
        "command is a state-changing STORE/COPY/MOVE/EXPUNGE/RENAME/DELETE that succeeds, a SEARCH with "
        "NOT/OR or several keys, a FETCH of a partial range or of a section other than []/HEADER/TEXT, or a "
        "LIST/LSUB with a wildcard; distinct by construction (one per transition / per query vector)")


def run(ctx):
    quick = ctx.tier == "quick"
    binp = ctx.build("memmodel")
    seed = str(ctx.seed)
    lock = threading.Lock()
    results = {}

    def mc(name, cfg, workers):
        r = ctx.tlc("MemModel", cfg, workers=workers, timeout=1500, count=False,
                    out_name="mc.%s.out" % name)
        if r.status != "ok":
            raise vlib.Infra("TLC %s on MemModel/%s: %s\n%s" % (r.status, cfg, r.cmd, r.detail or r.tail))
        with lock:
            results["mc:" + name] = r

    def gen(name, cfg, workers, hargs=(), extra=None):
        g = ctx.tlc("MemModelGen", cfg, workers=workers, timeout=1500, count=False, extra=extra,
                    out_name="gen.%s.out" % name)
        if g.status != "ok":
            raise vlib.Infra("generator MemModelGen/%s failed: %s\n%s" % (cfg, g.cmd, g.detail or g.tail))
        t = time.time()
        recs, _, _ = ctx.harness(binp, ["replay", g.out_path, "-cat", CAT, "-seed", seed] + list(hargs),
                                 timeout=1500)
        try:
            os.unlink(g.out_path)
        except OSError:
            pass
        with lock:
            results["gen:" + name] = (g, recs, time.time() - t)

    def rnd(name, traces, steps):
        tr = os.path.join(ctx.scratch, "memmodel-%s.ndjson" % name)
        recs, _, _ = ctx.harness(binp, ["random", tr, "-cat", CAT, "-seed", seed, "-traces", traces,
                                        "-steps", steps], timeout=1500)
        r = ctx.tlc("MemModelTrace", "MemModelTrace.cfg", workers=1, env={"TRACE_FILE": tr}, timeout=1500,
                    count=False, out_name="trace.%s.out" % name)
        with lock:
            results["rnd:" + name] = (tr, recs, r)

    jobs = []
    if quick:
        # the generator runs on the ns / two instances also check the invariants and action
        # properties of MemModel (same graph); the mixed instance MemModel_mc.cfg runs in thorough
        jobs += [(gen, ("two", "MemModelGen_two.cfg", 6, ("-max", "6"))),
                 (gen, ("ns", "MemModelGen_ns.cfg", 3)),
                 (gen, ("q", "MemModelGen_q.cfg", 1)),
                 (gen, ("walks", "MemModelGen_sim.cfg", 2, (), ["-seed", seed])),
                 (rnd, ("random", 40, 40))]
        pool = 5
    else:
        jobs += [(gen, ("msg", "MemModelGen_msg.cfg", 8)),
                 (gen, ("ns", "MemModelGen_ns_thorough.cfg", 6, ("-max", "40"))),
                 (mc, ("all-small", "MemModel_mc.cfg", 4)),
                 (mc, ("all", "MemModel_mc_thorough.cfg", 6)),
                 (gen, ("two", "MemModelGen_two.cfg", 5)),
                 (gen, ("q", "MemModelGen_q.cfg", 2)),
                 (gen, ("walks", "MemModelGen_sim_thorough.cfg", 8, (), ["-seed", seed])),
                 (rnd, ("random", 500, 60))]
        pool = 5
    ctx.specdir()          # create the scratch copy before the threads start
    with ThreadPoolExecutor(max_workers=pool) as ex:
        futs = [ex.submit(f, *a) for f, a in jobs]
        errs = []
        for fu in futs:
            try:
                fu.result()
            except vlib.Infra as e:
                errs.append(e)
        if errs:
            raise errs[0]

    extra = {"bounds": {}, "wall": {}}
    # 1. model checking
    for k in sorted(results):
        if k.startswith("mc:"):
            r = results[k]
            ctx.cov["states"] += r.distinct
            ctx.cov["transitions"] += r.generated
            extra["bounds"][k] = "%s: %d distinct states, %d transitions, depth %d" % (r.cmd.split("-config ")[1].split()[0],
                                                                                    r.distinct, r.generated, r.depth)
            extra["wall"][k] = round(r.wall, 1)
    # 2. replayed behaviours
    blocked = 0
    for k in sorted(results):
        if k.startswith("gen:"):
            g, recs, wall = results[k]
            s = ctx.summary(recs)
            ctx.take_mismatches(recs)
            if not s.get("behaviours"):
                raise vlib.Infra("no behaviours replayed from %s" % k)
            ctx.cov["traces_validated_against_impl"] += s["behaviours"]
            ctx.cov["evaluations"] += s.get("steps", 0)
            ctx.cov["distinct_nontrivial"] += s.get("nontrivial", 0)
            blocked += s.get("blocked_by_earlier_mismatch", 0)
            if k[4:] not in ("q", "walks"):
                # these generator runs also check the invariants / action properties of MemModel
                ctx.cov["states"] += g.distinct
                ctx.cov["transitions"] += g.generated
            for smp in (s.get("samples") or [])[:1]:
                ctx.sample({"replayed(%s)" % k[4:]: smp})
            extra["bounds"][k] = "%s: %d model states printed (%d generated), %d behaviours replayed, %d commands sent" % (
                g.cmd.split("-config ")[1].split()[0], s.get("lines", 0), g.generated, s["behaviours"], s.get("steps", 0))
            extra["wall"][k] = "tlc %.1fs + replay %.1fs" % (g.wall, wall)
            extra.setdefault("mismatch_counts", {})[k] = s.get("mismatch_counts", {})
    extra["successors_not_compared_after_an_earlier_mismatch"] = blocked
    extra["random_walks"] = ("MemModelGen mode sim: TLC breadth-first over Chains independent walks whose single "
                             "successor per state is TLC!RandomElement of the explored commands, tlc -seed %s "
                             "(not exhaustive)" % seed)
    # 3. recorded histories
    tr, recs, r = results["rnd:random"]
    s2 = ctx.summary(recs)
    ctx.take_mismatches(recs)
    bad, notallowed, completed = parse_trace_out(r.out_path)
    if notallowed:
        raise vlib.Infra("the random driver issued a command the model does not explore (record %s): driver bug" % notallowed[:3])
    if not completed:
        raise vlib.Infra("trace validation did not complete: %s\n%s" % (r.cmd, r.detail or r.tail))
    lines = open(tr).read().splitlines()
    nhist = sum(1 for x in lines if '"Reset"' in x)
    for b in bad:
        rec = json.loads(lines[b["line"] - 1])
        ctx.mismatch(b["sig"], "MemModelTrace: recorded history disagrees with the model at record %d: command %s: model predicts r=%s ; server gave r=%s%s" % (
            b["line"], json.dumps(compact(rec["cmd"])), json.dumps(b["r"])[:500], json.dumps(rec["r"])[:500],
            "" if b["r"] != rec["r"] else " ; audits differ: model %s server %s" % (json.dumps(b["audit"])[:400], json.dumps(rec["audit"])[:400])),
            {"kind": "trace", "prefix": vlib.trace_prefix(tr, b["line"])})
    tmc = {}
    for b in bad:
        tmc[b["sig"]] = tmc.get(b["sig"], 0) + 1
    extra.setdefault("mismatch_counts", {})["rnd:random"] = tmc
    ctx.cov["traces_validated_against_impl"] += nhist - len(bad)
    ctx.cov["evaluations"] += s2.get("records", 0)
    extra["trace_records"] = s2.get("records", 0)
    extra["trace_histories"] = nhist
    extra["trace_histories_cut_short_by_a_disagreement"] = len(bad)
    extra["trace_ops"] = s2.get("ops")
    extra["wall"]["rnd:random"] = "validate %.1fs" % r.wall
    ctx.sample({"recorded": [compact_rec(json.loads(x)) for x in lines[1:3]]})
    extra["binding_demo"] = binding_demo(ctx, lines, bad)
    ctx.assumptions.append("DELETE/RENAME of a mailbox some connection has selected, DELETE of a name with inferiors or a "
                           "subscription, CREATE below a missing parent, COPY/MOVE into the selected mailbox, sequence "
                           "numbers above EXISTS and body sections a message does not have are not explored (MemModel!Allowed)")
    ctx.finish(rule=RULE, extra=extra)


def compact(cmd):
    return {k: v for k, v in cmd.items() if v not in ([], 0, "", False) and k != "it"} | (
        {"it": {k: v for k, v in cmd["it"].items() if v not in (0, False)}} if cmd.get("op") == "FETCH" else {})


def compact_rec(rec):
    if "cmd" in rec:
        return {"cmd": compact(rec["cmd"]), "r": rec["r"]}
    return rec


def parse_trace_out(path):
    bad, notallowed, completed = [], [], False
    for line in open(path, errors="replace"):
        if line.startswith('<<"BAD", "'):
            body = line.rstrip()[len('<<"BAD", "'):-3]
            try:
                bad.append(json.loads(json.loads('"' + body + '"')))
            except ValueError:
                raise vlib.Infra("unparsable BAD line: %s" % line[:300])
        m = re.match(r'<<"NOTALLOWED", (\d+)>>', line)
        if m:
            notallowed.append(int(m.group(1)))
        if "states generated" in line and "distinct states found" in line:
            completed = True
    return bad, notallowed, completed


def binding_demo(ctx, lines, bad):
    """take one recorded history the model accepted, corrupt one observed field, and show that
    MemModelTrace rejects exactly that record (and accepts the uncorrupted history)"""
    badlines = {b["line"] for b in bad}
    starts = [i for i, x in enumerate(lines) if '"Reset"' in x] + [len(lines)]
    for a, b in zip(starts, starts[1:]):
        if any(a < bl <= b for bl in badlines):
            continue
        seg = lines[a:b]
        for j, x in enumerate(seg):
            rec = json.loads(x)
            if rec.get("ev") != "Step":
                continue
            r = rec["r"]
            what = None
            if rec["cmd"]["op"] == "APPEND" and r.get("st") == "OK":
                r["uid"] += 1
                what = "APPENDUID uid+1"
            elif rec["cmd"]["op"] == "SEARCH" and r.get("nums"):
                r["nums"] = r["nums"][:-1]
                what = "last SEARCH hit dropped"
            elif rec["cmd"]["op"] == "STORE" and r.get("fetch"):
                r["fetch"][0]["fl"] = r["fetch"][0]["fl"] + ["zz"]
                what = "extra flag in STORE response"
            if not what or j < 3:
                continue
            good = os.path.join(ctx.scratch, "binding-good.ndjson")
            open(good, "w").write("\n".join(seg[:j + 6]) + "\n")
            ok, at, _, _ = ctx.validate_trace("MemModelTrace", "MemModelTrace.cfg", good)
            if not ok:
                raise vlib.Infra("binding demonstration: the uncorrupted history is rejected at %s" % at)
            cor = list(seg[:j + 6])
            cor[j] = json.dumps(rec)
            p = os.path.join(ctx.scratch, "binding-corrupt.ndjson")
            open(p, "w").write("\n".join(cor) + "\n")
            ok, at, _, _ = ctx.validate_trace("MemModelTrace", "MemModelTrace.cfg", p)
            if ok or at != j + 1:
                raise vlib.Infra("binding demonstration failed: corrupted record %d not rejected there (ok=%s at=%s)" % (j + 1, ok, at))
            return "history of %d records accepted; same history with %s in record %d rejected at record %d" % (
                len(seg[:j + 6]), what, j + 1, at)
    return "no history without disagreement available for the demonstration"


def replay(ctx, path):
    vlib.replay_generic(ctx, path, "memmodel", "MemModelTrace", "MemModelTrace.cfg")
