"""C08 — on-the-wire mailbox view consistency across sessions (spec/MemViews.tla).

1. TLC model-checks MemViews (design): every command of the alphabet on a small instance
   (MemViews_mc*.cfg, IDLE deliveries at any moment) and, per command family, the bounded
   instances that are also the generators (MemViewsGen_<family>.cfg): the five clauses of C08
   over the predicted response streams.
2. spec -> impl: MemViewsGen prints every transition of each family graph (2 sessions, 3 in one
   thorough family) with the normalised responses predicted for every connection; the harness
   replays each behaviour against a fresh imapserver.Server + imapmemserver, one raw connection
   per model session (vh.Raw tokenizer), compares after every step and audits the list after
   every NOOP with UID FETCH 1:* (UID).
3. impl -> spec: a seeded random driver (1..4 sessions, 2 mailboxes, 200 commands, one session
   mutating while the others only FETCH/SEARCH) records command + normalised responses;
   MemViewsTrace judges every record (five clauses as invariants of the trace cfg) and does not
   stop at the first disagreement.
Latitude (not verdicts): which messages "*" selects (client view vs server count) and whether a
MOVE that selects nothing flushes updates; the evidence records which branch the code takes.
"""
import json, os, re, time
from concurrent.futures import ThreadPoolExecutor
import vlib

FAMILIES = {
    "quick": ["q_expunge", "q_uid", "q_search", "q_move", "q_idle", "q_close", "q_slow"],
    "thorough": ["t_expunge", "t_uid", "t_search", "t_move", "t_idle", "t_close", "t_flags", "t_three", "t_slow", "t_slow3"],
}
TRACE, TRACE_CFG = "MemViewsTrace", "MemViewsTrace.cfg"
# vacuity gate: every command form of the statement must label a replayed transition
ALL_COMMANDS = ["NOOP", "APPEND", "SELECT", "UNSELECT", "CLOSE", "FETCH", "UID-FETCH", "STORE", "UID-STORE",
                "SEARCH", "UID-SEARCH", "EXPUNGE", "UID-EXPUNGE", "COPY", "UID-COPY", "MOVE", "UID-MOVE",
                "IDLE", "DONE", "STALL", "RESUME"]


def run(ctx):
    quick = ctx.tier == "quick"
    ctx.specdir()
    binp = ctx.build("memviews")

    # ---- 1 + 2: design check and generators (three TLC processes at a time), replay pipelined
    dbg = os.environ.get("C08_DEBUG")

    def work(job):
        kind, name = job
        if kind == "mc":
            r = ctx.tlc("MemViews", name, workers=6, timeout=900, count=False)
            if dbg:
                print("dbg %s tlc %.1fs gen=%d" % (name, r.wall, r.generated), flush=True)
            return kind, name, r, None
        g = ctx.tlc("MemViewsGen", "MemViewsGen_%s.cfg" % name, workers=5, timeout=900, count=False,
                    out_name="gen-%s.out" % name)
        recs = None
        t1 = time.time()
        if g.status == "ok":
            recs, _, _ = ctx.harness(binp, ["replay", g.out_path, "-workers", 10], timeout=1500)
        if dbg:
            print("dbg %s tlc %.1fs gen=%d replay %.1fs" % (name, g.wall, g.generated, time.time() - t1), flush=True)
        try:
            os.unlink(g.out_path)
        except OSError:
            pass
        return kind, name, g, recs

    jobs = [("mc", "MemViews_mc.cfg" if quick else "MemViews_mc_thorough.cfg")]
    jobs += [("gen", f) for f in FAMILIES[ctx.tier]]
    with ThreadPoolExecutor(max_workers=3) as ex:
        results = list(ex.map(work, jobs))

    lat_taken, lat_not, fam_stats, commands = {}, {}, {}, {}
    star_example, late, mc_states = None, 0, 0
    for kind, name, r, recs in results:
        if r.status != "ok":
            raise vlib.Infra("TLC %s on %s: %s\n%s" % (r.status, name, r.cmd, r.detail or r.tail))
        ctx.cov["states"] += r.distinct
        ctx.cov["transitions"] += r.generated
        if kind == "mc":
            mc_states = r.distinct
            continue
        s = ctx.summary(recs)
        ctx.take_mismatches(recs)
        if not s.get("behaviours"):
            raise vlib.Infra("no behaviours replayed for family %s" % name)
        if s["behaviours"] not in (r.generated - 1, r.generated):
            ctx.notes.append("%s: %d behaviours replayed, TLC generated %d" % (name, s["behaviours"], r.generated))
        ctx.cov["traces_validated_against_impl"] += s["behaviours"]
        ctx.cov["evaluations"] += s["steps"]
        ctx.cov["distinct_nontrivial"] += s["nontrivial"]
        fam_stats[name] = dict(states=r.distinct, transitions=r.generated, tlc_s=round(r.wall, 1),
                               mismatches=s["mismatches"], branch_not_taken=s["branch_not_taken"])
        for k, v in (s.get("latitude_taken") or {}).items():
            lat_taken[k] = lat_taken.get(k, 0) + v
        for k, v in (s.get("latitude_not_taken") or {}).items():
            lat_not[k] = lat_not.get(k, 0) + v
        late += s.get("late_idle_wakeups", 0)
        for k, v in (s.get("commands") or {}).items():
            commands[k] = commands.get(k, 0) + v
        star_example = star_example or s.get("star_rfc_not_taken_example")
        for smp in (s.get("samples") or [])[:1]:
            ctx.sample({"replayed": smp})

    missing = [c for c in ALL_COMMANDS if not commands.get(c)]
    if missing and not ctx.violations and not ctx.known_hits:
        raise vlib.Infra("vacuous: no fully replayed transition is labelled %s" % missing)
    if missing:
        ctx.notes.append("no fully replayed transition labelled %s (behaviours stop at the first divergence)" % missing)

    # ---- 3: random histories judged by MemViewsTrace
    ntr, nfiles = (16, 1) if quick else (80, 3)

    def record(i):
        tr = os.path.join(ctx.scratch, "memviews-%d.ndjson" % i)
        recs, _, _ = ctx.harness(binp, ["random", tr, "-seed", ctx.seed * 1000 + i, "-traces", ntr, "-steps", 200])
        s = ctx.summary(recs)
        t1 = time.time()
        ok, at, rec, res = ctx.validate_trace(TRACE, TRACE_CFG, tr, timeout=900)
        if dbg:
            print("dbg trace %d: %d records validated in %.1fs at +%.0fs" % (i, s["records"], time.time() - t1, time.time() - ctx.t0), flush=True)
        return tr, s, ok, at, res

    with ThreadPoolExecutor(max_workers=3) as ex:
        recorded = list(ex.map(record, range(nfiles)))
    trace_records, garbled, idle_deliveries, foreign, demo, after_stall, stalls = 0, 0, 0, 0, None, 0, 0
    seen_sigs = {}
    for tr, s, ok, at, res in recorded:
        lines = open(tr).read().splitlines()
        bad = bad_lines(res.out_path)
        if not ok and not bad:
            raise vlib.Infra("MemViewsTrace rejected %s at %s without a BAD line:\n%s" % (tr, at, res.detail or res.tail))
        for b in bad:
            r = json.loads(lines[b["line"] - 1])
            sig, detail = classify(r, b)
            seen_sigs[sig] = seen_sigs.get(sig, 0) + 1
            prefix = None
            if seen_sigs[sig] <= 3:     # only the first few of a signature are written as replay files
                a = max(i for i in range(b["line"]) if '"Reset"' in lines[i])
                prefix = [json.loads(x) for x in lines[a:b["line"]]]
            ctx.mismatch(sig, "record %d: %s" % (b["line"], detail), {"kind": "trace", "prefix": prefix})
        garbled += s.get("garbled_completions", 0)
        idle_deliveries += s.get("idle_deliveries", 0)
        foreign += s.get("expunges_of_other_sessions_delivered", 0)
        after_stall += s.get("responses_delivered_after_a_stall", 0)
        stalls += (s.get("commands") or {}).get("STALL", 0)
        trace_records += s["records"]
        ctx.cov["evaluations"] += s["records"]
        # traces (Reset .. next Reset) without any BAD line were accepted as recorded
        starts = [i for i, x in enumerate(lines) if '"Reset"' in x] + [len(lines)]
        badset = {b["line"] for b in bad}
        for a, z in zip(starts, starts[1:]):
            if not any(a + 1 <= n <= z for n in badset):
                ctx.cov["traces_validated_against_impl"] += 1
        if demo is None:
            demo = binding_demo(ctx, lines, starts, badset, ok)
            if len(ctx.cov["samples"]) < 6:
                ctx.sample({"recorded": [json.loads(x) for x in lines[1:3]]})

    ctx.finish(
        rule="behaviour = shortest history reaching one transition of a bounded MemViews family graph (one per "
             "transition, distinct by construction); non-trivial = at some step the issuing session had updates "
             "pending (stale view) when it issued a command carrying a number set",
        extra={"binding_demo": demo, "mc_states": mc_states, "families": fam_stats, "trace_records": trace_records,
               "latitude_taken": lat_taken, "latitude_not_taken": lat_not,
               "star_resolution_example_rfc_reading_not_taken": star_example,
               "garbled_empty_copy_completions_in_traces": garbled, "idle_deliveries_in_traces": idle_deliveries,
               "late_idle_wakeups": late, "replayed_transitions_by_command": commands,
               "expunges_of_other_sessions_delivered_in_traces": foreign,
               "stalled_noops_in_traces": stalls, "responses_delivered_after_a_stall_in_traces": after_stall})


def bad_lines(out_path):
    out = []
    for line in open(out_path, errors="replace"):
        m = re.match(r'<<"BAD", "(.*)">>$', line.rstrip())
        if m:
            out.append(json.loads(json.loads('"' + m.group(1) + '"')))
    return out


def classify(r, b):
    """signature of a divergence found by the trace judge (same rules as the replay harness)"""
    c = r["c"]
    s = r["s"]
    name = ("UID-" if c["uid"] and c["k"] != "UIDEXPUNGE" else "") + ("UID-EXPUNGE" if c["k"] == "UIDEXPUNGE" else c["k"])
    got = r["out"][s]
    exp = b["exp"][s] if b["exp"] else []
    nexp = lambda a: sum(1 for g in a if g[0] == "expunge")
    if any(g[0] == "fetch" and g[1] == 0 for g in got):
        sig = "fetch/seq0-unannounced"
    elif c["k"] == "MOVE" and b["exp"] and nexp(got) > nexp(exp):
        sig = "move/double-expunge"
    else:
        sig = "%s/%s" % (b["clause"], name)
    others = {t: v for t, v in r["out"].items() if v and t != s}
    detail = "%s %s set=%s mbox=%s: server sent %s%s%s, specification predicts %s%s (clause: %s)" % (
        s, name, c["set"], c["mbox"], json.dumps(got),
        (" idlers " + json.dumps(others)) if others else "",
        (" audit " + json.dumps(r["au"])) if r.get("ad") else "",
        json.dumps(exp),
        (" audit " + json.dumps(b["audit"])) if r.get("ad") else "", b["clause"])
    return sig, detail


def binding_demo(ctx, lines, starts, badset, whole_accepted):
    """corrupt one logged response in an accepted stretch of the recorded trace: MemViewsTrace must
    reject exactly that record (a: an EXPUNGE number changed; b: one announced update dropped)"""
    best = None
    for a, z in zip(starts, starts[1:]):
        end = min([n - 1 for n in badset if a + 1 <= n <= z] + [z])   # lines a+1..end are BAD-free (1-based)
        seg = lines[a:end]
        for i, x in enumerate(seg):
            if '"expunge"' in x and (best is None or len(seg) > len(best[0])):
                best = (seg, i)
                break
    if best is None:
        return "no accepted stretch with an EXPUNGE found"
    seg = best[0]
    p = os.path.join(ctx.scratch, "excerpt.ndjson")
    open(p, "w").write("\n".join(seg) + "\n")
    if not whole_accepted:      # the excerpt must be accepted on its own before it is corrupted
        ok, at, _, _ = ctx.validate_trace(TRACE, TRACE_CFG, p)
        if not ok:
            raise vlib.Infra("binding demonstration: excerpt of the recorded trace is not accepted (at %s)" % at)

    def has(t):
        return lambda rec: rec.get("ev") == "cmd" and any(g[0] == t for g in rec["out"][rec["s"]])

    def bump(rec):
        for g in rec["out"][rec["s"]]:
            if g[0] == "expunge":
                g[1] += 1
                return

    def drop(rec):
        o = rec["out"][rec["s"]]
        for i, g in enumerate(o):
            if g[0] in ("exists", "expunge"):
                del o[i]
                return

    d1 = vlib.corrupt_demo(ctx, p, TRACE, TRACE_CFG, has("expunge"), bump)
    d2 = vlib.corrupt_demo(ctx, p, TRACE, TRACE_CFG, has("exists"), drop)
    return "excerpt of %d records accepted; EXPUNGE number +1: %s; one EXISTS/EXPUNGE dropped: %s" % (len(seg), d1, d2)


def replay(ctx, path):
    vlib.replay_generic(ctx, path, "memviews", TRACE, TRACE_CFG)
