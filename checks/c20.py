"""C20 — LIST wildcard matching (spec/ListMatch.tla).

1. TLC model-checks sanity lemmas on the reference semantics itself (ListMatch_mc*.cfg): '*'
   matches everything, '%' alone matches exactly the delimiter-free names, replacing % by * is
   monotone, a literal pattern matches only itself, no delimiter => % behaves like *, the
   recursive matcher equals the declarative "cut the name into pieces" meaning, reference
   prefix lemma.
2. spec -> impl: ListMatchGen prints every (name, delimiter, reference, pattern) vector of the
   bounded space with the answer(s) the reference allows; the harness calls the real
   imapserver.MatchList on every vector and compares booleans.
3. impl -> spec: the harness records random longer vectors (length <= 12, delimiters '/', '.',
   none, and non-ASCII ones; regexp metacharacters, non-ASCII characters) with what MatchList
   REALLY returned; ListMatchTrace re-evaluates every record with the reference operator.  The
   records with an ASCII / no delimiter and those with a non-ASCII delimiter are validated as
   two separate traces.  When the strict walk rejects a record, a lenient walk lists every
   record the reference disagrees with and the harness re-runs exactly those inputs.
4. binding demonstration: one recorded boolean is flipped, ListMatchTrace must reject there.
"""
import json, os, time
from concurrent.futures import ThreadPoolExecutor
import vlib


def expected_vectors(maxname, maxpat):
    names = sum(3 ** i for i in range(maxname + 1))
    pats = sum(5 ** i for i in range(maxpat + 1))
    return names * 2 * 6 * pats, names * 2


def run(ctx):
    quick = ctx.tier == "quick"
    phases = {}
    t = [time.time()]

    def lap(name):
        phases[name] = round(time.time() - t[0], 1)
        t[0] = time.time()
    # 1. lemmas on the reference
    r = ctx.tlc_ok("ListMatch", "ListMatch_mc.cfg" if quick else "ListMatch_mc_thorough.cfg", timeout=900)
    lap("lemmas_tlc")
    # 2. spec -> impl
    g = ctx.tlc("ListMatchGen", "ListMatchGen_quick.cfg" if quick else "ListMatchGen_thorough.cfg",
                timeout=900, count=False)
    if g.status != "ok":
        raise vlib.Infra("generator failed: %s\n%s" % (g.cmd, g.detail or g.tail))
    lap("generator_tlc")
    binp = ctx.build("listmatch")
    lap("go_build")
    recs, _, _ = ctx.harness(binp, ["vectors", g.out_path], timeout=900)
    s = ctx.summary(recs)
    lap("vectors_harness")
    ctx.take_mismatches(recs)
    want, ninit = expected_vectors(3, 3) if quick else expected_vectors(4, 4)
    if s["vectors"] != want or g.distinct != want + ninit:
        raise vlib.Infra("generator printed %d vectors (TLC: %d distinct states), expected %d"
                         % (s["vectors"], g.distinct, want))
    if not (0 < s["expected_true"] < s["vectors"]) or s["two_readings"] == 0:
        raise vlib.Infra("vacuous vector space: %s" % s)
    ctx.cov["traces_validated_against_impl"] += s["vectors"]
    ctx.cov["evaluations"] += s["vectors"]
    ctx.cov["distinct_nontrivial"] += s["nontrivial"]
    for smp in s.get("samples") or []:
        ctx.sample({"generated_vector": smp})
    # 3. impl -> spec
    tr = os.path.join(ctx.scratch, "listmatch.ndjson")
    n = 12000 if quick else 100000
    recs, _, _ = ctx.harness(binp, ["random", tr, "-seed", ctx.seed, "-n", n])
    s2 = ctx.summary(recs)
    ctx.take_mismatches(recs)          # panics only
    parts = [p for p in split_trace(ctx, tr, 3 if quick else 6) if p[2] > 0]
    accepted_part = None
    records_ok = 0
    rejected = []
    ctx.specdir()
    # trace validation is single-threaded per trace; the independent traces run side by side
    with ThreadPoolExecutor(max_workers=8) as ex:
        results = list(ex.map(lambda p: ctx.validate_trace("ListMatchTrace", "ListMatchTrace.cfg", p[1]), parts))
    for (label, path, cnt), (ok, at, rec, _) in zip(parts, results):
        if ok:
            records_ok += cnt
            ctx.cov["traces_validated_against_impl"] += cnt
            if accepted_part is None:
                accepted_part = path
            continue
        if at is None:
            # a lemma of the reference failed on a recorded vector: problem of the spec
            raise vlib.Infra("ListMatchTrace: %s" % rec)
        nrep = list_disagreements(ctx, binp, path)
        rejected.append("%s: strict walk rejected record %d, %d disagreeing records re-run" % (label, at, nrep))
        if nrep == 0:
            ctx.mismatch("listmatch/trace-rejected-not-reproduced",
                         "ListMatchTrace rejects recorded vector %s of the %s trace: %s" % (at, label, rec),
                         {"kind": "record", "record": rec})
    ctx.cov["evaluations"] += s2["records"]
    ctx.cov["distinct_nontrivial"] += s2["nontrivial"]
    for smp in s2.get("samples") or []:
        ctx.sample({"recorded_vector": smp})
    lap("record_and_validate")
    # 4. binding demonstration
    demo = binding_demo(ctx, accepted_part) if accepted_part else "skipped (no recorded trace was accepted)"
    lap("binding_demo")
    ctx.finish(rule="vector = one (name, delimiter, reference, pattern) input; generated vectors are distinct by "
               "construction (one per state of the bounded ListMatch space), recorded vectors are counted once per "
               "distinct input; non-trivial = the name is non-empty and the pattern contains '*' or '%'",
               extra={"binding_demo": demo, "lemma_states": r.distinct, "generated_vectors": s["vectors"],
                      "generated_expected_true": s["expected_true"], "generated_two_readings": s["two_readings"],
                      "generated_with_reference": s["with_reference"], "generated_no_delimiter": s["no_delimiter"],
                      "recorded_vectors": s2["records"], "recorded_distinct": s2["distinct"],
                      "recorded_real_true": s2["real_true"], "recorded_accepted": records_ok,
                      "recorded_nonascii_delimiter": s2["nonascii_delimiter"], "rejected_traces": rejected, "phase_wall_s": phases})


def split_trace(ctx, tr, k):
    """Records with an ASCII / no delimiter (k traces, round robin) and records with a non-ASCII
    delimiter (one trace) are validated as separate traces."""
    names = [("ascii-or-no-delimiter-%d" % i, os.path.join(ctx.scratch, "listmatch-ascii-%d.ndjson" % i))
             for i in range(k)]
    names.append(("non-ascii-delimiter", os.path.join(ctx.scratch, "listmatch-nonascii.ndjson")))
    fhs = [open(p, "w") for _, p in names]
    cnt = [0] * len(names)
    na = 0
    with open(tr) as fh:
        for line in fh:
            if json.loads(line)["d"] >= 128:
                i = k
            else:
                i = na % k
                na += 1
            fhs[i].write(line)
            cnt[i] += 1
    for f in fhs:
        f.close()
    return [(names[i][0], names[i][1], cnt[i]) for i in range(len(names))]


def list_disagreements(ctx, binp, path):
    """lenient walk: TLC prints every record whose answer the reference does not allow; the
    harness re-runs those inputs against the real code and reports each with its signature"""
    r = ctx.tlc("ListMatchTrace", "ListMatchTraceAll.cfg", workers=1, env={"TRACE_FILE": path}, count=False,
                out_name="ListMatchTraceAll." + os.path.basename(path) + ".out", timeout=900)
    if r.status != "ok":
        raise vlib.Infra("lenient trace walk failed: %s\n%s" % (r.cmd, r.detail or r.tail))
    recs, _, _ = ctx.harness(binp, ["vectors", r.out_path])
    s = ctx.summary(recs)
    ctx.take_mismatches(recs)
    return s["mismatches"]


def binding_demo(ctx, path):
    """flip the recorded answer of one vector; ListMatchTrace must reject exactly there"""
    lines = open(path).read().splitlines()[:400]
    for i, line in enumerate(lines):
        rec = json.loads(line)
        if i >= 50 and rec["got"] and rec["r"] and (37 in rec["p"] or 42 in rec["p"]):
            rec["got"] = not rec["got"]
            lines[i] = json.dumps(rec)
            p = os.path.join(ctx.scratch, "corrupt.ndjson")
            open(p, "w").write("\n".join(lines[:i + 20]) + "\n")
            ok, at, _, _ = ctx.validate_trace("ListMatchTrace", "ListMatchTrace.cfg", p)
            if ok or at != i + 1:
                raise vlib.Infra("binding demonstration failed: flipped record %d not rejected (ok=%s at=%s)"
                                 % (i + 1, ok, at))
            return "flipped the recorded result of record %d (%s), rejected at record %d" % (i + 1, text(rec), at)
    return "no suitable record"


def text(rec):
    s = lambda a: "".join(chr(c) for c in a)
    return "MatchList(%r, %s, %r, %r)" % (s(rec["n"]), repr(chr(rec["d"])) if rec["d"] else "none",
                                          s(rec["r"]), s(rec["p"]))


def replay(ctx, path):
    data = json.load(open(path))
    rp = data.get("replay") or {}
    if rp.get("kind") == "record":
        print("recorded vector only (not reproduced when found): %s" % rp.get("record"))
        return
    p = os.path.join(ctx.scratch, "vec.json")
    json.dump({k: rp[k] for k in ("n", "d", "r", "p", "e", "e2") if k in rp}, open(p, "w"))
    binp = ctx.build("listmatch")
    recs, _, _ = ctx.harness(binp, ["one", p])
    for r in recs:
        if r.get("kind") == "observed":
            print("real code: %s = %s%s" % (r["text"], r["got"], " PANIC " + r["panic"] if r["panic"] else ""))
    for r in recs:
        if r.get("kind") == "mismatch":
            print("REPRODUCED sig=%s %s" % (r["sig"], r["detail"]))
            return
    print("not reproduced on the working tree")
