"""C17 — STARTTLS boundary (spec/StartTLS.tla, which extends spec/ServerConn.tla).

1. TLC model-checks StartTLS for every input of the catalogue (server: [pre] `a STARTTLS` [suffix];
   client: greeting [pre] tagged-OK [suffix]), every segmentation (Deliver(k) for every k at any
   moment) and the configurations InsecureAuth x HasTLSConfig: nothing is interpreted after the
   switch, every byte behind the switch is handshake input, credentials only if tls \\/ InsecureAuth,
   LOGINDISABLED / AUTH= / STARTTLS advertised iff the guard holds, client never hands out a
   connection with a PREAUTH / BYE greeting.  The deliberately wrong design (Faulty = TRUE, buffered
   remainder stays with the IMAP parser) must violate NoParseAfterSwitch (the invariant can fail).
2. StartTLSGen prints every (configuration, stream, segmentation into <= 3 (quick) / 4 (thorough)
   writes at the cut points inside a line / before CR / between CR and LF / after the line) with the
   predicted observation; the harness re-enacts each against a real imapserver.Server (raw peer,
   rendez-vous after every write, real TLS client handshake after the tagged OK, probes through the
   established layer) resp. a real imapclient.NewStartTLS (scripted peer that then speaks real TLS).
3. Random streams from a larger catalogue with random byte-level segmentations (with and without
   rendez-vous) are recorded event by event (Deliver = real Read at the receiver's socket, Call,
   Resp, Handler, Handshake, probes, End) and validated by StartTLSTrace.
"""
import json
import os
import vlib


def _sig_of(rec):
    """narrow signature for a record StartTLSTrace could not explain"""
    if isinstance(rec, str):
        try:
            rec = json.loads(rec)
        except ValueError:
            pass
    if not isinstance(rec, dict):
        return "trace-rejected"
    ev = rec.get("ev", "?")
    if ev == "Resp":
        return "trace-rejected/Resp/%s" % rec.get("layer")
    if ev == "Call":
        return "trace-rejected/Call/%s" % rec.get("m")
    if ev == "Handler":
        return "trace-rejected/Handler/%s" % rec.get("kind")
    if ev == "Early":
        return "trace-rejected/Early"
    if ev == "ProbeResp":
        return "trace-rejected/ProbeResp/%s" % rec.get("c")
    if ev == "End":
        return "trace-rejected/End/%s" % ("client-returned" if rec.get("err") is False else "other")
    return "trace-rejected/%s" % ev


def _split_cases(lines):
    """[(first_line_index, last_line_index)] of the cases (Reset .. line before next Reset)"""
    starts = [i for i, l in enumerate(lines) if '"ev":"Reset"' in l]
    return [(s, (starts[k + 1] if k + 1 < len(starts) else len(lines)) - 1) for k, s in enumerate(starts)]


def validate_all(ctx, tr, cases_path=None, what="recorded", max_rounds=6, timeout=1200):
    """Validate an event log; on rejection report the case, drop it and go on (so several distinct
    disagreements of one run are all reported).  Returns True if the whole log was accepted."""
    accepted_all = True
    lines = open(tr).read().splitlines()
    labels = None
    if cases_path and os.path.exists(cases_path):
        labels = [json.loads(x) for x in open(cases_path)]
    dropped = 0
    for rnd in range(max_rounds):
        p = tr if rnd == 0 else os.path.join(ctx.scratch, "rest-%d-%s" % (rnd, os.path.basename(tr)))
        if rnd > 0:
            open(p, "w").write("\n".join(lines) + "\n")
        ok, at, rec, _ = ctx.validate_trace("StartTLSTrace", "StartTLSTrace.cfg", p, timeout=timeout)
        if ok:
            return accepted_all
        accepted_all = False
        if at is None:
            ctx.mismatch("trace-property", "%s history violates a property of StartTLSTrace: %s" % (what, str(rec)[:1200]), None)
            return False
        spans = _split_cases(lines)
        k = max(i for i, (s, e) in enumerate(spans) if s <= at - 1)
        s, e = spans[k]
        prefix = [json.loads(x) for x in lines[s:at]]
        info = labels[k + dropped] if labels and k + dropped < len(labels) else {}
        ctx.mismatch(_sig_of(rec),
                     "%s — StartTLSTrace cannot explain record %d of this case: %s (events so far: %s)" % (
                         info.get("label", "case"), at - s, json.dumps(rec), json.dumps(prefix[1:])[:900]),
                     {"kind": "trace", "case": info.get("case"), "prefix": prefix})
        del lines[s:e + 1]
        dropped += 1
        if not lines:
            return False
    return False


def run(ctx):
    quick = ctx.tier == "quick"
    import time
    ph, t0 = {}, [time.time()]

    def lap(name):
        ph[name] = round(time.time() - t0[0], 1)
        t0[0] = time.time()
    r = ctx.tlc_ok("StartTLS", "StartTLS_mc.cfg", timeout=600, coverage=False)
    f = ctx.tlc("StartTLS", "StartTLS_mc_faulty.cfg", timeout=300, count=False, out_name="faulty.out")
    if f.status != "violation" or "NoParseAfterSwitch" not in open(f.out_path, errors="replace").read():
        raise vlib.Infra("the wrong design (Faulty = TRUE) does not violate NoParseAfterSwitch: %s\n%s" % (f.status, f.tail))
    lap("model_check")
    binp = ctx.build("starttls")
    lap("build")

    # spec -> impl
    gen_cfg = "StartTLSGen_quick.cfg" if quick else "StartTLSGen_thorough.cfg"
    gtrace = os.path.join(ctx.scratch, "gen-events.ndjson")
    g, s1 = vlib.gen_and_replay(ctx, "StartTLSGen", gen_cfg, binp,
                                extra_args=[] if quick else ["-trace", gtrace], timeout=900, harness_timeout=1500)
    lap("generate_replay")
    hung = s1.get("hung", 0)
    hung_ex = s1.get("hung_example")
    gen_validated = 0
    if not quick:
        # the event logs of the generated cases are judged by the trace spec as well (first 6 MB)
        lines = open(gtrace).read(6 << 20).splitlines()[:-1]
        while lines and '"ev":"End"' not in lines[-1]:
            lines.pop()
        open(gtrace, "w").write("\n".join(lines) + "\n")
        if validate_all(ctx, gtrace, what="generated case:"):
            gen_validated = sum(1 for l in lines if '"ev":"Reset"' in l)
            ctx.cov["traces_validated_against_impl"] += gen_validated

    lap("validate_generated")
    # impl -> spec
    n = 1000 if quick else 6000
    tr = os.path.join(ctx.scratch, "random.ndjson")
    recs, _, _ = ctx.harness(binp, ["random", tr, "-seed", ctx.seed, "-n", n], timeout=1500)
    s2 = ctx.summary(recs)
    ctx.take_mismatches(recs)
    hung += s2.get("hung", 0)
    hung_ex = hung_ex or s2.get("hung_example")
    lap("random_run")
    ok = validate_all(ctx, tr, cases_path=tr + ".cases", what="random case")
    lap("random_validate")
    demo = "skipped"
    if ok:
        ctx.cov["traces_validated_against_impl"] += s2["traces"]
        ctx.cov["evaluations"] += s2["records"]
        ctx.cov["distinct_nontrivial"] += s2["nontrivial"]
        head = [json.loads(x) for x in open(tr).read().splitlines()[:8]]
        ctx.sample({"recorded": head})
        for smp in (s2.get("samples") or [])[:1]:
            ctx.sample({"random_case": smp})
        # binding demonstration 1 (server): a tagged response to the plaintext suffix after the switch
        st = {"suffix_tag": None, "switched": False}

        def pick1(rec):
            if rec.get("ev") == "Reset":
                st["suffix_tag"], st["switched"] = None, False
                if rec["side"] == "server":
                    seen = False
                    for ln in rec["stream"]:
                        if seen and st["suffix_tag"] is None:
                            st["suffix_tag"] = ln["tag"]
                        if ln["c"] == "STARTTLS":
                            seen = True
                return False
            if rec.get("ev") == "Handshake" and st["suffix_tag"]:
                return True
            return False

        def mut1(rec):
            rec.clear()
            rec.update({"ev": "Resp", "tag": st["suffix_tag"], "cls": "OK", "layer": "plain"})
        d1 = d2 = "not run in this tier/seed"
        if not quick or ctx.seed % 2 == 1:
            d1 = vlib.corrupt_demo(ctx, tr, "StartTLSTrace", "StartTLSTrace.cfg", pick1, mut1)

        # binding demonstration 2 (client): capabilities known before the peer spoke inside TLS
        def mut2(rec):
            rec["caps"] = ["AUTH=PLAIN", "IMAP4rev1", "XEVIL"]
        if not quick or ctx.seed % 2 == 0:
            d2 = vlib.corrupt_demo(ctx, tr, "StartTLSTrace", "StartTLSTrace.cfg",
                                   lambda rec: rec.get("ev") == "Early" and rec["caps"] == [], mut2)
        demo = "server: Handshake record replaced by a plaintext tagged OK for the suffix command: %s; " \
               "client: Early caps [] replaced by the suffix's capabilities: %s" % (d1, d2)
    lap("binding_demo")
    if hung:
        ctx.notes.append("%d client cases in which a client API call (NewStartTLS / Caps / Noop().Wait) did not return after the "
                         "connection broke; no client/capabilities were delivered, so they are outside C17 (liveness: C10/C13, "
                         "closeWithError completing a command whose done channel beginCommand has not created yet). Example: %s"
                         % (hung, hung_ex))
    ctx.assumptions += ["the connection starts in plaintext; tls becomes TRUE only through STARTTLS (implicit TLS is covered by C05)",
                        "a line is 4 cut points in generated cases (text | text | CR | LF); random cases cut at arbitrary byte offsets",
                        "a TLS handshake that does not complete within 2 s counts as failed (allowed whenever plaintext followed the switch)"]
    ctx.finish(rule="behaviour = (side, configuration, stream of lines, segmentation into writes, rendez-vous pattern); "
               "non-trivial = at least one plaintext byte follows the STARTTLS line / the tagged OK; generated cases are "
               "distinct by construction, random cases are drawn with replacement",
               extra={"binding_demo": demo, "mc_states": r.distinct, "faulty_design_violates": "NoParseAfterSwitch",
                      "generated_cases_replayed": s1["behaviours"], "generated_server_cases": s1.get("server_cases"),
                      "generated_client_cases": s1.get("client_cases"), "generated_event_logs_validated": gen_validated,
                      "random_cases": s2["traces"], "random_records": s2["records"], "client_calls_hung": hung, "phase_wall_s": ph})


def replay(ctx, path):
    data = json.load(open(path))
    rp = data.get("replay")
    if not (isinstance(rp, dict) and rp.get("kind") == "trace"):
        return vlib.replay_generic(ctx, path, "starttls", "StartTLSTrace", "StartTLSTrace.cfg")
    if not rp.get("case"):
        return vlib.replay_generic(ctx, path, "starttls", "StartTLSTrace", "StartTLSTrace.cfg")
    # re-run the recorded case against the working tree and judge the new event log
    binp = ctx.build("starttls")
    p = os.path.join(ctx.scratch, "case.json")
    json.dump(rp["case"], open(p, "w"))
    tr = os.path.join(ctx.scratch, "one.ndjson")
    recs, _, _ = ctx.harness(binp, ["one", p, "-trace", tr])
    ctx.summary(recs)
    ok, at, rec, _ = ctx.validate_trace("StartTLSTrace", "StartTLSTrace.cfg", tr)
    if ok:
        print("not reproduced on the working tree (the new event log is accepted by StartTLSTrace)")
    else:
        print("REPRODUCED sig=%s StartTLSTrace rejects the new event log at record %s: %s" % (_sig_of(rec), at, rec))
