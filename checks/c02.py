"""C02 — client commands reach the server backend with the caller's arguments intact (spec/CmdSpace.tla).

1. TLC model-checks the specification's own properties on the configuration state machine
   (server caps rev1 / rev1+rev2 / rev1+LITERAL+, transitions ENABLE UTF8=ACCEPT / IMAP4rev2) with one
   state per (configuration, command instance of the catalogue): Norm idempotent, catalogue well-typed,
   every catalogue value legal for the advertised feature set, Accept sane.  The same run is the
   generator: CmdSpaceGen prints every (configuration, command) with exp = the backend calls the
   specification predicts (normalised).
2. spec -> impl: the harness issues every printed command through a real imapclient.Client, in that
   configuration, over an in-memory connection to a real imapserver.Server whose stub Session records
   method and arguments (literal payloads read completely), and RECORDS {cfg, cmd, ok, recv}.  The
   harness converts representations only; it has no normaliser and no comparison of its own.
3. impl -> spec: the same pipe for random commands with larger values (deep criteria trees, long header
   lists, random byte payloads, random number sets, long strings).
4. CmdSpaceTrace (TLC) judges every record: the command is legal for the configuration, it completed OK
   (unless an argument is one the protocol need not carry: NUL, longer than the server's literal limit),
   and Norm(received calls) = Exp(cfg, sent command).
5. Binding demonstration: copies of accepted observations with one corrupted field are appended to the
   judged file; the judge must reject every one of them.
"""
import base64, json, os, time
import vlib

NCHUNKS = 64  # CmdSpaceTrace!NChunks


def run(ctx):
    quick = ctx.tier == "quick"
    walls, t = {}, time.time()

    def lap(name):
        nonlocal t
        walls[name] = round(time.time() - t, 1)
        t = time.time()

    # 1. model check of the specification's own properties + generation (one exploration)
    g = ctx.tlc_ok("CmdSpaceGen", "CmdSpaceGen_quick.cfg" if quick else "CmdSpaceGen_thorough.cfg",
                   timeout=1200, out_name="CmdSpaceGen.gen.out")
    ncases = vlib.count_lines(g.out_path, '<<"T"')
    if ncases == 0 or ncases != g.distinct - 8:
        # 8 = reachable configurations (states with no command in flight)
        raise vlib.Infra("generator printed %d cases, TLC found %d states" % (ncases, g.distinct))
    lap("model_check_and_generate")
    if not quick:
        # the same properties on the plain module (no generator), as a cross-check of the Gen configuration
        ctx.tlc_ok("CmdSpace", "CmdSpace_mc_thorough.cfg", timeout=1200, count=False)
        lap("model_check_plain")
    ctx.assumptions += [
        "test server capability sets: {IMAP4rev1}; {IMAP4rev1, IMAP4rev2, BINARY, CREATE-SPECIAL-USE}; {IMAP4rev1, LITERAL+, "
        "NAMESPACE, UIDPLUS, ESEARCH, SEARCHRES, LIST-EXTENDED, LIST-STATUS, MOVE, STATUS=SIZE, BINARY, CREATE-SPECIAL-USE}; "
        "the harness checks the real CAPABILITY response against CmdSpace!Adv in every configuration",
        "commands are issued over a plaintext in-memory connection with Options.InsecureAuth (TLS is C17's concern)",
        "arguments the protocol need not carry (a NUL, a string longer than the server's 4096-byte literal limit, bytes that "
        "are in no UTF-8 text) may be refused as a whole; they must never arrive altered",
        "not enumerated: mailbox names that are not valid UTF-8 (outside modified UTF-7's domain), the empty LIST pattern "
        "(delimiter request), several LIST patterns (Client.List takes one), Client.Move without MOVE (fallback sequence), "
        "number-set ranges outside imapnum.Range's documented representation, CONDSTORE/SPECIAL-USE/SORT/THREAD/METADATA/QUOTA "
        "(not advertised by imapserver)"]
    binp = ctx.build("cmdspace")
    lap("go_build")
    # 2. spec -> impl
    enum = os.path.join(ctx.scratch, "cmdspace-enum.ndjson")
    recs, _, _ = ctx.harness(binp, ["gen", g.out_path, enum], timeout=1200)
    s = ctx.summary(recs)
    if s["records"] != ncases:
        raise vlib.Infra("generator printed %d cases, harness recorded %d" % (ncases, s["records"]))
    os.unlink(g.out_path)
    # 3. impl -> spec: random, larger values
    rnd = os.path.join(ctx.scratch, "cmdspace-random.ndjson")
    nrand = 800 if quick else 12000
    recs, _, _ = ctx.harness(binp, ["random", rnd, "-seed", ctx.seed, "-n", nrand], timeout=1200)
    s2 = ctx.summary(recs)
    lap("real_code")
    # 4. TLC judges every record (enumerated and random in one run)
    #    The binding demonstration rides along: corrupted copies of recorded observations are appended
    #    after the real records; the judge must reject exactly those whose original it accepts.
    allp = os.path.join(ctx.scratch, "cmdspace-all.ndjson")
    lines = open(enum).read().splitlines() + open(rnd).read().splitlines()
    n1 = s["records"]
    n = len(lines)
    if n - n1 != s2["records"]:
        raise vlib.Infra("random mode recorded %d cases, file has %d" % (s2["records"], n - n1))
    muts = corruptions(lines[:n1])
    with open(allp, "w") as fh:
        fh.write("\n".join(lines) + "\n")
        for _, _, rec in muts:
            fh.write(json.dumps(rec) + "\n")
    ntot, bad_all = judge(ctx, allp, "all", parts=4)
    bad = [d for d in bad_all if d["line"] <= n]
    lap("judge")
    strings = json.load(open(rnd + ".strings"))
    sigs = {}
    for d in bad:
        rec = json.loads(lines[d["line"] - 1])
        sig = sig_for(rec, d)
        sigs[sig] = sigs.get(sig, 0) + 1
        replay = {"cfg": rec["cfg"], "cmd": rec["cmd"], "origin": "enumerated" if d["line"] <= n1 else "random"}
        need = {k: strings[k] for k in opaque_keys(rec["cmd"]) if k in strings}
        if need:
            replay["strings"] = need
        ctx.mismatch(sig, describe(rec, d), replay)
    accepted = n - len(bad)
    ctx.cov["traces_validated_against_impl"] += accepted
    ctx.cov["evaluations"] += n
    ctx.cov["distinct_nontrivial"] += s["nontrivial"] + s2["nontrivial"]
    for smp in (s.get("samples") or [])[:3] + (s2.get("samples") or [])[:1]:
        ctx.sample({"recorded": compact(smp)})
    # 5. binding demonstration
    demo = binding_verdict(muts, n, {d["line"] for d in bad_all})
    ctx.finish(rule="one case = one command instance issued through the real imapclient API in one configuration "
               "(server capability set x enabled extensions) against a real imapserver connection, what the stub "
               "backend session received recorded and judged by TLC with Norm(received) = Exp(cfg, sent); "
               "non-trivial = at least one backend call was made and the command carries arguments (record > 200 bytes); "
               "enumerated cases are distinct by construction (one per generated state), random ones by seed",
               extra={"binding_demo": demo, "phase_wall_s": walls, "mc_states": g.distinct,
                      "configurations": 8, "enumerated_cases": n1, "random_cases": n - n1,
                      "records_accepted": accepted, "records_rejected": len(bad),
                      "rejected_by_sig": sigs,
                      "completed_ok": s["completed_ok"] + s2["completed_ok"],
                      "refused_or_failed": s["not_ok"] + s2["not_ok"],
                      "raw_equal_to_prediction_without_norm": s["raw_equal_to_prediction"],
                      "per_command_enumerated": s["per_command"], "per_command_random": s2["per_command"],
                      "per_configuration_enumerated": s["per_configuration"]})


# ----------------------------------------------------------------- judging
def judge(ctx, path, name, timeout=1500, parts=1):
    """TLC (CmdSpaceTrace) judges every record of an ndjson file.
    Returns (number of records, list of diagnosis dicts of rejected records).
    TLC parses the trace file on one thread, so a large file is cut into `parts` pieces judged by
    concurrent TLC runs (line numbers are mapped back)."""
    lines = open(path).read().splitlines()
    n = len(lines)
    if parts <= 1 or n < 4 * parts:
        return n, judge_part(ctx, path, name, n, 0, 16, timeout)
    import threading
    size = (n + parts - 1) // parts
    results, errors, threads = {}, [], []

    def work(k, lo, hi):
        pp = "%s.part%d" % (path, k)
        with open(pp, "w") as fh:
            fh.write("\n".join(lines[lo:hi]) + "\n")
        try:
            results[k] = judge_part(ctx, pp, "%s.part%d" % (name, k), hi - lo, lo, max(2, 16 // parts), timeout)
        except Exception as e:  # re-raised in the main thread
            errors.append(e)
    for k in range(parts):
        lo, hi = k * size, min(n, (k + 1) * size)
        if lo < hi:
            th = threading.Thread(target=work, args=(k, lo, hi))
            th.start()
            threads.append(th)
    for th in threads:
        th.join()
    if errors:
        raise errors[0]
    bad = [d for k in sorted(results) for d in results[k]]
    bad.sort(key=lambda d: d["line"])
    return n, bad


def judge_part(ctx, path, name, n, offset, workers, timeout):
    r = ctx.tlc("CmdSpaceTrace", "CmdSpaceTrace.cfg", workers=workers, env={"TRACE_FILE": path},
                timeout=timeout, out_name="CmdSpaceTrace.%s.out" % name, count=False)
    if r.status != "ok":
        raise vlib.Infra("judge failed (%s): %s\n%s" % (r.status, r.cmd, r.detail or r.tail))
    if r.distinct != NCHUNKS + n:
        raise vlib.Infra("judge visited %d states, expected %d + %d records" % (r.distinct, NCHUNKS, n))
    bad = []
    with open(r.out_path, errors="replace") as fh:
        for line in fh:
            line = line.rstrip("\n")
            for pre in ('<<"BAD", "', '<<"ILLEGAL", "'):
                if line.startswith(pre) and line.endswith('">>'):
                    try:
                        d = json.loads(json.loads('"' + line[len(pre):-3] + '"'))
                    except ValueError as e:
                        raise vlib.Infra("unparsable judge line: %s (%s)" % (line[:300], e))
                    d["line"] += offset
                    if pre.startswith('<<"ILLEGAL'):
                        raise vlib.Infra("the harness issued a command that is not legal in its configuration "
                                         "(record %d): %s" % (d["line"], json.dumps(d["cmd"])[:600]))
                    bad.append(d)
    return bad


# ----------------------------------------------------------------- labels (signatures) and descriptions
def sdec(a):
    """abstract string -> python bytes / description"""
    if a and a[0] < 0:
        if a[0] == -2:
            return "%r*%d" % (bytes([a[1]]), a[2])
        if a[0] == -3:
            return "pattern(%d)" % a[1]
        return "opaque(len=%d,fp=%x%x)" % (a[1], a[2], a[3])
    return bytes(a)


def needs_utf7(a):
    """the string contains a byte that modified UTF-7 does not represent by itself"""
    if a and a[0] < 0:
        return a[0] != -2 or not (32 <= a[1] <= 126 and a[1] != 38)
    return any(b == 38 or b < 32 or b > 126 for b in a)


def instant_of_day(d):
    z = d[3]
    off = (z - 100000) if z >= 100000 else (z + 100000) if z <= -100000 else z * 60
    return d[1] * 86400 + d[2] - off


def on_fold_nodes(k):
    """criteria nodes whose SINCE/BEFORE (or SENT...) are 24 h apart as instants but not one calendar day apart"""
    out = []
    for a, b in (("since", "before"), ("sentsince", "sentbefore")):
        x, y = k[a], k[b]
        if x[0] == 1 and y[0] == 1 and instant_of_day(y) - instant_of_day(x) == 86400 and y[1] - x[1] != 1:
            out.append(a)
    for sub in k["not"]:
        out += on_fold_nodes(sub)
    for p in k["or"]:
        out += on_fold_nodes(p[0]) + on_fold_nodes(p[1])
    return out


def crit_diff(e, g, path=""):
    """leaf field names in which two (normalised) criteria differ"""
    out = set()
    if set(e) != set(g):
        return {"shape"}
    for f in e:
        if e[f] == g[f]:
            continue
        if f == "not" and len(e[f]) == len(g[f]):
            for x, y in zip(e[f], g[f]):
                out |= crit_diff(x, y)
        elif f == "or" and len(e[f]) == len(g[f]):
            for x, y in zip(e[f], g[f]):
                out |= crit_diff(x[0], y[0]) | crit_diff(x[1], y[1])
        else:
            out.add(f)
    return out


def sig_for(rec, d):
    cmd = rec["cmd"]
    c = cmd["c"].lower()
    diff = sorted(d["diff"])
    ok = rec["ok"]
    err = rec.get("err", "")
    if c == "list" and needs_utf7(cmd["pats"][0]) and ((not ok and "SERVERBUG" in err) or (ok and diff == ["pats"])):
        return "list/pattern-not-utf7"
    if ok and c == "search" and diff == ["sret"]:
        e, g = d["exp"][0]["sret"], d["got"][0]["sret"]
        if e["save"] and not g["save"]:
            rest_same = all(e[k] == g[k] for k in ("min", "max", "count")) and \
                (e["all"] == g["all"] or not (e["min"] or e["max"] or e["count"] or e["all"]))
            if rest_same:
                return "search/return-save-dropped"
        if e["save"] and g["save"] and g["all"] and not (e["min"] or e["max"] or e["count"] or e["all"]) \
                and not (g["min"] or g["max"] or g["count"]):
            return "search/save-only-gets-all"
    if ok and c == "search" and diff == ["crit"]:
        leaves = crit_diff(d["exp"][0]["crit"], d["got"][0]["crit"])
        if leaves and leaves <= {"since", "before", "sentsince", "sentbefore"} and on_fold_nodes(cmd["crit"]):
            return "search/on-fold-mixed-zones"
        return "search/altered:crit:" + "+".join(sorted(leaves))
    if ok and c == "append" and diff == ["date"] and abs(cmd["date"]["zone"]) >= 100000:
        return "append/date-zone-seconds"
    if not ok:
        kind = "timeout" if err.startswith("timeout") else " ".join(err.replace("imap: ", "").split()[:2]) or "error"
        return "%s/refused:%s" % (c, kind.replace(" ", "_"))
    return "%s/altered:%s" % (c, "+".join(diff))


def show(v, depth=0):
    """compact human-readable rendering of an abstract value"""
    if isinstance(v, list):
        if v and all(isinstance(x, int) for x in v) and (v[0] < 0 or all(0 <= x <= 255 for x in v)) and depth > 0:
            return repr(sdec(v))
        return "[" + ", ".join(show(x, depth + 1) for x in v) + "]"
    if isinstance(v, dict):
        items = []
        for k in sorted(v):
            x = v[k]
            if x in ([], False, 0, [0, 0, 0, 0]) and k not in ("c",):
                continue
            items.append("%s=%s" % (k, x if k in ("c", "op", "bs", "spec") else show(x, depth + 1)))
        return "{" + " ".join(items) + "}"
    return json.dumps(v)


def describe(rec, d):
    cfg = rec["cfg"]
    where = "server caps %s, enabled:%s%s" % (cfg["caps"], " UTF8=ACCEPT" if cfg["utf8"] else "", " IMAP4rev2" if cfg["rev2"] else "") \
        + ("" if cfg["utf8"] or cfg["rev2"] else " none")
    if not rec["ok"]:
        out = "client call %s [%s] failed: %s; backend received %s; the arguments are legal for this configuration" % (
            show(rec["cmd"]), where, rec.get("err", "?"), show(rec["recv"]) if rec["recv"] else "nothing")
    else:
        out = "client call %s [%s] completed OK but the backend received %s; expected (normal form) %s; differing: %s" % (
            show(rec["cmd"]), where, show(d["got"]), show(d["exp"]), ",".join(sorted(d["diff"])))
    return out[:1800]


def compact(smp):
    return {"cfg": smp.get("cfg"), "cmd": show(smp.get("cmd"))[:400], "ok": smp.get("ok"), "recv": show(smp.get("recv"))[:400]}


def opaque_keys(v):
    out = []
    if isinstance(v, list):
        if len(v) == 5 and all(isinstance(x, int) for x in v) and v[0] == -1:
            out.append("[" + " ".join(str(x) for x in v) + "]")
        else:
            for x in v:
                out += opaque_keys(x)
    elif isinstance(v, dict):
        for x in v.values():
            out += opaque_keys(x)
    return out


# ----------------------------------------------------------------- binding demonstration
def corruptions(lines):
    """corrupt what the backend received in copies of recorded observations (a flipped .SILENT, one changed
    byte of a mailbox name, a dropped header field, a date one day off, a payload one byte longer, a
    password replaced).  Returns [(label, line number of the original, corrupted record)]."""
    muts = []

    def want(pred, mutate, label):
        for i, line in enumerate(lines):
            rec = json.loads(line)
            if rec["ok"] and rec["recv"] and pred(rec):
                mutate(rec)
                rec.pop("err", None)
                muts.append((label, i + 1, rec))
                return
    want(lambda r: r["cmd"]["c"] == "STORE", lambda r: r["recv"][0].__setitem__("silent", not r["recv"][0]["silent"]), "STORE .SILENT flipped")
    want(lambda r: r["cmd"]["c"] == "RENAME" and len(r["recv"][0]["to"]) > 1 and r["recv"][0]["to"][0] > 0,
         lambda r: r["recv"][0]["to"].__setitem__(0, r["recv"][0]["to"][0] ^ 1), "RENAME new name, one byte changed")
    want(lambda r: r["cmd"]["c"] == "FETCH" and any(len(s["hf"]) > 1 for s in r["recv"][0]["secs"]),
         lambda r: [s["hf"].pop() for s in r["recv"][0]["secs"] if len(s["hf"]) > 1], "FETCH HEADER.FIELDS last field dropped")
    want(lambda r: r["cmd"]["c"] == "SEARCH" and r["recv"][0]["crit"]["since"][0] == 1 and r["recv"][0]["crit"]["before"][0] == 0,
         lambda r: r["recv"][0]["crit"]["since"].__setitem__(1, r["recv"][0]["crit"]["since"][1] + 1), "SEARCH SINCE one day later")
    want(lambda r: r["cmd"]["c"] == "APPEND" and r["recv"][0]["data"] and r["recv"][0]["data"][0] > 0 and r["cmd"]["date"]["zone"] < 100000,
         lambda r: r["recv"][0]["data"].append(10), "APPEND payload one byte longer")
    want(lambda r: r["cmd"]["c"] == "LOGIN" and r["recv"][0]["pass"] != r["recv"][0]["user"],
         lambda r: r["recv"][0].__setitem__("pass", r["recv"][0]["user"]), "LOGIN password replaced by user name")
    return muts


def binding_verdict(muts, n, bad_lines):
    """corrupted record k is line n+k; it demonstrates binding iff its original was accepted and it was rejected"""
    shown, missed = [], []
    for k, (label, orig, _) in enumerate(muts):
        if orig in bad_lines:
            continue  # the original observation is itself rejected (a finding): nothing to demonstrate with it
        (shown if (n + k + 1) in bad_lines else missed).append(label)
    if missed:
        raise vlib.Infra("binding demonstration failed: corrupted observations accepted by the judge: %s" % "; ".join(missed))
    if len(shown) < 4:
        raise vlib.Infra("binding demonstration: only %d suitable records" % len(shown))
    return "%d corrupted copies of accepted observations (%s) all rejected by CmdSpaceTrace" % (len(shown), "; ".join(shown))


# ----------------------------------------------------------------- replay
def replay(ctx, path):
    data = json.load(open(path))
    rp = data.get("replay") or {}
    p = os.path.join(ctx.scratch, "case.json")
    json.dump({"cfg": rp["cfg"], "cmd": rp["cmd"], "strings": rp.get("strings", {})}, open(p, "w"))
    binp = ctx.build("cmdspace")
    outp = os.path.join(ctx.scratch, "one.ndjson")
    recs, _, _ = ctx.harness(binp, ["one", p, outp])
    ctx.summary(recs)
    n, bad = judge(ctx, outp, "one")
    rec = json.loads(open(outp).read().splitlines()[0])
    if bad:
        print("REPRODUCED sig=%s %s" % (sig_for(rec, bad[0]), describe(rec, bad[0])[:1500]))
    else:
        print("not reproduced on the working tree: %s -> ok=%s recv=%s" % (show(rec["cmd"])[:300], rec["ok"], show(rec["recv"])[:600]))
