"""C16 - modified UTF-7 mailbox-name encoding (spec/Utf7.tla).

1. TLC model-checks the reference functions on the bounded input space (Utf7_mc*.cfg:
   Decode(Encode(s)) = s, Encode(s) printable ASCII and canonical, MustAccept / MustReject
   disjoint, MustAccept = image of Encode) and the streaming-transformer machine under every
   buffer schedule (Utf7_mc_stream*.cfg: schedule independence, output only grows, termination).
2. Utf7Gen prints one vector per input of the bounded space with the predicted encoding /
   verdict; the harness runs go-imap's real internal/utf7 on every vector, one-shot (the call
   imapwire and imapserver make) and through explicit Transform calls under 40 buffer
   schedules (dst 1,2,3,4,8 x source chunk 1,2,3,all x EOF with / after the last bytes).
3. A random driver (any code point, <= 40 symbols, random shift sequences, mutated real
   encodings, random schedules) records what the real code returns; Utf7Trace re-evaluates
   every record.  Strings up to 200 code points go through a real round trip only (exploration).

internal/utf7 cannot be imported from the harness module, so the check adds one file to the
go-imap module at build time with `go build -overlay` (package verifutf7, see
harness/cmd/utf7/testdata/verifutf7/shim.go); nothing is written into the repository.
"""
import json, os, re
import vlib

SHIM = os.path.join(vlib.VERIF, "harness", "cmd", "utf7", "testdata", "verifutf7", "shim.go")
LISTED = ["outside", "unterminated", "backtoback", "hidden", "odd", "surrogate", "alphabet", "empty"]


def overlay(ctx):
    target_dir = os.path.join(vlib.REPO, "verifutf7")
    if os.path.exists(target_dir):
        raise vlib.Infra("%s exists in the repository; the overlay package name is taken" % target_dir)
    p = os.path.join(ctx.scratch, "utf7-overlay.json")
    with open(p, "w") as fh:
        json.dump({"Replace": {os.path.join(target_dir, "shim.go"): SHIM}}, fh)
    return p


def build(ctx):
    return ctx.build("utf7", tags="verif,c16shim", overlay=overlay(ctx))


def class_counts(path):
    """verdict classes of the T lines of a TLC output file"""
    out = {}
    rx = re.compile(r'\\"v\\":\\"(\w+)\\"')
    rw = re.compile(r'\\"why\\":\\"(\w*)\\"')
    with open(path, errors="replace") as fh:
        for line in fh:
            if not line.startswith('<<"T"'):
                continue
            m = rx.search(line)
            if not m:
                key = "enc"
            else:
                w = rw.search(line)
                key = m.group(1) + ("/" + w.group(1) if w and m.group(1) == "reject" else "")
            out[key] = out.get(key, 0) + 1
    return out


def run(ctx):
    quick = ctx.tier == "quick"
    # 1. design level
    r1 = ctx.tlc_ok("Utf7", "Utf7_mc.cfg" if quick else "Utf7_mc_thorough.cfg", timeout=1500)
    r2 = ctx.tlc_ok("Utf7", "Utf7_mc_stream.cfg" if quick else "Utf7_mc_stream_thorough.cfg", timeout=1500,
                    out_name="Utf7.stream.out")
    # 2. spec -> impl
    g = ctx.tlc("Utf7Gen", "Utf7Gen_quick.cfg" if quick else "Utf7Gen_thorough.cfg", workers=8 if quick else 16,
                timeout=1800, count=False)
    if g.status != "ok":
        raise vlib.Infra("generator failed: %s\n%s" % (g.cmd, g.detail or g.tail))
    classes = class_counts(g.out_path)
    missing = [c for c in ["enc", "accept", "unspec"] + ["reject/" + w for w in LISTED] if not classes.get(c)]
    if missing:
        raise vlib.Infra("vacuous generator: no vector of class %s" % missing)
    binp = build(ctx)
    recs, _, _ = ctx.harness(binp, ["replay", g.out_path], timeout=1800)
    s = ctx.summary(recs)
    ctx.take_mismatches(recs)
    nvec = sum(classes.values())
    if s["behaviours"] != nvec or nvec == 0:
        raise vlib.Infra("harness replayed %d vectors, generator printed %d" % (s["behaviours"], nvec))
    ctx.cov["traces_validated_against_impl"] += s["behaviours"]
    ctx.cov["evaluations"] += s["steps"]
    ctx.cov["distinct_nontrivial"] += s["nontrivial"]
    for smp in s.get("samples") or []:
        ctx.sample({"replayed_vector": smp})
    # 3. impl -> spec
    tr = os.path.join(ctx.scratch, "utf7.ndjson")
    nrec, nlong = (400, 300) if quick else (1500, 3000)
    recs, _, _ = ctx.harness(binp, ["random", tr, "-seed", ctx.seed, "-n", nrec, "-maxlen", 40,
                                    "-long", nlong, "-longlen", 200], timeout=900)
    s2 = ctx.summary(recs)
    ctx.take_mismatches(recs)      # only explore/long-roundtrip (real round trip of long strings) comes from here
    accepted, tclasses, by_line, rejections = validate(ctx, tr)
    ctx.cov["evaluations"] += s2["steps"]
    ctx.cov["traces_validated_against_impl"] += accepted
    for at, rec, says in rejections:
        ctx.mismatch(trace_sig(rec, says),
                     "Utf7Trace rejects what the real code returned (record %s): %s; the specification says %s"
                     % (at, json.dumps(rec), says), {"kind": "trace", "record": rec})
    demo = "skipped (recorded trace itself rejected)"
    if not rejections:
        demo = binding_demo(ctx, tr, by_line)
        with open(tr) as fh:
            ctx.sample({"recorded": [json.loads(next(fh)) for _ in range(2)]})
    ctx.finish(rule="behaviour = one input of the bounded space (encoder: code-point string, decoder: byte string or "
               "token string) run one-shot and under all 40 buffer schedules, or one recorded random input; "
               "non-trivial = encoder input with a code point that cannot stand for itself, decoder input with at "
               "least one '&'; distinct by construction (enumeration without repetition)",
               extra={"binding_demo": demo, "mc_fn_states": r1.distinct, "mc_stream_states": r2.distinct,
                      "mc_stream_transitions": r2.generated, "gen_vectors": nvec, "gen_classes": classes,
                      "schedules_per_vector": s.get("schedules_per_vector"),
                      "trace_records": s2["records"], "trace_classes": tclasses,
                      "exploration_long_roundtrips": s2["long_roundtrips"],
                      "exploration_note": "strings of up to 200 code points: real Decode(real Encode(s)) = s, one-shot "
                                          "and under all 40 schedules, compared in Go only (not re-evaluated by TLC)"})


def trace_sig(rec, says):
    if not isinstance(rec, dict):
        return "trace-rejected"
    if rec.get("k") == "enc":
        return "trace/enc"
    try:
        v = json.loads(says)
        return "trace/dec/%s/%s" % (v[1], v[2])
    except Exception:
        return "trace/dec"


def validate(ctx, tr):
    """Validate the recorded file; after a rejected record go on with the rest (at most 5 rejections).
    Returns (records accepted, class counts, class per line, [(line, record, spec verdict)])."""
    lines = open(tr).read().splitlines()
    off, accepted, classes, by_line, rej = 0, 0, {}, {}, []
    while off < len(lines) and len(rej) < 5:
        p = tr if off == 0 else os.path.join(ctx.scratch, "utf7-rest-%d.ndjson" % off)
        if off:
            open(p, "w").write("\n".join(lines[off:]) + "\n")
        ok, at, rec, res = ctx.validate_trace("Utf7Trace", "Utf7Trace.cfg", p, timeout=1500)
        txt = open(res.out_path, errors="replace").read()
        for m in re.finditer(r'<<"T", "(.*)">>', txt):
            try:
                c = json.loads(json.loads('"' + m.group(1) + '"'))
            except ValueError:
                continue
            key = c["v"] + ("/" + c["why"] if c["v"] == "reject" else "")
            classes[key] = classes.get(key, 0) + 1
            by_line[off + c["l"]] = key
        if ok:
            accepted += len(lines) - off
            break
        if at is None:
            raise vlib.Infra("trace validation failed without a rejected record:\n%s" % (rec,))
        m = re.search(r'<<"SPEC_SAYS", "(.*)">>', txt)
        says = json.loads('"' + m.group(1) + '"') if m else "?"
        if isinstance(rec, str):
            try:
                rec = json.loads(rec)
            except ValueError:
                pass
        rej.append((off + at, rec, says))
        accepted += at - 1
        off += at
    return accepted, classes, by_line, rej


def binding_demo(ctx, tr, by_line):
    """corrupt one recorded field; Utf7Trace must reject exactly that record"""
    lines = open(tr).read().splitlines()
    done = []
    # (a) a must-reject input recorded as accepted
    for i, line in enumerate(lines[:200]):
        rec = json.loads(line)
        if rec["k"] == "dec" and by_line.get(i + 1, "").startswith("reject/"):
            rec["ok"], rec["sst"] = True, "ok"
            done.append(("must-reject input (%s) recorded as accepted" % by_line[i + 1], i, rec))
            break
    # (b) one byte of a recorded encoding changed
    for i, line in enumerate(lines[:200]):
        rec = json.loads(line)
        if rec["k"] == "enc" and len(rec["out"]) > 2:
            rec["out"][len(rec["out"]) // 2] ^= 1
            done.append(("one byte of a recorded encoding flipped", i, rec))
            break
    if len(done) < 2:
        raise vlib.Infra("binding demonstration: no suitable record")
    if ctx.tier == "quick":
        done = done[:1]
    msgs = []
    for what, i, rec in done:
        p = os.path.join(ctx.scratch, "corrupt-%d.ndjson" % i)
        open(p, "w").write("\n".join(lines[:i] + [json.dumps(rec)] + lines[i + 1:i + 3]) + "\n")
        ok, at, _, _ = ctx.validate_trace("Utf7Trace", "Utf7Trace.cfg", p)
        if ok or at != i + 1:
            raise vlib.Infra("binding demonstration failed: %s at record %d not rejected (ok=%s at=%s)" % (what, i + 1, ok, at))
        msgs.append("%s: record %d rejected at record %d" % (what, i + 1, at))
    return "; ".join(msgs)


def replay(ctx, path):
    data = json.load(open(path))
    rp = data.get("replay") or {}
    if rp.get("kind") == "trace":
        p = os.path.join(ctx.scratch, "replay.ndjson")
        open(p, "w").write(json.dumps(rp["record"]) + "\n")
        ok, at, rec, _ = ctx.validate_trace("Utf7Trace", "Utf7Trace.cfg", p)
        print("recorded result %s by Utf7Trace" % ("accepted" if ok else "REJECTED"))
        # and the same input against the working tree
        r = rp["record"]
        vec = {"k": "enc", "s": r["s"], "out": []} if r.get("k") == "enc" else None
        if vec is None:
            print("(re-run the check to re-record this input against the working tree)")
            return
        rp = {"vector": vec}
    if rp.get("vector", {}).get("k") == "enc" and not rp["vector"].get("out"):
        # long / recorded string without a predicted encoding: let TLC predict it
        rp["vector"]["out"] = predict_encoding(ctx, rp["vector"]["s"])
    p = os.path.join(ctx.scratch, "vector.json")
    json.dump(rp, open(p, "w"))
    binp = build(ctx)
    recs, _, _ = ctx.harness(binp, ["one", p])
    hit = False
    for r in recs:
        if r.get("kind") == "mismatch":
            print("REPRODUCED sig=%s %s" % (r["sig"], r["detail"]))
            hit = True
    if not hit:
        print("not reproduced on the working tree")


def predict_encoding(ctx, cps):
    """Encode(s) according to the specification, via a one-record trace whose rejection prints it"""
    p = os.path.join(ctx.scratch, "predict.ndjson")
    rec = dict(k="enc", s=cps, b=[], ok=False, panic=False, out=[], valid=True, backok=False, back=[],
               sched=dict(d=1, c=1, late=False), sst="ok", sout=[])
    open(p, "w").write(json.dumps(rec) + "\n")
    ok, at, _, res = ctx.validate_trace("Utf7Trace", "Utf7Trace.cfg", p)
    m = re.search(r'<<"SPEC_SAYS", "(.*)">>', open(res.out_path, errors="replace").read())
    if not m:
        raise vlib.Infra("could not obtain the predicted encoding")
    return json.loads(json.loads('"' + m.group(1) + '"'))[1]
