"""C10 — every client call terminates under connection faults (spec/ClientFault.tla).

1. TLC model-checks ClientFault with fairness: success only with the completion fully delivered
   (safety) and, after any fault (EOF, read error, failing writes, stall followed by the client's own
   timeout or by Close), every issued call returns, Close returns and the reader exits (liveness).
2. Crash points: three session scripts covering every kind of blocking call (Wait; streaming Collect with
   body literals; STORE/EXPUNGE streams; APPEND with continuation request; AUTHENTICATE exchange; IDLE;
   three pipelined commands answered out of order; LOGOUT) are run against a scripted server whose reply
   stream is cut at EVERY byte offset with each of the four faults (quick: every 3rd offset plus all
   completion boundaries); deadlines are emulated in virtual time.  Per run the harness records which calls
   returned and how and whether Close returned; ClientFaultTrace judges every run.
"""
import json, os
import vlib


def run(ctx):
    quick = ctx.tier == "quick"
    r = ctx.tlc_ok("ClientFault", "ClientFault_mc.cfg", timeout=600)
    # the same design with a caller that never closes the client: a stall inside a response still ends
    ctx.tlc_ok("ClientFault", "ClientFault_noclose.cfg", timeout=600)
    binp = ctx.build("clientfault")
    tr = os.path.join(ctx.scratch, "fault.ndjson")
    recs, _, _ = ctx.harness(binp, ["run", tr, "-stride", 3 if quick else 1, "-seed", ctx.seed], timeout=2400)
    s = ctx.summary(recs)
    ctx.take_mismatches(recs)
    if s.get("dry_run_failures"):
        # a script that fails without any fault cannot be cut: termination holds there (no verdict), but the enumeration is
        # incomplete - an infrastructure failure unless the other scripts have shown a violation
        if not ctx.violations and not ctx.known_hits:
            raise vlib.Infra("scripts unusable (their calls fail without any fault): %s" % s["dry_run_failures"])
        ctx.notes.append("scripts left out of the fault enumeration (calls fail without any fault): %s" % s["dry_run_failures"])
    # runs that exhibit exactly a listed known finding are reported above (KNOWN-FINDING) and left out of the
    # trace handed to TLC, so that every other run is still judged
    known = {k["sig"] for k in ctx.known}
    kept, dropped = [], 0
    run_lines = []
    def flush():
        nonlocal dropped
        if not run_lines:
            return
        head = json.loads(run_lines[0])
        lf = any(json.loads(x).get("ev") == "Ret" and json.loads(x)["res"] == "ok"
                 and head["cut"] == head["end"][json.loads(x)["i"] - 1] - 1 for x in run_lines[1:])
        if lf and "success-before-lf" in known:
            dropped += 1
        else:
            kept.extend(run_lines)
    for line in open(tr):
        if '"ev":"Run"' in line and run_lines:
            flush()
            run_lines = []
        run_lines.append(line)
    flush()
    tr2 = os.path.join(ctx.scratch, "fault-judged.ndjson")
    open(tr2, "w").writelines(kept)
    ok, at, rec, _ = ctx.validate_trace("ClientFaultTrace", "ClientFaultTrace.cfg", tr2, timeout=1800)
    demo = "skipped"
    if ok:
        ctx.cov["traces_validated_against_impl"] += s["behaviours"] - dropped
        ctx.cov["evaluations"] += s["records"]
        ctx.cov["distinct_nontrivial"] += s["nontrivial"]
        for smp in (s.get("samples") or [])[:2]:
            ctx.sample(smp)
        def mut(rec):
            rec["res"] = "ok"
        demo = vlib.corrupt_demo(ctx, tr2, "ClientFaultTrace", "ClientFaultTrace.cfg",
                                 lambda rec: rec.get("ev") == "Ret" and rec["res"] == "err", mut, keep_after=12)
    else:
        ctx.mismatch("trace-rejected", "ClientFaultTrace rejects a recorded run at record %s: %s" % (at, str(rec)[:800]),
                     {"kind": "trace", "prefix": vlib.trace_prefix(tr2, at, '"Run"')})
    ctx.assumptions += ["deadlines are virtual: once the connection has stalled and the client has come to rest (its reader blocked "
                        "in Read, the deadline untouched for 0.4 ms) the clock jumps past every timeout: a read blocked with a "
                        "deadline armed fails; where the client has no deadline (between responses) the caller calls Close 40 ms later; "
                        "a stall inside a response must end without that Close (waited for up to 2 s)",
                        "'does not return' = 4 s of wall time", "STARTTLS transcripts are not part of the corpus (C17 covers the upgrade)"]
    ctx.finish(rule="run = (session script, byte offset of the server's reply stream, fault kind); non-trivial = at least two calls "
               "returned before the end of the run; all (script, offset, fault) triples are distinct",
               extra={"binding_demo": demo, "mc_states": r.distinct, "runs": s["behaviours"], "runs_left_to_known_finding": dropped,
                      "layouts": s.get("layouts")})


def replay(ctx, path):
    data = json.load(open(path))
    rp = data.get("replay")
    if isinstance(rp, dict) and rp.get("kind") == "trace":
        return vlib.replay_generic(ctx, path, "clientfault", "ClientFaultTrace", "ClientFaultTrace.cfg")
    p = os.path.join(ctx.scratch, "case.json")
    json.dump(rp, open(p, "w"))
    binp = ctx.build("clientfault")
    tr = os.path.join(ctx.scratch, "one.ndjson")
    recs, _, _ = ctx.harness(binp, ["one", p, tr])
    for r in recs:
        if r.get("kind") == "mismatch":
            print("REPRODUCED sig=%s %s" % (r["sig"], r["detail"][:600]))
            return
    print("not reproduced on the working tree")
