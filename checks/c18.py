"""C18 — client emits only advertised syntax and respects literal synchronisation (spec/ClientLit.tla).

1. TLC model-checks the handshake machine (payload only after the continuation request, never after a
   refusal, a refusal is local to its command, every run ends usable).
2. ClientLitGen enumerates configuration (LITERAL-, LITERAL+, IMAP4rev2, UTF8=ACCEPT advertised / enabled) x command
   (LOGIN, SEARCH BODY, CREATE, RENAME, LIST, STATUS, APPEND) x argument class (plain, SP, quotes, CR/LF/NUL,
   8-bit, empty, 4097 octets, long with CR/LF, long 8-bit; APPEND sizes 10/4096/4097) x server reaction to a
   synchronising literal (continuation request after a grace period / tagged refusal).  A real client is
   driven against a scripted server that records every argument token's representation and the exact
   order of events; ClientLitTrace judges legality of every token for the advertised capabilities and
   the handshake order.  Random configurations / byte strings / lengths around 4096 are judged the same way.
"""
import os
import vlib


def run(ctx):
    quick = ctx.tier == "quick"
    r = ctx.tlc_ok("ClientLit", "ClientLit_mc.cfg", timeout=300)
    binp = ctx.build("clientlit")
    g = ctx.tlc("ClientLitGen", "ClientLitGen.cfg", timeout=300, count=False, workers=4)
    if g.status != "ok":
        raise vlib.Infra("generator failed: %s" % (g.detail or g.tail))
    accepted = None
    for name, args in (("cases", ["run", g.out_path]), ("random", ["random", "%d:%d" % (1500 if quick else 30000, ctx.seed)])):
        tr = os.path.join(ctx.scratch, "clientlit-%s.ndjson" % name)
        recs, _, _ = ctx.harness(binp, args + [tr], timeout=1500)
        s = ctx.summary(recs)
        ctx.take_mismatches(recs)
        ok, at, rec, _ = ctx.validate_trace("ClientLitTrace", "ClientLitTrace.cfg", tr, timeout=1500)
        if ok:
            ctx.cov["traces_validated_against_impl"] += s["behaviours"]
            ctx.cov["evaluations"] += s["records"]
            ctx.cov["distinct_nontrivial"] += s["nontrivial"]
            for smp in (s.get("samples") or [])[:1]:
                ctx.sample({"events_of_one_case": smp})
            accepted = accepted or tr
        else:
            ctx.mismatch("trace-rejected", "ClientLitTrace rejects the recorded client output at record %s: %s" % (at, str(rec)[:1200]),
                         {"kind": "trace", "prefix": vlib.trace_prefix(tr, at, '"Case"')})
    demo = "skipped"
    if accepted:
        def mut(rec):
            rec["tokens"][0]["ctl"] = True
        demo = vlib.corrupt_demo(ctx, accepted, "ClientLitTrace", "ClientLitTrace.cfg",
                                 lambda rec: rec.get("ev") == "Send" and rec["tokens"] and rec["tokens"][0]["rep"] == "quoted", mut)
    ctx.assumptions += ["'no payload before the continuation request' is observed by holding the request back for 25 ms: "
                        "a violation can be missed on a very slow machine, never falsely reported",
                        "argument fidelity (what the bytes mean) is C02's matter; here only representation and ordering"]
    ctx.finish(rule="case = (capabilities, command, argument class or random bytes, reaction); non-trivial = the client chose a "
               "synchronising literal (handshake exercised); every enumerated case is distinct",
               extra={"binding_demo": demo, "mc_states": r.distinct, "cases": g.generated})


def replay(ctx, path):
    import json
    data = json.load(open(path))
    rp = data.get("replay")
    if isinstance(rp, dict) and rp.get("kind") == "trace":
        return vlib.replay_generic(ctx, path, "clientlit", "ClientLitTrace", "ClientLitTrace.cfg")
    p = os.path.join(ctx.scratch, "case.json")
    json.dump(rp, open(p, "w"))
    binp = ctx.build("clientlit")
    tr = os.path.join(ctx.scratch, "one.ndjson")
    recs, _, _ = ctx.harness(binp, ["one", p, tr])
    for r in recs:
        if r.get("kind") == "mismatch":
            print("REPRODUCED sig=%s %s" % (r["sig"], r["detail"][:800]))
            return
    ok, at, rec, _ = ctx.validate_trace("ClientLitTrace", "ClientLitTrace.cfg", tr)
    print("not reproduced on the working tree" if ok else "REPRODUCED: trace rejected at %s: %s" % (at, rec))
