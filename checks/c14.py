"""C14 — concurrent sessions on shared mailboxes never deadlock or race (spec/Locks.tla, spec/LocksTrace.tla).

0. Self-test of the checker: Locks.tla on a hand-written template file (classic AB/BA inversion, a
   reader/writer inversion, a self-deadlock, harmless pairs) must report exactly the expected stuck states.
1. Lock instrumentation generated from the WORKING TREE: harness/cmd/lockoverlay rewrites (go/ast) every
   sync.Mutex / RWMutex Lock/Unlock/RLock/RUnlock of imapserver and imapserver/imapmemserver into calls of a
   reporting wrapper; the rewritten files and the hook file are injected with `go build -overlay`
   (nothing is written into the repository).
2. Template mining (harness/cmd/locks mine): every command kind is run alone on a real server with the
   in-memory backend, in every world (= selected mailbox per session, 2..3 sessions, thorough 4, 3 mailboxes,
   up to renaming), and its acquire/release sequence over named locks (user, mbox[X], trk[X], st[i], cm[i],
   enc[i], srv, mem) is recorded -> templates.ndjson / model.ndjson / edges.ndjson.
3. TLC (Locks_mc.cfg) explores every interleaving of every combination of mined templates (one command per
   session) and prints every STUCK state (some command unfinished, nobody can step) with the schedule
   reaching it, plus one complete schedule per scenario; Termination (<>AllDone under weak fairness,
   Locks_live.cfg) is checked when no stuck state exists.
4. spec -> impl: every distinct kind of stuck state (signature = lock classes + waiting function of the
   wait cycle) is RE-ENACTED on the real server in a child process, the lock wrapper gating the goroutines
   into TLC's schedule; it is a finding only if the commands then really never complete and the goroutine
   dump shows them inside sync.(*Mutex).Lock for the predicted lock at the predicted source line.  A
   counterexample that cannot be reproduced is exit 2.  Complete schedules are re-enacted too (the real
   server must be able to follow what the model allows; divergences caused by the commands changing each
   other's data are counted, not judged).  All re-enactments run under the race detector.
5. impl -> spec: a stress driver (2..8 sessions, random histories over 3 shared + 3 scratch mailboxes)
   records all lock operations; LocksTrace.tla accepts the log iff mutual exclusion holds, nothing is held
   across commands and every acquisition context was mined (otherwise: model incomplete, exit 2).  A stall
   is classified from what the blocked goroutines hold and want (same signature as the TLC finding).
6. Data races: the stress driver runs again under `-race` with a hook that keeps only goroutine-local
   bookkeeping (so it adds no happens-before edges); a report whose accessing frame is in go-imap's
   imapserver packages is a violation `data-race/<frames>`.  The race detector is the oracle for "no data
   race"; TLC and the stress driver supply the schedules.
7. Binding demonstration: a corrupted release record must be rejected by LocksTrace at that record, a
   corrupted lock class must be flagged as an unknown acquisition context.
"""
import json, os, re, subprocess, time
from concurrent.futures import ThreadPoolExecutor
import vlib

KNOWN_ORDERED_HINT = "deadlock/"


def hrun(ctx, binp, args, timeout=900, what=""):
    recs, rc, err = ctx.harness(binp, args, timeout=timeout, allow_fail=True)
    if rc != 0:
        # what the harness had established before it gave up still counts (e.g. a server panic that explains why
        # commands stopped completing)
        take(ctx, [r for r in recs if r.get("kind") == "mismatch"])
        raise vlib.Infra("%s: harness exited %d: %s" % (what or args[0], rc, err[-1500:]))
    s = ctx.summary(recs)
    mism = [r for r in recs if r.get("kind") == "mismatch"]
    return s, mism


def build_all(ctx, race=True):
    lo = ctx.build("lockoverlay", tags="")
    ovdir = os.path.join(ctx.scratch, "lockov")
    recs, rc, err = ctx.harness(lo, [vlib.REPO, ovdir], allow_fail=True)
    if rc != 0:
        raise vlib.Infra("lockoverlay could not instrument the working tree (a lock construct it does not "
                         "understand means the mined model would be incomplete): %s" % err[-1500:])
    s = ctx.summary(recs)
    if s.get("sites", 0) < 10:
        raise vlib.Infra("lockoverlay found only %s lock sites" % s.get("sites"))
    ov = s["overlay"]
    with ThreadPoolExecutor(2) as ex:
        f1 = ex.submit(ctx.build, "locks", False, "verif,veriflock", ov)
        f2 = ex.submit(ctx.build, "locks", True, "verif,veriflock", ov) if race else None
        plain = f1.result()
        rbin = f2.result() if f2 else None
    return plain, rbin, s


def selftest(ctx):
    d = ctx.specdir()
    r = ctx.tlc("Locks", "Locks_mc.cfg", workers=2, env={"TEMPLATES_FILE": os.path.join(d, "Locks_selftest.ndjson")},
                out_name="Locks.selftest.out", count=False, timeout=300)
    if r.status != "ok":
        raise vlib.Infra("Locks.tla self-test failed: %s\n%s" % (r.cmd, r.detail or r.tail))
    got = set()
    for line in open(r.out_path, errors="replace"):
        if line.startswith('<<"T"'):
            st = json.loads(json.loads(line[len('<<"T", '):line.rindex(">>")]))
            if st["kind"] == "stuck":
                got.add(tuple(st["lab"]))
    want = {(1, 2), (5, 7), (8, 9)}
    if got != want:
        raise vlib.Infra("Locks.tla self-test: stuck scenarios %s, expected %s" % (sorted(got), sorted(want)))
    return "self-test: exactly the 3 planted deadlocks (AB/BA, reader/writer, self) found among 12 scenarios"


def model_check(ctx, model, lo, hi, name, done=True, timeout=1500):
    env = {"TEMPLATES_FILE": model, "LOCKS_MINPROCS": str(lo), "LOCKS_MAXPROCS": str(hi),
           "LOCKS_PRINTDONE": "1" if done else "0"}
    r = ctx.tlc("Locks", "Locks_mc.cfg", env=env, out_name=name, timeout=timeout)
    if r.status != "ok":
        raise vlib.Infra("TLC on the mined templates failed: %s\n%s" % (r.cmd, r.detail or r.tail))
    return r


def take(ctx, mism):
    for m in mism:
        ctx.mismatch(m.get("sig", "?"), m.get("detail", ""), m.get("replay"))


def unknown_edges(out_path):
    seen = {}
    for line in open(out_path, errors="replace"):
        if line.startswith('<<"UNKNOWN_EDGE"'):
            seen[line.strip()] = seen.get(line.strip(), 0) + 1
    return seen


def idle_notify_unbounded(ctx):
    """9. The same design for EVERY channel capacity and burst size: an inductive invariant of IdleNotify
    (spec/IdleNotifyInd.tla) is discharged by Apalache (SMT) - initial states satisfy it, every step preserves it, it
    implies NoStuck / NoLostWakeup - and two guards make sure the proof is not vacuous (the blocking-send variant
    violates Safety; the invariant has models far beyond TLC's bounds)."""
    from concurrent.futures import ThreadPoolExecutor
    d = ctx.specdir()
    runs = [("base", "CInit", "Init", "IndInv", 0, "OK"),
            ("step", "CInit", "IndInit", "IndInv", 1, "OK"),
            ("implies", "CInit", "IndInit", "Safety", 0, "OK"),
            ("guard-blocking", "CInitBlocking", "IndInit", "Safety", 0, "ERROR (12)"),
            ("guard-nonempty", "CInit", "IndInit", "NoStateBeyondTlcBounds", 0, "ERROR (12)")]

    def one(r):
        name, cinit, init, inv, length, want = r
        out = os.path.join(ctx.scratch, "apa-" + name)
        e = dict(os.environ)
        e.update(vlib.GOENV)
        e["JAVA_TOOL_OPTIONS"] = "-Djava.io.tmpdir=" + os.path.join(ctx.scratch, "jtmp")
        os.makedirs(os.path.join(ctx.scratch, "jtmp"), exist_ok=True)
        cmd = ["timeout", "600", "apalache-mc", "check", "--out-dir=" + out, "--cinit=" + cinit, "--init=" + init,
               "--inv=" + inv, "--length=%d" % length, "IdleNotifyInd.tla"]
        p = subprocess.run(cmd, cwd=d, env=e, stdout=subprocess.PIPE, stderr=subprocess.STDOUT, text=True)
        m = re.search(r"EXITCODE: (.*)", p.stdout)
        got = m.group(1).strip() if m else "none (rc=%d)" % p.returncode
        return name, got, want, " ".join(cmd[2:]), p.stdout[-1500:]

    with ThreadPoolExecutor(max_workers=5) as ex:
        res = list(ex.map(one, runs))
    for name, got, want, cmd, tail in res:
        if got != want:
            # (an obligation that fails says that the INVARIANT is not inductive or too weak - a defect of the proof, not of
            # go-imap; a guard that passes says the proof would be vacuous)
            raise vlib.Infra("Apalache obligation %s: expected %s, got %s: %s\n%s" % (name, want, got, cmd, tail))
    return {"apalache": {name: got for name, got, _, _, _ in res}}


def idle_notify(ctx):
    """8. Waiting on the wake-up channel of an idling session (spec/IdleNotify.tla): TLC checks the design (every command
    completes whatever the idling client does; no lost wake-up) and that the blocking-send variant gets stuck (guard);
    every scenario (client behaviour x size of the burst relative to the channel) is run on the real server and
    IdleNotifyTrace judges what happened."""
    r = ctx.tlc_ok("IdleNotify", "IdleNotify_mc.cfg", timeout=600)
    bad = ctx.tlc("IdleNotify", "IdleNotify_blocking.cfg", timeout=600, count=False)
    if bad.status != "violation" or "Invariant NoStuck is violated" not in open(bad.out_path, errors="replace").read():
        raise vlib.Infra("IdleNotify_blocking.cfg should violate NoStuck (vacuity guard) but TLC says %s" % bad.status)
    g = ctx.tlc("IdleNotifyGen", "IdleNotifyGen.cfg", timeout=600, count=False, out_name="idlegen.out")
    if g.status != "ok":
        raise vlib.Infra("IdleNotifyGen failed: %s" % (g.detail or g.tail))
    binp = ctx.build("idlenotify")
    tr = os.path.join(ctx.scratch, "idlenotify.ndjson")
    reps = 2 if ctx.tier == "quick" else 12
    recs, rc, err = ctx.harness(binp, ["run", g.out_path, tr, "-seed", ctx.seed, "-reps", reps], timeout=1500, allow_fail=True)
    if rc != 0:
        raise vlib.Infra("idlenotify harness exited %d: %s" % (rc, err[-800:]))
    s = ctx.summary(recs)
    res = ctx.tlc("IdleNotifyTrace", "IdleNotifyTrace.cfg", workers=1, timeout=600, count=False, env={"TRACE_FILE": tr},
                  out_name="idletrace.out")
    txt = open(res.out_path, errors="replace").read()
    if res.status != "ok":
        raise vlib.Infra("IdleNotifyTrace did not walk the records: %s" % (res.detail or res.tail))
    nbad = 0
    seen_i = set()
    for m in re.finditer(r'<<"BAD", "(.*)">>', txt):
        b = json.loads(json.loads('"' + m.group(1) + '"'))
        if b["i"] in seen_i:
            continue
        seen_i.add(b["i"])
        rec = b["rec"]
        what = "stuck" if (rec["prod"] != "done" or rec["other"] != "done") else "not-told"
        ctx.mismatch("%s/%s/%s" % (what, rec["client"], rec["cls"]),
                     "idling client %s, burst of %d changes (%s the capacity of the wake-up channel): producer's STORE %s, third "
                     "session's command %s, idling client told about %d changes" % (rec["client"], rec["burst"], rec["cls"],
                                                                                    rec["prod"], rec["other"], rec["seen"]),
                     {"kind": "idlenotify", "case": {"client": rec["client"], "cls": rec["cls"], "burst": rec["burst"],
                                                      "delay_us": rec["delay_us"]}})
        nbad += 1
    ctx.cov["traces_validated_against_impl"] += s["behaviours"] - nbad
    ctx.cov["evaluations"] += s["behaviours"]
    ctx.cov["distinct_nontrivial"] += s.get("nontrivial", 0)
    return {"mc_states": r.distinct, "scenarios": s["behaviours"], "rejected": nbad}


def run(ctx):
    quick = ctx.tier == "quick"
    t0 = time.time()
    idle = idle_notify(ctx)
    idle.update(idle_notify_unbounded(ctx))
    note = selftest(ctx)
    plain, rbin, ovs = build_all(ctx)
    t_build = time.time() - t0

    # 2. mining
    mdir = os.path.join(ctx.scratch, "mined")
    os.makedirs(mdir, exist_ok=True)
    maxn = 3 if quick else 4
    t1 = time.time()
    ms, mism = hrun(ctx, plain, ["mine", mdir, "-min", 2, "-max", maxn, "-reduce", 3], timeout=900, what="mine")
    take(ctx, mism)
    t_mine = time.time() - t1
    model, info, edges = (os.path.join(mdir, x) for x in ("model.ndjson", "modelinfo.ndjson", "edges.ndjson"))
    os.environ["EDGES_FILE"] = edges

    def branch_model():
        """TLC on the mined model, then re-enactment"""
        res = {}
        t = time.time()
        r = model_check(ctx, model, 2, 3, "Locks.mined23.out", done=True)
        res["mc"] = [r]
        res["t_tlc"] = time.time() - t
        t = time.time()
        s, mm = hrun(ctx, rbin, ["reenact", info, r.out_path, "-per", 3 if quick else 4,
                                 "-done", 8 if quick else 80, "-seed", ctx.seed], timeout=1500, what="reenact")
        res["re"] = [(s, mm)]
        res["t_re"] = time.time() - t
        if not quick:
            t = time.time()
            r4 = model_check(ctx, model, 4, 4, "Locks.mined4.out", done=False, timeout=1800)
            res["mc"].append(r4)
            res["t_tlc4"] = time.time() - t
            s4, mm4 = hrun(ctx, rbin, ["reenact", info, r4.out_path, "-per", 2, "-done", 0, "-seed", ctx.seed],
                           timeout=900, what="reenact-4")
            res["re"].append((s4, mm4))
        return res

    def branch_trace():
        """stress with full logging, LocksTrace validation"""
        res = {}
        tr = os.path.join(ctx.scratch, "locks-trace.ndjson")
        t = time.time()
        s, mm = hrun(ctx, plain, ["stress", tr, "-seed", ctx.seed, "-secs", 5 if quick else 30, "-epoch", 1200,
                                  "-maxev", 10000 if quick else 40000], timeout=600, what="stress-log")
        res["stress"] = (s, mm)
        # when the free run deadlocks early, add epochs that avoid opposite-direction copies so that the
        # recorded trace is long enough to validate the mining
        if s.get("stalls", 0) > 0 and s.get("records", 0) < (7000 if quick else 28000):
            tr2 = tr + ".ordered"
            s2, mm2 = hrun(ctx, plain, ["stress", tr2, "-seed", ctx.seed + 7, "-secs", 4 if quick else 25, "-epoch", 1200,
                                        "-maxev", (10000 if quick else 40000) - s.get("records", 0), "-ordered"],
                           timeout=600, what="stress-log-ordered")
            res["stress2"] = (s2, mm2)
            with open(tr, "a") as fh:
                fh.write(open(tr2).read())
        res["t_stress"] = time.time() - t
        t = time.time()
        ok, at, rec, r = ctx.validate_trace("LocksTrace", "LocksTrace.cfg", tr, timeout=1500)
        res["val"] = (ok, at, rec, r, tr)
        res["t_val"] = time.time() - t
        return res

    with ThreadPoolExecutor(2) as ex:
        fa, fb = ex.submit(branch_model), ex.submit(branch_trace)
        A, B = fa.result(), fb.result()

    # ---- model branch results
    stuck_sigs = {}
    followed = diverged = 0
    for s, mm in A["re"]:
        take(ctx, mm)
        for k, v in (s.get("sigs") or {}).items():
            stuck_sigs[k] = stuck_sigs.get(k, 0) + v
        ctx.cov["traces_validated_against_impl"] += s.get("behaviours", 0)
        ctx.cov["evaluations"] += s.get("steps", 0)
        ctx.cov["distinct_nontrivial"] += s.get("nontrivial", 0)
        followed += s.get("followed", 0)
        diverged += s.get("diverged", 0)
        for smp in (s.get("samples") or [])[:3]:
            ctx.sample(smp)
    live = "not run: stuck states exist, Termination is violated by each of them"
    if not stuck_sigs:
        r = ctx.tlc("Locks", "Locks_live.cfg", env={"TEMPLATES_FILE": model, "LOCKS_NOHIST": "1", "LOCKS_MINPROCS": "2",
                                                     "LOCKS_MAXPROCS": "3"}, out_name="Locks.live.out", timeout=1500)
        if r.status != "ok":
            raise vlib.Infra("no stuck state but Termination/NoStuck fails: %s\n%s" % (r.cmd, r.detail or r.tail))
        live = "Termination (<>AllDone under WF) and NoStuck hold: %d states" % r.distinct

    # thorough: the reductions R2/R3 of the miner must not change the verdict (2 sessions, unreduced model)
    cross = "thorough tier only"
    if not quick:
        m1 = os.path.join(ctx.scratch, "mined-r1")
        os.makedirs(m1, exist_ok=True)
        hrun(ctx, plain, ["mine", m1, "-min", 2, "-max", 2, "-reduce", 1], what="mine-unreduced")
        ru = model_check(ctx, os.path.join(m1, "model.ndjson"), 2, 2, "Locks.unreduced2.out", done=True)
        rr = model_check(ctx, model, 2, 2, "Locks.reduced2.out", done=False)
        su, _ = hrun(ctx, plain, ["sigs", os.path.join(m1, "modelinfo.ndjson"), ru.out_path], what="sigs-unreduced")
        sr, _ = hrun(ctx, plain, ["sigs", info, rr.out_path], what="sigs-reduced")
        if set(su["keys"]) != set(sr["keys"]):
            raise vlib.Infra("reduced and unreduced lock model disagree on the stuck states of 2 sessions:\nunreduced only: %s\nreduced only: %s"
                             % (sorted(set(su["keys"]) - set(sr["keys"]))[:5], sorted(set(sr["keys"]) - set(su["keys"]))[:5]))
        s, mm = hrun(ctx, rbin, ["reenact", os.path.join(m1, "modelinfo.ndjson"), ru.out_path, "-per", 1, "-done", 60,
                                 "-seed", ctx.seed], timeout=1500, what="reenact-unreduced")
        take(ctx, mm)
        ctx.cov["traces_validated_against_impl"] += s.get("behaviours", 0)
        ctx.cov["evaluations"] += s.get("steps", 0)
        followed += s.get("followed", 0)
        diverged += s.get("diverged", 0)
        cross = "unreduced model (R1 only, 2 sessions, %d states) and reduced model agree on %d distinct stuck configurations" % (
            ru.distinct, len(su["keys"]))

    # ---- trace branch results
    s_log, mm = B["stress"]
    take(ctx, mm)
    stress_sigs = dict(s_log.get("sigs") or {})
    cmds = s_log.get("cmds", 0)
    if "stress2" in B:
        take(ctx, B["stress2"][1])
        cmds += B["stress2"][0].get("cmds", 0)
    ok, at, rec, r, tr = B["val"]
    nrec = sum(1 for _ in open(tr))
    unk = unknown_edges(r.out_path)
    if unk:
        raise vlib.Infra("the stress run acquired locks in contexts the miner never saw (mined model incomplete): %s"
                         % list(unk.items())[:5])
    demo = "skipped"
    if ok:
        ctx.cov["traces_validated_against_impl"] += s_log.get("traces", 1)
        ctx.cov["evaluations"] += nrec
        with open(tr) as fh:
            head = [json.loads(next(fh)) for _ in range(6)]
        ctx.sample({"recorded_lock_events": head[1:5]})
        demo = binding_demo(ctx, tr)
    else:
        ctx.mismatch("lock-discipline/" + (json.loads(rec).get("o", "?") if isinstance(rec, str) and rec.startswith("{") else "?"),
                     "LocksTrace rejects the recorded lock log at record %s (mutual exclusion, release by a non-holder, "
                     "or a lock held across commands): %s" % (at, str(rec)[:800]),
                     {"kind": "trace", "prefix": vlib.trace_prefix(tr, at, reset_marker='"reset"')[-200:] if at else None})

    # ---- 6. race detector on the stress driver
    t = time.time()
    have_deadlock = bool(stuck_sigs or stress_sigs)
    secs = 10 if quick else 150
    race_args = ["stress", os.path.join(ctx.scratch, "unused.ndjson"), "-seed", ctx.seed + 13, "-light", "-epoch", 2500]
    s_free, mm = hrun(ctx, rbin, race_args + ["-secs", secs * (0.3 if have_deadlock else 1.0)], timeout=1200, what="stress-race")
    take(ctx, mm)
    s_ord = None
    if have_deadlock or s_free.get("stalls", 0):
        s_ord, mm = hrun(ctx, rbin, race_args + ["-secs", secs * 0.7, "-ordered"], timeout=1200, what="stress-race-ordered")
        take(ctx, mm)
    t_race = time.time() - t
    race_cmds = s_free.get("cmds", 0) + (s_ord or {}).get("cmds", 0)
    if race_cmds < 200:
        raise vlib.Infra("race-detector stress executed only %d commands" % race_cmds)
    ctx.cov["evaluations"] += race_cmds + cmds

    mc_states = sum(x.distinct for x in A["mc"])
    ctx.notes.append(note)
    ctx.finish(rule="behaviour = one TLC schedule (stuck state or complete interleaving of 2..%d concurrently running commands) "
                    "re-enacted on the real server through the lock gates, or one recorded stress epoch accepted by LocksTrace; "
                    "non-trivial = re-enacted schedules that end in a real deadlock (goroutines confirmed inside sync.(*Mutex).Lock)" % maxn,
               extra={"binding_demo": demo, "self_test": note, "idle_notify": idle,
                      "overlay": {"files": ovs.get("files"), "lock_sites": ovs.get("sites"), "structs": ovs.get("structs")},
                      "mining": {k: ms.get(k) for k in ("worlds", "instances", "templates", "nesting_templates", "max_len", "edges")},
                      "mc_states": mc_states, "stuck_states_by_sig": stuck_sigs, "termination": live,
                      "reduction_cross_check": cross,
                      "schedules_followed": followed, "schedules_diverged": diverged,
                      "stress_log": {k: s_log.get(k) for k in ("epochs", "cmds", "events", "records", "stalls", "sigs", "garbled")},
                      "stress_race_free": {k: s_free.get(k) for k in ("epochs", "cmds", "stalls", "sigs", "races", "garbled")},
                      "stress_race_ordered": {k: (s_ord or {}).get(k) for k in ("epochs", "cmds", "stalls", "sigs", "races", "garbled")},
                      "trace_records": nrec,
                      "wall": {"build": round(t_build, 1), "mine": round(t_mine, 1), "tlc": round(A.get("t_tlc", 0), 1),
                               "tlc4": round(A.get("t_tlc4", 0), 1), "reenact": round(A.get("t_re", 0), 1),
                               "stress_log": round(B.get("t_stress", 0), 1), "validate": round(B.get("t_val", 0), 1),
                               "stress_race": round(t_race, 1)}})


def binding_demo(ctx, tr):
    """(a) a release attributed to a goroutine that does not hold the mutex must be rejected there;
    (b) an acquisition with a falsified lock class must be flagged as unknown context"""
    a = vlib.corrupt_demo(ctx, tr, "LocksTrace", "LocksTrace.cfg",
                          pick=lambda r: r.get("o") == "r" and r.get("k") in ("COPY", "FETCH", "STORE", "APPEND"),
                          mutate=lambda r: r.__setitem__("g", r["g"] % 2 + 1 if r["g"] > 2 else r["g"] + 1), keep_after=20)
    lines = open(tr).read().splitlines()
    b = "no nested acquisition found"
    tried = 0
    for i, line in enumerate(lines):
        rec = json.loads(line)
        if rec.get("o") == "a" and rec.get("c", "").endswith("MailboxTracker.mutex"):
            # (whether the falsified class makes an acquisition context nobody mined depends on what is held at that
            # record: several candidates are tried)
            tried += 1
            mod = list(lines[:i + 1])
            rec["c"] = "imapmemserver.User.mutex"
            mod[i] = json.dumps(rec)
            p = os.path.join(ctx.scratch, "corrupt-class.ndjson")
            open(p, "w").write("\n".join(mod) + "\n")
            ok, at, _, r = ctx.validate_trace("LocksTrace", "LocksTrace.cfg", p)
            if unknown_edges(r.out_path) or not ok:
                b = "falsified lock class of record %d flagged as unknown acquisition context" % (i + 1)
                break
            if tried >= 12:
                raise vlib.Infra("binding demonstration failed: falsified lock class not flagged in %d candidate records" % tried)
    return a + "; " + b


def replay(ctx, path):
    data = json.load(open(path))
    rp = data.get("replay")
    if isinstance(rp, dict) and rp.get("kind") == "idlenotify":
        p = os.path.join(ctx.scratch, "case.json")
        json.dump(rp["case"], open(p, "w"))
        binp = ctx.build("idlenotify")
        tr = os.path.join(ctx.scratch, "one.ndjson")
        ctx.harness(binp, ["one", p, tr], timeout=300)
        print("observed: " + open(tr).read().strip())
        return
    if isinstance(rp, dict) and rp.get("kind") == "trace":
        if not os.environ.get("EDGES_FILE"):
            plain, _, _ = build_all(ctx, race=False)
            mdir = os.path.join(ctx.scratch, "mined")
            os.makedirs(mdir, exist_ok=True)
            hrun(ctx, plain, ["mine", mdir, "-min", 2, "-max", 2, "-reduce", 3], what="mine")
            os.environ["EDGES_FILE"] = os.path.join(mdir, "edges.ndjson")
        p = os.path.join(ctx.scratch, "replay.ndjson")
        with open(p, "w") as fh:
            for rec in rp["prefix"]:
                fh.write(json.dumps(rec) + "\n")
        ok, at, rec, _ = ctx.validate_trace("LocksTrace", "LocksTrace.cfg", p)
        print("recorded lock log %s by LocksTrace%s" % ("accepted" if ok else "REJECTED", "" if ok else " at %s: %s" % (at, rec)))
        print("(a recorded log is re-validated as recorded; re-run the check to re-record against the working tree)")
        return
    if isinstance(rp, dict) and rp.get("kind") == "race":
        print("race reports are not deterministic; the recorded report:\n%s" % rp.get("report", "")[:3000])
        rp = rp.get("cfg")
        if not rp:
            return
    _, rbin, _ = build_all(ctx)
    p = os.path.join(ctx.scratch, "case.json")
    json.dump(rp, open(p, "w"))
    recs, _, _ = ctx.harness(rbin, ["one", p], timeout=300)
    hit = False
    for r in recs:
        if r.get("kind") == "mismatch":
            hit = True
            print("REPRODUCED sig=%s %s" % (r["sig"], r["detail"][:1500]))
    if not hit:
        print("not reproduced on the working tree")
