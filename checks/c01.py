"""C01 - wire encoder/decoder round trip (spec/Wire.tla, with NumSet.tla and Utf7.tla).

1. TLC model-checks the reference codec on the bounded value space (Wire_mc*.cfg): every
   representation a conforming peer may send in any of the 16 encoder modes reference-decodes to
   the canonical value consuming exactly its own bytes (also when more input follows), the
   specification's preferred representation is one of them and is legal, modes only add
   representations, a server never writes a "+" literal, nothing represents a MustRefuse value.
2. spec -> impl: WireGen prints one line per value (strings over the 19-byte alphabet, long
   strings 4095/4096/4097 as length classes, mailbox names, flags / attributes, numbers, number
   sets, SEARCHRES, lists to depth 3, nestings 999/1000/1001) with the canonical value and every
   representation (std = conforming; lib / todo = beyond the statement, only counted).  The
   harness (cmd/wire)
   (i)  runs go-imap's real Encoder on every value in all 16 modes (value, SP, "Z", CRLF through
        the same encoder; an already satisfied continuation request for synchronising literals),
        feeds exactly what reached the connection to the real Decoder of the OTHER side and
        records bytes / error / decoded value / unread bytes; WireTrace judges every record
        (LegalRep in each mode, MustRefuse => error and nothing parseable written, decoded value
        = canonical value, exactly the sentinel left);
   (ii) feeds every listed representation + sentinel to the real decoding functions of the
        receiving side(s) and compares with the value TLC predicts.
3. impl -> spec: random values beyond the bounds (any byte 0..255, strings to 300 bytes, long
   classes to 8192 with inserted specials, random code points, random flags incl. 8-bit bytes,
   random uint32 / int64 / uint64, random range lists, trees to depth 6) recorded the same way
   and judged by WireTrace.
4. binding demonstration: three recorded fields are corrupted, WireTrace must flag exactly them.

internal/imapwire and internal (ExpectFlag ...) cannot be imported from the harness module: the
check adds one file to the go-imap module at build time with `go build -overlay` (package
verifwire, harness/cmd/wire/testdata/verifwire/shim.go); nothing is written into the repository.
"""
import json, os, re, time
from concurrent.futures import ThreadPoolExecutor
import vlib

SHIM = os.path.join(vlib.VERIF, "harness", "cmd", "wire", "testdata", "verifwire", "shim.go")


def overlay(ctx):
    target_dir = os.path.join(vlib.REPO, "verifwire")
    if os.path.exists(target_dir):
        raise vlib.Infra("%s exists in the repository; the overlay package name is taken" % target_dir)
    p = os.path.join(ctx.scratch, "wire-overlay.json")
    with open(p, "w") as fh:
        json.dump({"Replace": {os.path.join(target_dir, "shim.go"): SHIM}}, fh)
    return p


def build(ctx):
    return ctx.build("wire", tags="verif,c01shim", overlay=overlay(ctx))


def tagged_lines(out_path, tag):
    out = []
    pre = '<<"%s", "' % tag
    for line in open(out_path, errors="replace"):
        if line.startswith(pre) and line.rstrip().endswith('">>'):
            body = line.rstrip()[len(pre):-3]
            try:
                out.append(json.loads(json.loads('"' + body + '"')))
            except ValueError:
                raise vlib.Infra("unparsable %s line: %s" % (tag, line[:200]))
    return out


def judge(ctx, path, what):
    """WireTrace on one recorded file.  Returns (bad, notes, TLCResult); bad / notes = [{line, sig}]"""
    ok, at, rec, r = ctx.validate_trace("WireTrace", "WireTrace.cfg", path, timeout=1500)
    bad = tagged_lines(r.out_path, "BAD")
    notes = tagged_lines(r.out_path, "NOTE")
    nrec = sum(1 for _ in open(path))
    if r.generated != nrec + 1:
        raise vlib.Infra("%s: WireTrace walked %d of %d records (stuck at record %s: %s)\n%s"
                         % (what, r.generated - 1, nrec, at, str(rec)[:400], r.tail[-1500:]))
    if ok and bad:
        raise vlib.Infra("%s: BAD lines but trace accepted" % what)
    if not ok and not bad:
        raise vlib.Infra("%s: trace rejected at %s without a BAD line\n%s" % (what, at, r.tail[-1500:]))
    for b in bad + notes:
        b["sig"] = "/".join(b["sig"])
    return bad, notes, r


def split_file(ctx, path, parts, name):
    lines = open(path).read().splitlines()
    if parts <= 1 or len(lines) < 2 * parts:
        return [(path, 0)]
    out = []
    step = (len(lines) + parts - 1) // parts
    for i in range(0, len(lines), step):
        p = os.path.join(ctx.scratch, "%s-part%d.ndjson" % (name, i // step))
        open(p, "w").write("\n".join(lines[i:i + step]) + "\n")
        out.append((p, i))
    return out


def judge_all(ctx, path, what, parts):
    """judge a recorded file in `parts` chunks in parallel; line numbers are those of the whole file"""
    chunks = split_file(ctx, path, parts, what)
    with ThreadPoolExecutor(max_workers=len(chunks)) as ex:
        res = list(ex.map(lambda c: judge(ctx, c[0], what), chunks))
    bad, notes = [], []
    for (p, off), (b, n, r) in zip(chunks, res):
        for x in b:
            x["line"] += off
        for x in n:
            x["line"] += off
        bad += b
        notes += n
    return bad, notes


def show_bytes(a):
    s = bytes(x & 255 for x in a[:80]).decode("latin-1")
    return json.dumps(s) + ("...(%d bytes)" % len(a) if len(a) > 80 else "")


def describe(rec):
    v = json.dumps(rec["v"])
    if len(v) > 160:
        v = v[:160] + "..."
    modes = ",".join("%s%s%s%s" % ("S" if m & 8 else "C", "+utf8" if m & 4 else "", "+lit-" if m & 2 else "",
                                   "+lit+" if m & 1 else "") for m in rec["ms"][:4])
    if len(rec["ms"]) > 4:
        modes += ",... (%d modes)" % len(rec["ms"])
    decs = "; ".join("%s ok=%s err=%s value=%s unread=%s" % (d["f"], d["ok"], d["err"], json.dumps(d["val"])[:60], show_bytes(d["rest"]))
                     for d in rec["dec"][:3])
    return "%s value %s, encoder modes %s: encoder error=%s wrote %s; peer decoder: %s" % (
        rec["k"], v, modes, rec["err"], show_bytes(rec["bytes"]), decs or "(not run)")


def report(ctx, path, bad, origin):
    lines = None
    for b in bad:
        if lines is None:
            lines = open(path).read().splitlines()
        rec = json.loads(lines[b["line"] - 1])
        ctx.mismatch(b["sig"], "WireTrace (%s record %d): %s -- %s" % (origin, b["line"], b["sig"], describe(rec)),
                     {"kind": "enc", "k": rec["k"], "v": rec["v"], "recorded": rec if len(lines[b["line"] - 1]) < 4000 else None})


def count_notes(notes):
    out = {}
    for n in notes:
        out[n["sig"]] = out.get(n["sig"], 0) + 1
    return out


def run(ctx):
    quick = ctx.tier == "quick"
    ctx.specdir()
    phases, t0 = {}, time.time()

    def lap(name):
        nonlocal t0
        phases[name] = round(time.time() - t0, 1)
        t0 = time.time()
    # 1. design level, 2. generator, harness build: side by side
    with ThreadPoolExecutor(max_workers=3) as ex:
        f_mc = ex.submit(ctx.tlc, "Wire", "Wire_mc.cfg" if quick else "Wire_mc_thorough.cfg", 8, None, 1500)
        f_gen = ex.submit(lambda: ctx.tlc("WireGen", "WireGen_quick.cfg" if quick else "WireGen_thorough.cfg",
                                          workers=8, timeout=1500, count=False))
        f_bin = ex.submit(build, ctx)
        mc, g, binp = f_mc.result(), f_gen.result(), f_bin.result()
    if mc.status != "ok":
        raise vlib.Infra("TLC %s on Wire: %s\n%s" % (mc.status, mc.cmd, mc.detail or mc.tail))
    if g.status != "ok":
        raise vlib.Infra("generator failed: %s\n%s" % (g.cmd, g.detail or g.tail))
    nvec = vlib.count_lines(g.out_path, '<<"T"')
    lap("mc+gen+build")
    phases["mc"], phases["gen"] = round(mc.wall, 1), round(g.wall, 1)
    # 2. spec -> impl
    enc_tr = os.path.join(ctx.scratch, "wire-enc.ndjson")
    recs, _, _ = ctx.harness(binp, ["replay", g.out_path, enc_tr], timeout=1500)
    s = ctx.summary(recs)
    ctx.take_mismatches(recs)
    if s["behaviours"] != nvec or nvec == 0:
        raise vlib.Infra("harness replayed %d values, generator printed %d" % (s["behaviours"], nvec))
    for c in ("std", "lib"):
        if not s["rep_classes"].get(c):
            raise vlib.Infra("vacuous generator: no representation of class %s" % c)
    if not s["encoder_literals"] or not s["encoder_refusals"]:
        raise vlib.Infra("vacuous run: the real encoder never wrote a literal / never refused")
    # 3. impl -> spec
    rnd_tr = os.path.join(ctx.scratch, "wire-rnd.ndjson")
    recs, _, _ = ctx.harness(binp, ["random", rnd_tr, "-seed", ctx.seed, "-scale", 2 if quick else 10], timeout=900)
    s2 = ctx.summary(recs)
    ctx.take_mismatches(recs)
    lap("harness")
    with ThreadPoolExecutor(max_workers=2) as ex:
        f1 = ex.submit(judge_all, ctx, enc_tr, "enc", 2 if quick else 6)
        f2 = ex.submit(judge_all, ctx, rnd_tr, "rnd", 1 if quick else 3)
        (bad1, notes1), (bad2, notes2) = f1.result(), f2.result()
    lap("judge")
    report(ctx, enc_tr, bad1, "bounded")
    report(ctx, rnd_tr, bad2, "random")
    bad_lines1 = {b["line"] for b in bad1}
    ctx.cov["traces_validated_against_impl"] += s["behaviours"] + s["records"] - len(bad_lines1) \
        + s2["records"] - len({b["line"] for b in bad2})
    ctx.cov["evaluations"] += s["steps"] + s2["steps"]
    ctx.cov["distinct_nontrivial"] += s["nontrivial"]
    for smp in (s.get("samples") or [])[:2]:
        ctx.sample({"generated_value": smp})
    with open(rnd_tr) as fh:
        r0 = json.loads(next(fh))
        ctx.sample({"recorded": {"k": r0["k"], "v": r0["v"], "ms": r0["ms"], "bytes": show_bytes(r0["bytes"]),
                                 "dec": [{"f": d["f"], "left": d["left"]} for d in r0["dec"][:2]]}})
    # 4. binding demonstration
    demo = binding_demo(ctx, enc_tr, bad_lines1)
    lap("binding_demo")
    notes = count_notes(notes1 + notes2)
    if notes:
        ctx.notes.append("observations the statement does not forbid (WireTrace NOTE lines): %s" % json.dumps(notes, sort_keys=True))
    if s.get("beyond_statement_disagreements"):
        ctx.notes.append("real decoder disagrees on representations beyond the statement (not verdicts): %s; e.g. %s"
                         % (json.dumps(s["beyond_statement_disagreements"], sort_keys=True),
                            json.dumps(list(s["beyond_statement_samples"].values())[:2])[:700]))
    ctx.assumptions.append("the continuation request of a synchronising client literal is already satisfied "
                           "(Encoder.NewContinuationRequest returns a completed request); the handshake is C18")
    ctx.finish(rule="behaviour = one value of the bounded space (run through the real Encoder in all 16 modes, both list "
               "APIs, and through the peer's real decoding functions; plus every listed representation through the "
               "receiving side's decoding functions) or one recorded group of modes of a random value; non-trivial = "
               "in some mode the real encoder refused the value or wrote a literal, an escape, a list, a "
               "modified-UTF-7 shift or folded the name to INBOX (i.e. did more than put the value between quotes); distinct by construction (enumeration without repetition)",
               extra={"binding_demo": demo, "phase_wall_s": phases, "mc_states": mc.distinct, "gen_values": nvec,
                      "decoder_cases": s["decoder_cases"], "rep_classes": s["rep_classes"],
                      "encoder_runs": s["encoder_runs"], "encoder_refusals": s["encoder_refusals"],
                      "encoder_literals": s["encoder_literals"], "bounded_records": s["records"],
                      "random_records": s2["records"], "random_values": s2["values"],
                      "at_depth_cap": s.get("at_depth_cap"), "notes_by_sig": notes,
                      "beyond_statement_disagreements": s.get("beyond_statement_disagreements")})


def binding_demo(ctx, tr, bad_lines):
    """corrupt recorded fields of accepted records; WireTrace must flag exactly those records"""
    lines = open(tr).read().splitlines()
    picks = []

    def find(pred):
        for i, line in enumerate(lines):
            if (i + 1) in bad_lines or len(line) > 3000:
                continue
            rec = json.loads(line)
            if not rec["err"] and rec["dec"] and pred(rec):
                return i, rec
        return None, None

    # (a) the escaping backslash of a quoted string dropped from the recorded bytes
    i, rec = find(lambda r: r["k"] == "str" and r["bytes"][:1] == [34] and r["v"] == [92] and r["bytes"][1:3] == [92, 92])
    if rec:
        rec["bytes"] = rec["bytes"][:1] + rec["bytes"][2:]
        picks.append(("escaping backslash dropped from the recorded bytes", i, rec, "enc/illegal-rep/str/"))
    # (b) a decoded value changed
    i, rec = find(lambda r: r["k"] == "mbox" and len(r["v"]) == 2 and r["dec"][0]["val"] == r["v"])
    if rec:
        rec["dec"][0]["val"] = rec["dec"][0]["val"][:1]
        picks.append(("decoded mailbox name truncated", i, rec, "dec/ExpectMailbox/value"))
    # (c) one unread byte fewer
    i, rec = find(lambda r: r["k"] == "str" and r["bytes"][:1] == [123] and r["dec"][0]["left"] == 4)
    if rec:
        rec["dec"][0]["left"] = 3
        rec["dec"][0]["rest"] = rec["dec"][0]["rest"][1:]
        picks.append(("literal recorded as consuming one byte too many", i, rec, "dec/ExpectString/leftover"))
    # (d) a refusal recorded as accepted
    for i, line in enumerate(lines):
        rec = json.loads(line) if len(line) < 3000 else None
        if rec and rec["err"] and rec["k"] == "seqset" and rec["v"] == []:
            rec["err"] = False
            rec["bytes"] = [32, 90, 13, 10]
            picks.append(("refused empty number set recorded as written", i, rec, "enc/accepts-unrepresentable/seqset/empty"))
            break
    if len(picks) < 4:
        # records of that shape exist in every run; if they were all rejected there is a verdict
        # already and the demonstration runs on what is left
        if not (ctx.violations or ctx.known_hits) or not picks:
            raise vlib.Infra("binding demonstration: no suitable record (%d of 4)" % len(picks))
    elif ctx.tier == "quick":
        picks = picks[:3]
    p = os.path.join(ctx.scratch, "wire-corrupt.ndjson")
    ctx_lines = [l for j, l in enumerate(lines[:40]) if (j + 1) not in bad_lines and len(l) < 3000][:3]
    out, expect = [], {}
    for what, i, rec, sig in picks:
        out += ctx_lines[:1]
        out.append(json.dumps(rec))
        expect[len(out)] = (what, sig, i + 1)
    open(p, "w").write("\n".join(out) + "\n")
    bad, _, _ = judge(ctx, p, "binding demonstration")
    got = {}
    for b in bad:
        got.setdefault(b["line"], []).append(b["sig"])
    msgs = []
    for ln, (what, sig, orig) in expect.items():
        if not any(x.startswith(sig) for x in got.get(ln, [])):
            raise vlib.Infra("binding demonstration failed: %s (record %d) not flagged with %s; flagged: %s" % (what, orig, sig, got))
        msgs.append("%s (record %d): flagged %s" % (what, orig, [x for x in got[ln] if x.startswith(sig)][0]))
    extra = set(got) - set(expect)
    if extra:
        raise vlib.Infra("binding demonstration: uncorrupted records flagged: %s" % {k: got[k] for k in extra})
    return "; ".join(msgs)


def replay(ctx, path):
    data = json.load(open(path))
    rp = data.get("replay") or {}
    binp = build(ctx)
    if rp.get("kind") == "rep":
        p = os.path.join(ctx.scratch, "case.json")
        json.dump(rp, open(p, "w"))
        recs, _, _ = ctx.harness(binp, ["one", p])
        for r in recs:
            if r.get("kind") == "mismatch":
                print("REPRODUCED sig=%s %s" % (r["sig"], r["detail"][:1000]))
                return
        print("not reproduced on the working tree")
        return
    if rp.get("kind") == "enc":
        p = os.path.join(ctx.scratch, "case.json")
        json.dump({"k": rp["k"], "v": rp["v"]}, open(p, "w"))
        tr = os.path.join(ctx.scratch, "replay.ndjson")
        recs, _, _ = ctx.harness(binp, ["record", p, tr])
        ctx.summary(recs)
        bad, notes, _ = judge(ctx, tr, "replay")
        lines = open(tr).read().splitlines()
        for b in bad:
            print("REPRODUCED sig=%s %s" % (b["sig"], describe(json.loads(lines[b["line"] - 1]))[:1000]))
        if not bad:
            print("not reproduced on the working tree (%d records re-recorded and accepted by WireTrace)" % len(lines))
        return
    raise vlib.Infra("unknown replay kind in %s" % path)
