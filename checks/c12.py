"""C12 — client routing and state mirror (spec/Client.tla).

1. TLC model-checks Client (exactly-once completion, isolation of NO/BAD, data only to a pending
   command of the right kind, RFC state diagram) on the bounded instance.
2. ClientGen prints one behaviour per transition of the bounded graph (pipelines of up to 2 commands,
   out-of-order completions, unsolicited EXISTS/EXPUNGE/FLAGS/PERMANENTFLAGS/FETCH/CLOSED/BYE anywhere);
   a real imapclient.Client is driven against a scripted server that writes exactly those lines; after
   every line (NOOP barrier) State(), Mailbox(), the unilateral data handler, the completion status and the
   data delivered to every command are compared with what the transcript implies.
3. Long random sessions (larger counts, 3 pipelined commands) are recorded and validated by ClientTrace.
"""
import vlib


INSTANCES = ["core", "fetch", "seldata", "auth1", "auth2", "idle", "state", "lit", "mgmt"]


def run(ctx):
    quick = ctx.tier == "quick"
    # the command set is covered by several small instances of the same specification (Kinds / Greetings):
    # core (the RFC 3501 basics, OK greeting), sel (selected-state data: fetch / expunge classes, MOVE, COPY, SORT,
    # THREAD), auth (CAPABILITY, ENABLE, NAMESPACE, LIST-STATUS, quota, metadata, APPEND, UNAUTHENTICATE; both
    # greetings), idle (IDLE with its continuation request, DONE, unilateral data meanwhile)
    binp = ctx.build("client")
    mc_states, gen_total = 0, 0
    for inst in INSTANCES:
        r = ctx.tlc_ok("Client", "Client_mc_%s_%s.cfg" % (inst, ctx.tier), timeout=1500)
        mc_states += r.distinct
        g, s = vlib.gen_and_replay(ctx, "ClientGen", "ClientGen_%s_%s.cfg" % (inst, ctx.tier), binp, timeout=2400, harness_timeout=2400)
        gen_total += g.generated
        ctx.notes.append("instance %s: %d states model-checked, %d transitions replayed (TLC %.0fs)" % (inst, r.distinct, s["behaviours"], g.wall))
    # every behaviour (not only every transition) of a small pipeline alphabet up to a depth: what a faulty client does
    # may depend on the order of past events (completion before or after the data arrived), not only on the state
    g, s = vlib.gen_and_replay(ctx, "ClientGen", "ClientGen_pipe_%s.cfg" % ctx.tier, binp, timeout=2400, harness_timeout=2400)
    ctx.notes.append("instance pipe (all behaviours to a depth): %d maximal behaviours replayed (TLC %.0fs)" % (s["behaviours"], g.wall))
    if not quick:
        # long random behaviours of larger instances (simulation mode), replayed the same way
        for inst in INSTANCES:
            g, s = vlib.gen_and_replay(ctx, "ClientGen", "ClientSim_%s.cfg" % inst, binp, timeout=2400, harness_timeout=2400,
                                       simulate="num=400", depth=60, workers=8)
    r = type("R", (), {"distinct": mc_states})()
    g = type("G", (), {"generated": gen_total})()
    ntr, steps = (150, 300) if quick else (1500, 400)
    ok, tr, s2 = vlib.record_and_validate(ctx, binp, ["random", "-seed", ctx.seed, "-traces", ntr, "-steps", steps],
                                          "ClientTrace", "ClientTrace.cfg", name="client.ndjson", timeout=2400)
    demo = "skipped"
    if ok:
        def mut(rec):
            rec["obs"]["comp"][0]["st"] = "NO" if rec["obs"]["comp"][0]["st"] == "OK" else "OK"
        demo = vlib.corrupt_demo(ctx, tr, "ClientTrace", "ClientTrace.cfg",
                                 lambda rec: rec.get("ev") == "Tagged" and rec["obs"]["comp"], mut)
    ctx.assumptions += ["pipelines are restricted to those RFC 9051 5.5 calls unambiguous",
                        "the selected-mailbox summary is compared only while no SELECT is in progress",
                        "BAD in answer to SELECT while a mailbox is selected is not generated (RFC does not settle its effect)"]
    ctx.finish(rule="behaviour = shortest client/server history reaching one transition of the bounded Client graph; "
               "non-trivial = at least two commands are pending at some step or unilateral data is delivered; one per transition",
               extra={"binding_demo": demo, "mc_states": r.distinct, "gen_transitions": g.generated,
                      "trace_records": s2.get("records")})


def replay(ctx, path):
    vlib.replay_generic(ctx, path, "client", "ClientTrace", "ClientTrace.cfg")
