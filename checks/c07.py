"""C07 — sequence-number translation (spec/Tracker.tla).

1. TLC model-checks Tracker (design): queue leads view to mailbox, translation sound,
   emission order, no expunge when disallowed.
2. TrackerGen prints every transition of the bounded graph with the predicted observation;
   the harness replays each against imapserver.MailboxTracker/SessionTracker through a real
   imapserver.Conn (NOOP / FETCH / IDLE) and compares wire output and both translation
   tables after every step.
3. A random driver (more sessions, messages, larger increments) records what the real
   tracker does; TrackerTrace validates every record.
"""
import json, os
import vlib


def run(ctx):
    quick = ctx.tier == "quick"
    # 1. design-level model check
    r = ctx.tlc_ok("Tracker", "Tracker_mc.cfg" if quick else "Tracker_mc_thorough.cfg",
                   timeout=3000, coverage=not quick)
    if not quick:
        vacuous = vacuity(r.out_path)
        if vacuous:
            raise vlib.Infra("vacuous actions in Tracker model: %s" % vacuous)
    # 2. spec -> impl: replay every generated transition
    g = ctx.tlc("TrackerGen", "TrackerGen_quick.cfg" if quick else "TrackerGen_thorough.cfg",
                timeout=1500, count=False)
    if g.status != "ok":
        raise vlib.Infra("generator failed: %s\n%s" % (g.cmd, g.detail or g.tail))
    binp = ctx.build("tracker")
    recs, _, _ = ctx.harness(binp, ["replay", g.out_path], timeout=1500)
    s = ctx.summary(recs)
    ctx.take_mismatches(recs)
    ctx.cov["traces_validated_against_impl"] += s["behaviours"]
    ctx.cov["evaluations"] += s["steps"]
    ctx.cov["distinct_nontrivial"] += s["nontrivial"]
    for smp in s.get("samples") or []:
        ctx.sample({"replayed_behaviour": smp})
    if s["behaviours"] != g.generated - 1 and s["behaviours"] != g.generated:
        ctx.notes.append("generator printed %d transitions, TLC reports %d generated" % (s["behaviours"], g.generated))
    if s["behaviours"] == 0:
        raise vlib.Infra("no behaviours replayed")
    # 3. impl -> spec: random histories validated by TrackerTrace
    tr = os.path.join(ctx.scratch, "tracker.ndjson")
    ntr, steps = (100, 200) if quick else (600, 300)
    recs, _, _ = ctx.harness(binp, ["random", tr, "-seed", ctx.seed, "-traces", ntr, "-steps", steps,
                                    "-sessions", 6, "-msgs", 12 if quick else 24, "-k", 4 if quick else 6])
    s2 = ctx.summary(recs)
    ctx.take_mismatches(recs)
    ok, at, rec, tr_res = ctx.validate_trace("TrackerTrace", "TrackerTrace.cfg", tr)
    if ok:
        ctx.cov["traces_validated_against_impl"] += s2["traces"]
        ctx.cov["evaluations"] += s2["records"]
        with open(tr) as fh:
            lines = [next(fh) for _ in range(12)]
        ctx.sample({"recorded_trace_prefix": [json.loads(x) for x in lines[1:4]]})
    else:
        ctx.mismatch("trace-rejected", "TrackerTrace rejects the recorded history at record %s: %s" % (at, rec),
                     {"kind": "trace", "prefix": trace_prefix(tr, at)})
    # binding demonstration: a corrupted record must be rejected
    demo = binding_demo(ctx, tr) if ok else "skipped (recorded trace itself rejected)"
    ctx.finish(rule="behaviour = shortest history reaching one transition of the bounded Tracker graph; "
               "non-trivial = some session's decode table is not the identity (an expunge or exists is pending) "
               "at a compared step; distinct by construction (one per transition)",
               extra={"binding_demo": demo, "mc_states": r.distinct, "gen_transitions": g.generated,
                      "trace_records": s2["records"]})


def vacuity(out_path):
    """actions with zero coverage in a -coverage 1 run"""
    import re
    bad = []
    for line in open(out_path, errors="replace"):
        m = re.match(r"<(\w+) line \d+, col \d+ to line \d+, col \d+ of module Tracker>: (\d+):(\d+)", line)
        if m and m.group(3) == "0" and m.group(1) not in ("Init",):
            bad.append(m.group(1))
    return bad


def trace_prefix(path, at):
    """records of the trace the rejected record belongs to, up to and including it"""
    if at is None:
        return None
    lines = open(path).read().splitlines()
    i = at - 1
    j = i
    while j > 0 and '"Reset"' not in lines[j]:
        j -= 1
    return [json.loads(x) for x in lines[j:i + 1]]


def binding_demo(ctx, tr):
    """corrupt one logged field in a copy of the trace; TrackerTrace must reject it there"""
    lines = open(tr).read().splitlines()
    for i, line in enumerate(lines):
        rec = json.loads(line)
        if rec.get("ev") == "Poll" and any(rec["enc"][s] for s in rec["enc"]):
            s = [s for s in rec["enc"] if rec["enc"][s]][0]
            rec["enc"][s][0] += 1
            lines[i] = json.dumps(rec)
            p = os.path.join(ctx.scratch, "corrupt.ndjson")
            open(p, "w").write("\n".join(lines[:i + 50]) + "\n")
            ok, at, _, _ = ctx.validate_trace("TrackerTrace", "TrackerTrace.cfg", p)
            if ok or at != i + 1:
                raise vlib.Infra("binding demonstration failed: corrupted record %d not rejected (ok=%s at=%s)" % (i + 1, ok, at))
            return "corrupted enc table of record %d rejected at record %d" % (i + 1, at)
    return "no suitable record"


def replay(ctx, path):
    data = json.load(open(path))
    rp = data.get("replay")
    if isinstance(rp, dict) and rp.get("kind") == "trace":
        p = os.path.join(ctx.scratch, "replay.ndjson")
        with open(p, "w") as fh:
            for rec in rp["prefix"]:
                fh.write(json.dumps(rec) + "\n")
        ok, at, rec, _ = ctx.validate_trace("TrackerTrace", "TrackerTrace.cfg", p)
        print("recorded trace %s by TrackerTrace%s" % ("accepted" if ok else "REJECTED", "" if ok else " at %s: %s" % (at, rec)))
        print("(recorded traces are re-validated as recorded; re-run the check to re-record against the working tree)")
        return
    p = os.path.join(ctx.scratch, "beh.json")
    json.dump(rp, open(p, "w"))
    binp = ctx.build("tracker")
    recs, _, _ = ctx.harness(binp, ["one", p])
    for r in recs:
        if r.get("kind") == "mismatch":
            print("REPRODUCED sig=%s %s" % (r["sig"], r["detail"]))
            return
    print("not reproduced on the working tree")
