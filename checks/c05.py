"""C05 — server state machine (spec/ServerConn.tla).

1. TLC model-checks ServerConn for all 128 configurations: backend reached only in permitted states,
   credentials only when secure, RFC state diagram, LOGOUT final.
2. ServerConnGen: every transition of the graph (all configurations, full command alphabet, every
   backend outcome, well-formed and malformed) and every behaviour of depth <= 2 (quick) / 3 (thorough)
   over one representative per command family are replayed on a real imapserver connection with a
   scripted Session; tagged class, BYE, continuation requests, backend calls, post-state (black-box
   probes) and capabilities are compared after every step.
3. Long random command sequences are recorded and validated by ServerConnTrace.
"""
import vlib


def run(ctx):
    quick = ctx.tier == "quick"
    r = ctx.tlc_ok("ServerConn", "ServerConn_mc.cfg", timeout=600)
    binp = ctx.build("serverconn")
    # quick: the 32 configurations in which the optional interfaces (MOVE, NAMESPACE, UNAUTHENTICATE, own SASL mechanisms) are
    # all present or all absent; thorough: all 192
    g1, s1 = vlib.gen_and_replay(ctx, "ServerConnGen", "ServerConnGen_trans_quick.cfg" if quick else "ServerConnGen_trans.cfg", binp)
    g2, s2 = vlib.gen_and_replay(ctx, "ServerConnGen", "ServerConnGen_depth2.cfg" if quick else "ServerConnGen_depth.cfg",
                                 binp, timeout=2400, harness_timeout=2400)
    ntr, steps = (300, 60) if quick else (3000, 120)
    ok, tr, s3 = vlib.record_and_validate(ctx, binp, ["random", "-seed", ctx.seed, "-traces", ntr, "-steps", steps],
                                          "ServerConnTrace", "ServerConnTrace.cfg", timeout=1800)
    demo = "skipped"
    if ok:
        def mut(rec):
            rec["obs"]["calls"] = rec["obs"]["calls"][:-1]
        demo = vlib.corrupt_demo(ctx, tr, "ServerConnTrace", "ServerConnTrace.cfg",
                                 lambda rec: rec.get("ev") == "Cmd" and len(rec["obs"]["calls"]) > 0, mut)
    ctx.finish(rule="behaviour = (configuration, command sequence with backend outcomes); one per transition of the "
               "ServerConn graph plus all depth-bounded sequences over command families; non-trivial = at least one "
               "backend call is predicted in the behaviour; distinct by construction",
               extra={"binding_demo": demo, "mc_states": r.distinct, "transitions_replayed": s1["behaviours"],
                      "depth_behaviours_replayed": s2["behaviours"], "trace_records": s3.get("records")})


def replay(ctx, path):
    vlib.replay_generic(ctx, path, "serverconn", "ServerConnTrace", "ServerConnTrace.cfg")
