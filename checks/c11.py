"""C11 — the client never panics or blows up on arbitrary server bytes (spec/RespFuzz.tla).

1. TLC runs RespFuzzGen: the response grammar as token sequences, every single-token mutation
   of every conformant line (drop, duplicate, swap, replace by any token of the alphabet,
   truncate; a seeded sample of the untargeted ones: 1/64 quick, 1/2 thorough - seeds 2k and 2k+1
   are complementary), boundary numbers in every
   numeric slot, every set form in every set slot, malformed literals in every string slot,
   '('^d (10, 999, 1000, 1001; 10^5 and 10^6 on a seeded sample of slots) in every slot that opens
   a list or body, balanced nesting families, double mutations (thorough).  The same run is the
   model check of the classification: total, disjoint (no line MustDeliver for one production
   and MustError for another), agreeing with the generator's intent, every production
   MustDeliver; the coverage gate (every response kind / code / FETCH item / slot class) is an
   ASSUME of RespFuzz.
2. spec -> impl: harness/cmd/respfuzz renders every printed line, feeds it to a real
   imapclient.Client through a scripted server (sharded into child processes with a stack, time
   and memory limit) and compares: reader panic, process death, accessor panic, non-return are
   violations for every line; MustError lines must yield an error; MustDeliver lines must
   complete with the status of the conformant line.
3. resource monitor: allocation and wall time against input length over families ('('^d in
   the list/body slots, 1:N sets with the enumeration accessors, long lists/literals).
4. impl -> spec: the seeded Go driver makes multi-edit token lines and token soups, records
   tokens + outcome; RespFuzzTrace re-derives the class from the tokens and judges the outcome.
   Raw random bytes / byte-level edits are monitored only.
5. binding demonstration: records built from generated lines with their real outcome are
   accepted; the same records with one outcome field corrupted are flagged at exactly those
   records with the expected signatures; the judge's classes agree with the generator's.
"""
import json, os, re, time
import vlib


def bad_lines(out_path):
    out = []
    for line in open(out_path, errors="replace"):
        if line.startswith('<<"BAD", "') and line.rstrip().endswith('">>'):
            body = line.rstrip()[len('<<"BAD", "'):-3]
            try:
                out.append(json.loads(json.loads('"' + body + '"')))
            except ValueError:
                raise vlib.Infra("unparsable BAD line: %s" % line[:200])
    return out


def judge(ctx, path, what):
    """RespFuzzTrace over a recorded file -> (bad lines, (nD, nE, nX))"""
    ok, at, rec, r = ctx.validate_trace("RespFuzzTrace", "RespFuzzTrace.cfg", path, timeout=1500)
    txt = open(r.out_path, errors="replace").read()
    bad = bad_lines(r.out_path)
    nrec = sum(1 for _ in open(path))
    if r.generated != nrec + 1:
        raise vlib.Infra("%s: RespFuzzTrace walked %d of %d records\n%s" % (what, r.generated - 1, nrec, r.tail[-1500:]))
    if ok and bad:
        raise vlib.Infra("%s: BAD lines but trace accepted" % what)
    if not ok and not bad:
        raise vlib.Infra("%s: trace rejected at %s without a BAD line\n%s" % (what, at, r.tail[-1500:]))
    m = re.search(r'<<"CLASSES", (\d+), (\d+), (\d+)>>', txt)
    if not m:
        raise vlib.Infra("%s: no CLASSES line" % what)
    infra = [b for b in bad if b["sig"].startswith(("harness/", "spec/"))]
    if infra:
        raise vlib.Infra("%s: %s" % (what, infra[:3]))
    return bad, tuple(int(x) for x in m.groups())


RESP_NAMES = {"APPENDUID", "COPYUID", "FETCH", "EXPUNGE", "EXISTS", "RECENT", "SEARCH", "ESEARCH", "SORT", "THREAD", "LIST",
              "STATUS", "QUOTA", "QUOTAROOT", "METADATA", "NAMESPACE", "FLAGS", "CAPABILITY", "ENABLED", "PERMANENTFLAGS",
              "UIDNEXT", "UIDVALIDITY", "HIGHESTMODSEQ"}


def resp_kind(rec, at=0):
    """signatures name the response the violated invariant sits in (as the harness does)"""
    toks = rec["t"]
    lo, hi = 0, len(toks)
    if 0 < at <= len(toks):
        for i in range(at - 2, -1, -1):
            if toks[i] == "CRLF":
                lo = i + 1
                break
        for i in range(at - 1, len(toks)):
            if toks[i] == "CRLF":
                hi = i
                break
    for t in toks[lo:hi]:
        if t in RESP_NAMES:
            return t.lower()
    return rec["k"]


def refine(sig, rec, at=0):
    """the judge's coarse monitor signatures are narrowed with what the harness saw"""
    if sig.startswith("not-rejected/"):
        return ["/".join(sig.split("/")[:2] + [resp_kind(rec, at)])]
    if sig.startswith("conformant-rejected/"):
        return ["conformant-rejected/" + re.sub(r"[^A-Za-z0-9._-]", "-", sig.split("/", 2)[2])]
    if sig in ("crash", "nonreturn", "reader-panic", "accessor-panic"):
        pre = {"crash": ("unbounded-recursion/", "memory-blowup/", "crash/"), "nonreturn": ("nonreturn/",),
               "reader-panic": ("reader-panic/",), "accessor-panic": ("accessor-panic/",)}[sig]
        got = [s for s in (rec.get("x") or {}).get("sigs", []) if s.startswith(pre)]
        return got or [sig]
    return [sig]


def case_of(rec, cls="", why=""):
    x = rec.get("x") or {}
    return {"id": 0, "k": rec["k"], "b": "", "m": x.get("m", "recorded"), "c": cls, "w": why, "e": "ok",
            "tg": x.get("tg", 0), "sm": x.get("sm", 0), "t": rec["t"]}  # wi is filled by the caller


def run(ctx):
    quick = ctx.tier == "quick"
    phases = {}
    t = [time.time()]

    def lap(name):
        phases[name] = round(time.time() - t[0], 1)
        t[0] = time.time()

    pending = []      # (sig, detail, replay): emitted round-robin by signature at the end, so that
                      # every distinct signature gets a replay file before the driver's cap is reached

    def take(recs):
        for r in recs:
            if r.get("kind") == "mismatch":
                pending.append((r.get("sig", "?"), r.get("detail", ""), r.get("replay")))

    env = {"RF_SEED": str(ctx.seed % 1024)}
    # 1. model check of the classification + generation, one run
    g = ctx.tlc("RespFuzzGen", "RespFuzzGen_quick.cfg" if quick else "RespFuzzGen_thorough.cfg",
                env=env, timeout=1500, out_name="RespFuzzGen.gen.out")
    if g.status != "ok":
        raise vlib.Infra("RespFuzzGen: TLC %s: %s\n%s" % (g.status, g.cmd, g.detail or g.tail))
    lap("tlc_generate_and_check")
    binp = ctx.build("respfuzz")
    lap("build")

    # 2. spec -> impl
    obs_path = os.path.join(ctx.scratch, "obs.ndjson")
    recs, _, _ = ctx.harness(binp, ["replay", g.out_path, "-obs", obs_path], timeout=2400)
    s = ctx.summary(recs)
    take(recs)
    hidden = count_hidden(ctx, recs, s)
    if s["behaviours"] != g.generated - g_initial(g):
        ctx.notes.append("TLC generated %d transitions, %d lines replayed" % (g.generated, s["behaviours"]))
    ctx.cov["traces_validated_against_impl"] += s["behaviours"]
    ctx.cov["evaluations"] += s["steps"]
    ctx.cov["distinct_nontrivial"] += s["nontrivial"]
    for smp in s.get("samples") or []:
        ctx.sample({"generated_line": smp})
    lap("replay")

    # 3. resource monitor
    rrecs, _, _ = ctx.harness(binp, ["resource"], timeout=1200)
    rs = ctx.summary(rrecs)
    take(rrecs)
    merge(hidden, count_hidden(ctx, rrecs, rs))
    ctx.cov["evaluations"] += rs["steps"]
    lap("resource")

    # 4. impl -> spec
    tr = os.path.join(ctx.scratch, "respfuzz.ndjson")
    n, rawn = (2500, 20000) if quick else (10000, 100000)
    xrecs, _, _ = ctx.harness(binp, ["random", g.out_path, tr, "-seed", ctx.seed, "-n", n, "-rawn", rawn], timeout=2400)
    xs = ctx.summary(xrecs)
    take(xrecs)
    merge(hidden, count_hidden(ctx, xrecs, xs))
    lap("random")
    bad, classes = judge(ctx, tr, "recorded random token lines")
    lines = open(tr).read().splitlines()
    seen = {}
    for b in bad:
        rec = json.loads(lines[b["line"] - 1])
        for sig in refine(b["sig"], rec, b.get("at", 0)):
            seen[sig] = seen.get(sig, 0) + 1
            hidden[sig] = hidden.get(sig, 0) + 1
            if seen[sig] > 3:
                if any(k["sig"] == sig for k in ctx.known):
                    ctx.mismatch(sig, "", None)
                continue
            x = rec.get("x") or {}
            pending.append((sig, "judge RespFuzzTrace, record %d: context=%s tokens=%s class=%s %s outcome=%s %s" % (
                b["line"], rec["k"], " ".join(rec["t"])[:300], b["class"], b.get("why", ""), json.dumps(rec["o"]),
                (x.get("errtext") or x.get("crashtail") or "")[:300]), dict(case_of(rec, b["class"], b.get("why", "")), wi=b.get("at", 0))))
    ctx.cov["traces_validated_against_impl"] += xs["records"]
    ctx.cov["evaluations"] += xs["records"] + xs["raw"]
    ctx.cov["distinct_nontrivial"] += classes[0] + classes[1]
    ctx.sample({"recorded_random_line": json.loads(lines[0])})
    lap("judge")

    # 5. binding demonstration
    demo = binding_demo(ctx, obs_path)
    lap("binding_demo")

    try:
        os.unlink(g.out_path)
    except OSError:
        pass
    rounds = {}
    for item in pending:
        rounds.setdefault(item[0], []).append(item)
    order = ["unbounded-recursion", "crash", "reader-panic", "accessor-panic", "memory-blowup", "superlinear-memory",
             "superlinear-time", "nonreturn", "not-rejected", "conformant-rejected"]

    def rank(sig):
        pre = sig.split("/")[0]
        return (order.index(pre) if pre in order else len(order), sig)
    # A conformant line that the client refuses is not a C11 matter (the statement asks for no panic /
    # blow-up and for errors on invalid data; delivery of valid data is C03's): it is noted, not a verdict.
    for sig in [x for x in rounds if x.startswith("conformant-rejected/")]:
        ctx.notes.append("note (outside C11): %s x%d" % (sig, len(rounds[sig])))
        del rounds[sig]
    for k in range(4):
        for sig in sorted(rounds, key=rank):
            if k < len(rounds[sig]):
                ctx.mismatch(*rounds[sig][k])
    ctx.finish(
        level="model_checking",
        rule="behaviour = one generated line (context, tokens, class) run against a fresh real client, or one recorded "
             "random token line judged by RespFuzzTrace; non-trivial = the line is classified MustDeliver/MustError or "
             "delivered a value; distinct by construction for generated lines (one per transition of RespFuzzGen)",
        extra={"gen_lines": s["behaviours"], "by_class": s.get("by_class"), "by_mutation": s.get("by_mutation"),
               "class_outcome": s.get("class_outcome"), "kinds": len(s.get("by_kind") or {}),
               "child_processes": s.get("children"), "child_deaths_observed": s.get("child_deaths"),
               "resource_families": rs.get("families"), "resource_table": rs.get("table"),
               "random_token_lines": xs["records"], "random_token_classes_D_E_X": classes,
               "random_raw_inputs": xs["raw"], "raw_outcomes": xs.get("raw_outcomes"),
               "binding_demo": demo, "phases_s": phases, "signatures_seen": hidden,
               "level_note": "classification (total, disjoint, coverage) is model-checked and bound to the real client in both "
                             "directions; panics, recursion depth, allocation and time are observed on the real code only "
                             "(exploration-level clauses)"})


def g_initial(g):
    """states generated includes the initial states"""
    txt = open(g.out_path, errors="replace").read(200000)
    m = re.search(r"Finished computing initial states: (\d+) distinct state", txt)
    return int(m.group(1)) if m else 0


def count_hidden(ctx, recs, summary):
    """the harness prints at most a few mismatches per signature; the others still count as hits of
    a known finding.  Returns {sig: total count}."""
    printed = {}
    for r in recs:
        if r.get("kind") == "mismatch":
            printed[r["sig"]] = printed.get(r["sig"], 0) + 1
    total = dict(summary.get("sig_counts") or {})
    for sig, n in total.items():
        for _ in range(max(0, min(n, 50) - printed.get(sig, 0))):
            if any(k["sig"] == sig for k in ctx.known):
                ctx.mismatch(sig, "", None)
    return total


def merge(a, b):
    for k, v in b.items():
        a[k] = a.get(k, 0) + v


def binding_demo(ctx, obs_path):
    """records built from generated lines and their real outcome: accepted as they are, flagged at
    exactly the corrupted records otherwise; the judge's class = the generator's class"""
    want = {"E": None, "D": None, "X": None}
    sample = []
    for line in open(obs_path):
        d = json.loads(line)
        cs, o = d["case"], d["obs"]
        clean = o["returned"] and not o["crashed"] and not o["panic"] and not o["accpanic"]
        if not clean or not cs.get("t") or len(cs["t"]) > 80:
            continue
        rec = {"k": cs["k"], "t": cs["t"], "x": {"c": cs["c"], "w": cs.get("w", ""), "b": cs.get("b", ""), "st": cs.get("st") or "OK"},
               "o": {"ret": True, "crash": False, "panic": False, "accpanic": False, "err": o["err"],
                     "status": o["errkind"] if o["err"] else "OK"}}
        if cs["c"] == "E" and o["err"] and want["E"] is None:
            want["E"] = rec
        if cs["c"] == "D" and not o["err"] and cs.get("st", "OK") == "OK" and want["D"] is None:
            want["D"] = rec
        if cs["c"] == "X" and want["X"] is None:
            want["X"] = rec
        if len(sample) < 400 and (cs["c"] != "X" or len(sample) % 3 == 0):
            sample.append(rec)
    if not all(want.values()):
        raise vlib.Infra("binding demonstration: no suitable records (%s)" % {k: v is not None for k, v in want.items()})
    good = [want["E"], want["D"], want["X"]] + sample
    # the same three records with one outcome field corrupted each, appended at the end
    e, d, x = (json.loads(json.dumps(want[k])) for k in ("E", "D", "X"))
    e["o"]["err"] = False
    e["o"]["status"] = "OK"
    d["o"]["err"] = True
    d["o"]["status"] = "other"
    x["o"]["panic"] = True
    n = len(good)
    p = os.path.join(ctx.scratch, "demo.ndjson")
    open(p, "w").write("".join(json.dumps(r) + "\n" for r in good + [e, d, x]))
    bad, classes = judge(ctx, p, "binding demonstration")
    gen_classes = tuple(sum(1 for r in good if r["x"]["c"] == c) + 1 for c in ("D", "E", "X"))
    if classes != gen_classes:
        raise vlib.Infra("binding demonstration: judge classes %s differ from generator classes %s" % (classes, gen_classes))
    # on the true records the judge must flag exactly what the direct comparison flags
    expected_bad = set()
    for i, r in enumerate(good):
        c, o = r["x"]["c"], r["o"]
        if (c == "E" and not o["err"]) or (c == "D" and o["status"] != r["x"]["st"]):
            expected_bad.add(i + 1)
    got_bad = set(b["line"] for b in bad if b["line"] <= n)
    if got_bad != expected_bad:
        raise vlib.Infra("binding demonstration: judge flags %s, direct comparison flags %s" % (
            sorted(got_bad ^ expected_bad)[:5], sorted(expected_bad)[:5]))
    got = sorted((b["line"] - n, b["sig"].split("/")[0]) for b in bad if b["line"] > n)
    exp = [(1, "not-rejected"), (2, "conformant-rejected"), (3, "reader-panic")]
    if got != exp:
        raise vlib.Infra("binding demonstration failed: corrupted records judged %s, expected %s" % (got, exp))
    return ("%d records built from generated lines with their real outcome: judge classes = generator classes %s, "
            "judge flags = direct comparison (%d records); the same E / D / X record with err, status, panic corrupted: "
            "flagged at exactly those records as %s" % (n, classes, len(expected_bad), [g_[1] for g_ in got]))


def replay(ctx, path):
    data = json.load(open(path))
    rp = data.get("replay")
    if not isinstance(rp, dict):
        print("no replayable case in %s" % path)
        return
    p = os.path.join(ctx.scratch, "case.json")
    json.dump(rp, open(p, "w"))
    binp = ctx.build("respfuzz")
    recs, _, _ = ctx.harness(binp, ["one", p], timeout=600)
    hit = False
    for r in recs:
        if r.get("kind") == "mismatch":
            hit = True
            print("REPRODUCED sig=%s %s" % (r["sig"], r["detail"][:1000]))
    if not hit:
        print("not reproduced on the working tree")
