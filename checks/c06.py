"""C06 — server robustness and exactly-once cleanup (spec/ServerLife.tla).

1. TLC model-checks ServerLife: Session.Close at most once, "done" means clean, and under fairness
   a disconnect in any reader mode (line, literal, SASL exchange, IDLE) leads to complete cleanup.
2. Crash points: 7 valid multi-command transcripts (quoted/sync/non-sync literals, AUTHENTICATE with
   and without initial response, IDLE, UID/MOVE, errors, refused literal) are cut at EVERY byte offset
   with a clean close, a close after the server went quiet, and a reset (quick: the latter two at every
   3rd offset); the ordered life-cycle events of each connection are recorded and judged by
   ServerLifeTrace (calls only while the session is open, buffered arguments <= 4096, APPEND <= limit,
   IDLE goroutine stopped before Session.Close, exactly one Close, connection closed, trace ends clean).
3. Inputs: token-level mutations of the transcripts, deep nesting, raw garbage - judged the same way.
   Panics in the server log, goroutines left behind and connections that never end are reported directly.
"""
import json, os
import vlib


SHIM = os.path.join(vlib.VERIF, "harness", "cmd", "life", "testdata", "conns_shim.go")


def overlay(ctx):
    """the server's registry of connections is not exported: one accessor is added to package imapserver at build
    time (go build -overlay); nothing is written into the repository"""
    target = os.path.join(vlib.REPO, "imapserver", "zz_verif_conns.go")
    if os.path.exists(target):
        raise vlib.Infra("%s exists in the repository; the overlay file name is taken" % target)
    p = os.path.join(ctx.scratch, "life-overlay.json")
    with open(p, "w") as fh:
        json.dump({"Replace": {target: SHIM}}, fh)
    return p


def run(ctx):
    quick = ctx.tier == "quick"
    r = ctx.tlc_ok("ServerLife", "ServerLife_mc.cfg", timeout=600)
    binp = ctx.build("life", overlay=overlay(ctx))
    ok1, tr1, s1 = vlib.record_and_validate(ctx, binp, ["cuts", "-stride", 3 if quick else 1, "-seed", ctx.seed],
                                            "ServerLifeTrace", "ServerLifeTrace.cfg", name="life-cuts.ndjson", timeout=1800)
    ok2, tr2, s2 = vlib.record_and_validate(ctx, binp, ["fuzz", "-n", 4000 if quick else 60000, "-seed", ctx.seed],
                                            "ServerLifeTrace", "ServerLifeTrace.cfg", name="life-fuzz.ndjson", timeout=1800)
    ctx.cov["distinct_nontrivial"] += s1.get("nontrivial", 0) + s2.get("nontrivial", 0)
    demo = "skipped"
    if ok1:
        # binding demonstration: a trace in which the backend session is never closed must be rejected
        lines = open(tr1).read().splitlines()
        idx = next(i for i, x in enumerate(lines) if '"SessionClose"' in x and i > 200)
        p = os.path.join(ctx.scratch, "life-corrupt.ndjson")
        open(p, "w").write("\n".join(lines[:idx] + lines[idx + 1:idx + 40]) + "\n")
        ok, at, _, _ = ctx.validate_trace("ServerLifeTrace", "ServerLifeTrace.cfg", p)
        if ok:
            raise vlib.Infra("binding demonstration failed: trace without SessionClose accepted")
        demo = "trace with the SessionClose record %d removed is rejected at record %s" % (idx + 1, at)
    ctx.assumptions += ["100 MiB payloads are never sent, only announced",
                        "'does not end' = no connection close within 3 s after the peer is gone",
                        "goroutine check: no imapserver.(*Conn) frame alive 2 s after the batch"]
    ctx.finish(rule="case = (transcript prefix or mutated/garbage input, kind of disconnect); non-trivial = at least one backend "
               "call happened before the end; every (transcript, offset, cut kind) is distinct by construction",
               extra={"binding_demo": demo, "mc_states": r.distinct, "cut_cases": s1.get("behaviours"),
                      "fuzz_cases": s2.get("behaviours")})


def replay(ctx, path):
    data = json.load(open(path))
    rp = data.get("replay")
    if isinstance(rp, dict) and rp.get("kind") == "trace":
        return vlib.replay_generic(ctx, path, "life", "ServerLifeTrace", "ServerLifeTrace.cfg")
    if rp is None:
        print("this violation has no single replay case (batch-level observation); re-run the check")
        return
    p = os.path.join(ctx.scratch, "case.json")
    json.dump(rp, open(p, "w"))
    binp = ctx.build("life", overlay=overlay(ctx))
    tr = os.path.join(ctx.scratch, "one.ndjson")
    recs, _, _ = ctx.harness(binp, ["one", p, tr])
    for r in recs:
        if r.get("kind") == "mismatch":
            print("REPRODUCED sig=%s %s" % (r["sig"], r["detail"][:800]))
            return
    ok, at, rec, _ = ctx.validate_trace("ServerLifeTrace", "ServerLifeTrace.cfg", tr)
    print("not reproduced on the working tree" if ok else "REPRODUCED: trace rejected at %s: %s" % (at, rec))
