"""C03 — backend data reach the client caller intact (spec/RespSpace.tla).

1. TLC model-checks the specification itself (invariants of RespSpace_mc*.cfg, evaluated in the
   same TLC run as the generator): Norm is idempotent on every catalogue case, every catalogue
   case is inside the writers' documented contract.
2. spec -> impl: RespSpaceGen prints every (configuration, request, data) case of the catalogue
   with exp = Norm(data); the harness lets a real imapclient.Client issue the request against a
   real imapserver.Server (in-memory connection) whose stub Session writes `data` through the
   real writer API, and compares what Wait/Collect/Next deliver (literals read fully, byte for
   byte, in the order sent) with exp.  The harness' own port of Norm is applied to the delivered
   side only and is itself checked against TLC's exp on every case.
3. impl -> spec: the harness generates random deep structures beyond the catalogue's bounds,
   pushes them through the same pipe and records (supplied, delivered); RespSpaceTrace applies
   Norm to both sides of every record.  Rejected records are re-run one by one (classify) so
   that each gets the signature of what differs; a rejected record that does not reproduce is
   reported as such.
4. binding demonstration: in an excerpt of accepted records one delivered literal is corrupted
   and, in another record, two delivered literals are swapped; RespSpaceTrace must reject exactly
   these two records.
"""
import json, os, re, time
from concurrent.futures import ThreadPoolExecutor
import vlib

CHUNK = 1500


def run(ctx):
    quick = ctx.tier == "quick"
    phases = {}
    t = [time.time()]

    def lap(name):
        phases[name] = round(time.time() - t[0], 1)
        t[0] = time.time()

    # 1 + 2. one TLC run checks the specification's own properties (the invariants of RespSpace_mc.cfg
    # are also in the generator's cfg) and prints every case for the spec -> impl direction
    g = r = ctx.tlc_ok("RespSpaceGen", "RespSpaceGen_quick.cfg" if quick else "RespSpaceGen_thorough.cfg",
                       timeout=900)
    lap("spec_properties_and_generator_tlc")
    binp = ctx.build("respspace")
    lap("go_build")
    recs, _, _ = ctx.harness(binp, ["replay", g.out_path, "-workers", 8], timeout=900)
    s = ctx.summary(recs)
    ctx.take_mismatches(recs)
    lap("replay_harness")
    if s["behaviours"] == 0 or s["behaviours"] != g.distinct - 20:
        raise vlib.Infra("generator printed %d cases, TLC reports %d distinct states (20 initial)"
                         % (s["behaviours"], g.distinct))
    if set(s["per_kind"]) != {"list", "status", "select", "fetch", "search", "append", "copy", "expunge", "ns", "caps"}:
        raise vlib.Infra("a kind of response was not generated: %s" % s["per_kind"])
    ctx.cov["traces_validated_against_impl"] += s["behaviours"]
    ctx.cov["evaluations"] += s["behaviours"]
    ctx.cov["distinct_nontrivial"] += s["nontrivial"]
    for smp in (s.get("samples") or [])[:2]:
        ctx.sample({"generated_case": smp})
    os.unlink(g.out_path)
    # 3. impl -> spec
    n = 1500 if quick else 24000
    tr = os.path.join(ctx.scratch, "respspace.ndjson")
    recs, _, _ = ctx.harness(binp, ["random", tr, "-seed", ctx.seed, "-n", n, "-workers", 8], timeout=900)
    s2 = ctx.summary(recs)
    lap("random_harness")
    parts = split(ctx, tr)
    ctx.specdir()
    with ThreadPoolExecutor(max_workers=6) as ex:
        results = list(ex.map(lambda p: lenient_walk(ctx, p), parts))
    lap("trace_validation_tlc")
    bad = sorted(i for res in results for i in res)
    accepted = s2["records"] - len(bad)
    ctx.cov["traces_validated_against_impl"] += accepted
    ctx.cov["evaluations"] += s2["records"]
    ctx.cov["distinct_nontrivial"] += s2["nontrivial"]
    reproduced = 0
    if bad:
        reproduced = classify(ctx, binp, bad, n)
    lap("classify_rejected")
    head = [json.loads(x) for x in open(tr).read().splitlines()[:40]]
    for rec in head:
        if rec["i"] not in bad and rec["k"] in ("fetch", "list") and len(json.dumps(rec)) < 900:
            ctx.sample({"recorded": rec})
            break
    # 4. binding demonstration
    demo = binding_demo(ctx, tr, set(bad))
    lap("binding_demo")
    ctx.finish(rule="case = one (IMAP4rev2 enabled or not, request, data a backend hands to the server writers); "
               "generated cases are distinct by construction (one per state of the RespSpace catalogue), recorded "
               "cases are random structures beyond its bounds; non-trivial = Norm changes the supplied data, or an "
               "envelope, a body structure or a body/binary literal is carried",
               extra={"binding_demo": demo, "spec_states": r.distinct, "generated_cases": s["behaviours"],
                      "generated_per_kind": s["per_kind"], "generated_literals": s["literals"],
                      "generated_literal_octets": s["literal_octets"], "generated_mismatches": s["mismatches"],
                      "generated_distinct_sigs": s["distinct_sigs"],
                      "recorded_cases": s2["records"], "recorded_per_kind": s2["per_kind"],
                      "recorded_literals": s2["literals"], "recorded_literal_octets": s2["literal_octets"],
                      "recorded_accepted": accepted, "recorded_rejected": len(bad),
                      "recorded_rejected_reproduced": reproduced, "phase_wall_s": phases})


def split(ctx, tr):
    """the recorded cases are validated in chunks, side by side (one TLC worker per trace)"""
    lines = open(tr).read().splitlines()
    parts = []
    for k in range(0, len(lines), CHUNK):
        p = os.path.join(ctx.scratch, "respspace-%d.ndjson" % (k // CHUNK))
        open(p, "w").write("\n".join(lines[k:k + CHUNK]) + "\n")
        parts.append(p)
    return parts


def lenient_walk(ctx, path):
    """every record is judged; returns the case numbers RespSpaceTrace rejects"""
    r = ctx.tlc("RespSpaceTrace", "RespSpaceTraceAll.cfg", workers=1, env={"TRACE_FILE": path}, count=False,
                out_name="RespSpaceTraceAll." + os.path.basename(path) + ".out", timeout=900)
    txt = open(r.out_path, errors="replace").read()
    if r.status != "ok":
        raise vlib.Infra("trace walk failed (recorded data outside the contract, or a problem of the spec): %s\n%s"
                         % (r.cmd, r.detail or r.tail))
    nrec = sum(1 for _ in open(path))
    if r.depth != nrec + 1:
        raise vlib.Infra("trace walk took %d of %d records" % (r.depth - 1, nrec))
    bad = []
    for m in re.finditer(r'<<"BAD", "(.*)">>', txt):
        bad.append(json.loads(json.loads('"' + m.group(1) + '"'))["i"])
    return bad


def classify(ctx, binp, bad, n):
    """re-run the rejected recorded cases; each reproduced one carries the signature of what differs"""
    p = os.path.join(ctx.scratch, "bad.json")
    json.dump(bad, open(p, "w"))
    recs, _, _ = ctx.harness(binp, ["classify", p, "-seed", ctx.seed, "-n", n], timeout=900)
    ctx.summary(recs)
    seen = set()
    for r in recs:
        if r.get("kind") == "mismatch":
            seen.add(r["replay"]["index"])
    ctx.take_mismatches(recs)
    for i in bad:
        if i not in seen:
            ctx.mismatch("rec:rejected-not-reproduced",
                         "RespSpaceTrace rejects recorded case %d of seed %d but re-running it delivers Norm-equal data"
                         % (i, ctx.seed), {"kind": "random", "seed": ctx.seed, "index": i})
    return len(seen)


def binding_demo(ctx, tr, bad):
    """In an excerpt of accepted records one delivered literal is replaced and, in another record,
    two delivered body literals are exchanged; RespSpaceTrace must reject exactly these two."""
    excerpt, mutated, notes = [], [], []
    done = set()
    for line in open(tr).read().splitlines():
        rec = json.loads(line)
        if rec["i"] in bad or rec["fail"]:
            continue
        mut = None
        if rec["k"] == "fetch" and len(excerpt) >= 5:
            lits = [(mi, ii) for mi, m in enumerate(rec["got"]) for ii, it in enumerate(m["items"])
                    if it["t"] in ("sec", "bin") and it["n"] > 0]
            if "corrupt" not in done and lits:
                mi, ii = lits[0]
                rec["got"][mi]["items"][ii]["p"] = "#0000000000000000"
                mut = "corrupt"
            elif "swap" not in done:
                for m in rec["got"]:
                    ls = [ii for ii, it in enumerate(m["items"]) if it["t"] == "sec"]
                    if len(ls) >= 2 and m["items"][ls[0]] != m["items"][ls[1]]:
                        a, b = ls[0], ls[1]
                        m["items"][a], m["items"][b] = m["items"][b], m["items"][a]
                        mut = "swap"
                        break
        if mut:
            done.add(mut)
            mutated.append(rec["i"])
            notes.append({"corrupt": "one delivered literal of recorded case %d replaced",
                          "swap": "two delivered body literals of recorded case %d exchanged"}[mut] % rec["i"])
            excerpt.append(json.dumps(rec))
        else:
            excerpt.append(line)
        if len(done) == 2 or len(excerpt) > 400:
            break
    if not mutated:
        return "no suitable accepted record"
    p = os.path.join(ctx.scratch, "demo.ndjson")
    open(p, "w").write("\n".join(excerpt) + "\n")
    got = lenient_walk(ctx, p)
    if sorted(got) != sorted(mutated):
        raise vlib.Infra("binding demonstration failed: mutated recorded cases %s, RespSpaceTrace rejected %s"
                         % (mutated, got))
    return "; ".join(notes) + ": RespSpaceTrace rejects exactly these %d of the %d records of the excerpt" % (
        len(mutated), len(excerpt))


def replay(ctx, path):
    data = json.load(open(path))
    rp = data.get("replay") or {}
    binp = ctx.build("respspace")
    if rp.get("kind") == "random":
        p = os.path.join(ctx.scratch, "idx.json")
        json.dump([rp["index"]], open(p, "w"))
        recs, _, _ = ctx.harness(binp, ["classify", p, "-seed", rp["seed"]])
    else:
        p = os.path.join(ctx.scratch, "case.json")
        json.dump(rp, open(p, "w"))
        recs, _, _ = ctx.harness(binp, ["one", p])
    for r in recs:
        if r.get("kind") == "observed":
            print("real client delivered: %s%s" % (json.dumps(r["delivered"])[:1500],
                                                   " EXCHANGE FAILED: " + r["fail"] if r["fail"] else ""))
    for r in recs:
        if r.get("kind") == "mismatch":
            print("REPRODUCED sig=%s %s" % (r["sig"], r["detail"][:1500]))
            return
    print("not reproduced on the working tree")
