"""C13 — client concurrency (spec/ClientConc.tla + hooks in imapclient under build tag verif).

1. TLC model-checks the concurrency design at critical-section granularity (submitters, reader,
   closeWithError run by the reader or by a submitter whose write failed, encMutex, client mutex):
   no data race on pendingCmds, each command completed at most once, nobody blocks forever, every
   maximal behaviour ends with every Wait returned.  The as-found design (a command registered before
   it is initialised) must FAIL this check (vacuity guard), and the design in which a submitter's
   closeWithError completes a streaming command while the reader is handing it data must exhibit
   NoSendOnClosedChannel (the known finding) - both are checked on every run; so is the variant in which a
   literal-bearing submitter keeps encMutex after its literal was refused (must violate GoodEnd), and the variant in
   which the reader leaves a command in pendingCmds between reading the tag of its tagged response and completing it
   (must violate AtMostOnce: a closeWithError in between completes it a first time).
2. ClientConcGen prints every maximal behaviour as a schedule; the harness re-enacts each on a real
   client with the hooks as gates (built with -race): hook order per command (initialised before
   visible), every Wait returns exactly once, nobody blocks, no panic, no race report.
3. Stress: free-running goroutines (plain / streaming / literal-bearing commands - APPEND and a SEARCH with an
   8-bit string, the server accepting or refusing the literal -, Caps/State/Mailbox), connection loss and
   Close at random moments, -race; the hook log is validated by ClientConcTrace; race-detector reports
   with imapclient frames are violations.
"""
import os, re
import vlib


def races(ctx, path):
    """turn race detector reports into mismatches: sig = data-race/<write func>+<read func>"""
    if not os.path.exists(path):
        return 0
    txt = open(path, errors="replace").read()
    n = 0
    for rep in txt.split("WARNING: DATA RACE")[1:]:
        rep = rep.split("==================")[0]
        parts = re.split(r"\n(?=Previous (?:read|write) at)", rep, maxsplit=1)
        tops = []
        for part in parts[:2]:
            part = part.split("Goroutine ")[0]          # drop the "created at" sections
            m = re.search(r"go-imap/v2/imapclient\.\(?\*?\w*\)?\.?([\w.]+)\(\)", part)
            tops.append(m.group(1) if m else "?")
        if tops == ["?"] or tops == ["?", "?"]:
            continue
        sig = "data-race/" + "+".join(sorted(set(tops)))
        ctx.mismatch(sig, "race detector: " + " ".join(rep.split())[:600], None)
        n += 1
    return n


def crash_in_library(path):
    """first stack after the last panic / fatal error line has a go-imap frame: returns its head, else None"""
    if not os.path.exists(path):
        return None
    txt = open(path, errors="replace").read()
    i = max(txt.rfind("\npanic: "), txt.rfind("\nfatal error: "))
    if i < 0:
        if txt.startswith("panic: ") or txt.startswith("fatal error: "):
            i = 0
        else:
            return None
    rest = txt[i:]
    g = rest.find("\ngoroutine ")
    if g < 0:
        return None
    stack = rest[g + 1:].split("\n\n")[0]
    if "github.com/emersion/go-imap/v2/" not in stack:
        return None
    return " ".join((rest[:g] + " " + stack).split())[:500]


def run(ctx):
    quick = ctx.tier == "quick"
    r = ctx.tlc_ok("ClientConc", "ClientConc_mc.cfg", timeout=600)
    if not quick:
        ctx.tlc_ok("ClientConc", "ClientConc_mc3.cfg", timeout=900)
    # literal-bearing submitters keep encMutex while they wait for the continuation request
    ctx.tlc_ok("ClientConc", "ClientConc_lit.cfg", timeout=600)
    for cfg, inv in (("ClientConc_asfound.cfg", None), ("ClientConc_stream.cfg", "NoSendOnClosedChannel"),
                     ("ClientConc_litleak.cfg", "GoodEnd"), ("ClientConc_latetake.cfg", "AtMostOnce")):
        bad = ctx.tlc("ClientConc", cfg, timeout=600, count=False)
        txt = open(bad.out_path, errors="replace").read()
        if bad.status != "violation" or (inv and ("Invariant %s is violated" % inv) not in txt):
            raise vlib.Infra("%s should violate %s (vacuity guard) but TLC says %s" % (cfg, inv or "an invariant", bad.status))
    binr = ctx.build("clientconc", race=True)
    errp = os.path.join(ctx.scratch, "race.err")
    nrace = 0
    for gcfg, stride in ((("ClientConcGen.cfg", 1), ("ClientConcGenStream.cfg", 1)) if quick
                         else (("ClientConcGen.cfg", 1), ("ClientConcGenStream.cfg", 1), ("ClientConcGen3.cfg", 25))):
        g = ctx.tlc("ClientConcGen", gcfg, timeout=1500, count=False, out_name="gen-" + gcfg + ".out")
        if g.status != "ok":
            raise vlib.Infra("schedule generator failed: %s" % (g.detail or g.tail))
        recs, rc, _ = ctx.harness(binr, ["schedules", g.out_path, "-stride", stride, "-seed", ctx.seed], timeout=2400,
                                  allow_fail=True, stderr_to=errp)
        s = ctx.summary(recs)
        ctx.take_mismatches(recs)
        nrace += races(ctx, errp)
        ctx.cov["traces_validated_against_impl"] += s["behaviours"]
        ctx.cov["evaluations"] += s["steps"]
        ctx.cov["distinct_nontrivial"] += s["nontrivial"]
        for smp in (s.get("samples") or [])[:1]:
            ctx.sample({"re-enacted schedule": smp})
        os.unlink(g.out_path)
    tr = os.path.join(ctx.scratch, "stress.ndjson")
    recs, rc, _ = ctx.harness(binr, ["stress", tr, "-seed", ctx.seed, "-rounds", 150 if quick else 2500], timeout=2400,
                              allow_fail=True, stderr_to=errp)
    ctx.take_mismatches(recs)
    nrace += races(ctx, errp)
    if not any(r.get("kind") == "summary" for r in recs):
        # the stress process died: a goroutine brought down inside go-imap is an observation about go-imap
        # (a library goroutine that panics cannot be recovered by the caller); anything else is infrastructure
        why = crash_in_library(errp)
        if not why:
            raise vlib.Infra("stress harness died without summary, not inside go-imap")
        ctx.mismatch("process-crash", "the process died during the stress run: " + why, None)
        ctx.finish(rule="stress run crashed inside go-imap; schedules re-enacted before", extra={"mc_states": r.distinct, "race_reports": nrace})
        return
    s2 = ctx.summary(recs)
    ok, at, rec, _ = ctx.validate_trace("ClientConcTrace", "ClientConcTrace.cfg", tr, timeout=1500)
    demo = "skipped"
    if ok:
        ctx.cov["traces_validated_against_impl"] += s2["traces"]
        ctx.cov["evaluations"] += s2["records"]
        import json
        demo = vlib.corrupt_demo(ctx, tr, "ClientConcTrace", "ClientConcTrace.cfg",
                                 lambda rec: rec.get("ev") == "Hook" and rec["point"] == "begin.inited",
                                 lambda rec: rec.update(point="begin.registered"))
    else:
        ctx.mismatch("trace-rejected", "ClientConcTrace rejects the recorded hook log at record %s: %s" % (at, str(rec)[:800]),
                     {"kind": "trace", "prefix": vlib.trace_prefix(tr, at)})
    ctx.assumptions += ["data-race freedom is decided by the Go race detector on the TLC-enumerated schedules and on stress runs; "
                        "TLA+ supplies the schedules at hook granularity (7 hook points in imapclient, build tag verif)",
                        "races inside one critical section or in library code are outside the model"]
    ctx.finish(rule="behaviour = maximal schedule of ClientConc (2 submitters: all; 3 submitters: every 25th in thorough); non-trivial = the "
               "connection is lost while commands are pending (closeWithError completes at least one command)",
               extra={"binding_demo": demo, "mc_states": r.distinct, "race_reports": nrace, "stress_records": s2.get("records")})


def replay(ctx, path):
    import json
    data = json.load(open(path))
    rp = data.get("replay")
    if isinstance(rp, dict) and rp.get("kind") == "trace":
        return vlib.replay_generic(ctx, path, "clientconc", "ClientConcTrace", "ClientConcTrace.cfg")
    if rp is None:
        print("race-detector / stress observations have no single replay case; re-run the check")
        return
    p = os.path.join(ctx.scratch, "sched.out")
    open(p, "w").write('<<"T", %s>>\n' % json.dumps(json.dumps(rp)))
    binp = ctx.build("clientconc")
    recs, _, _ = ctx.harness(binp, ["schedules", p], allow_fail=True)
    for r in recs:
        if r.get("kind") == "mismatch":
            print("REPRODUCED sig=%s %s" % (r["sig"], r["detail"][:600]))
            return
    print("not reproduced on the working tree")
