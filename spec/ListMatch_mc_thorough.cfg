CONSTANTS
  MaxName = 4
  MaxPat = 4
INIT Init
NEXT Next
INVARIANTS TypeOK Lemmas
CHECK_DEADLOCK FALSE
