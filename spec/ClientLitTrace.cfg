CONSTANTS
  LitMax = 4096
INIT TraceInit
NEXT TraceNext
INVARIANTS NoPayloadAfterRefusal RefusalIsLocal EndsUsable
POSTCONDITION TraceAccepted
CHECK_DEADLOCK FALSE
