CONSTANTS
  Stride = 1
  Stride2 = 24
  Seed <- EnvSeed
INIT Init
NEXT GenNext
VIEW GenView
CHECK_DEADLOCK FALSE
