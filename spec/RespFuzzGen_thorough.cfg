\* one run is both the model check of the classification (invariants over every
\* generated line: no VIEW) and the generator (one T line per transition)
CONSTANTS
  Stride = 2
  Stride2 = 24
  Seed <- EnvSeed
INIT Init
NEXT GenNext
INVARIANTS TypeOK Disjoint RouteAgrees BasesDeliver
CHECK_DEADLOCK FALSE
