CONSTANTS
  Sessions = {"s1", "s2"}
  Mailboxes = {"A", "B"}
  Flags <- OnlyDeleted
  MaxMsgs = 3
  MaxUid = 3
  MaxQueue = 3
  Kinds <- KMove
  SeqSets <- SetsStar
  UidSets <- SetsStar
  UidForms <- Both
  AppendFlags <- NoFlagsOnly
  AppendBoxes <- OnlyA
  StoreOps <- Plus
  IdleAny = FALSE
INIT GenInit
NEXT GenNext
CONSTRAINT Bounded
VIEW GenView
INVARIANTS TypeOK RemovedReportedOnce
PROPERTIES StepSeqNums StepNoExpunge StepShrink StepNoop
CHECK_DEADLOCK FALSE
