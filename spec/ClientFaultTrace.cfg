CONSTANTS
  Layouts <- McLayouts
INIT TraceInit
NEXT TraceNext
INVARIANTS NoSuccessWithoutCompletion
POSTCONDITION TraceAccepted
CHECK_DEADLOCK FALSE
