CONSTANTS
  Thorough = FALSE
INIT Init
NEXT Next
INVARIANTS CfgInv CatalogueLegal NormIdempotent AcceptSane WellTyped
CHECK_DEADLOCK FALSE
