CONSTANTS
  Names <- NamesAC
  Conns = 1
  CatIds = {1}
  MaxMsgs = 2
  MaxUid = 2
  MaxCreates = 2
  Family = "msg"
  Level = 0
  Mode = "bfs"
  SimDepth = 0
INIT GenInit
NEXT GenNext
CONSTRAINT Bounded
INVARIANT Emit
VIEW GenView
CHECK_DEADLOCK FALSE
