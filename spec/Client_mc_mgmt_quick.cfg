CONSTANTS
  MaxCmds = 4
  MaxPending = 2
  MaxNum = 1
  MaxItems = 1
  MaxUid = 1
  MaxCode = 1
  NFlagSets = 1
  SyncLit = FALSE
  Kinds = {"AUTHENTICATE", "LOGIN", "DELETE", "RENAME", "SUBSCRIBE", "UNSUBSCRIBE", "SETQUOTA", "SETMETADATA", "UNAUTH"}
  Greetings = {"OK"}
INIT Init
NEXT Next
VIEW McView
INVARIANTS TypeOK IdleAlone
PROPERTIES ExactlyOnce Isolation DataToRightCommand StateDiagram
CHECK_DEADLOCK FALSE
