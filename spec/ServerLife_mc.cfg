CONSTANTS
  LitMax = 2
  AppendMax = 4
  NestMax = 3
  Sizes = {0, 1, 2, 3, 4, 5}
SPECIFICATION Spec
INVARIANTS TypeOK CloseAtMostOnce DoneMeansClean
PROPERTIES NoCallAfterClose CleanupAfterDisconnect
CHECK_DEADLOCK FALSE
