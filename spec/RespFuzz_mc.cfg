CONSTANTS
  Stride = 64
  Stride2 = 0
  Seed <- EnvSeed
INIT Init
NEXT Next
INVARIANTS TypeOK Disjoint RouteAgrees BasesDeliver
CHECK_DEADLOCK FALSE
