---------------------------- MODULE ServerFraming ----------------------------
(***************************************************************************)
(* Command framing of an imapserver connection (property C04): the client  *)
(* sends a sequence of UNITS - one command each, whose string argument is  *)
(* a quoted string, a synchronising literal {n} or a non-synchronising     *)
(* literal {n+}, of a size below/above the 4096-byte buffered-literal      *)
(* limit or above the APPEND limit, with a payload that is benign or       *)
(* contains CRLF and command-like text.  The specification says, for each  *)
(* unit, what a conforming server may do:                                  *)
(*   - exactly one tagged completion with the unit's tag (or close),       *)
(*   - a continuation request only for a synchronising literal it accepts, *)
(*     for AUTHENTICATE and for IDLE,                                      *)
(*   - a refused synchronising literal: tagged refusal, no "+", payload    *)
(*     never sent,                                                         *)
(*   - a refused non-synchronising literal (RFC 7888): either its octets   *)
(*     are consumed and the command refused, or the connection is closed,  *)
(*   - literal octets are delivered to the backend only as the argument    *)
(*     they were announced for and never parsed as commands.               *)
(* The reader is modelled by `mode`; a behaviour is a sequence of units.   *)
(***************************************************************************)
EXTENDS Naturals, Sequences, FiniteSets, TLC

CONSTANTS LitPlusSet,   \* set of BOOLEAN: server advertises LITERAL+ (LITERAL- is implied by IMAP4rev1)
          Utf8Set,      \* set of BOOLEAN: the client has enabled UTF8=ACCEPT (the server may then quote 8-bit strings)
          SaslSet       \* set of BOOLEAN: the backend session brings its own SASL mechanisms (SessionSASL), one of
                        \* which (XFINAL) ends with data for the client (as SCRAM's server signature does)

VARIABLES litplus,  \* configuration, chosen in Init
          utf8,     \* configuration, chosen in Init (only an authenticated connection can have enabled anything)
          sasl,     \* configuration, chosen in Init
          state,    \* "notauth" | "auth"
          closed,   \* connection closed by the server
          stuck,    \* server is consuming an over-long literal whose octets the client never sends
          out       \* observation of the last unit

vars == <<litplus, utf8, sasl, state, closed, stuck, out>>

\* ---- units -------------------------------------------------------------
\* placements of the string argument
\* FETCH-hdr: FETCH 1 BODY.PEEK[HEADER.FIELDS (<string>)] - the string comes back in the response (the section
\* specification is echoed), so whatever the client put into it must leave the server as a well-formed string
BufferedCmds == {"LOGIN-user", "LOGIN-pass", "CREATE", "LIST-pat", "SEARCH-str", "RENAME-new", "FETCH-hdr"}
\* APPEND-fail / APPEND-panic: the backend refuses the message / panics BEFORE it has read the literal it was handed:
\* the octets still on the wire are message data all the same
StreamCmds   == {"APPEND", "APPEND-fail", "APPEND-panic"}
FaultyBackend == {"APPEND-fail", "APPEND-panic"}
\* literal announced after a syntax error / unknown command / where the command name should be (`tag {n+}`) /
\* behind a bare UID (`tag UID {n+}`)
SyntaxCmds   == {"NOOP-lit", "XUNK-lit", "TAG-lit", "UID-lit"}
\* no literal; AUTH-CANCEL and IDLE use continuation requests.  AUTH-FINAL: AUTHENTICATE XFINAL <initial response> -
\* the mechanism accepts and has final data for the client: the server may send them in one more continuation
\* request (which the client answers with an empty line - that line belongs to the exchange, it is no command) or
\* leave them out
PlainCmds    == {"NOOP", "AUTH-CANCEL", "IDLE", "AUTH-FINAL"}
UnitCmds == BufferedCmds \cup StreamCmds \cup SyntaxCmds \cup PlainCmds

Forms    == {"quoted", "sync", "nonsync"}
Sizes    == {"small", "big", "huge"}    \* <= 4096;  4096 < n <= APPEND limit;  > APPEND limit
Payloads == {"benign", "smuggle"}

\* pad: the rejected line in front of a literal header may be long (around the server's 4096-byte read
\* buffer and beyond); the framing of what follows must not depend on it.  The harness sweeps the
\* concrete lengths of a "long" line across the buffer boundaries.
Units == [cmd : BufferedCmds \cup StreamCmds \cup SyntaxCmds, form : Forms, size : Sizes, payload : Payloads, pad : {"short"}]
           \cup [cmd : SyntaxCmds, form : {"nonsync"}, size : Sizes, payload : Payloads, pad : {"long"}]
           \cup [cmd : PlainCmds, form : {"none"}, size : {"small"}, payload : {"benign"}, pad : {"short"}]

\* a quoted string cannot be big, cannot hold CR/LF; APPEND data is always a literal;
\* the syntax-error placements only make sense with a literal
WellFormedUnit(u) ==
  /\ u.form = "quoted" => u.size = "small" /\ u.payload = "benign" /\ u.cmd \in BufferedCmds
  /\ u.cmd \in PlainCmds => u.form = "none"
  /\ u.cmd \in FaultyBackend => u.payload = "smuggle" /\ u.size # "huge"     \* (the interesting ones only)

\* ---- acceptance of a literal -------------------------------------------
\* Is the server willing to take a literal of this form and size class for this command?
Accepts(u) ==
  CASE u.form \in {"quoted", "none"} -> TRUE
    [] u.cmd \in BufferedCmds -> u.size = "small"                       \* buffered strings: <= 4096
    [] u.cmd \in StreamCmds   ->
         IF u.form = "sync" THEN u.size # "huge"
         ELSE u.size = "small" \/ (u.size = "big" /\ litplus)          \* LITERAL-: non-sync <= 4096
    [] OTHER -> FALSE                                                   \* syntax error: nothing is accepted

\* Does the command, once parsed, succeed in the current state?
Permitted(u) ==
  CASE u.cmd \in {"LOGIN-user", "LOGIN-pass", "AUTH-CANCEL", "AUTH-FINAL"} -> state = "notauth"
    [] u.cmd \in {"NOOP"} -> TRUE
    [] u.cmd \in SyntaxCmds -> FALSE
    [] OTHER -> state = "auth"

\* ---- observation ---------------------------------------------------------
\* tagged: "OK" | "NOTOK" | "NONE" (no tagged completion: closed, or server still consuming)
\* cont  : number of continuation requests seen for the unit
\* call  : "payload" (backend got exactly the payload as the argument), "plain" (a call without
\*         payload argument), "none"
Obs(tagged, cont, call) == [tagged |-> tagged, cont |-> cont, call |-> call]

Init ==
  /\ litplus \in LitPlusSet
  /\ state \in {"notauth", "auth"}
  /\ utf8 \in Utf8Set /\ (utf8 => state = "auth")
  /\ sasl \in SaslSet /\ (sasl => state = "notauth" /\ ~litplus)
  /\ closed = FALSE /\ stuck = FALSE
  /\ out = Obs("OK", 0, "none")

Alive == ~closed /\ ~stuck

CallOf(u) == IF u.cmd \in {"AUTH-CANCEL", "AUTH-FINAL"} THEN (IF sasl THEN "plain" ELSE "none")   \* the session is asked for the mechanism
             ELSE IF u.cmd = "NOOP" THEN "none"
             ELSE IF u.cmd = "IDLE" \/ u.cmd \in FaultyBackend THEN "plain"   \* called, but the payload was not read
             ELSE IF u.cmd \in {"LIST-pat", "SEARCH-str", "LOGIN-user", "LOGIN-pass", "CREATE", "RENAME-new", "APPEND", "FETCH-hdr"} THEN "payload"
             ELSE "none"

\* arguments that are mailbox names: a payload with CR/LF is not a valid (modified UTF-7) name,
\* the server may refuse the command after having taken the literal
MailboxCmds == {"CREATE", "LIST-pat", "RENAME-new"}

\* The unit is accepted by the framing layer and executed (or refused by the state check).
Execute(u) ==
  /\ Alive /\ WellFormedUnit(u) /\ Accepts(u) /\ u.cmd \notin SyntaxCmds /\ u.cmd # "AUTH-FINAL"
  /\ LET c == IF u.form = "sync" \/ u.cmd \in {"AUTH-CANCEL", "IDLE"} THEN 1 ELSE 0 IN
     IF Permitted(u) /\ u.cmd = "APPEND-fail"
     THEN out' = Obs("NOTOK", c, "plain") /\ state' = state          \* the rest of the literal is discarded
     ELSE IF Permitted(u) /\ u.cmd = "APPEND-panic"
     THEN \* the connection is given up, or the command fails and the literal is discarded: never anything else
          /\ \E t \in {"NOTOK", "NONE"} : out' = Obs(t, c, "plain")
          /\ state' = state
     ELSE IF Permitted(u)
     THEN \/ /\ out' = Obs(IF u.cmd = "AUTH-CANCEL" THEN "NOTOK" ELSE "OK", c, CallOf(u))
             /\ state' = IF u.cmd \in {"LOGIN-user", "LOGIN-pass"} THEN "auth" ELSE state
          \/ /\ u.cmd \in MailboxCmds /\ u.payload = "smuggle"
             /\ out' = Obs("NOTOK", c, "none") /\ state' = state
     ELSE \* wrong state: the server may take the literal first or refuse straight away
          /\ \E c2 \in {0, c} : out' = Obs("NOTOK", IF u.cmd \in {"AUTH-CANCEL", "IDLE"} THEN 0 ELSE c2, "none")
          /\ state' = state
  \* after refusing a literal argument that is not a valid mailbox name the server may also
  \* drop the connection (the property allows closing instead of going on)
  /\ \/ closed' = closed
     \/ closed' = TRUE /\ u.cmd \in MailboxCmds /\ u.payload = "smuggle" /\ out'.tagged = "NOTOK"
     \/ closed' = TRUE /\ u.cmd = "APPEND-panic" /\ Permitted(u)
  /\ out'.tagged = "NONE" => closed'
  /\ UNCHANGED <<litplus, utf8, sasl, stuck>>

\* AUTHENTICATE with a mechanism that ends with data for the client
ExecAuthFinal(u) ==
  /\ Alive /\ u.cmd = "AUTH-FINAL"
  /\ IF Permitted(u) /\ sasl
     THEN /\ \E c \in {0, 1} : out' = Obs("OK", c, "plain")
          /\ state' = "auth"
     ELSE \* wrong state, or a session that does not know the mechanism
          /\ out' = Obs("NOTOK", 0, "none") /\ state' = state
  /\ UNCHANGED <<litplus, utf8, sasl, closed, stuck>>

\* A synchronising literal the server does not want: tagged refusal, no continuation request.
RefuseSync(u) ==
  /\ Alive /\ WellFormedUnit(u) /\ u.form = "sync" /\ ~Accepts(u)
  /\ out' = Obs("NOTOK", 0, "none")
  /\ UNCHANGED <<litplus, utf8, sasl, state, closed, stuck>>

\* A non-synchronising literal the server does not want.  RFC 7888 leaves two options.
RefuseNonSyncConsume(u) ==
  /\ Alive /\ WellFormedUnit(u) /\ u.form = "nonsync" /\ ~Accepts(u)
  /\ IF u.size = "huge"
     THEN \* the client announces more than it will ever send: the server waits for the rest
          /\ stuck' = TRUE /\ \E t \in {"NOTOK", "NONE"} : out' = Obs(t, 0, "none")
     ELSE /\ stuck' = FALSE /\ out' = Obs("NOTOK", 0, "none")
  /\ UNCHANGED <<litplus, utf8, sasl, state, closed>>

RefuseNonSyncClose(u) ==
  /\ Alive /\ WellFormedUnit(u) /\ u.form = "nonsync" /\ ~Accepts(u)
  /\ closed' = TRUE
  /\ \E t \in {"NOTOK", "NONE"} : out' = Obs(t, 0, "none")
  /\ UNCHANGED <<litplus, utf8, sasl, state, stuck>>

\* An unknown command before authentication ends the connection (cross-protocol protection);
\* whatever follows on the wire is never read.
UnknownPreAuth(u) ==
  /\ Alive /\ WellFormedUnit(u) /\ u.cmd = "XUNK-lit" /\ state = "notauth"
  /\ closed' = TRUE /\ out' = Obs("NOTOK", 0, "none")
  /\ UNCHANGED <<litplus, utf8, sasl, state, stuck>>

\* A line without a command name (or with a bare UID) may simply end the connection, in any state and whatever the form
\* of the literal announced on it.
NoCommandName(u) ==
  /\ Alive /\ WellFormedUnit(u) /\ u.cmd \in {"TAG-lit", "UID-lit"}
  /\ closed' = TRUE /\ \E t \in {"NOTOK", "NONE"} : out' = Obs(t, 0, "none")
  /\ UNCHANGED <<litplus, utf8, sasl, state, stuck>>

Step(u) == \/ Execute(u) \/ ExecAuthFinal(u) \/ NoCommandName(u)
           \/ (~(u.cmd = "XUNK-lit" /\ state = "notauth") /\ (RefuseSync(u) \/ RefuseNonSyncConsume(u) \/ RefuseNonSyncClose(u)))
           \/ UnknownPreAuth(u)

Next == \E u \in Units : Step(u)

Spec == Init /\ [][Next]_vars

\* ---- properties ----------------------------------------------------------
TypeOK == state \in {"notauth", "auth"} /\ closed \in BOOLEAN /\ stuck \in BOOLEAN

\* a continuation request is never sent for a refused literal, and at most one per unit
\* (a unit that got its continuation request and no completion is one whose connection was given up afterwards)
ContOnlyWhenWilling == out.cont \in {0, 1} /\ (out.tagged = "NONE" => out.cont = 0 \/ closed)

\* literal octets reach the backend only as the announced argument, and only when accepted
PayloadOnlyAsArgument == out.call = "payload" => out.tagged = "OK"

\* every unit of a live connection gets exactly one tagged completion
OneCompletion == [][(~closed' /\ ~stuck') => out'.tagged \in {"OK", "NOTOK"}]_vars

ClosedIsFinal == [][closed => FALSE]_vars
=============================================================================
