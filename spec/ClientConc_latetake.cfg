CONSTANTS
  Subs = {1, 2}
  RegisterBeforeInit = FALSE
  Literal = {}
  ReleaseOnRefusal = TRUE
  OwnAtTag = FALSE
  Streaming = {}
INIT Init
NEXT Next
INVARIANTS TypeOK NoDataRace AtMostOnce NobodyStuck GoodEnd
CHECK_DEADLOCK FALSE
