\* design-level check of the reference codec on the small value space (thorough tier)
CONSTANTS
  StrAlpha = {97, 34, 92, 32, 123, 125, 40, 41, 37, 42, 93, 13, 10, 0, 127, 128, 195, 169, 255}
  StrMax = 3
  MboxAlpha = {97, 38, 45, 34, 92, 32, 13, 233, 8364, 128512}
  MboxMax = 3
  FlagAlpha = {92, 97, 36, 32, 40, 42}
  FlagMax = 3
  TreeLevel = 2
  NestNs = {4}
  Kinds = {"str", "lstr", "mbox", "flag", "attr", "num", "num64", "modseq", "seqset", "uidset", "sres", "list", "nest"}
INIT Init
NEXT Next
INVARIANTS TypeOK RepsDecode PrefLegal ModesMonotone ServerNoPlus DepthSeen
CHECK_DEADLOCK FALSE
