--------------------------- MODULE CmdSpaceTrace ---------------------------
(* Judge (impl -> spec): every record written by the harness -- what the    *)
(* REAL imapclient.Client + imapserver pipe did with one command -- is      *)
(* re-evaluated against the specification.                                  *)
(*                                                                          *)
(*   rec.cfg   configuration the command was issued in                      *)
(*   rec.cmd   the arguments the caller passed to the client API (abstract) *)
(*   rec.ok    the client call completed OK                                 *)
(*   rec.recv  the calls the stub imapserver.Session received, with their   *)
(*             arguments converted to the same abstract shapes (raw: no     *)
(*             normalisation is done by the harness)                        *)
(*                                                                          *)
(* Accepted iff the command is legal in that configuration (otherwise the   *)
(* record is the harness' fault: ILLEGAL, an infrastructure error) and      *)
(* CmdSpace!Accept holds: Norm(received) = Exp(cfg, sent), and the command  *)
(* completed OK unless an argument is one the protocol need not carry.      *)
(* The records are independent, so they are judged in parallel: Init picks  *)
(* a chunk, one step picks a record of the chunk.  A rejected record prints *)
(* <<"BAD", json>> with the line number and the fields whose normal forms   *)
(* differ, and judging continues; the postcondition checks that every       *)
(* record was judged.                                                       *)
EXTENDS CmdSpace, Json, IOUtils

VARIABLES chunk, l

Trace == ndJsonDeserialize(IOEnv.TRACE_FILE)
NChunks == 64

(* diagnosis: labels only, the verdict is Accept *)
FieldsOf(r) == DOMAIN r
DiffFields(x, y) == IF DOMAIN x # DOMAIN y THEN {"shape"} ELSE {f \in DOMAIN x : x[f] # y[f]}
Diagnosis(i, rec) ==
  LET exp == Exp(rec.cfg, rec.cmd)
      got == NormCalls(rec.recv)
  IN [line |-> i, ok |-> rec.ok, must |-> MustOK(rec.cmd), ncalls |-> Len(rec.recv), nexp |-> Len(exp),
      diff |-> IF Len(got) # Len(exp) THEN {"calls"}
               ELSE UNION {IF got[j].c # exp[j].c THEN {"op"} ELSE DiffFields(got[j], exp[j]) : j \in 1..Len(exp)},
      exp |-> exp, got |-> got]

Judge(i) ==
  LET rec == Trace[i] IN
  IF ~Legal(rec.cfg, rec.cmd) THEN PrintT(<<"ILLEGAL", ToJson([line |-> i, cmd |-> rec.cmd])>>)
  ELSE IF Accept(rec.cfg, rec.cmd, rec.ok, rec.recv) THEN TRUE
  ELSE PrintT(<<"BAD", ToJson(Diagnosis(i, rec))>>)

TraceInit ==
  /\ chunk \in 1..NChunks /\ l = 0
  /\ caps = "rev1" /\ utf8 = FALSE /\ rev2 = FALSE /\ last = None

TraceNext ==
  /\ l = 0
  /\ chunk' = chunk
  /\ l' \in {i \in 1..Len(Trace) : i % NChunks = chunk - 1}
  /\ Judge(l')
  /\ UNCHANGED vars

AllJudged ==
  LET st == TLCGet("stats") IN
    IF st.distinct = NChunks + Len(Trace) THEN TRUE
    ELSE PrintT(<<"NOT_ALL_JUDGED", st.distinct, Len(Trace)>>) /\ FALSE
=============================================================================
