INIT TraceInit
NEXT TraceNext
INVARIANTS RecordedInContract RecordedNormIdempotent
POSTCONDITION TraceAccepted
CHECK_DEADLOCK FALSE
