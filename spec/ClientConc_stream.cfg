CONSTANTS
  Subs = {1, 2}
  RegisterBeforeInit = FALSE
  Literal = {}
  ReleaseOnRefusal = TRUE
  OwnAtTag = TRUE
  Streaming = {1}
INIT Init
NEXT Next
INVARIANTS TypeOK NoDataRace AtMostOnce NobodyStuck NoSendOnClosedChannel
CHECK_DEADLOCK FALSE
