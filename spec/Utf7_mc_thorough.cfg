\* reference functions on the bounded input space (no transformer steps)
CONSTANTS
  CpAlpha = {97, 38, 45, 44, 126, 32, 1, 127, 233, 8364, 65533, 128512}
  ByteAlpha = {38, 45, 65, 71, 103, 50, 44, 47, 97, 61, 128, 13}
  EncMax = 4
  DecMax = 5
  TokMax = 4
  Stream = FALSE
  Caps = {1, 2, 3, 4, 8}
  Chunks = {1, 2, 3, 99}
INIT Init
NEXT Next
INVARIANTS TypeOK RoundTrip VerdictsDisjoint OneShotAgrees
CHECK_DEADLOCK TRUE
