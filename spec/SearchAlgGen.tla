---------------------------- MODULE SearchAlgGen ----------------------------
(* Generator: every criteria pair / SEARCH key sequence of the bounded      *)
(* space of SearchAlg is printed as one line <<"T", json>>.  The harness    *)
(* builds the real imap.SearchCriteria values and calls the real And (or    *)
(* sends the real SEARCH command to an imapserver connection) and records   *)
(* the resulting struct; SearchAlgTrace judges the record.  `ref` is the    *)
(* conjunction the reference computes (documentation of the case; the       *)
(* judge compares meanings, not structure).                                 *)
EXTENDS SearchAlg, Json

GenNext ==
  /\ Next
  /\ PrintT(<<"T", ToJson([fam |-> fam', a |-> ca', b |-> cb', keys |-> ks',
                           ref |-> IF fam' = "keys" THEN ParseKeys(ks') ELSE AndRef(ca', cb')])>>)
=============================================================================
