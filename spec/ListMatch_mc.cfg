CONSTANTS
  MaxName = 3
  MaxPat = 3
INIT Init
NEXT Next
INVARIANTS TypeOK Lemmas
CHECK_DEADLOCK FALSE
