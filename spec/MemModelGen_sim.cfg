\* random behaviours of the full alphabet (tlc -simulate)
CONSTANTS
  Names <- NamesFull
  Conns = 2
  CatIds = {1, 2, 3, 4, 5, 6, 7}
  MaxMsgs = 4
  MaxUid = 6
  MaxCreates = 4
  Family = "all"
  Level = 2
  Mode = "sim"
  SimDepth = 14
  Chains = 60
INIT GenInitAll
NEXT GenNext
\* no CONSTRAINT: the behaviours are bounded by -depth
INVARIANT Emit
VIEW GenView
CHECK_DEADLOCK FALSE
