---------------------------- MODULE ClientTrace ----------------------------
(* Trace validation for Client: long random sessions of a scripted          *)
(* conformant server against a real imapclient.Client.  Each record carries *)
(* the action and what the harness observed after it (state, mailbox        *)
(* summary, completions with status and delivered data, unilateral data).   *)
EXTENDS Client, Json, IOUtils

VARIABLE l

Trace == ndJsonDeserialize(IOEnv.TRACE_FILE)

TraceInit == Init /\ l = 1

Reset(g) == /\ greet' = g /\ cstate' = IF g = "PREAUTH" THEN "auth" ELSE "notauth"
            /\ mbox' = NoMbox /\ cmds' = <<>> /\ alive' = TRUE
            /\ comp' = {} /\ uni' = <<>>

CompMatches(o) ==
  /\ {o.comp[x].id : x \in 1..Len(o.comp)} = comp'
  /\ \A x \in 1..Len(o.comp) :
       LET c == o.comp[x] IN
       /\ c.st = cmds'[c.id].st
       /\ IF cmds'[c.id].kind = "SELECT"
          THEN c.st = "OK" => /\ c.acc.num = cmds'[c.id].acc.num
                              /\ c.acc.flags = cmds'[c.id].acc.flags
                              /\ c.acc.perm = cmds'[c.id].acc.perm
          ELSE c.acc.items = cmds'[c.id].acc.items

Matches(o) ==
  /\ o.cstate = cstate' /\ o.alive = alive'
  /\ o.cmp => o.mbox = mbox'
  /\ o.uni = uni'
  /\ CompMatches(o)

TraceNext ==
  /\ l <= Len(Trace)
  /\ l' = l + 1
  /\ LET r == Trace[l] IN
       \/ r.ev = "Reset" /\ Reset(r.s1)
       \/ r.ev = "Submit" /\ Submit(r.s1, r.s2) /\ Matches(r.obs)
       \/ r.ev = "Exists" /\ Exists(r.n1) /\ Matches(r.obs)
       \/ r.ev = "Expunge" /\ Expunge(r.n1) /\ Matches(r.obs)
       \/ r.ev = "Search" /\ Search(r.n1) /\ Matches(r.obs)
       \/ r.ev = "Flags" /\ Flags(r.s1) /\ Matches(r.obs)
       \/ r.ev = "PermFlags" /\ PermFlags(r.s1) /\ Matches(r.obs)
       \/ r.ev = "Fetch" /\ Fetch(r.n1, r.s1, r.n2) /\ Matches(r.obs)
       \/ r.ev = "Status" /\ Status(r.s1, r.n1) /\ Matches(r.obs)
       \/ r.ev = "List" /\ List(r.s1) /\ Matches(r.obs)
       \/ r.ev = "Esearch" /\ Esearch(r.n2, r.n1) /\ Matches(r.obs)
       \/ r.ev = "Closed" /\ Closed /\ Matches(r.obs)
       \/ r.ev = "Tagged" /\ Tagged(r.n1, r.s1, r.n2) /\ Matches(r.obs)
       \/ r.ev = "Bye" /\ Bye /\ Matches(r.obs)

TraceAccepted ==
  LET d == TLCGet("stats").diameter IN
    IF d - 1 = Len(Trace) THEN TRUE
    ELSE /\ PrintT(<<"TRACE_REJECTED_AT", d, Len(Trace)>>)
         /\ IF d <= Len(Trace) THEN PrintT(<<"REJECTED_RECORD", ToJson(Trace[d])>>) ELSE TRUE
         /\ FALSE
=============================================================================
