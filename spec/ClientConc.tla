----------------------------- MODULE ClientConc -----------------------------
(***************************************************************************)
(* Concurrency design of imapclient.Client at critical-section granularity *)
(* (property C13): submitter goroutines (beginCommand .. Wait), the reader *)
(* goroutine (tagged responses, connection loss) and closeWithError, which *)
(* can be run by the reader or by a submitter whose write failed.          *)
(*                                                                         *)
(* A command has two facts attached: REGISTERED (it is in pendingCmds,     *)
(* visible to every goroutine holding the client mutex) and INITIALISED    *)
(* (its tag and its done channel are set).  The constant                   *)
(* RegisterBeforeInit selects the design:                                  *)
(*   TRUE  - as found in go-imap: registration under the mutex, then       *)
(*           initialisation outside of it;                                 *)
(*   FALSE - initialisation before (or atomically with) registration.      *)
(* Completing an uninitialised command sends on a nil channel: the         *)
(* completing goroutine blocks forever and the command never completes;    *)
(* scanning pendingCmds for a tag while another goroutine initialises one  *)
(* of them is a data race.                                                 *)
(***************************************************************************)
EXTENDS Naturals, FiniteSets, Sequences, TLC

CONSTANTS Subs,                \* submitter ids, e.g. {1, 2}
          RegisterBeforeInit,  \* design variant
          Streaming,           \* subset of Subs issuing streaming commands (FETCH, LIST, EXPUNGE): the reader
                               \* looks the command up under the mutex and sends the data on its channel afterwards
          Literal,             \* subset of Subs issuing a command with a synchronising literal (APPEND, a string
                               \* that cannot be quoted): the submitter keeps encMutex while it waits for "+"
          ReleaseOnRefusal,    \* design variant: encMutex is released when the literal is refused or the
                               \* connection is lost during the wait (TRUE in go-imap; FALSE is the guard variant)
          OwnAtTag             \* design variant: the reader removes a command from pendingCmds as soon as it has
                               \* read the tag of its tagged response, before it parses the rest of the line (TRUE
                               \* in go-imap); FALSE = looked up at the tag, removed only when completed (guard)

VARIABLES pc,        \* [Subs -> "idle" | "init" | "write" | "cont" | "wait" | "done" | "stuck"]
          registered,\* pendingCmds: sequence of commands, in registration order
          inited,    \* set of commands whose tag/done are set
          sent,      \* set of commands the server has received
          ncomp,     \* [Subs -> number of completions]
          conn,      \* "open" | "lost"
          closer,    \* [proc -> [st: "none"|"swapped"|"done"|"stuck", take: set]] for proc in Procs
          reader,    \* "run" | "exit"
          race,      \* a data race has happened
          enc,       \* holder of encMutex (0 = free): taken in beginCommand, released by commandEncoder.end
          found,     \* streaming command the reader has looked up and is about to hand data to (0 = none)
          panicked,  \* the reader sent on a channel that completeCommand had already closed
          taken      \* command whose tagged response the reader is in the middle of (tag read, rest of the line
                     \* not yet parsed; 0 = none)

vars == <<pc, registered, inited, sent, ncomp, conn, closer, reader, race, enc, found, panicked, taken>>

ReaderProc == 0   \* process id of the reader goroutine (submitters are 1, 2, ...)
Procs == Subs \cup {ReaderProc}
NoClose == [st |-> "none", take |-> <<>>]
InSeq(x, q) == \E i \in 1..Len(q) : q[i] = x
Without(q, x) == SelectSeq(q, LAMBDA y : y # x)

Init ==
  /\ pc = [s \in Subs |-> "idle"] /\ registered = <<>> /\ inited = {} /\ sent = {}
  /\ ncomp = [s \in Subs |-> 0] /\ conn = "open"
  /\ closer = [p \in Procs |-> NoClose] /\ reader = "run" /\ race = FALSE /\ enc = 0 /\ found = 0 /\ panicked = FALSE
  /\ taken = 0

\* ------------------------------------------------------------ submitters
\* beginCommand, critical section under the client mutex
Register(s) ==
  /\ pc[s] = "idle" /\ enc = 0 /\ enc' = s
  /\ registered' = Append(registered, s)
  /\ IF RegisterBeforeInit
     THEN pc' = [pc EXCEPT ![s] = "init"] /\ inited' = inited
     ELSE pc' = [pc EXCEPT ![s] = "write"] /\ inited' = inited \cup {s}
  /\ UNCHANGED <<sent, ncomp, conn, closer, reader, race, found, panicked, taken>>

\* (as-found design only) tag and done channel written outside the mutex
Initialise(s) ==
  /\ pc[s] = "init"
  /\ inited' = inited \cup {s} /\ pc' = [pc EXCEPT ![s] = "write"]
  /\ UNCHANGED <<registered, sent, ncomp, conn, closer, reader, race, enc, found, panicked, taken>>

\* the command line is flushed; on a dead connection the write fails and the
\* submitter itself runs closeWithError
Write(s) ==
  /\ pc[s] = "write"
  /\ IF conn = "open"
     THEN /\ sent' = sent \cup {s} /\ closer' = closer /\ registered' = registered
          \* a synchronising literal: the command line is out, encMutex stays with s until "+" or a refusal
          /\ IF s \in Literal THEN pc' = [pc EXCEPT ![s] = "cont"] /\ enc' = enc
                              ELSE pc' = [pc EXCEPT ![s] = "wait"] /\ enc' = 0
     ELSE /\ enc' = enc      \* flush failed: closeWithError runs inside end(), encMutex still held
          /\ sent' = sent /\ pc' = [pc EXCEPT ![s] = "wait"]
          /\ closer' = [closer EXCEPT ![s] = [st |-> "swapped", take |-> registered]]
          /\ registered' = <<>>
  /\ UNCHANGED <<inited, ncomp, conn, reader, race, found, panicked, taken>>

\* the server sends the continuation request: the literal and the rest of the command are written
ContGo(s) ==
  /\ pc[s] = "cont" /\ conn = "open" /\ InSeq(s, registered) /\ reader = "run"
  /\ pc' = [pc EXCEPT ![s] = "wait"] /\ enc' = 0
  /\ UNCHANGED <<registered, inited, sent, ncomp, conn, closer, reader, race, found, panicked, taken>>

\* the command was completed while s waited for "+" (tagged refusal, or connection lost): the wait is
\* abandoned, no octet is sent, and the encoder must be given back
ContFail(s) ==
  /\ pc[s] = "cont" /\ ncomp[s] >= 1
  /\ pc' = [pc EXCEPT ![s] = "wait"]
  /\ enc' = IF ReleaseOnRefusal THEN 0 ELSE enc
  /\ UNCHANGED <<registered, inited, sent, ncomp, conn, closer, reader, race, found, panicked, taken>>

\* Wait returns once the command has been completed
Wait(s) ==
  /\ pc[s] = "wait" /\ ncomp[s] >= 1 /\ closer[s].st \in {"none", "done"}
  /\ pc' = [pc EXCEPT ![s] = "done"]
  /\ UNCHANGED <<registered, inited, sent, ncomp, conn, closer, reader, race, enc, found, panicked, taken>>

\* ------------------------------------------------------------ completing a command
\* completeCommand(c) executed by process p: on an uninitialised command p blocks forever
CompleteBy(p, c) ==
  IF c \in inited
  THEN ncomp' = [ncomp EXCEPT ![c] = @ + 1]
  ELSE ncomp' = ncomp

\* ------------------------------------------------------------ reader
\* tagged response for c: the reader reads the tag, looks the command up under the mutex and takes it out of
\* pendingCmds (from then on it is the reader's to complete, whatever happens to the connection) ...
\* Looking at the tags of all pending commands races with an Initialise in progress.
AnswerTake(c) ==
  /\ reader = "run" /\ found = 0 /\ taken = 0 /\ conn = "open" /\ c \in sent /\ InSeq(c, registered) /\ c \in inited
  /\ registered' = IF OwnAtTag THEN Without(registered, c) ELSE registered
  /\ race' = (race \/ (\E i \in 1..Len(registered) : registered[i] \notin inited))
  /\ taken' = c
  /\ UNCHANGED <<pc, inited, sent, ncomp, conn, closer, reader, enc, found, panicked>>
\* ... parses the rest of the line (status, code, text - already received or not) and completes the command
AnswerComplete ==
  /\ taken # 0
  /\ registered' = Without(registered, taken)
  /\ CompleteBy(ReaderProc, taken)
  /\ taken' = 0
  /\ UNCHANGED <<pc, inited, sent, conn, closer, reader, race, enc, found, panicked>>

\* untagged data for streaming command c: looked up under the mutex ...
DeliverFind(c) ==
  /\ reader = "run" /\ found = 0 /\ taken = 0 /\ conn = "open" /\ c \in Streaming /\ c \in sent /\ InSeq(c, registered)
  /\ found' = c
  /\ UNCHANGED <<pc, registered, inited, sent, ncomp, conn, closer, reader, race, enc, panicked, taken>>
\* ... and sent on the command's channel outside of it; completeCommand closes that channel
DeliverSend ==
  /\ found # 0
  /\ panicked' = (panicked \/ ncomp[found] > 0)
  /\ found' = 0
  /\ UNCHANGED <<pc, registered, inited, sent, ncomp, conn, closer, reader, race, enc, taken>>

\* the connection is lost (server closes, reset, Close() by the user)
Lose == /\ conn = "open" /\ conn' = "lost"
        /\ UNCHANGED <<pc, registered, inited, sent, ncomp, closer, reader, race, enc, found, panicked, taken>>

\* the reader notices and runs closeWithError: swap pendingCmds out under the mutex ...
ReaderSwap ==
  /\ reader = "run" /\ found = 0 /\ taken = 0 /\ conn = "lost" /\ closer[ReaderProc].st = "none"
  /\ closer' = [closer EXCEPT ![ReaderProc] = [st |-> "swapped", take |-> registered]]
  /\ registered' = <<>>
  /\ UNCHANGED <<pc, inited, sent, ncomp, conn, reader, race, enc, found, panicked, taken>>

\* ... then complete every command taken, one by one (by whoever runs closeWithError)
CloseComplete(p, c) ==
  /\ closer[p].st = "swapped" /\ closer[p].take # <<>> /\ c = Head(closer[p].take)
  /\ IF c \in inited
     THEN /\ ncomp' = [ncomp EXCEPT ![c] = @ + 1]
          /\ closer' = [closer EXCEPT ![p].take = Tail(@)]
     ELSE /\ ncomp' = ncomp          \* send on a nil channel: p never gets further
          /\ closer' = [closer EXCEPT ![p].st = "stuck"]
  /\ UNCHANGED <<pc, registered, inited, sent, conn, reader, race, enc, found, panicked, taken>>

CloseDone(p) ==
  /\ closer[p].st = "swapped" /\ closer[p].take = <<>>
  /\ closer' = [closer EXCEPT ![p].st = "done"]
  /\ reader' = IF p = ReaderProc THEN "exit" ELSE reader
  /\ enc' = IF p = enc THEN 0 ELSE enc
  /\ UNCHANGED <<pc, registered, inited, sent, ncomp, conn, race, found, panicked, taken>>

Next ==
  \/ \E s \in Subs : Register(s) \/ Initialise(s) \/ Write(s) \/ ContGo(s) \/ ContFail(s) \/ Wait(s) \/ AnswerTake(s)
  \/ Lose \/ ReaderSwap \/ DeliverSend \/ AnswerComplete
  \/ \E c \in Subs : DeliverFind(c)
  \/ \E p \in Procs, c \in Subs : CloseComplete(p, c)
  \/ \E p \in Procs : CloseDone(p)

Fairness == WF_vars(Next)
Spec == Init /\ [][Next]_vars /\ Fairness

\* ------------------------------------------------------------ properties (C13)
TypeOK == /\ \A s \in Subs : ncomp[s] \in 0..2
          /\ inited \subseteq Subs
NoDataRace == ~race
AtMostOnce == \A s \in Subs : ncomp[s] <= 1
NoSendOnClosedChannel == ~panicked
NobodyStuck == \A p \in Procs : closer[p].st # "stuck"
\* Every maximal behaviour ends (the state graph is acyclic); where it ends, every submitter's Wait has
\* returned and every command has been completed exactly once.
Terminated == ~(ENABLED Next)
GoodEnd == Terminated => (\A s \in Subs : pc[s] = "done" /\ ncomp[s] = 1)
=============================================================================
