CONSTANTS
  Stride = 1
  Stride2 = 0
  Seed = 1
INIT TraceInit
NEXT TraceNext
POSTCONDITION TraceAccepted
CHECK_DEADLOCK FALSE
