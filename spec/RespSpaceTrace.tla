--------------------------- MODULE RespSpaceTrace ---------------------------
(* Implementation -> spec.  harness/cmd/respspace generates random deep     *)
(* structures beyond the bounds of the catalogue (deeper body structures,   *)
(* more addresses, arbitrary strings, more and larger literals), inside the *)
(* writers' contract, pushes each through the same pipe (real client, real  *)
(* server, stub Session writing through the real writers) and records       *)
(*   {"i":n, "k":kind, "rev2":b, "req":request, "data":supplied,            *)
(*    "fail":"" | reason the exchange failed, "got":delivered}              *)
(* in the value shapes of RespSpace: strings are opaque identities (the     *)
(* text itself when short and harmless, else length + fingerprint, computed *)
(* by one function for both sides), F values carry the identity of the      *)
(* lower-cased string, numbers above 2^31-1 are symbolic points.            *)
(* Every record is one step; the step is enabled only if the exchange       *)
(* succeeded and  Norm(delivered) = Norm(supplied).                         *)
EXTENDS RespSpaceNorm, Json, IOUtils

VARIABLES l, ph, c

Trace == ndJsonDeserialize(IOEnv.TRACE_FILE)

Supplied(rec) == [k |-> rec.k, rev2 |-> rec.rev2, req |-> rec.req, data |-> rec.data]
Delivered(rec) == [k |-> rec.k, rev2 |-> rec.rev2, req |-> rec.req, data |-> rec.got]
Accepts(rec) == /\ rec.fail = ""
                /\ NormData(Delivered(rec)) = NormData(Supplied(rec))

TraceInit == /\ l = 1
             /\ ph = 0
             /\ c = [k |-> "none", rev2 |-> FALSE]

TraceNext ==
  /\ l <= Len(Trace)
  /\ l' = l + 1
  /\ ph' = 1
  /\ c' = Supplied(Trace[l])
  /\ Accepts(Trace[l])

(* Lenient walk (RespSpaceTraceAll.cfg), used after the strict walk rejected *)
(* a record: every record is taken and each rejected one is named, so that   *)
(* the harness can re-run exactly those cases and say what differs.          *)
TraceNextAll ==
  /\ l <= Len(Trace)
  /\ l' = l + 1
  /\ ph' = 1
  /\ c' = Supplied(Trace[l])
  /\ IF Accepts(Trace[l]) THEN TRUE
     ELSE PrintT(<<"BAD", ToJson([line |-> l, i |-> Trace[l].i, k |-> Trace[l].k])>>)

(* the recorded supplied data are inside the writers' contract and Norm is  *)
(* idempotent on them too (both checked on every record)                    *)
RecordedInContract == ph = 1 => InContract(c)
RecordedNormIdempotent == ph = 1 => Norm(Norm(c)) = Norm(c)

TraceAccepted ==
  LET d == TLCGet("stats").diameter IN
    IF d - 1 = Len(Trace) THEN TRUE
    ELSE /\ PrintT(<<"TRACE_REJECTED_AT", d, Len(Trace)>>)
         /\ IF d <= Len(Trace)
              THEN /\ PrintT(<<"REJECTED_RECORD", ToJson([i |-> Trace[d].i, k |-> Trace[d].k, fail |-> Trace[d].fail])>>)
                   /\ IF Trace[d].fail = ""
                        THEN /\ PrintT(<<"NORM_SUPPLIED", ToJson(NormData(Supplied(Trace[d])))>>)
                             /\ PrintT(<<"NORM_DELIVERED", ToJson(NormData(Delivered(Trace[d])))>>)
                        ELSE TRUE
              ELSE TRUE
         /\ FALSE
=============================================================================
