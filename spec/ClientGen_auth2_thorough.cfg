CONSTANTS
  MaxCmds = 2
  MaxPending = 2
  MaxNum = 2
  MaxItems = 2
  MaxUid = 1
  MaxCode = 1
  NFlagSets = 2
  SyncLit = FALSE
  Kinds = {"LIST", "LISTSTATUS", "STATUS", "GETQUOTA", "GETQUOTAROOT", "GETMETADATA"}
  Greetings = {"PREAUTH"}
  SimDepth = 0
  Count = FALSE
  MaxDepth = 0
INIT GenInit
NEXT GenNext
VIEW GenView
CHECK_DEADLOCK FALSE
