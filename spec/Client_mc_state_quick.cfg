CONSTANTS
  MaxCmds = 3
  MaxPending = 2
  MaxNum = 1
  MaxItems = 1
  MaxUid = 1
  MaxCode = 1
  NFlagSets = 1
  SyncLit = FALSE
  Kinds = {"LOGIN", "SELECT", "CLOSE", "UNAUTH", "LOGOUT"}
  Greetings = {"PREAUTH"}
INIT Init
NEXT Next
VIEW McView
INVARIANTS TypeOK IdleAlone
PROPERTIES ExactlyOnce Isolation DataToRightCommand StateDiagram
CHECK_DEADLOCK FALSE
