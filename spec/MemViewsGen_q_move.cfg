CONSTANTS
  Sessions = {"s1", "s2"}
  Mailboxes = {"A", "B"}
  Flags <- OnlyDeleted
  MaxMsgs = 2
  MaxUid = 2
  MaxQueue = 2
  Kinds <- KMove
  SeqSets <- SetsStar
  UidSets <- SetsStar
  UidForms <- Both
  AppendFlags <- NoFlagsOnly
  AppendBoxes <- OnlyA
  StoreOps <- Plus
  IdleAny = FALSE
INIT GenInit
NEXT GenNext
CONSTRAINT Bounded
VIEW GenView
INVARIANTS TypeOK RemovedReportedOnce
PROPERTIES StepSeqNums StepNoExpunge StepShrink StepNoop
CHECK_DEADLOCK FALSE
