------------------------------ MODULE ClientLit ------------------------------
(***************************************************************************)
(* What the client may write for a string / literal argument, given what   *)
(* the server advertised, and the synchronising-literal handshake          *)
(* (property C18).                                                          *)
(*                                                                         *)
(* Configuration: litminus / litplus / rev2 advertised, UTF8=ACCEPT        *)
(* enabled.  A case is one command carrying one argument of a given class. *)
(* The client chooses a representation; the specification says which ones  *)
(* are LEGAL (it does not prescribe the choice):                           *)
(*   quoted   : no CR, LF, NUL inside; 8-bit only with rev2 or UTF8=ACCEPT *)
(*   {n+}     : LITERAL+ (any size) or LITERAL- / IMAP4rev2 (n <= 4096)    *)
(*   {n}      : always legal, but the octets may be written only after the *)
(*              server's continuation request and never after a tagged     *)
(*              refusal; a refusal completes only that command and the     *)
(*              connection stays usable.                                   *)
(***************************************************************************)
EXTENDS Naturals, Sequences, TLC

CONSTANT LitMax   \* 4096

VARIABLES cfg,      \* [litminus, litplus, rev2, utf8adv, utf8] : BOOLEAN each
          phase,    \* "idle" | "announced" | "granted" | "refused" | "sent" | "done"
          wrote,    \* octets of the synchronising literal written so far (0 or n)
          status,   \* completion status of the command: "none" | "OK" | "NO"
          alive     \* connection usable

vars == <<cfg, phase, wrote, status, alive>>

\* utf8adv: UTF8=ACCEPT is advertised; utf8: the client has also ENABLEd it (RFC 6855: only then may it send
\* UTF-8 in quoted strings)
\* saslir: SASL-IR is advertised (RFC 4959: only then may AUTHENTICATE carry an initial response on the command line)
\* applimit: APPENDLIMIT=<n> is advertised (RFC 7889).  It announces the largest message the server takes; it grants no
\* permission to skip the synchronisation of a literal (Legal does not mention it), which is why it is a configuration
Configs == {c \in [litminus : BOOLEAN, litplus : BOOLEAN, rev2 : BOOLEAN, utf8adv : BOOLEAN, utf8 : BOOLEAN, saslir : BOOLEAN, applimit : BOOLEAN] :
              (c.litplus => c.litminus) /\ (c.rev2 => c.litminus)   \* RFC 7888, RFC 9051
              /\ (c.utf8 => c.utf8adv)}

\* ---- legality of one token the client wrote --------------------------------
\* t = [rep, n, bit8, ctl]: representation, octet count of the content, content has bytes >= 0x80,
\* content has CR / LF / NUL
LegalToken(c, t) ==
  CASE t.rep = "atom"    -> ~t.bit8 /\ ~t.ctl /\ t.n > 0
    [] t.rep = "quoted"  -> ~t.ctl /\ (t.bit8 => (c.rev2 \/ c.utf8))
    [] t.rep = "nonsync" -> c.litplus \/ (c.litminus /\ t.n <= LitMax)
    [] t.rep = "sync"    -> TRUE
    [] t.rep = "ir"      -> c.saslir \/ c.rev2   \* initial response of AUTHENTICATE on the command line (part of IMAP4rev2)
    [] OTHER -> FALSE

\* What the server advertised holds for the connection state it was advertised in: LOGIN, AUTHENTICATE, STARTTLS and
\* UNAUTHENTICATE invalidate it (RFC 9051 6.1.1), and until the server has announced its capabilities again nothing is
\* advertised - only what every server accepts may be written.
NothingAdvertised == [litminus |-> FALSE, litplus |-> FALSE, rev2 |-> FALSE, utf8adv |-> FALSE, utf8 |-> FALSE, saslir |-> FALSE, applimit |-> FALSE]
\* UNAUTHENTICATE undoes every ENABLE (RFC 8437 section 2): what was enabled before it is not enabled after it.
Effective(c, stale, unauth) == IF stale THEN NothingAdvertised ELSE IF unauth THEN [c EXCEPT !.utf8 = FALSE] ELSE c

\* ---- the handshake -------------------------------------------------------------
Init == /\ cfg \in Configs /\ phase = "idle" /\ wrote = 0 /\ status = "none" /\ alive = TRUE

\* the client writes the command up to (and including) a synchronising literal announcement
Announce == /\ phase = "idle" /\ phase' = "announced" /\ UNCHANGED <<cfg, wrote, status, alive>>
\* a command may carry several literals (APPEND: the mailbox name, then the message): once one has been granted and
\* written the client goes on with the command up to the next synchronising literal announcement
AnnounceAgain == /\ phase = "sent" /\ phase' = "announced" /\ wrote' = 0 /\ UNCHANGED <<cfg, status, alive>>
\* ... or the whole command at once (no synchronising literal)
SendAll == /\ phase = "idle" /\ phase' = "sent" /\ UNCHANGED <<cfg, wrote, status, alive>>

ServerGrant  == /\ phase = "announced" /\ phase' = "granted" /\ UNCHANGED <<cfg, wrote, status, alive>>
ServerRefuse == /\ phase = "announced" /\ phase' = "refused" /\ status' = "NO"
                /\ UNCHANGED <<cfg, wrote, alive>>

WritePayload(n) == /\ phase = "granted" /\ wrote' = n /\ phase' = "sent"
                   /\ UNCHANGED <<cfg, status, alive>>

ServerComplete == /\ phase = "sent" /\ phase' = "done" /\ status' = "OK"
                  /\ UNCHANGED <<cfg, wrote, alive>>

\* after a refusal the client goes on with other commands on the same connection
NextCommand == /\ phase = "refused" /\ phase' = "done" /\ UNCHANGED <<cfg, wrote, status, alive>>

Next == Announce \/ AnnounceAgain \/ SendAll \/ ServerGrant \/ ServerRefuse \/ (\E n \in {1, LitMax, LitMax + 1} : WritePayload(n))
        \/ ServerComplete \/ NextCommand

Spec == Init /\ [][Next]_vars

\* ---- properties --------------------------------------------------------------------
PayloadOnlyAfterGrant == [][(wrote' # wrote /\ wrote' # 0) => phase = "granted"]_vars
NoPayloadAfterRefusal == phase \in {"refused"} => wrote = 0
RefusalIsLocal == status = "NO" => alive
EndsUsable == phase = "done" => alive /\ status \in {"OK", "NO"}
=============================================================================
