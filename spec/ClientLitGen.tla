----------------------------- MODULE ClientLitGen -----------------------------
(* Case generator for C18: configuration x command x argument class x server   *)
(* reaction to a synchronising literal.  One line per case.                    *)
EXTENDS ClientLit, Json

\* AUTHENTICATE: SASL PLAIN, which has an initial response - on the command line, or after an empty challenge
\* (every command of the client API that carries a caller-supplied string: mailbox names, search strings, header field
\* values, quota roots, metadata values)
Cmds == {"LOGIN", "SEARCHBODY", "CREATE", "RENAME", "LIST", "STATUS", "APPEND", "AUTHENTICATE",
         "SELECT", "DELETE", "SUBSCRIBE", "COPY", "SEARCHHEADER", "SORTTEXT", "SETMETADATA", "SETQUOTA", "GETQUOTAROOT"}
Classes == {"plain", "space", "quote", "ctl", "bit8", "empty", "long", "longctl", "long8"}  \* long = 4097 octets
\* 10, 4096, 4097 octets written with one call; split / bigsplit: 10 octets written as 3 + 7, 6016 octets as
\* 16 + 6000 (the caller looks at errors only when it closes the literal)
\* longname: the mailbox name is 4097 octets (a literal of its own, in front of the message literal), the message 10
AppendSizes == {"small", "at", "over", "split", "bigsplit", "longname"}
Reactions == {"grant", "refuse"}

VARIABLE case

\* stale: the capabilities of cfg were advertised in the greeting, the client has logged in since (tagged OK without
\* CAPABILITY code) and the server has not answered the CAPABILITY command yet
\* unauth: UTF8=ACCEPT was enabled, then the client sent UNAUTHENTICATE (answered OK with the same capabilities)
GenInit == Init /\ case = [cmd |-> "none", class |-> "none", react |-> "none", stale |-> FALSE, unauth |-> FALSE]

GenNext ==
  /\ phase = "idle" /\ case.cmd = "none"
  /\ \E cmd \in Cmds, react \in Reactions, stale \in BOOLEAN, unauth \in BOOLEAN :
       \E class \in (IF cmd = "APPEND" THEN AppendSizes ELSE IF cmd = "AUTHENTICATE" THEN {"plain"} ELSE Classes) :
         /\ stale => (cmd \notin {"LOGIN", "AUTHENTICATE"} /\ ~cfg.utf8)
         /\ cmd = "AUTHENTICATE" => (react = "grant" /\ ~cfg.utf8)
         /\ cmd # "AUTHENTICATE" => ~cfg.saslir       \* SASL-IR matters to AUTHENTICATE only        \* nothing can have been enabled before the login
         /\ cmd # "APPEND" => ~cfg.applimit        \* APPENDLIMIT matters to APPEND only
         /\ unauth => (cfg.utf8 /\ ~stale /\ cmd # "AUTHENTICATE")
         /\ case' = [cmd |-> cmd, class |-> class, react |-> react, stale |-> stale, unauth |-> unauth]
         /\ PrintT(<<"T", ToJson([cfg |-> cfg, case |-> case'])>>)
  /\ phase' = "done" /\ UNCHANGED <<cfg, wrote, status, alive>>
=============================================================================
