CONSTANTS
  Configs <- C17Configs
  Cases <- AllCases
  Faulty = FALSE
  MaxSegs = 4
INIT GenInit
NEXT GenNext
CHECK_DEADLOCK FALSE
