CONSTANTS
  Subs = {1, 2}
  RegisterBeforeInit = FALSE
  Literal = {}
  ReleaseOnRefusal = TRUE
  OwnAtTag = TRUE
  Streaming = {}
INIT GenInit
NEXT GenNext
CONSTRAINT GenConstraint
CHECK_DEADLOCK FALSE
