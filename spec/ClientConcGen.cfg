CONSTANTS
  Subs = {1, 2}
  RegisterBeforeInit = FALSE
INIT GenInit
NEXT GenNext
CONSTRAINT GenConstraint
CHECK_DEADLOCK FALSE
