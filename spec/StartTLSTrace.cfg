CONSTANTS
  Configs <- C17Configs
  Cases <- SmallCases
  Faulty = FALSE
INIT TraceInit
NEXT TraceNext
INVARIANTS STTypeOK Conservation TraceNoParseAfterSwitch ParsedIsPrefix LayerIsTLS CredsOnlyWhenSecure BackendOnlyWhenPermitted
  AdvertiseConsistent ClientTrustsOnlyTLS RefusesPreauth
PROPERTIES TraceFrozen TraceTLSNeverDowngrades
POSTCONDITION TraceAccepted
CHECK_DEADLOCK FALSE
