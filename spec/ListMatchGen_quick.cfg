CONSTANTS
  MaxName = 3
  MaxPat = 3
INIT Init
NEXT GenNext
CHECK_DEADLOCK FALSE
