CONSTANTS
  Thorough = FALSE
INIT Init
NEXT GenNext
INVARIANTS CfgInv CatalogueLegal NormIdempotent AcceptSane WellTyped
CHECK_DEADLOCK FALSE
