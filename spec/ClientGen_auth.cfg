CONSTANTS
  MaxCmds = 3
  MaxPending = 3
  MaxNum = 2
  MaxItems = 2
  Kinds = {"LOGIN", "CAPABILITY", "ENABLE", "NAMESPACE", "LIST", "LISTSTATUS", "STATUS", "GETQUOTA", "GETQUOTAROOT", "GETMETADATA", "APPEND", "CREATE", "UNAUTH"}
  Greetings = {"OK", "PREAUTH"}
  SimDepth = 0
INIT GenInit
NEXT GenNext
VIEW GenView
CHECK_DEADLOCK FALSE
