CONSTANTS
  Max = 8
  Gaps = {6}
  MaxLen = 7
INIT PInit
NEXT PNext
INVARIANT ParserAgrees
CHECK_DEADLOCK FALSE
