------------------------------ MODULE WireGen ------------------------------
(* Generator (spec -> implementation) for C01: one line per value of the    *)
(* bounded space:                                                           *)
(*   k, v      kind and value (the harness runs the real Encoder on it in   *)
(*             all 16 modes; WireTrace judges what was written)             *)
(*   refuse    the value has no representation (why: which malformation)    *)
(*   exp, ci   the canonical value a decoder must hand out; ci: compare     *)
(*             without regard to ASCII case (INBOX, well-known flags);      *)
(*             number sets: alts, the canonical range lists with the        *)
(*             members of v                                                 *)
(*   must      FALSE: the nesting reaches the depth cap, reading it back is *)
(*             not demanded                                                 *)
(*   reps      every representation some peer mode may send: bytes b, class *)
(*             cls (std | lib | todo), grammar g that admits the form,      *)
(*             receivers to ("b" both, "s" servers only)                    *)
(* The harness feeds every rep, followed by the sentinel, to the real       *)
(* Decoder functions of the receiving side(s) and compares with exp.        *)
EXTENDS Wire, Json

AllReps(k, v) == UNION {RepSet(m, k, v) : m \in Modes}
ExpOf(k, v) ==
  CASE k \in SetKinds -> <<>>
    [] k \in {"lstr", "nest"} -> v
    [] k \in FlagKinds -> v
    [] OTHER -> Canon(k, v)
AltsOf(k, v) == IF k \in SetKinds /\ Len(v) > 0 THEN NS!Alts(NS!MembersOf(v)) ELSE {}
CiOf(k, v) == (k = "mbox" /\ IsInbox(v)) \/ (k \in FlagKinds /\ WellKnown(v))
MustOf(k, v) == k # "nest" \/ Depth(v.inner) + v.n < DepthCap

GenRec(k, v) == [k |-> k, v |-> v, refuse |-> MustRefuse(k, v), why |-> WhyRefuse(k, v),
                 exp |-> ExpOf(k, v), alts |-> AltsOf(k, v), ci |-> CiOf(k, v), must |-> MustOf(k, v),
                 reps |-> AllReps(k, v)]

GenNext == phase = "pick" /\ \E v \in ValuesOf(kind, pre) :
             /\ Pick(v)
             /\ PrintT(<<"T", ToJson(GenRec(kind, v))>>)
=============================================================================
