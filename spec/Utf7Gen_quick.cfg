CONSTANTS
  CpAlpha = {97, 38, 45, 44, 126, 32, 1, 127, 233, 8364, 65533, 128512}
  ByteAlpha = {38, 45, 65, 71, 103, 50, 44, 47, 97, 61, 128, 13}
  EncMax = 3
  DecMax = 4
  TokMax = 3
  Stream = FALSE
  Caps = {1}
  Chunks = {1}
INIT Init
NEXT GenNext
CHECK_DEADLOCK FALSE
