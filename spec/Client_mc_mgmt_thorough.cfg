CONSTANTS
  MaxCmds = 5
  MaxPending = 3
  MaxNum = 2
  MaxItems = 1
  MaxUid = 1
  MaxCode = 1
  NFlagSets = 2
  SyncLit = FALSE
  Kinds = {"AUTHENTICATE", "LOGIN", "DELETE", "RENAME", "SUBSCRIBE", "UNSUBSCRIBE", "SETQUOTA", "SETMETADATA", "UNAUTH"}
  Greetings = {"OK"}
INIT Init
NEXT Next
VIEW McView
INVARIANTS TypeOK IdleAlone
PROPERTIES ExactlyOnce Isolation DataToRightCommand StateDiagram
CHECK_DEADLOCK FALSE
