CONSTANTS
  Configs <- AllConfigs
INIT Init
NEXT Next
INVARIANTS TypeOK BackendOnlyWhenPermitted CredentialsOnlyWhenSecure ClosedIffLogout NothingEnabledBeforeAuth
PROPERTIES FollowsDiagram LogoutIsFinal TLSNeverDowngrades
CHECK_DEADLOCK FALSE
