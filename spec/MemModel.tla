------------------------------ MODULE MemModel ------------------------------
(***************************************************************************)
(* Reference mailbox model for go-imap's in-memory backend (imapserver/     *)
(* imapmemserver behind imapserver.Server).  Property C09.                 *)
(*                                                                         *)
(* The model is a function  Exec(S, cmd) = [S |-> next state, r |-> the     *)
(* normalised result of the command]  over                                 *)
(*   S.mb    existing mailboxes: name -> [uv, next, msgs, sub]              *)
(*             uv    identity of the UIDVALIDITY value (opaque token)       *)
(*             next  UIDNEXT                                                *)
(*             msgs  ordered list of [uid, fl (set of canonical flags), cat]*)
(*             sub   subscribed                                             *)
(*   S.uvc   UIDVALIDITY tokens handed out so far                           *)
(*   S.uvh   name -> sequence of the tokens the name has carried (history)  *)
(*   S.cn    connection -> [sel (selected mailbox or <<>>), ro (EXAMINE)]   *)
(* plus the state machine  Init / Next  that applies Exec to every command  *)
(* of a bounded alphabet (Alphabet, chosen by the constant Family).         *)
(*                                                                         *)
(* Mailbox names are sequences of character codes (47 = '/', the hierarchy  *)
(* delimiter), so LIST matching is ListMatch!Matches.  Messages are drawn   *)
(* from the catalogue of MemCatalogue.tla (generated from real RFC 5322     *)
(* texts); everything the model needs to know about a text (size, dates,    *)
(* which probes match, length and fingerprint of each body section and      *)
(* partial range) is a constant table there.  Flags are symbolic spellings  *)
(* (":Seen" stands for \Seen); FlagCanon folds the case.                    *)
(*                                                                         *)
(* Normal forms (what the harness extracts from the wire, syntactically):   *)
(*   every result   [st |-> "OK" | "NO", ...]; a NO carries nothing else;    *)
(*                  "RO" for STORE/EXPUNGE/MOVE on a connection whose last   *)
(*                  successful selection answered [READ-ONLY]                *)
(*   sets           ascending sequences; flag sets in FlagOrder; names in   *)
(*                  byte order                                             *)
(*   UIDVALIDITY    rank of the value among the distinct values observed    *)
(*                  for that NAME, in order of first appearance (the model  *)
(*                  does not predict the number, only when it must be new)  *)
(*   FETCH          per message the items the command asked for             *)
(*   body sections  response item name, origin octet, length, fingerprint   *)
(* After every command the harness synchronises every connection (NOOP)     *)
(* and audits: UID FETCH 1:4294967295 (FLAGS) on every connection and       *)
(* STATUS (MESSAGES UIDNEXT UIDVALIDITY) of every name of the pool; Audit   *)
(* is the model's prediction of that.                                       *)
(*                                                                         *)
(* READING (where the statement of C09 leaves a choice; see Allowed):       *)
(*  R1 a message sequence number above EXISTS is an error the RFC lets the  *)
(*     server answer in several ways: such commands are not explored.       *)
(*  R2 '*' in a UID set is "the unique identifier of the last message in    *)
(*     the mailbox" (RFC 3501 9, seq-number), n:* always contains it.       *)
(*  R3 DELETE / RENAME of a mailbox some connection has selected, DELETE of *)
(*     a name with inferiors, CREATE below a missing parent, COPY/MOVE into *)
(*     the selected mailbox, SUBSCRIBE of a missing name: left to the       *)
(*     server by RFC 9051 6.3.4-6.3.7, not explored.                        *)
(*  R4 the subscription is an attribute of the mailbox (the backend's data  *)
(*     model); RFC 3501 6.3.6 would keep a deleted name subscribed, so       *)
(*     DELETE of a subscribed mailbox is not explored.                      *)
(*  R5 RENAME renames the inferiors (RFC 3501 6.3.5 MUST); LSUB with a      *)
(*     trailing % returns the unsubscribed parent of a subscribed name      *)
(*     (RFC 3501 6.3.9 MUST).                                               *)
(*  R6 EXAMINE: no command changes the mailbox (RFC 3501 6.3.2): STORE,     *)
(*     EXPUNGE, MOVE have no effect (their OK/NO is not compared: normal    *)
(*     form "RO"), FETCH BODY[] does not set \Seen, CLOSE does not expunge. *)
(*  R7 SEARCH dates compare the day of the date-time as written,            *)
(*     "disregarding time and timezone" (RFC 3501 6.4.4); strings match as  *)
(*     case-insensitive substrings (same section; backend doc comment).     *)
(*  R8 a partial <o.s> returns octets o .. o+s-1 that exist, the empty      *)
(*     string when o is at or beyond the end, and names o as origin octet   *)
(*     (RFC 3501 6.4.5 / 7.4.2); sections a message does not have are not   *)
(*     explored.                                                           *)
(***************************************************************************)
EXTENDS Integers, Sequences, FiniteSets, TLC, MemCatalogue

CONSTANTS Names,      \* name pool of the bounded instance (set of code sequences)
          Conns,      \* number of connections
          CatIds,     \* catalogue entries APPEND may use
          MaxMsgs,    \* bound: messages per mailbox
          MaxUid,     \* bound: UIDNEXT-1 per mailbox
          MaxCreates, \* bound: UIDVALIDITY tokens
          Family,     \* command alphabet ("ns", "msg", "two", "all")
          Level       \* richness of the argument pools of that alphabet (0, 1, 2)

LM == INSTANCE ListMatch WITH MaxName <- 0, MaxPat <- 0, ph <- 0, v <- 0

DELIM == 47
(* name pools for the cfg files (a cfg cannot write a tuple): a, a/b, c, c/b *)
NamesAC   == { <<97>>, <<99>> }
NamesABC  == { <<97>>, <<97, 47, 98>>, <<99>> }
NamesFull == { <<97>>, <<97, 47, 98>>, <<99>>, <<99, 47, 98>> }
NamesDeep == { <<97>>, <<97, 47, 98>>, <<97, 47, 98, 47, 99>>, <<99>>, <<97, 98>> }
STAR  == 42
PCT   == 37
NoName == <<>>

-----------------------------------------------------------------------------
(* generic helpers *)
Elems(s) == {s[i] : i \in 1..Len(s)}
Min2(a, b) == IF a <= b THEN a ELSE b
Max2(a, b) == IF a >= b THEN a ELSE b

RECURSIVE SetToSeq(_)
SetToSeq(T) == IF T = {} THEN <<>>
               ELSE LET m == CHOOSE x \in T : \A y \in T : x <= y IN <<m>> \o SetToSeq(T \ {m})

RECURSIVE SeqLess(_, _)
SeqLess(a, b) == IF a = <<>> THEN b # <<>>
                 ELSE IF b = <<>> THEN FALSE
                 ELSE IF a[1] # b[1] THEN a[1] < b[1]
                 ELSE SeqLess(Tail(a), Tail(b))

RECURSIVE SortNames(_)
SortNames(T) == IF T = {} THEN <<>>
                ELSE LET m == CHOOSE x \in T : \A y \in T : x = y \/ SeqLess(x, y)
                     IN <<m>> \o SortNames(T \ {m})

Put(f, k, val) == [x \in (DOMAIN f) \cup {k} |-> IF x = k THEN val ELSE f[x]]
Drop(f, K)     == [x \in (DOMAIN f) \ K |-> f[x]]
IndexOf(seq, x) == CHOOSE i \in 1..Len(seq) : seq[i] = x
RemoveIdx(seq, A) == LET keep == SetToSeq((1..Len(seq)) \ A) IN [j \in 1..Len(keep) |-> seq[keep[j]]]
SeqOver(A, F(_)) == LET s == SetToSeq(A) IN [j \in 1..Len(s) |-> F(s[j])]

-----------------------------------------------------------------------------
(* flags *)
FlagOrder == <<":answered", ":deleted", ":draft", ":flagged", ":seen", "kw1", "kw2">>
FlagCanon ==
  (":Seen" :> ":seen") @@ (":SEEN" :> ":seen") @@ (":seen" :> ":seen") @@
  (":Deleted" :> ":deleted") @@ (":DELETED" :> ":deleted") @@ (":deleted" :> ":deleted") @@
  (":Flagged" :> ":flagged") @@ (":fLAGGED" :> ":flagged") @@
  (":Answered" :> ":answered") @@ (":ANSWERED" :> ":answered") @@
  (":Draft" :> ":draft") @@ (":draft" :> ":draft") @@
  ("kw1" :> "kw1") @@ ("KW1" :> "kw1") @@ ("Kw1" :> "kw1") @@
  ("kw2" :> "kw2") @@ ("KW2" :> "kw2")
Spellings == DOMAIN FlagCanon
Canon(fs) == {FlagCanon[fs[i]] : i \in 1..Len(fs)}
FlagSeq(T) == SelectSeq(FlagOrder, LAMBDA f : f \in T)

(* SEARCH flag keys: name -> <<canonical flag, must be present>> *)
FlagKey ==
  ("SEEN" :> <<":seen", TRUE>>) @@ ("UNSEEN" :> <<":seen", FALSE>>) @@
  ("DELETED" :> <<":deleted", TRUE>>) @@ ("UNDELETED" :> <<":deleted", FALSE>>) @@
  ("FLAGGED" :> <<":flagged", TRUE>>) @@ ("UNFLAGGED" :> <<":flagged", FALSE>>) @@
  ("ANSWERED" :> <<":answered", TRUE>>) @@ ("UNANSWERED" :> <<":answered", FALSE>>) @@
  ("DRAFT" :> <<":draft", TRUE>>) @@ ("UNDRAFT" :> <<":draft", FALSE>>)

-----------------------------------------------------------------------------
(* names and hierarchy *)
RECURSIVE StripDelim(_)
StripDelim(n) == IF n # <<>> /\ n[Len(n)] = DELIM THEN StripDelim(SubSeq(n, 1, Len(n) - 1)) ELSE n
IsUnder(n, p) == Len(n) >= Len(p) + 2 /\ SubSeq(n, 1, Len(p)) = p /\ n[Len(p) + 1] = DELIM
HasParent(n) == \E i \in 1..Len(n) : n[i] = DELIM
Parent(n) == LET i == CHOOSE j \in 1..Len(n) : n[j] = DELIM /\ \A k \in (j + 1)..Len(n) : n[k] # DELIM
             IN SubSeq(n, 1, i - 1)
Ancestors(n) == {SubSeq(n, 1, i - 1) : i \in {j \in 2..Len(n) : n[j] = DELIM}}
Rebase(n, old, new) == new \o SubSeq(n, Len(old) + 1, Len(n))
ListMatches(n, ref, pat) == LM!Matches(n, DELIM, LM!Resolve(DELIM, ref, pat))

-----------------------------------------------------------------------------
(* number sets: sequence of <<lo, hi>>, 0 stands for '*' *)
InSetMax(n, set, max) ==
  \E i \in 1..Len(set) :
    LET a == IF set[i][1] = 0 THEN max ELSE set[i][1]
        b == IF set[i][2] = 0 THEN max ELSE set[i][2]
    IN Min2(a, b) <= n /\ n <= Max2(a, b)
HasStar(set) == \E i \in 1..Len(set) : set[i][1] = 0 \/ set[i][2] = 0
SeqSetValid(set, count) ==
  /\ count >= 1 /\ set # <<>>
  /\ \A i \in 1..Len(set) : set[i][1] <= count /\ set[i][2] <= count
TopUid(msgs) == IF msgs = <<>> THEN 0 ELSE msgs[Len(msgs)].uid
Addressed(msgs, uid, set) ==
  {i \in 1..Len(msgs) : IF uid THEN InSetMax(msgs[i].uid, set, TopUid(msgs))
                        ELSE InSetMax(i, set, Len(msgs))}

-----------------------------------------------------------------------------
(* commands: one uniform record shape *)
It0 == [flags |-> FALSE, uidi |-> FALSE, size |-> FALSE, date |-> FALSE,
        sec |-> 0, pi |-> 0, peek |-> TRUE]
C0 == [op |-> "", c |-> 1, uid |-> FALSE, name |-> <<>>, name2 |-> <<>>, ref |-> <<>>,
       pat |-> <<>>, set |-> <<>>, sop |-> "", silent |-> FALSE, fl |-> <<>>, cat |-> 0,
       keys |-> <<>>, it |-> It0]
(* search keys: one uniform record shape; sub = operands of NOT / OR *)
K0 == [k |-> "ALL", n |-> 0, f |-> "", set |-> <<>>, sub |-> <<>>]

Ops == {"CREATE", "DELETE", "RENAME", "SUBSCRIBE", "UNSUBSCRIBE", "LIST", "LSUB", "STATUS",
        "APPEND", "SELECT", "EXAMINE", "CLOSE", "UNSELECT", "STORE", "COPY", "MOVE",
        "EXPUNGE", "UIDEXPUNGE", "SEARCH", "FETCH"}
SelectedOps == {"CLOSE", "UNSELECT", "STORE", "COPY", "MOVE", "EXPUNGE", "UIDEXPUNGE", "SEARCH", "FETCH"}
SetOps == {"STORE", "COPY", "MOVE", "FETCH"}

-----------------------------------------------------------------------------
(* state access *)
S0 == [mb |-> <<>>, uvc |-> 0, uvh |-> <<>>, cn |-> [c \in 1..Conns |-> [sel |-> NoName, ro |-> FALSE]]]
Exists(S, n) == n \in DOMAIN S.mb
UvHist(uvh, n) == IF n \in DOMAIN uvh THEN uvh[n] ELSE <<>>
NoteUv(uvh, n, tok) == IF tok \in Elems(UvHist(uvh, n)) THEN uvh ELSE Put(uvh, n, Append(UvHist(uvh, n), tok))
Rank(S, n) == IndexOf(S.uvh[n], S.mb[n].uv)
Sel(S, c) == S.cn[c].sel
SelMsgs(S, c) == S.mb[Sel(S, c)].msgs
SelectedNames(S) == {S.cn[c].sel : c \in 1..Conns} \ {NoName}
Inferiors(S, n) == {x \in DOMAIN S.mb : IsUnder(x, n)}
Unsel(S, c) == [S EXCEPT !.cn[c] = [sel |-> NoName, ro |-> FALSE]]
Deleted(m) == ":deleted" \in m.fl

RECURSIVE SumSize(_)
SumSize(msgs) == IF msgs = <<>> THEN 0 ELSE CatTab[Head(msgs).cat].size + SumSize(Tail(msgs))

Res(S, r) == [S |-> S, r |-> r]
No(S) == Res(S, [st |-> "NO"])

-----------------------------------------------------------------------------
(* SEARCH *)
RECURSIVE KeyMatch(_, _, _)
KeyMatch(k, i, msgs) ==
  LET m == msgs[i]  c == CatTab[m.cat] IN
  CASE k.k = "ALL"        -> TRUE
    [] k.k = "SEQ"        -> InSetMax(i, k.set, Len(msgs))
    [] k.k = "UID"        -> InSetMax(m.uid, k.set, TopUid(msgs))
    [] k.k = "FLAG"       -> (FlagKey[k.f][1] \in m.fl) = FlagKey[k.f][2]
    [] k.k = "KEYWORD"    -> FlagCanon[k.f] \in m.fl
    [] k.k = "UNKEYWORD"  -> FlagCanon[k.f] \notin m.fl
    [] k.k = "LARGER"     -> c.size > k.n
    [] k.k = "SMALLER"    -> c.size < k.n
    [] k.k = "SINCE"      -> c.iday >= k.n
    [] k.k = "BEFORE"     -> c.iday < k.n
    [] k.k = "ON"         -> c.iday = k.n
    [] k.k = "SENTSINCE"  -> c.sday >= k.n
    [] k.k = "SENTBEFORE" -> c.sday < k.n
    [] k.k = "SENTON"     -> c.sday = k.n
    [] k.k = "HDR"        -> k.n \in CatHdr[m.cat]
    [] k.k = "BODY"       -> k.n \in CatBody[m.cat]
    [] k.k = "TEXT"       -> k.n \in CatText[m.cat]
    [] k.k = "NOT"        -> ~KeyMatch(k.sub[1], i, msgs)
    [] k.k = "OR"         -> KeyMatch(k.sub[1], i, msgs) \/ KeyMatch(k.sub[2], i, msgs)

RECURSIVE KeyOK(_, _)       \* sequence numbers named by SEQ keys exist (R1)
KeyOK(k, count) ==
  /\ k.k = "SEQ" => SeqSetValid(k.set, count)
  /\ \A j \in 1..Len(k.sub) : KeyOK(k.sub[j], count)
RECURSIVE KeyUidStar(_)
KeyUidStar(k) == (k.k = "UID" /\ HasStar(k.set)) \/ \E j \in 1..Len(k.sub) : KeyUidStar(k.sub[j])
(* a UID set of several ranges that holds '*' and a number above the highest UID *)
StarBelowNumber(set, top) ==
  Len(set) > 1 /\ HasStar(set) /\ \E i \in 1..Len(set) : set[i][1] > top \/ set[i][2] > top
RECURSIVE KeyStarBelow(_, _)
KeyStarBelow(k, top) == (k.k = "UID" /\ StarBelowNumber(k.set, top))
                        \/ \E j \in 1..Len(k.sub) : KeyStarBelow(k.sub[j], top)

-----------------------------------------------------------------------------
(* FETCH *)
PartIdx(s) == CHOOSE j \in 1..Len(PartSecs) : PartSecs[j] = s
SecResp(cat, s, p) ==
  IF p = 0 THEN [name |-> SecName[s], origin |-> "-", len |-> CatSec[cat][s][1], fp |-> CatSec[cat][s][2]]
  ELSE LET e == CatPart[cat][PartIdx(s)][p]
       IN [name |-> SecName[s], origin |-> PartOrigin[p], len |-> e[1], fp |-> e[2]]
FetchMsg(i, m, cmd) ==
  [seq |-> i,
   uid |-> IF cmd.uid \/ cmd.it.uidi THEN m.uid ELSE 0,
   fl  |-> IF cmd.it.flags THEN <<"F">> \o FlagSeq(m.fl) ELSE <<>>,
   size |-> IF cmd.it.size THEN CatTab[m.cat].size ELSE 0,
   date |-> IF cmd.it.date THEN CatTab[m.cat].utc ELSE "",
   sec |-> IF cmd.it.sec = 0 THEN <<>> ELSE <<SecResp(m.cat, cmd.it.sec, cmd.it.pi)>>]

-----------------------------------------------------------------------------
(* the commands *)
DoCreate(S, cmd) ==
  LET n == StripDelim(cmd.name) IN
  IF n = <<>> \/ Exists(S, n) THEN No(S)
  ELSE LET tok == S.uvc + 1 IN
       Res([S EXCEPT !.mb = Put(@, n, [uv |-> tok, next |-> 1, msgs |-> <<>>, sub |-> FALSE]),
                     !.uvc = tok,
                     !.uvh = NoteUv(@, n, tok)],
           [st |-> "OK"])

DoDelete(S, cmd) ==
  IF ~Exists(S, cmd.name) THEN No(S)
  ELSE Res([S EXCEPT !.mb = Drop(@, {cmd.name})], [st |-> "OK"])

DoRename(S, cmd) ==
  LET old == cmd.name  new == StripDelim(cmd.name2) IN
  IF ~Exists(S, old) \/ new = <<>> \/ Exists(S, new) THEN No(S)
  ELSE LET moved == {old} \cup Inferiors(S, old)
           target == {Rebase(x, old, new) : x \in moved}
           Src(y) == Rebase(y, new, old)
           mb2 == [y \in ((DOMAIN S.mb) \ moved) \cup target |->
                     IF y \in target THEN S.mb[Src(y)] ELSE S.mb[y]]
           uvh2 == [y \in (DOMAIN S.uvh) \cup target |->
                     IF y \in target
                     THEN LET tok == S.mb[Src(y)].uv  h == UvHist(S.uvh, y)
                          IN IF tok \in Elems(h) THEN h ELSE Append(h, tok)
                     ELSE S.uvh[y]]
       IN Res([S EXCEPT !.mb = mb2, !.uvh = uvh2], [st |-> "OK"])

DoSubscribe(S, cmd, val) ==
  IF ~Exists(S, cmd.name) THEN No(S)
  ELSE Res([S EXCEPT !.mb[cmd.name].sub = val], [st |-> "OK"])

DoList(S, cmd) ==
  IF cmd.pat = <<>> THEN Res(S, [st |-> "OK", names |-> << <<>> >>])     \* delimiter query
  ELSE Res(S, [st |-> "OK",
               names |-> SortNames({n \in DOMAIN S.mb : ListMatches(n, cmd.ref, cmd.pat)})])

(* unsubscribed ancestors a trailing % must report (R5): "foo/bar" is subscribed, "foo" is   *)
(* not, the pattern stops at the delimiter (so foo/bar itself does not match) and matches foo *)
LsubParents(S, cmd) ==
  IF cmd.pat = <<>> \/ cmd.pat[Len(cmd.pat)] # PCT THEN {}
  ELSE {p \in UNION {Ancestors(n) : n \in {x \in DOMAIN S.mb : S.mb[x].sub /\ ~ListMatches(x, cmd.ref, cmd.pat)}} :
          /\ ListMatches(p, cmd.ref, cmd.pat)
          /\ ~(Exists(S, p) /\ S.mb[p].sub)}
DoLsub(S, cmd) ==
  Res(S, [st |-> "OK",
          names |-> SortNames({n \in DOMAIN S.mb : S.mb[n].sub /\ ListMatches(n, cmd.ref, cmd.pat)}
                              \cup LsubParents(S, cmd))])

DoStatus(S, cmd) ==
  IF ~Exists(S, cmd.name) THEN No(S)
  ELSE LET b == S.mb[cmd.name] IN
       Res(S, [st |-> "OK", messages |-> Len(b.msgs), uidnext |-> b.next, uv |-> Rank(S, cmd.name),
               unseen |-> Cardinality({i \in 1..Len(b.msgs) : ":seen" \notin b.msgs[i].fl}),
               deleted |-> Cardinality({i \in 1..Len(b.msgs) : Deleted(b.msgs[i])}),
               size |-> SumSize(b.msgs)])

DoAppend(S, cmd) ==
  IF ~Exists(S, cmd.name) THEN No(S)
  ELSE LET b == S.mb[cmd.name] IN
       Res([S EXCEPT !.mb[cmd.name].msgs = Append(@, [uid |-> b.next, fl |-> Canon(cmd.fl), cat |-> cmd.cat]),
                     !.mb[cmd.name].next = @ + 1],
           [st |-> "OK", uv |-> Rank(S, cmd.name), uid |-> b.next])

DoSelect(S, cmd, ro) ==
  LET S1 == Unsel(S, cmd.c) IN          \* a mailbox that was selected is deselected first
  IF ~Exists(S, cmd.name) THEN No(S1)
  ELSE LET b == S.mb[cmd.name] IN
       Res([S1 EXCEPT !.cn[cmd.c] = [sel |-> cmd.name, ro |-> ro]],
           [st |-> "OK", exists |-> Len(b.msgs), uidnext |-> b.next, uv |-> Rank(S, cmd.name),
            rw |-> IF ro THEN "READ-ONLY" ELSE "READ-WRITE"])

DoClose(S, cmd, expunge) ==
  LET n == Sel(S, cmd.c)
      S1 == IF expunge /\ ~S.cn[cmd.c].ro
            THEN [S EXCEPT !.mb[n].msgs = SelectSeq(@, LAMBDA m : ~Deleted(m))]
            ELSE S
  IN Res(Unsel(S1, cmd.c), [st |-> "OK"])

NewFlags(old, sop, fs) ==
  CASE sop = "set" -> fs
    [] sop = "add" -> old \cup fs
    [] sop = "del" -> old \ fs

(* R6: in a mailbox opened with EXAMINE a command that would change it changes nothing;  *)
(* whether the server says OK or NO is not settled, the normal form of the result is "RO" *)
Ro(S) == Res(S, [st |-> "RO"])

DoStore(S, cmd) ==
  IF S.cn[cmd.c].ro THEN Ro(S)
  ELSE LET n == Sel(S, cmd.c)
           msgs == S.mb[n].msgs
           A == Addressed(msgs, cmd.uid, cmd.set)
           msgs2 == [i \in 1..Len(msgs) |->
                       IF i \in A THEN [msgs[i] EXCEPT !.fl = NewFlags(@, cmd.sop, Canon(cmd.fl))]
                       ELSE msgs[i]]
           One(i) == [seq |-> i, uid |-> IF cmd.uid THEN msgs2[i].uid ELSE 0, fl |-> FlagSeq(msgs2[i].fl)]
       IN Res([S EXCEPT !.mb[n].msgs = msgs2],
              [st |-> "OK", fetch |-> IF cmd.silent THEN <<>> ELSE SeqOver(A, One)])

DoCopy(S, cmd, move) ==
  LET n == Sel(S, cmd.c) IN
  IF move /\ S.cn[cmd.c].ro THEN Ro(S)
  ELSE IF ~Exists(S, cmd.name) \/ cmd.name = n THEN No(S)
  ELSE LET msgs == S.mb[n].msgs
           A == Addressed(msgs, cmd.uid, cmd.set)
           s == SetToSeq(A)
           d == S.mb[cmd.name]
           new == [j \in 1..Len(s) |-> [uid |-> d.next + j - 1, fl |-> msgs[s[j]].fl, cat |-> msgs[s[j]].cat]]
           S1 == [S EXCEPT !.mb[cmd.name].msgs = @ \o new, !.mb[cmd.name].next = @ + Len(s)]
           S2 == IF move THEN [S1 EXCEPT !.mb[n].msgs = RemoveIdx(msgs, A)] ELSE S1
       IN Res(S2, [st |-> "OK",
                   uv  |-> IF A = {} THEN 0 ELSE Rank(S, cmd.name),
                   src |-> [j \in 1..Len(s) |-> msgs[s[j]].uid],
                   dst |-> [j \in 1..Len(s) |-> d.next + j - 1]])

DoExpunge(S, cmd, byUid) ==
  IF S.cn[cmd.c].ro THEN Ro(S)
  ELSE LET n == Sel(S, cmd.c)
           msgs == S.mb[n].msgs
           E == {i \in 1..Len(msgs) : Deleted(msgs[i]) /\ (byUid => InSetMax(msgs[i].uid, cmd.set, TopUid(msgs)))}
       IN Res([S EXCEPT !.mb[n].msgs = RemoveIdx(msgs, E)], [st |-> "OK", expunged |-> SetToSeq(E)])

DoSearch(S, cmd) ==
  LET msgs == SelMsgs(S, cmd.c)
      M == {i \in 1..Len(msgs) : \A j \in 1..Len(cmd.keys) : KeyMatch(cmd.keys[j], i, msgs)}
  IN Res(S, [st |-> "OK", nums |-> SetToSeq({IF cmd.uid THEN msgs[i].uid ELSE i : i \in M})])

DoFetch(S, cmd) ==
  LET n == Sel(S, cmd.c)
      msgs == S.mb[n].msgs
      A == Addressed(msgs, cmd.uid, cmd.set)
      mark == cmd.it.sec # 0 /\ ~cmd.it.peek /\ ~S.cn[cmd.c].ro
      msgs2 == IF mark THEN [i \in 1..Len(msgs) |-> IF i \in A THEN [msgs[i] EXCEPT !.fl = @ \cup {":seen"}] ELSE msgs[i]]
               ELSE msgs
      One(i) == FetchMsg(i, msgs2[i], cmd)
  IN Res([S EXCEPT !.mb[n].msgs = msgs2], [st |-> "OK", msgs |-> SeqOver(A, One)])

Exec(S, cmd) ==
  CASE cmd.op = "CREATE"      -> DoCreate(S, cmd)
    [] cmd.op = "DELETE"      -> DoDelete(S, cmd)
    [] cmd.op = "RENAME"      -> DoRename(S, cmd)
    [] cmd.op = "SUBSCRIBE"   -> DoSubscribe(S, cmd, TRUE)
    [] cmd.op = "UNSUBSCRIBE" -> DoSubscribe(S, cmd, FALSE)
    [] cmd.op = "LIST"        -> DoList(S, cmd)
    [] cmd.op = "LSUB"        -> DoLsub(S, cmd)
    [] cmd.op = "STATUS"      -> DoStatus(S, cmd)
    [] cmd.op = "APPEND"      -> DoAppend(S, cmd)
    [] cmd.op = "SELECT"      -> DoSelect(S, cmd, FALSE)
    [] cmd.op = "EXAMINE"     -> DoSelect(S, cmd, TRUE)
    [] cmd.op = "CLOSE"       -> DoClose(S, cmd, TRUE)
    [] cmd.op = "UNSELECT"    -> DoClose(S, cmd, FALSE)
    [] cmd.op = "STORE"       -> DoStore(S, cmd)
    [] cmd.op = "COPY"        -> DoCopy(S, cmd, FALSE)
    [] cmd.op = "MOVE"        -> DoCopy(S, cmd, TRUE)
    [] cmd.op = "EXPUNGE"     -> DoExpunge(S, cmd, FALSE)
    [] cmd.op = "UIDEXPUNGE"  -> DoExpunge(S, cmd, TRUE)
    [] cmd.op = "SEARCH"      -> DoSearch(S, cmd)
    [] cmd.op = "FETCH"       -> DoFetch(S, cmd)

(* the audit the harness performs after every command *)
Audit(S, names) ==
  [sel |-> [c \in 1..Conns |->
              IF Sel(S, c) = NoName THEN <<>>
              ELSE LET ms == SelMsgs(S, c)
                   IN [i \in 1..Len(ms) |-> [seq |-> i, uid |-> ms[i].uid, fl |-> FlagSeq(ms[i].fl)]]],
   st  |-> LET ns == SortNames(names) IN
           [j \in 1..Len(ns) |->
              IF Exists(S, ns[j])
              THEN [n |-> ns[j], e |-> TRUE, m |-> Len(S.mb[ns[j]].msgs), next |-> S.mb[ns[j]].next, uv |-> Rank(S, ns[j])]
              ELSE [n |-> ns[j], e |-> FALSE, m |-> 0, next |-> 0, uv |-> 0]]]

-----------------------------------------------------------------------------
(* which commands are explored in a state (READING R1, R3, R4, R8) *)
SecValid(S, cmd) ==
  LET msgs == SelMsgs(S, cmd.c)
      A == Addressed(msgs, cmd.uid, cmd.set)
  IN cmd.it.sec # 0 =>
       /\ \A i \in A : CatSec[msgs[i].cat][cmd.it.sec][1] >= 0
       /\ cmd.it.pi # 0 => cmd.it.sec \in Elems(PartSecs)

Allowed(S, cmd) ==
  /\ cmd.c \in 1..Conns
  /\ cmd.op \in SelectedOps \cup {"SEARCH", "FETCH"} => Sel(S, cmd.c) # NoName
  /\ (cmd.op \in SetOps /\ ~cmd.uid) => SeqSetValid(cmd.set, Len(SelMsgs(S, cmd.c)))
  /\ CASE cmd.op = "CREATE" ->
            LET n == StripDelim(cmd.name) IN n # <<>> /\ (HasParent(n) => Exists(S, Parent(n)))
       [] cmd.op = "DELETE" ->
            Exists(S, cmd.name) => /\ Inferiors(S, cmd.name) = {}
                                   /\ ~S.mb[cmd.name].sub
                                   /\ cmd.name \notin SelectedNames(S)
       [] cmd.op = "RENAME" ->
            LET old == cmd.name  new == StripDelim(cmd.name2)
                moved == {old} \cup Inferiors(S, old) IN
            /\ new # <<>> /\ new # old /\ ~IsUnder(new, old)
            /\ HasParent(new) => (Exists(S, Parent(new)) /\ Parent(new) \notin moved)
            /\ moved \cap SelectedNames(S) = {}
            /\ Exists(S, old) => \A x \in Inferiors(S, old) : ~Exists(S, Rebase(x, old, new))
       [] cmd.op \in {"SUBSCRIBE", "UNSUBSCRIBE"} -> Exists(S, cmd.name)
       [] cmd.op = "LSUB" -> cmd.pat # <<>>
       [] cmd.op \in {"COPY", "MOVE"} -> cmd.name # Sel(S, cmd.c)
       [] cmd.op = "SEARCH" -> \A j \in 1..Len(cmd.keys) : KeyOK(cmd.keys[j], Len(SelMsgs(S, cmd.c)))
       [] cmd.op = "FETCH" -> SecValid(S, cmd)
       [] OTHER -> TRUE

(* signature of a step: names the class of the command in its state, so    *)
(* that a disagreement of the implementation is reported under a narrow,   *)
(* stable key (DESIGN 5)                                                   *)
TopUidStale(S, c) == LET b == S.mb[Sel(S, c)] IN b.msgs # <<>> /\ TopUid(b.msgs) # b.next - 1
Sig(S, cmd) ==
  LET sel == IF cmd.op \in SelectedOps THEN Sel(S, cmd.c) ELSE NoName
      ro == sel # NoName /\ S.cn[cmd.c].ro IN
  \* a write attempted on a read-only (EXAMINE) selection is its own class, whatever its set looks like
  IF ro /\ (cmd.op \in {"STORE", "MOVE", "EXPUNGE", "UIDEXPUNGE", "CLOSE"}
            \/ (cmd.op = "FETCH" /\ cmd.it.sec # 0 /\ ~cmd.it.peek))
    THEN "examine/write-permitted"
  ELSE IF sel # NoName /\ cmd.uid /\ cmd.op \in SetOps /\ HasStar(cmd.set) /\ TopUidStale(S, cmd.c)
    THEN "uid-star/after-expunge-of-highest"
  ELSE IF cmd.op = "SEARCH" /\ (\E j \in 1..Len(cmd.keys) : KeyUidStar(cmd.keys[j])) /\ TopUidStale(S, cmd.c)
    THEN "uid-star/after-expunge-of-highest"
  ELSE IF cmd.op = "UIDEXPUNGE" /\ HasStar(cmd.set) /\ ~ro THEN "uid-star/uid-expunge"
  ELSE IF sel # NoName /\ cmd.uid /\ cmd.op \in SetOps /\ StarBelowNumber(cmd.set, TopUid(SelMsgs(S, cmd.c)))
    THEN "uid-star/with-number-above-highest"
  ELSE IF cmd.op = "SEARCH" /\ (\E j \in 1..Len(cmd.keys) : KeyStarBelow(cmd.keys[j], TopUid(SelMsgs(S, cmd.c))))
    THEN "uid-star/with-number-above-highest"
  ELSE IF cmd.op = "FETCH" /\ cmd.it.pi \in PartBigOffset THEN "partial/origin-truncated"
  ELSE IF cmd.op = "FETCH" /\ cmd.it.pi \in PartOverflow THEN "partial/overflow"
  ELSE IF cmd.op \in {"COPY", "MOVE"} /\ Exists(S, cmd.name) /\ cmd.name # sel
          /\ Addressed(SelMsgs(S, cmd.c), cmd.uid, cmd.set) = {}
    THEN "copyuid/no-message-addressed"
  ELSE IF ro /\ (cmd.op \in {"STORE", "MOVE", "EXPUNGE", "UIDEXPUNGE", "CLOSE"}
                 \/ (cmd.op = "FETCH" /\ cmd.it.sec # 0 /\ ~cmd.it.peek))
    THEN "examine/write-permitted"
  ELSE IF cmd.op = "RENAME" /\ Exists(S, cmd.name) /\ Inferiors(S, cmd.name) # {}
    THEN "rename/inferiors-not-renamed"
  ELSE IF cmd.op = "LSUB" /\ LsubParents(S, cmd) # {} THEN "lsub/percent-unsubscribed-parent"
  ELSE IF cmd.op = "SEARCH" THEN "search/" \o cmd.keys[1].k
  ELSE IF cmd.op = "FETCH" THEN (IF cmd.it.pi # 0 THEN "fetch/partial" ELSE IF cmd.it.sec # 0 THEN "fetch/section" ELSE "fetch/items")
  ELSE cmd.op

-----------------------------------------------------------------------------
(* bounded command alphabets *)
NameArgs == Names \cup {n \o <<DELIM>> : n \in {x \in Names : ~HasParent(x)}}
Mk(op) == [C0 EXCEPT !.op = op]
N1(op, n) == [C0 EXCEPT !.op = op, !.name = n]

ListArgs == { <<<<>>, <<STAR>>>>, <<<<>>, <<PCT>>>>, <<<<>>, <<>>>>, <<<<97>>, <<PCT>>>>,
              <<<<>>, <<97, DELIM, PCT>>>>, <<<<>>, <<97, STAR>>>>, <<<<97, DELIM>>, <<STAR>>>>,
              <<<<>>, <<PCT, DELIM, 98>>>>, <<<<>>, <<99>>>> }
NsCmds ==
     {N1("CREATE", n) : n \in NameArgs}
  \cup {N1("DELETE", n) : n \in Names}
  \cup {[C0 EXCEPT !.op = "RENAME", !.name = a, !.name2 = b] : a \in Names, b \in Names}
  \cup {N1(op, n) : op \in {"SUBSCRIBE", "UNSUBSCRIBE", "STATUS"}, n \in Names}
  \cup {[C0 EXCEPT !.op = op, !.ref = a[1], !.pat = a[2]] : op \in {"LIST", "LSUB"}, a \in ListArgs}

AppendFlagArgs == IF Level = 0 THEN { <<>> }
                  ELSE IF Level = 1 THEN { <<>>, <<":Seen">> }
                  ELSE { <<>>, <<":Seen">>, <<":DELETED", "kw1">> }
AppendTargets == IF Level = 0 THEN Names \cap { <<97>> } ELSE Names
AppendCmds(cs) == {[C0 EXCEPT !.op = "APPEND", !.c = c, !.name = n, !.cat = k, !.fl = f] :
                     c \in cs, n \in AppendTargets, k \in CatIds, f \in AppendFlagArgs}
SelCmds(cs) == {[C0 EXCEPT !.op = op, !.c = c, !.name = n] : op \in {"SELECT", "EXAMINE"}, c \in cs, n \in Names}
            \cup {[C0 EXCEPT !.op = op, !.c = c] : op \in {"CLOSE", "UNSELECT"}, c \in cs}

SetArgs == IF Level = 0 THEN { << <<1, 1>> >>, << <<2, 2>> >>, << <<1, 0>> >>, << <<0, 0>> >> }
           ELSE IF Level = 1 THEN { << <<1, 1>> >>, << <<2, 2>> >>, << <<1, 0>> >>, << <<0, 0>> >>, << <<2, 0>> >>, << <<3, 0>> >> }
           ELSE { << <<1, 1>> >>, << <<2, 2>> >>, << <<1, 0>> >>, << <<0, 0>> >>, << <<2, 0>> >>,
                  << <<3, 1>> >>, << <<1, 1>>, <<3, 3>> >>, << <<3, 0>> >> }
\* (a flag list is a list: it may name a flag twice, in different spellings - it still stands for a set)
StoreArgs == IF Level = 0 THEN { <<"add", <<":Deleted">>>>, <<"add", <<":SEEN">>>>, <<"del", <<":seen">>>>,
                                 <<"set", <<":Seen", ":SEEN">>>> }
             ELSE IF Level = 1 THEN { <<"add", <<":Deleted">>>>, <<"add", <<":SEEN">>>>, <<"del", <<":seen">>>>,
                                      <<"del", <<":DELETED">>>>, <<"set", <<>>>>, <<"set", <<":Seen", ":SEEN">>>> }
             ELSE { <<"add", <<":Deleted">>>>, <<"add", <<":SEEN", "KW1">>>>, <<"del", <<":seen">>>>,
                    <<"del", <<":DELETED", "kw1">>>>, <<"set", <<":Flagged">>>>, <<"set", <<>>>>,
                    <<"set", <<":Seen", ":SEEN">>>>, <<"add", <<"kw1", "KW1", ":deleted">>>> }
MsgCmds(cs) ==
     {[C0 EXCEPT !.op = "STORE", !.c = c, !.uid = u, !.set = s, !.sop = a[1], !.fl = a[2]] :
        c \in cs, u \in BOOLEAN, s \in SetArgs, a \in StoreArgs}
  \cup {[C0 EXCEPT !.op = op, !.c = c, !.uid = u, !.set = s, !.name = n] :
        op \in {"COPY", "MOVE"}, c \in cs, u \in BOOLEAN, s \in SetArgs, n \in Names}
  \cup {[C0 EXCEPT !.op = "EXPUNGE", !.c = c] : c \in cs}
  \cup {[C0 EXCEPT !.op = "UIDEXPUNGE", !.c = c, !.set = s] : c \in cs, s \in SetArgs}
  \cup {[C0 EXCEPT !.op = "FETCH", !.c = c, !.uid = u, !.set = s,
                   !.it = [It0 EXCEPT !.sec = 1, !.peek = FALSE, !.flags = fl]] :
        c \in cs, u \in BOOLEAN, s \in {<< <<1, 1>> >>, << <<0, 0>> >>, << <<1, 0>> >>}, fl \in BOOLEAN}

CreateCmds == {N1("CREATE", n) : n \in Names}
Alphabet ==
  CASE Family = "ns"  -> NsCmds \cup AppendCmds({1})
    [] Family = "msg" -> CreateCmds \cup AppendCmds({1}) \cup SelCmds({1}) \cup MsgCmds({1})
    [] Family = "two" -> CreateCmds \cup AppendCmds(1..Conns) \cup SelCmds(1..Conns) \cup MsgCmds(1..Conns)
    [] Family = "all" -> NsCmds \cup AppendCmds(1..Conns) \cup SelCmds(1..Conns) \cup MsgCmds(1..Conns)

-----------------------------------------------------------------------------
(* the state machine *)
VARIABLES mb, uvc, uvh, cn,
          last     \* the step just taken: command, predicted result, predicted audit, signature
vars == <<mb, uvc, uvh, cn, last>>
St == [mb |-> mb, uvc |-> uvc, uvh |-> uvh, cn |-> cn]

Init ==
  /\ mb = S0.mb /\ uvc = 0 /\ uvh = S0.uvh /\ cn = S0.cn
  /\ last = [cmd |-> C0, r |-> [st |-> "INIT"], audit |-> Audit(S0, Names), sig |-> ""]

Step(cmd) ==
  /\ Allowed(St, cmd)
  /\ LET e == Exec(St, cmd) IN
     /\ mb' = e.S.mb /\ uvc' = e.S.uvc /\ uvh' = e.S.uvh /\ cn' = e.S.cn
     /\ last' = [cmd |-> cmd, r |-> e.r, audit |-> Audit(e.S, Names), sig |-> Sig(St, cmd)]

Next == \E cmd \in Alphabet : Step(cmd)
Spec == Init /\ [][Next]_vars

Bounded ==
  /\ uvc <= MaxCreates
  /\ \A n \in DOMAIN mb : Len(mb[n].msgs) <= MaxMsgs /\ mb[n].next - 1 <= MaxUid

View == <<mb, uvc, uvh, cn>>

-----------------------------------------------------------------------------
(* properties of the design *)
MsgOK(m) == /\ DOMAIN m = {"uid", "fl", "cat"}
            /\ m.uid \in Nat \ {0} /\ m.fl \subseteq Elems(FlagOrder) /\ m.cat \in 1..CatN
TypeOK ==
  /\ uvc \in Nat
  /\ \A n \in DOMAIN mb :
       /\ n # <<>> /\ n[Len(n)] # DELIM
       /\ mb[n].uv \in 1..uvc /\ mb[n].next \in Nat \ {0} /\ mb[n].sub \in BOOLEAN
       /\ \A i \in 1..Len(mb[n].msgs) : MsgOK(mb[n].msgs[i])
       /\ n \in DOMAIN uvh /\ mb[n].uv \in Elems(uvh[n])
  /\ \A c \in 1..Conns : cn[c].ro \in BOOLEAN /\ (cn[c].sel = NoName \/ cn[c].sel \in DOMAIN mb)
  /\ last.r.st \in {"OK", "NO", "RO", "INIT"}

(* UIDs strictly increase inside a mailbox and stay below UIDNEXT *)
UidsAscending ==
  \A n \in DOMAIN mb :
    LET ms == mb[n].msgs IN
    /\ \A i \in 1..Len(ms) : ms[i].uid < mb[n].next
    /\ \A i \in 1..(Len(ms) - 1) : ms[i].uid < ms[i + 1].uid

(* two live mailboxes never share a UIDVALIDITY token, and no name carries *)
(* the same token twice in its history                                      *)
UidValidityDistinct ==
  /\ \A a, b \in DOMAIN mb : a # b => mb[a].uv # mb[b].uv
  /\ \A n \in DOMAIN uvh : \A i, j \in 1..Len(uvh[n]) : i # j => uvh[n][i] # uvh[n][j]

(* every command of the alphabet that is explored has an outcome *)
AllDefined == \A cmd \in Alphabet : Allowed(St, cmd) => Exec(St, cmd).r.st \in {"OK", "NO", "RO"}

(* --- action properties --- *)
SameBox(n) == n \in DOMAIN mb /\ n \in DOMAIN mb' /\ mb[n].uv = mb'[n].uv
(* a UID is never reused: while a mailbox keeps its UIDVALIDITY, UIDNEXT   *)
(* does not decrease and every message that was not there before has a UID *)
(* at or above the old UIDNEXT                                              *)
UidsNeverReused ==
  [][\A n \in DOMAIN mb : SameBox(n) =>
        /\ mb'[n].next >= mb[n].next
        /\ \A i \in 1..Len(mb'[n].msgs) :
             LET m == mb'[n].msgs[i] IN
             (\E j \in 1..Len(mb[n].msgs) : mb[n].msgs[j].uid = m.uid) \/ m.uid >= mb[n].next]_vars

(* a name that is created gets a token none of its earlier incarnations had *)
UidValidityFresh ==
  [][(last'.cmd.op = "CREATE" /\ last'.r.st = "OK") =>
       LET n == StripDelim(last'.cmd.name) IN
       /\ mb'[n].uv \notin Elems(UvHist(uvh, n))
       /\ \A x \in DOMAIN mb : mb[x].uv # mb'[n].uv]_vars

(* APPENDUID names the message that was added *)
AppendUidExact ==
  [][(last'.cmd.op = "APPEND" /\ last'.r.st = "OK") =>
       LET n == last'.cmd.name  old == mb[n].msgs  new == mb'[n].msgs IN
       /\ Len(new) = Len(old) + 1 /\ SubSeq(new, 1, Len(old)) = old
       /\ new[Len(new)].uid = last'.r.uid /\ last'.r.uid = mb[n].next
       /\ new[Len(new)].cat = last'.cmd.cat
       /\ \A x \in (DOMAIN mb) \ {n} : mb'[x] = mb[x]]_vars

(* COPYUID pairs every addressed message with its copy at the end of the destination *)
CopyUidExact ==
  [][(last'.cmd.op \in {"COPY", "MOVE"} /\ last'.r.st = "OK") =>
       LET c == last'.cmd.c  src == mb[cn[c].sel].msgs  d == last'.cmd.name
           old == mb[d].msgs  new == mb'[d].msgs  k == Len(last'.r.src) IN
       /\ Len(last'.r.dst) = k /\ Len(new) = Len(old) + k /\ SubSeq(new, 1, Len(old)) = old
       /\ {src[i].uid : i \in Addressed(src, last'.cmd.uid, last'.cmd.set)} = Elems(last'.r.src)
       /\ \A j \in 1..k :
            LET copy == new[Len(old) + j]
                orig == src[CHOOSE i \in 1..Len(src) : src[i].uid = last'.r.src[j]] IN
            /\ copy.uid = last'.r.dst[j] /\ copy.uid >= mb[d].next
            /\ copy.fl = orig.fl /\ copy.cat = orig.cat]_vars

(* STORE changes exactly the addressed messages, as the operation says *)
StoreExact ==
  [][(last'.cmd.op = "STORE" /\ last'.r.st = "OK") =>
       LET c == last'.cmd.c  n == cn[c].sel  old == mb[n].msgs  new == mb'[n].msgs
           A == Addressed(old, last'.cmd.uid, last'.cmd.set)
           fs == Canon(last'.cmd.fl) IN
       /\ Len(new) = Len(old)
       /\ \A i \in 1..Len(old) :
            /\ new[i].uid = old[i].uid /\ new[i].cat = old[i].cat
            /\ i \notin A => new[i].fl = old[i].fl
            /\ i \in A => CASE last'.cmd.sop = "set" -> new[i].fl = fs
                            [] last'.cmd.sop = "add" -> new[i].fl = old[i].fl \cup fs
                            [] last'.cmd.sop = "del" -> new[i].fl = old[i].fl \ fs
       /\ \A x \in (DOMAIN mb) \ {n} : mb'[x] = mb[x]]_vars

(* EXPUNGE / UID EXPUNGE / MOVE remove exactly the eligible messages *)
RemovalExact ==
  [][(last'.cmd.op \in {"EXPUNGE", "UIDEXPUNGE", "MOVE"} /\ last'.r.st = "OK") =>
       LET c == last'.cmd.c  n == cn[c].sel  old == mb[n].msgs  new == mb'[n].msgs
           gone == CASE last'.cmd.op = "EXPUNGE" -> {i \in 1..Len(old) : Deleted(old[i])}
                     [] last'.cmd.op = "UIDEXPUNGE" ->
                          {i \in 1..Len(old) : Deleted(old[i]) /\ InSetMax(old[i].uid, last'.cmd.set, TopUid(old))}
                     [] last'.cmd.op = "MOVE" -> Addressed(old, last'.cmd.uid, last'.cmd.set)
       IN new = RemoveIdx(old, gone)]_vars

(* queries change nothing (FETCH only adds \Seen) *)
QueriesPure ==
  [][(last'.cmd.op \in {"LIST", "LSUB", "STATUS", "SEARCH"}) => View' = View]_vars
=============================================================================
