CONSTANTS
  Sessions = {"s1", "s2"}
  MaxMsgs = 3
  MaxIds = 3
  MaxK = 3
  MaxQueue = 2
INIT GenInit
NEXT GenNext
CONSTRAINT Bounded
VIEW GenView
CHECK_DEADLOCK FALSE
