---------------------------- MODULE ClientConcGen ----------------------------
(* Prints every maximal behaviour of ClientConc as a schedule (list of events) *)
(* that the harness re-enacts on the real client with the verif hooks as gates. *)
EXTENDS ClientConc, Json

VARIABLES hist, printed

Ev(e, p, c) == [e |-> e, p |-> p, c |-> c]

GenInit == Init /\ hist = <<>> /\ printed = FALSE

GenStep ==
  \/ \E s \in Subs : Register(s) /\ hist' = Append(hist, Ev("reg", s, s))
  \/ \E s \in Subs : Initialise(s) /\ hist' = Append(hist, Ev("init", s, s))
  \/ \E s \in Subs : Write(s) /\ hist' = Append(hist, Ev("write", s, s))
  \/ \E s \in Subs : Wait(s) /\ hist' = Append(hist, Ev("wait", s, s))
  \/ \E s \in Subs : AnswerTake(s) /\ hist' = Append(hist, Ev("atake", ReaderProc, s))
  \/ AnswerComplete /\ hist' = Append(hist, Ev("acomp", ReaderProc, taken))
  \/ \E s \in Subs : DeliverFind(s) /\ hist' = Append(hist, Ev("dfind", ReaderProc, s))
  \/ DeliverSend /\ hist' = Append(hist, Ev("dsend", ReaderProc, found))
  \/ Lose /\ hist' = Append(hist, Ev("lose", ReaderProc, 0))
  \/ ReaderSwap /\ hist' = Append(hist, Ev("rswap", ReaderProc, 0))
  \/ \E p \in Procs, c \in Subs : CloseComplete(p, c) /\ hist' = Append(hist, Ev("ccomp", p, c))
  \/ \E p \in Procs : CloseDone(p) /\ hist' = Append(hist, Ev("cdone", p, 0))

\* symmetry by hand: submitter 1 is the first to register
FirstIsOne == \A i \in 1..Len(hist) : hist[i].e = "reg" => (hist[i].p = 1 \/ \E j \in 1..(i-1) : hist[j].e = "reg")

GenNext ==
  \/ /\ ~printed /\ GenStep /\ printed' = FALSE
  \/ /\ ~printed /\ Terminated /\ printed' = TRUE /\ UNCHANGED <<vars, hist>>
     /\ PrintT(<<"T", ToJson(hist)>>)

GenConstraint == FirstIsOne
\* streaming family: at most two data deliveries per behaviour keep the enumeration small
GenStreamConstraint == FirstIsOne /\ Cardinality({i \in 1..Len(hist) : hist[i].e = "dfind"}) <= 1
=============================================================================
