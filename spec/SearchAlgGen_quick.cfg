CONSTANTS
  MaxKeys = 2
  WithCat = FALSE
INIT Init
NEXT GenNext
CHECK_DEADLOCK FALSE
