CONSTANTS
  Layouts <- McLayouts
SPECIFICATION SpecNoClose
INVARIANTS TypeOK NoSuccessWithoutCompletion
PROPERTIES StallInsideResponseTimesOut
CHECK_DEADLOCK FALSE
