CONSTANTS
  MaxCmds = 3
  MaxPending = 3
  MaxNum = 2
  MaxItems = 2
  Kinds = {"SELECT", "FETCH", "STORE", "UIDFETCH", "EXPUNGE", "UIDEXPUNGE", "MOVE", "COPY", "SORT", "THREAD"}
  Greetings = {"PREAUTH"}
INIT Init
NEXT Next
VIEW McView
INVARIANTS TypeOK IdleAlone
PROPERTIES ExactlyOnce Isolation DataToRightCommand StateDiagram
CHECK_DEADLOCK FALSE
