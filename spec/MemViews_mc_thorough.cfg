CONSTANTS
  Sessions = {"s1", "s2"}
  Mailboxes = {"A", "B"}
  Flags <- OnlyDeleted
  MaxMsgs = 2
  MaxUid = 2
  MaxQueue = 2
  Kinds <- AllKinds
  SeqSets <- Sets2
  UidSets <- Sets2
  UidForms <- Both
  AppendFlags <- PlainOrDeleted
  AppendBoxes <- OnlyA
  StoreOps <- Plus
  IdleAny = TRUE
INIT Init
NEXT Next
CONSTRAINT Bounded
VIEW CoreView
INVARIANTS TypeOK RemovedReportedOnce
PROPERTIES StepSeqNums StepNoExpunge StepShrink StepNoop
CHECK_DEADLOCK FALSE
