CONSTANTS
  Subs = {1, 2}
  RegisterBeforeInit = FALSE
  Literal = {}
  ReleaseOnRefusal = TRUE
  OwnAtTag = TRUE
  Streaming = {1}
INIT GenInit
NEXT GenNext
CONSTRAINT GenStreamConstraint
CHECK_DEADLOCK FALSE
