CONSTANTS
  MaxCmds = 3
  MaxPending = 3
  MaxNum = 2
  MaxItems = 1
  Kinds = {"SELECT", "IDLE", "CLOSE", "UNAUTH", "LOGIN", "NOOP", "EXPUNGE", "FETCH"}
  Greetings = {"PREAUTH"}
  SimDepth = 0
INIT GenInit
NEXT GenNext
VIEW GenView
CHECK_DEADLOCK FALSE
