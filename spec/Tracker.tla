------------------------------ MODULE Tracker ------------------------------
(***************************************************************************)
(* Mailbox tracker of go-imap (imapserver/tracker.go): one MailboxTracker  *)
(* shared by several SessionTrackers.  Property C07.                       *)
(*                                                                         *)
(* Messages carry identities so that "the same message on both sides" is  *)
(* expressible.  mbox is the true ordered message list, view[s] the list   *)
(* the client of session s has been told about so far, queue[s] the        *)
(* updates not yet written to that client.                                 *)
(*                                                                         *)
(* One action per public entry point of the tracker:                       *)
(*   AppendMsgs(k)      MailboxTracker.QueueNumMessages(Len(mbox)+k)         *)
(*   Expunge(i)       MailboxTracker.QueueExpunge(i)                       *)
(*   MsgFlags(i,src)  MailboxTracker.QueueMessageFlags(i,uid,flags,src)    *)
(*   MboxFlags        MailboxTracker.QueueMailboxFlags(flags)              *)
(*   NewSession(s)    MailboxTracker.NewSession()                          *)
(*   CloseSession(s)  SessionTracker.Close()                               *)
(*   Poll(s,allow)    SessionTracker.Poll(w, allow)  (via Conn.poll)       *)
(*   IdleStart/Stop   SessionTracker.Idle (delivery inside Dispatch)        *)
(* Decode/Encode are the *meaning* of DecodeSeqNum/EncodeSeqNum.           *)
(***************************************************************************)
EXTENDS Naturals, Sequences, FiniteSets, TLC

CONSTANTS Sessions,   \* set of session names (strings)
          MaxMsgs,    \* bound on Len(mbox) (state constraint of the bounded model)
          MaxIds,     \* bound on message identities ever allocated
          MaxK,       \* largest increment of one QueueNumMessages
          MaxQueue    \* bound on the length of a session queue

VARIABLES mbox,     \* Seq(Nat): identities of the messages in the mailbox, in order
          nextId,   \* next identity to allocate
          open,     \* set of sessions with a live SessionTracker
          view,     \* [Sessions -> Seq(Nat)]: what the client has been told
          queue,    \* [Sessions -> Seq(update)]
          idling,   \* set of sessions inside SessionTracker.Idle
          emitted   \* [Sessions -> Seq(update)]: output of the LAST step only (observation)

vars == <<mbox, nextId, open, view, queue, idling, emitted>>

None == "none"

\* update records (uniform shape)
UExists(n, ids) == [t |-> "exists",  n |-> n, ids |-> ids]
UExpunge(n)     == [t |-> "expunge", n |-> n, ids |-> <<>>]
UFlags(n, id)   == [t |-> "flags",   n |-> n, ids |-> <<id>>]
UMFlags         == [t |-> "mflags",  n |-> 0, ids |-> <<>>]

RemoveAt(seq, i) == SubSeq(seq, 1, i-1) \o SubSeq(seq, i+1, Len(seq))

IndexOf(seq, x) == IF \E i \in 1..Len(seq) : seq[i] = x
                   THEN CHOOSE i \in 1..Len(seq) : seq[i] = x
                   ELSE 0

\* Effect of one update on a client's view.
ApplyOne(v, u) ==
  CASE u.t = "exists"  -> v \o u.ids
    [] u.t = "expunge" -> RemoveAt(v, u.n)
    [] OTHER           -> v

RECURSIVE ApplyAll(_, _)
ApplyAll(v, us) == IF us = <<>> THEN v ELSE ApplyAll(ApplyOne(v, Head(us)), Tail(us))

\* Is every update of us applicable, in order, to view v?  (exists announces a
\* count not smaller than the view, expunge/flags address an existing message)
RECURSIVE WellFormed(_, _)
WellFormed(v, us) ==
  IF us = <<>> THEN TRUE
  ELSE LET u == Head(us) IN
       /\ CASE u.t = "exists"  -> u.n = Len(v) + Len(u.ids)
            [] u.t = "expunge" -> u.n \in 1..Len(v)
            [] u.t = "flags"   -> u.n \in 1..Len(v) /\ v[u.n] = u.ids[1]
            [] OTHER           -> TRUE
       /\ WellFormed(ApplyOne(v, u), Tail(us))

\* Longest prefix of us without an expunge.
RECURSIVE NoExpPrefix(_)
NoExpPrefix(us) == IF us = <<>> \/ Head(us).t = "expunge" THEN <<>>
                   ELSE <<Head(us)>> \o NoExpPrefix(Tail(us))

\* ----- meaning of the translation functions -----
\* client seq c of session s -> server seq (0: no longer exists on the server)
Decode(s, c) == IF c \in 1..Len(view[s]) THEN IndexOf(mbox, view[s][c]) ELSE 0
\* server seq n -> client seq of session s (0: client does not know it yet)
Encode(s, n) == IF n \in 1..Len(mbox) THEN IndexOf(view[s], mbox[n]) ELSE 0

\* Does session s receive an update broadcast with the given exception?
Recv(s, except) == s \in open /\ s # except

\* Dispatch of one update.  A session that is not idling queues it.  A session
\* inside SessionTracker.Idle is woken up and writes its whole queue (which
\* may hold updates that were pending when IDLE started) with expunges allowed;
\* the model takes that delivery in the same step (the harness waits for it).
Dispatch(u, except) ==
  /\ queue' = [s \in Sessions |->
                 IF ~Recv(s, except) THEN queue[s]
                 ELSE IF s \in idling THEN <<>> ELSE Append(queue[s], u)]
  /\ emitted' = [s \in Sessions |->
                 IF Recv(s, except) /\ s \in idling THEN Append(queue[s], u) ELSE <<>>]
  /\ view' = [s \in Sessions |-> ApplyAll(view[s], emitted'[s])]

Quiet == emitted' = [s \in Sessions |-> <<>>]

Init ==
  /\ mbox = <<>> /\ nextId = 1 /\ open = {} /\ idling = {}
  /\ view = [s \in Sessions |-> <<>>]
  /\ queue = [s \in Sessions |-> <<>>]
  /\ emitted = [s \in Sessions |-> <<>>]

AppendMsgs(k) ==
  /\ Len(mbox) + k >= 1                       \* QueueNumMessages(0) is not a legal call
  /\ LET ids == [j \in 1..k |-> nextId + j - 1] IN
     /\ mbox' = mbox \o ids
     /\ nextId' = nextId + k
     /\ Dispatch(UExists(Len(mbox) + k, ids), None)
  /\ UNCHANGED <<open, idling>>

Expunge(i) ==
  /\ i \in 1..Len(mbox)
  /\ mbox' = RemoveAt(mbox, i)
  /\ Dispatch(UExpunge(i), None)
  /\ UNCHANGED <<nextId, open, idling>>

MsgFlags(i, src) ==
  /\ i \in 1..Len(mbox)
  /\ src \in (open \ idling) \cup {None}
  /\ Dispatch(UFlags(i, mbox[i]), src)
  /\ UNCHANGED <<mbox, nextId, open, idling>>

MboxFlags ==
  /\ Dispatch(UMFlags, None)
  /\ UNCHANGED <<mbox, nextId, open, idling>>

NewSession(s) ==
  /\ s \notin open
  /\ open' = open \cup {s}
  /\ view' = [view EXCEPT ![s] = mbox]
  /\ queue' = [queue EXCEPT ![s] = <<>>]
  /\ Quiet /\ UNCHANGED <<mbox, nextId, idling>>

CloseSession(s) ==
  /\ s \in open /\ s \notin idling
  /\ open' = open \ {s}
  /\ view' = [view EXCEPT ![s] = <<>>]
  /\ queue' = [queue EXCEPT ![s] = <<>>]
  /\ Quiet /\ UNCHANGED <<mbox, nextId, idling>>

Deliver(s, us) ==
  /\ emitted' = [t \in Sessions |-> IF t = s THEN us ELSE <<>>]
  /\ view' = [view EXCEPT ![s] = ApplyAll(view[s], us)]
  /\ queue' = [queue EXCEPT ![s] = SubSeq(queue[s], Len(us) + 1, Len(queue[s]))]

Poll(s, allow) ==
  /\ s \in open /\ s \notin idling
  /\ Deliver(s, IF allow THEN queue[s] ELSE NoExpPrefix(queue[s]))
  /\ UNCHANGED <<mbox, nextId, open, idling>>

\* IDLE command accepted: nothing is polled at this point.
IdleStart(s) == /\ s \in open /\ s \notin idling
                /\ idling' = idling \cup {s}
                /\ Quiet /\ UNCHANGED <<mbox, nextId, open, view, queue>>
\* DONE: Idle returns and the command's final poll (expunges allowed) runs.
IdleStop(s) == /\ s \in idling
               /\ idling' = idling \ {s}
               /\ Deliver(s, queue[s])
               /\ UNCHANGED <<mbox, nextId, open>>

Next ==
  \/ \E k \in 0..MaxK : AppendMsgs(k)
  \/ \E i \in 1..MaxMsgs : Expunge(i)
  \/ \E i \in 1..MaxMsgs, src \in Sessions \cup {None} : MsgFlags(i, src)
  \/ MboxFlags
  \/ \E s \in Sessions : NewSession(s) \/ CloseSession(s)
  \/ \E s \in Sessions, allow \in BOOLEAN : Poll(s, allow)
  \/ \E s \in Sessions : IdleStart(s) \/ IdleStop(s)

Spec == Init /\ [][Next]_vars

Bounded == /\ Len(mbox) <= MaxMsgs /\ nextId <= MaxIds + 1
           /\ \A s \in Sessions : Len(queue[s]) <= MaxQueue

\* --------------------------- properties (C07) ---------------------------
TypeOK ==
  /\ open \subseteq Sessions /\ idling \subseteq open
  /\ \A s \in Sessions : s \notin open => view[s] = <<>> /\ queue[s] = <<>>

\* The pending updates, applied in order, transform the client's view into
\* the true mailbox; each is applicable when its turn comes.
QueueLeadsToMailbox ==
  \A s \in open : /\ WellFormed(view[s], queue[s])
                  /\ ApplyAll(view[s], queue[s]) = mbox

\* Translation identifies the same message on both sides, 0 iff absent.
TranslationSound ==
  \A s \in open :
    /\ \A c \in 1..Len(view[s]) :
         LET n == Decode(s, c) IN
           /\ (n = 0) <=> (\A j \in 1..Len(mbox) : mbox[j] # view[s][c])
           /\ n # 0 => mbox[n] = view[s][c] /\ Encode(s, n) = c
    /\ \A n \in 1..Len(mbox) :
         LET c == Encode(s, n) IN
           /\ (c = 0) <=> (\A j \in 1..Len(view[s]) : view[s][j] # mbox[n])
           /\ c # 0 => view[s][c] = mbox[n] /\ Decode(s, c) = n

NoDuplicates == \A i, j \in 1..Len(mbox) : mbox[i] = mbox[j] => i = j

\* Action properties: what a step may emit.
\* Never reordered, never lost: what is emitted in a step followed by what
\* stays queued is the old queue, extended by at most the update dispatched
\* in this very step.
EmitsInQueueOrder ==
  [][\A s \in Sessions : s \in open /\ s \in open' =>
       LET total == emitted'[s] \o queue'[s] IN
         /\ Len(total) \in {Len(queue[s]), Len(queue[s]) + 1}
         /\ SubSeq(total, 1, Len(queue[s])) = queue[s]]_vars

NoExpungeWhenDisallowed ==
  [][\A s \in Sessions :
       (\E i \in 1..Len(emitted'[s]) : emitted'[s][i].t = "expunge")
         => (Poll(s, TRUE) \/ IdleStop(s) \/ s \in idling)]_vars

\* A view only shrinks through an emitted expunge and only grows through an
\* emitted exists.
ViewChangesOnlyByEmission ==
  [][\A s \in Sessions : s \in open /\ s \in open' =>
       view'[s] = ApplyAll(view[s], emitted'[s])]_vars

\* After an unrestricted poll the client is up to date.
SyncAfterFullPoll ==
  [][\A s \in Sessions : Poll(s, TRUE) => view'[s] = mbox]_vars
=============================================================================
