CONSTANTS
  LitPlusSet = {TRUE, FALSE}
  Utf8Set = {TRUE, FALSE}
  SaslSet = {TRUE, FALSE}
INIT Init
NEXT Next
INVARIANTS TypeOK ContOnlyWhenWilling PayloadOnlyAsArgument
PROPERTIES OneCompletion ClosedIsFinal
CHECK_DEADLOCK FALSE
