CONSTANTS
  Max <- TraceMax
  Gaps <- TraceGaps
INIT TraceInit
NEXT TraceNext
INVARIANTS TypeOK CanonicalForm MembershipIsUnion DynamicIffStar
POSTCONDITION TraceAccepted
CHECK_DEADLOCK FALSE
