CONSTANTS
  MaxCmds = 3
  MaxPending = 3
  MaxNum = 2
  MaxItems = 2
  Kinds = {"SELECT", "FETCH", "STORE", "UIDFETCH", "EXPUNGE", "UIDEXPUNGE", "MOVE", "COPY", "SORT", "THREAD"}
  Greetings = {"PREAUTH"}
  SimDepth = 0
INIT GenInit
NEXT GenNext
VIEW GenView
CHECK_DEADLOCK FALSE
