#!/usr/bin/env python3
"""Generator of the message-catalogue tables of property C09.

Reads the RFC 5322 texts m1.eml .. m5.eml of this directory (stored with CRLF line ends; they
are the real APPEND payloads of the conformance harness) and writes

  ../MemCatalogue.tla      what the specification knows about each catalogue entry: size,
                           internal / sent day, which header / word probes match, and for every
                           addressable body section (and every partial <offset.size> of the pool)
                           the expected LENGTH and a fingerprint id (first 8 hex digits of the
                           SHA-256 of the expected octets).  TLC never parses MIME.
  catalogue.json           what the Go harness needs to put the same things on the wire (texts'
                           file names, internal date-times, section strings, the partial pool,
                           probe strings).  It contains no expected results.

The section extraction below is written from RFC 3501 6.4.5 / RFC 2046 5.1.1 with nothing but
byte-string operations; it shares no code with go-message.  Run it again only when a text
changes:  python3 gen_catalogue.py
"""
import hashlib, json, os, re, datetime

HERE = os.path.dirname(os.path.abspath(__file__))
MAX63 = 9223372036854775807

# ---- catalogue entries: file, internal date-time as sent in APPEND
ENTRIES = [
    ("m1.eml", "10-Jan-2020 09:20:00 +0000"),
    ("m2.eml", "20-Jan-2020 23:30:00 -0500"),   # local day 20, UTC day 21
    ("m3.eml", "01-Feb-2020 12:05:00 +0100"),
    ("m4.eml", "20-Jan-2020 00:10:00 +0900"),   # local day 20, UTC day 19
    ("m5.eml", "05-Jan-2020 10:00:00 +0000"),
    ("m6.eml", "06-Jan-2020 12:00:00 +0000"),   # no header field at all: the text starts with the empty line
    ("m7.eml", "10-Feb-2020 08:00:00 +0000"),   # multipart/mixed whose body holds the preamble and the closing delimiter only
]

# ---- body sections (index in this list + 1 = section id of the specification)
SECTIONS = [
    "",                                          # 1  whole message
    "HEADER",                                    # 2
    "TEXT",                                      # 3
    "HEADER.FIELDS (from SUBJECT)",              # 4  field names are case-insensitive
    "HEADER.FIELDS (X-Custom)",                  # 5  absent in some entries
    "HEADER.FIELDS.NOT (From Date Received)",    # 6
    "1",                                         # 7  defined for every message
    "2",                                         # 8  multipart only
    "1.MIME",                                    # 9  multipart only
    "2.MIME",                                    # 10 multipart only
    "2.HEADER",                                  # 11 part 2 is message/rfc822
    "2.TEXT",                                    # 12 part 2 is message/rfc822
    "2.1",                                       # 13 part 2 is message/rfc822 (its only part)
]
PARTIAL_SECTIONS = [1, 2, 3, 7]                  # sections fetched with <offset.size>

HDR_PROBES = [   # form: HEADER key value | FROM/TO/CC/SUBJECT value
    ("HEADER", "From", "alice"),
    ("HEADER", "FROM", "ALICE@EXAMPLE"),
    ("HEADER", "Subject", "report"),
    ("HEADER", "X-Custom", ""),
    ("HEADER", "x-custom", "K1"),
    ("HEADER", "X-Missing", ""),
    ("HEADER", "Subject", "quarterly report"),
    ("HEADER", "Content-Type", "multipart"),
    ("FROM", "From", "example.org"),
    ("TO", "To", "bob"),
    ("CC", "Cc", "bob"),
    ("SUBJECT", "Subject", "BUDGET"),
    ("SUBJECT", "Subject", "inner"),            # only in the embedded message's header
    ("BCC", "Bcc", "x"),
]
WORD_PROBES = ["budget", "BUDGET", "udge", "alice", "zebra crossing", "unicorn", "platypus",
               "nowhere-to-be-found", "inner subject", "padding padding", "ok", "multi-part"]


def split_header(msg):
    """(header incl. the delimiting blank line, body)"""
    if msg.startswith(b"\r\n"):
        return b"\r\n", msg[2:]
    i = msg.find(b"\r\n\r\n")
    if i < 0:
        return msg, b""
    return msg[:i + 4], msg[i + 4:]


def header_fields(hdr):
    """list of (name, raw bytes of the field incl. continuation lines and CRLF)"""
    lines = hdr.split(b"\r\n")
    out = []
    for ln in lines:
        if ln == b"":
            break
        if ln[:1] in (b" ", b"\t") and out:
            out[-1][1] += ln + b"\r\n"
        else:
            name = ln.split(b":", 1)[0].strip().decode()
            out.append([name, ln + b"\r\n"])
    return out


def fields_subset(hdr, names, negate):
    want = {n.lower() for n in names}
    res = b""
    for name, raw in header_fields(hdr):
        if (name.lower() in want) != negate:
            res += raw
    return res + b"\r\n"


def content_type(hdr):
    for name, raw in header_fields(hdr):
        if name.lower() == "content-type":
            v = raw.split(b":", 1)[1].decode()
            v = re.sub(r"\r\n[ \t]", " ", v).strip()
            mt = v.split(";")[0].strip().lower()
            m = re.search(r'boundary\s*=\s*("([^"]*)"|([^;\s]+))', v, re.I)
            b = None
            if m:
                b = m.group(2) if m.group(2) is not None else m.group(3)
            return mt, b
    return "text/plain", None


def multiparts(body, boundary):
    """bodies of the parts of a multipart entity (RFC 2046 5.1.1): the octets between a
    delimiter line and the CRLF that precedes the next delimiter line"""
    delim = b"--" + boundary.encode()
    parts = []
    pos = 0
    # position of the first delimiter line
    starts = []
    i = 0
    while True:
        j = body.find(delim, i)
        if j < 0:
            break
        if j == 0 or body[j - 2:j] == b"\r\n":
            eol = body.find(b"\r\n", j)
            if eol < 0:
                eol = len(body)
            tail = body[j + len(delim):eol]
            if tail.strip() in (b"", b"--"):
                starts.append((j, eol + 2, tail.strip() == b"--"))
        i = j + len(delim)
    for k in range(len(starts) - 1):
        if starts[k][2]:
            break
        begin = starts[k][1]
        end = starts[k + 1][0] - 2          # CRLF before the delimiter belongs to the delimiter
        parts.append(body[begin:max(begin, end)])
    return parts


def section(msg, spec):
    """octets of BODY[spec] or None when the section does not exist for this message"""
    hdr, body = split_header(msg)
    if spec == "":
        return msg
    if spec == "HEADER":
        return hdr
    if spec == "TEXT":
        return body
    m = re.match(r"HEADER\.FIELDS(\.NOT)? \((.*)\)$", spec)
    if m:
        return fields_subset(hdr, m.group(2).split(), bool(m.group(1)))
    # part path
    toks = spec.split(".")
    nums = []
    while toks and toks[0].isdigit():
        nums.append(int(toks.pop(0)))
    tail = ".".join(toks)
    ent_hdr, ent_body = hdr, body          # current entity (initially the message itself)
    nonmulti = False
    for depth, n in enumerate(nums):
        if depth > 0:
            if content_type(ent_hdr)[0] == "message/rfc822":
                # a message/rfc822 part numbers the parts of the embedded message
                ent_hdr, ent_body = split_header(ent_body)
            elif not content_type(ent_hdr)[0].startswith("multipart/"):
                return None                # a leaf part has no numbered sub-parts
        mt, bnd = content_type(ent_hdr)
        if mt.startswith("multipart/") and bnd:
            parts = multiparts(ent_body, bnd)
            if n < 1 or n > len(parts):
                return None
            ent_hdr, ent_body = split_header(parts[n - 1])
            nonmulti = False
        else:
            # "non-multipart messages ... only have a part 1": its content is the body text
            if n != 1:
                return None
            nonmulti = True
    if tail == "":
        return ent_body
    if nonmulti:
        return None                        # MIME/HEADER/TEXT of part 1 of a non-multipart: not used
    if tail == "MIME":
        return ent_hdr
    if content_type(ent_hdr)[0] != "message/rfc822":
        return None
    ih, ib = split_header(ent_body)
    if tail == "HEADER":
        return ih
    if tail == "TEXT":
        return ib
    return None


def fp(b):
    return hashlib.sha256(b).hexdigest()[:8]


def day_of(d):
    return (d - datetime.date(2019, 12, 31)).days


MONTHS = ["Jan", "Feb", "Mar", "Apr", "May", "Jun", "Jul", "Aug", "Sep", "Oct", "Nov", "Dec"]


def parse_imap_datetime(s):
    m = re.match(r"\s*(\d+)-(\w+)-(\d+) (\d+):(\d+):(\d+) ([+-])(\d\d)(\d\d)$", s)
    d, mon, y, hh, mm, ss, sg, zh, zm = m.groups()
    local = datetime.datetime(int(y), MONTHS.index(mon) + 1, int(d), int(hh), int(mm), int(ss))
    off = datetime.timedelta(hours=int(zh), minutes=int(zm)) * (1 if sg == "+" else -1)
    return local, local - off


def sent_day(hdr):
    for name, raw in header_fields(hdr):
        if name.lower() == "date":
            v = raw.split(b":", 1)[1].decode().strip()
            m = re.match(r"(?:\w+, )?(\d+) (\w+) (\d+) ", v)
            return day_of(datetime.date(int(m.group(3)), MONTHS.index(m.group(2)) + 1, int(m.group(1))))
    return -1


def hdr_match(hdr, key, val):
    for name, raw in header_fields(hdr):
        if name.lower() == key.lower():
            v = raw.split(b":", 1)[1].decode()
            v = re.sub(r"\r\n([ \t])", r"\1", v).strip()
            if val == "" or val.lower() in v.lower():
                return True
    return False


def tla_str(s):
    return '"' + s.replace("\\", "\\\\").replace('"', '\\"') + '"'


def tla_set(xs):
    return "{" + ", ".join(str(x) for x in xs) + "}"


def main():
    msgs = [open(os.path.join(HERE, f), "rb").read() for f, _ in ENTRIES]
    # ---- partial pool: absolute <offset.size> pairs hitting every class for every entry
    pool = [(0, 5), (3, 4), (0, 1), (0, MAX63), (1, MAX63), (MAX63, 1), (MAX63, MAX63),
            (4294967296, 5), (2, MAX63 - 1), (0, 4294967296)]
    for m in msgs:
        for s in PARTIAL_SECTIONS:
            b = section(m, SECTIONS[s - 1])
            if b is None:       # (a multipart without parts has no part 1)
                continue
            L = len(b)
            for p in [(3, L - 3), (3, L + 10), (L, 5), (L + 7, 5), (L - 1, 1), (L - 1, 2)]:
                if p[0] >= 0 and p[1] >= 1 and p not in pool:
                    pool.append(p)
    cat = []
    for (fname, idate), m in zip(ENTRIES, msgs):
        hdr, body = split_header(m)
        local, utc = parse_imap_datetime(idate)
        secs = []
        for s in SECTIONS:
            b = section(m, s)
            secs.append(None if b is None else (len(b), fp(b)))
        parts = {}
        for s in PARTIAL_SECTIONS:
            b = section(m, SECTIONS[s - 1])
            row = []
            for (o, z) in pool:
                if b is None:
                    row.append((-1, ""))
                    continue
                sl = b[o:o + z] if o <= len(b) else b""
                row.append((len(sl), fp(sl)))
            parts[s] = row
        cat.append(dict(
            file=fname, idate=idate, utc=utc.strftime("%Y-%m-%dT%H:%M:%SZ"),
            size=len(m), iday=day_of(local.date()), sday=sent_day(hdr),
            hdr=[i + 1 for i, (_, k, v) in enumerate(HDR_PROBES) if hdr_match(hdr, k, v)],
            body=[i + 1 for i, w in enumerate(WORD_PROBES) if w.lower().encode() in body.lower()],
            text=[i + 1 for i, w in enumerate(WORD_PROBES) if w.lower().encode() in m.lower()],
            secs=secs, parts=parts))

    # ---- MemCatalogue.tla
    o = []
    o.append("---------------------------- MODULE MemCatalogue ----------------------------")
    o.append("(* GENERATED by spec/catalogue/gen_catalogue.py from spec/catalogue/m*.eml -- do not edit. *)")
    o.append("(* The message catalogue of property C09 as constant tables.                       *)")
    o.append("(*   CatTab[k]   size, internal day, sent day (day 1 = 1-Jan-2020, date of the      *)")
    o.append("(*               date-time as written, disregarding time and zone: RFC 3501 6.4.4), *)")
    o.append("(*               internal date as the UTC instant (what FETCH INTERNALDATE denotes)  *)")
    o.append("(*   CatHdr/CatBody/CatText[k]  ids of the header / word probes that match          *)")
    o.append("(*   CatSec[k][s]      <<length, fingerprint>> of BODY[section s], <<-1,\"\">> = no such section *)")
    o.append("(*   CatPart[k][j][p]  <<length, fingerprint>> of BODY[PartSecs[j]]<pool pair p>     *)")
    o.append("EXTENDS Integers, Sequences")
    o.append("")
    o.append("CatN == %d" % len(cat))
    o.append("NumSections == %d" % len(SECTIONS))
    o.append("SecName == <<" + ", ".join(tla_str(s.upper()) for s in SECTIONS) + ">>")
    o.append("PartSecs == <<" + ", ".join(str(s) for s in PARTIAL_SECTIONS) + ">>")
    o.append("NumPartials == %d" % len(pool))
    o.append("(* origin octet a response to pool pair p must name (= the requested offset) *)")
    o.append("PartOrigin == <<" + ", ".join(tla_str(str(p[0])) for p in pool) + ">>")
    o.append("(* pairs whose offset+size exceeds 2^63-1 *)")
    o.append("PartOverflow == " + tla_set([i + 1 for i, p in enumerate(pool) if p[0] + p[1] > MAX63]))
    o.append("(* pairs whose offset does not fit 32 bits *)")
    o.append("PartBigOffset == " + tla_set([i + 1 for i, p in enumerate(pool) if p[0] > 4294967295]))
    o.append("NumHdrProbes == %d" % len(HDR_PROBES))
    o.append("NumWordProbes == %d" % len(WORD_PROBES))
    o.append("")
    o.append("CatTab == <<")
    o.append(",\n".join('  [size |-> %d, iday |-> %d, sday |-> %d, utc |-> %s]' %
                        (c["size"], c["iday"], c["sday"], tla_str(c["utc"])) for c in cat))
    o.append(">>")
    for nm in ("hdr", "body", "text"):
        o.append("Cat%s == <<" % nm.capitalize() + ", ".join(tla_set(c[nm]) for c in cat) + ">>")
    o.append("CatSec == <<")
    o.append(",\n".join("  <<" + ", ".join(('<<-1, "">>' if s is None else '<<%d, "%s">>' % s) for s in c["secs"]) + ">>"
                        for c in cat))
    o.append(">>")
    o.append("CatPart == <<")
    rows = []
    for c in cat:
        rows.append("  <<" + ",\n    ".join("<<" + ", ".join('<<%d, "%s">>' % x for x in c["parts"][s]) + ">>"
                                            for s in PARTIAL_SECTIONS) + ">>")
    o.append(",\n".join(rows))
    o.append(">>")
    o.append("=============================================================================")
    open(os.path.join(HERE, "..", "MemCatalogue.tla"), "w").write("\n".join(o) + "\n")

    # ---- catalogue.json for the harness (wire forms only)
    js = dict(
        messages=[dict(id=i + 1, file=c["file"], idate=c["idate"]) for i, c in enumerate(cat)],
        sections=SECTIONS,
        partial_sections=PARTIAL_SECTIONS,
        partials=[dict(off=str(p[0]), size=str(p[1])) for p in pool],
        hdr_probes=[dict(form=f, key=k, val=v) for f, k, v in HDR_PROBES],
        word_probes=WORD_PROBES,
    )
    json.dump(js, open(os.path.join(HERE, "catalogue.json"), "w"), indent=1)
    for i, c in enumerate(cat):
        print("m%d size=%d iday=%d sday=%d hdr=%s body=%s text=%s secs=%s" % (
            i + 1, c["size"], c["iday"], c["sday"], c["hdr"], c["body"], c["text"],
            [s[0] if s else None for s in c["secs"]]))
    print("partials:", len(pool))


if __name__ == "__main__":
    main()
