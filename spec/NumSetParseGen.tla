--------------------------- MODULE NumSetParseGen ---------------------------
(* Generator for C15, part 2: parse vectors.  Every token string of length *)
(* <= MaxLen over the alphabet Toks that is a text (no two numerals        *)
(* adjacent) is printed once with the verdict of the reference parser and, *)
(* when valid, the value: members (as Contains table / Dynamic), every     *)
(* canonical list with those members, and the list the transcribed         *)
(* ParseSet yields.  Init picks the first three tokens, one Next step picks  *)
(* the rest, so that the workers share the enumeration.                    *)
EXTENDS NumSet, Json

CONSTANT MaxLen

VARIABLES pre, done

\* "1", "3", "4294967295", "0", "01", "4294967296", "*", ":", ","
Toks == {1, 3, Max, ZERO, LZ, BIG, STAR, COLON, COMMA}

SeqsUpTo(n) == UNION {[1..k -> Toks] : k \in 0..n}

AltSeq(m) == LET A == Alts(m)
                 a == CHOOSE l \in A : \A k \in A : Len(k) <= Len(l)
             IN IF Cardinality(A) = 1 THEN <<[l |-> a, s |-> StringRef(a)]>>
                ELSE LET b == CHOOSE l \in A : l # a
                     IN <<[l |-> a, s |-> StringRef(a)], [l |-> b, s |-> StringRef(b)]>>

Vector(toks) ==
  IF ParseOK(toks)
  THEN LET m == ParseMembers(toks) IN
       [toks |-> toks, ok |-> TRUE, ranges |-> ParseList(toks), alts |-> AltSeq(m),
        dyn |-> DynamicRef(m), con |-> [q \in 1..Max |-> IF ContainsRef(m, q) THEN 1 ELSE 0]]
  ELSE [toks |-> toks, ok |-> FALSE, ranges |-> <<>>, alts |-> <<>>,
        dyn |-> FALSE, con |-> <<>>]

PInit == /\ Init        \* the set machine itself is idle here
         /\ pre \in {p \in SeqsUpTo(3) : LexOK(p)}
         /\ done = FALSE

PNext ==
  /\ done = FALSE
  /\ done' = TRUE
  /\ UNCHANGED vars
  /\ \E suf \in (IF Len(pre) = 3 THEN SeqsUpTo(MaxLen - 3) ELSE {<<>>}) :
       /\ LexOK(pre \o suf)
       /\ pre' = pre \o suf
       /\ PrintT(<<"T", ToJson([max |-> Max, gaps |-> Ascending(Gaps), p |-> Vector(pre')])>>)

\* the reference parser and the transcribed ParseSet agree on every text (design level)
ParserAgrees ==
  done = TRUE /\ ParseOK(pre) =>
    /\ ParseList(pre) \in Alts(ParseMembers(pre))
    /\ MembersOf(ParseList(pre)) = ParseMembers(pre)
=============================================================================
