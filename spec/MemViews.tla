------------------------------ MODULE MemViews ------------------------------
(***************************************************************************)
(* Property C08: on-the-wire mailbox view consistency across sessions of a *)
(* server using the in-memory backend (imapserver + imapmemserver).        *)
(*                                                                         *)
(* One user, mailboxes Mailboxes, sessions Sessions (already logged in).   *)
(* mb[m]     true ordered message list of m ([uid, fl]) and its uidNext    *)
(* sel[s]    mailbox selected by s (None: authenticated state)             *)
(* view[s]   list of UIDs the server has ANNOUNCED to the client of s so   *)
(*           far; it changes only through the EXISTS / EXPUNGE responses   *)
(*           the specification predicts are sent to s                      *)
(* queue[s]  updates of sel[s] not yet sent to s (SessionTracker.queue)    *)
(* idle[s]   s is between "+ idling" and DONE                              *)
(* held[s]   s's client has stopped reading (STALL: a NOOP whose responses *)
(*           the server cannot write): the updates Conn.poll has TAKEN     *)
(*           from queue[s] and is blocked writing; they reach the client,  *)
(*           unchanged and in order, when it reads again (RESUME), whatever*)
(*           the other sessions did in between (their updates are queued   *)
(*           behind: taking the queue and writing it are two steps)        *)
(* out[s]    normalised responses sent to s in the LAST step (observation) *)
(* pre[s]    view[s] before the last step; last = the last command (ghosts *)
(*           over which the five clauses of C08 are stated)                *)
(*                                                                         *)
(* Every IMAP command is one step Do(s, c, lat, dl): c is the command      *)
(* (kind, UID form, number set, mailbox, flags, search key), lat and dl    *)
(* are the two places where the statement leaves latitude:                 *)
(*  lat.star  value substituted for "*".  RFC 3501 reads it in the issuing *)
(*            client's view (sequence sets) / as the highest UID in the    *)
(*            mailbox (UID sets); imapmemserver substitutes the server's   *)
(*            message count / the UID of the last message.  C08 constrains the numbers the   *)
(*            server SENDS, not which messages "*" selects, so both are    *)
(*            behaviours of the specification (the harness reports which   *)
(*            one the code takes).  Numbers other than "*" are always      *)
(*            interpreted in the issuing client's view; UIDs are absolute. *)
(*  lat.mv    a MOVE selecting no message may or may not flush updates     *)
(*            (imapserver fails while writing the empty COPYUID and skips  *)
(*            the poll); the completion of an empty COPY/MOVE is "any".    *)
(*  dl[t]     how many pending updates an idling session t receives during *)
(*            this step (IDLE delivery is asynchronous: the statement says *)
(*            what may be sent, not when).                                 *)
(* When updates are flushed to the issuing session (Conn.poll):            *)
(*   all pending updates      after NOOP, APPEND, EXPUNGE, UID EXPUNGE,    *)
(*                            COPY, MOVE, every UID command, DONE          *)
(*   only those before the first pending EXPUNGE                           *)
(*                            after FETCH, STORE, SEARCH (non-UID)         *)
(*   nothing                  SELECT, CLOSE, UNSELECT, IDLE, refused cmds  *)
(***************************************************************************)
EXTENDS Integers, Sequences, FiniteSets, TLC

CONSTANTS Sessions, Mailboxes,
          Flags,      \* message flags modelled: "d" = \Deleted, "s" = \Seen
          MaxMsgs,    \* bound on messages per mailbox      (state constraint)
          MaxUid,     \* bound on UIDs allocated per mailbox (state constraint)
          MaxQueue,   \* bound on pending updates per session (state constraint)
          Kinds,      \* command kinds offered by Next
          SeqSets,    \* number sets offered to non-UID commands
          UidSets,    \* number sets offered to UID commands
          UidForms,   \* subset of BOOLEAN: which forms Next offers
          AppendFlags,\* flag sets offered to APPEND
          AppendBoxes,\* mailboxes offered to APPEND
          StoreOps,   \* subset of {"+", "-"} offered to STORE
          IdleAny     \* TRUE: any prefix may reach an idling session at any step;
                      \* FALSE: exactly the woken sessions receive everything

VARIABLES mb, sel, view, queue, idle, held, out, pre, last
vars == <<mb, sel, view, queue, idle, held, out, pre, last>>

None == "none"
Inf  == 1000000      \* "n:*" of UID EXPUNGE (imap.UIDSet.Contains: every uid >= n)

\* ---------------------------------------------------------------- data
R(a, b) == [a |-> a, b |-> b]                 \* one range; 0 stands for "*"
One(n)  == <<R(n, n)>>
HasStar(set) == \E i \in 1..Len(set) : set[i].a = 0 \/ set[i].b = 0

InRange(n, r, star) ==
  LET a == IF r.a = 0 THEN star ELSE r.a
      b == IF r.b = 0 THEN star ELSE r.b
  IN  (a <= n /\ n <= b) \/ (b <= n /\ n <= a)      \* "n:m" and "m:n" are the same set
InSet(n, set, star) == n >= 1 /\ \E i \in 1..Len(set) : InRange(n, set[i], star)

\* normalised response / update items (uniform shape)
It(t, n, uid, fl, nums, nums2) ==
  [t |-> t, n |-> n, uid |-> uid, fl |-> fl, nums |-> nums, nums2 |-> nums2]
UExists(n, uids)   == It("exists", n, 0, {}, uids, <<>>)    \* nums: UIDs appended (ghost)
UExpunge(n, uid)   == It("expunge", n, uid, {}, <<>>, <<>>) \* uid: the message removed (ghost)
UFetch(n, uid, fl) == It("fetch", n, uid, fl, <<>>, <<>>)   \* FETCH data and flag updates
USearch(u, nums)   == It("search", IF u THEN 1 ELSE 0, 0, {}, nums, <<>>)
UCopyUid(src, dst) == It("copyuid", 0, 0, {}, src, dst)
UStatus(st)        == It(st, 0, 0, {}, <<>>, <<>>)          \* "ok" "no" "cont" "any"

RemoveAt(seq, i) == SubSeq(seq, 1, i-1) \o SubSeq(seq, i+1, Len(seq))
IndexOf(seq, x) == IF \E i \in 1..Len(seq) : seq[i] = x
                   THEN CHOOSE i \in 1..Len(seq) : seq[i] = x ELSE 0
RECURSIVE SetToSeq(_)
SetToSeq(S) == IF S = {} THEN <<>>
               ELSE LET x == CHOOSE x \in S : \A y \in S : x <= y
                    IN <<x>> \o SetToSeq(S \ {x})
RECURSIVE SetToSeqS(_)        \* any total order will do (strings)
SetToSeqS(S) == IF S = {} THEN <<>>
                ELSE LET x == CHOOSE x \in S : TRUE IN <<x>> \o SetToSeqS(S \ {x})
Reverse(seq) == [i \in 1..Len(seq) |-> seq[Len(seq) + 1 - i]]
UidsOf(ms) == [i \in 1..Len(ms) |-> ms[i].uid]
MaxUidOf(ms) == IF ms = <<>> THEN 0 ELSE ms[Len(ms)].uid    \* UIDs are ascending

\* effect of one response on the list the client has been told about
ApplyOne(v, u) ==
  CASE u.t = "exists"  -> v \o u.nums
    [] u.t = "expunge" -> RemoveAt(v, u.n)
    [] OTHER           -> v
RECURSIVE ApplyAll(_, _)
ApplyAll(v, us) == IF us = <<>> THEN v ELSE ApplyAll(ApplyOne(v, Head(us)), Tail(us))

RECURSIVE NoExpPrefix(_)
NoExpPrefix(us) == IF us = <<>> \/ Head(us).t = "expunge" THEN <<>>
                   ELSE <<Head(us)>> \o NoExpPrefix(Tail(us))

\* client sequence number of a message in the issuing client's view (0: not announced)
Enc(s, uid) == IndexOf(view[s], uid)

\* ---------------------------------------------------------------- commands
Cmd(k, u, set, m, op, fl, key) ==
  [k |-> k, uid |-> u, set |-> set, mbox |-> m, op |-> op, fl |-> fl, key |-> key]
C0(k) == Cmd(k, FALSE, <<>>, None, "", {}, "")

\* which kind of number does the command's set hold
SetKind(c) ==
  CASE c.k \in {"FETCH", "STORE", "COPY", "MOVE"} -> IF c.uid THEN "uid" ELSE "seq"
    [] c.k = "SEARCH" /\ c.key = "seq"    -> "seq"
    [] c.k = "SEARCH" /\ c.key = "uidset" -> "uid"
    [] OTHER -> "none"

\* the two readings of "*"
StarRfc(s, c) ==
  CASE SetKind(c) = "seq" -> Len(view[s])
    [] SetKind(c) = "uid" -> MaxUidOf(mb[sel[s]].msgs)
    [] OTHER -> 0
\* (UID sets: since the repair 560f712 imapmemserver substitutes the UID of the last message, which is the RFC's
\* reading; the two readings only differ for sequence sets)
StarImpl(s, c) ==
  CASE SetKind(c) = "seq" -> Len(mb[sel[s]].msgs)
    [] SetKind(c) = "uid" -> MaxUidOf(mb[sel[s]].msgs)
    [] OTHER -> 0
Stars(s, c) == IF SetKind(c) # "none" /\ HasStar(c.set)
               THEN {StarRfc(s, c), StarImpl(s, c)} ELSE {0}

\* indices (server sequence numbers) of the messages a number set addresses
SelSet(s, kind, set, star) ==
  LET ms == mb[sel[s]].msgs IN
  IF kind = "uid" THEN {i \in 1..Len(ms) : InSet(ms[i].uid, set, star)}
  ELSE {i \in 1..Len(ms) : Enc(s, ms[i].uid) # 0 /\ InSet(Enc(s, ms[i].uid), set, star)}

\* FETCH data for the messages at indices SS of ms; a message that has not
\* been announced to the client yet has no sequence number and is not reported
FetchItems(s, ms, SS) ==
  LET vis == SelectSeq(SS, LAMBDA i : Enc(s, ms[i].uid) # 0)
  IN  [k \in 1..Len(vis) |-> UFetch(Enc(s, ms[vis[k]].uid), ms[vis[k]].uid, ms[vis[k]].fl)]

Matches(s, c, ms, i, star) ==
  CASE c.key = "all"    -> TRUE
    [] c.key = "seq"    -> Enc(s, ms[i].uid) # 0 /\ InSet(Enc(s, ms[i].uid), c.set, star)
    [] c.key = "uidset" -> InSet(ms[i].uid, c.set, star)
    [] c.key = "has"    -> c.fl \subseteq ms[i].fl
    [] c.key = "not"    -> c.fl \cap ms[i].fl = {}
    [] OTHER -> FALSE

\* Effect of command c of session s (not IDLE/DONE): new mailboxes, updates
\* dispatched (in order; ex = session that does not get it), result items,
\* which pending updates are flushed to s, tagged status, change of selection.
Eff(s, c, lat) ==
  LET m   == sel[s]
      ms  == IF m = None THEN <<>> ELSE mb[m].msgs
      E0  == [mb2 |-> mb, disp |-> <<>>, res |-> <<>>, flush |-> "all", status |-> "ok", reset |-> "keep"]
      SS  == SetToSeq(SelSet(s, SetKind(c), c.set, lat.star))
      Gone(D) == LET DS == Reverse(SetToSeq(D)) IN      \* highest first: numbers stay valid
                 [k \in 1..Len(DS) |-> [m |-> m, u |-> UExpunge(DS[k], ms[DS[k]].uid), ex |-> None]]
      Keep(D) == LET K == SetToSeq((1..Len(ms)) \ D) IN [k \in 1..Len(K) |-> ms[K[k]]]
      Copies(d) == [k \in 1..Len(SS) |-> [uid |-> mb[d].next + k - 1, fl |-> ms[SS[k]].fl]]
      Arrive(d) == [k \in 1..Len(SS) |->
                      [m |-> d, u |-> UExists(Len(mb[d].msgs) + k, <<mb[d].next + k - 1>>), ex |-> None]]
      CopyUid(d) == UCopyUid([k \in 1..Len(SS) |-> ms[SS[k]].uid],
                             [k \in 1..Len(SS) |-> mb[d].next + k - 1])
  IN
  CASE c.k = "NOOP" -> E0
    [] c.k = "APPEND" ->
         LET d == c.mbox IN
         [E0 EXCEPT !.mb2 = [mb EXCEPT ![d] = [msgs |-> Append(mb[d].msgs, [uid |-> mb[d].next, fl |-> c.fl]),
                                               next |-> mb[d].next + 1]],
                    !.disp = <<[m |-> d, u |-> UExists(Len(mb[d].msgs) + 1, <<mb[d].next>>), ex |-> None]>>]
    [] c.k = "SELECT"   -> [E0 EXCEPT !.flush = "none", !.reset = c.mbox]
    [] c.k = "UNSELECT" -> [E0 EXCEPT !.flush = "none", !.reset = "close"]
    [] c.k = "CLOSE" ->
         LET D == {i \in 1..Len(ms) : "d" \in ms[i].fl} IN
         [E0 EXCEPT !.mb2 = [mb EXCEPT ![m].msgs = Keep(D)], !.disp = Gone(D),
                    !.flush = "none", !.reset = "close"]
    [] c.k = "FETCH" ->
         [E0 EXCEPT !.res = FetchItems(s, ms, SS), !.flush = IF c.uid THEN "all" ELSE "noexp"]
    [] c.k = "STORE" ->
         LET nf(i) == IF c.op = "+" THEN ms[i].fl \cup c.fl ELSE ms[i].fl \ c.fl
             ms2 == [i \in 1..Len(ms) |-> IF \E k \in 1..Len(SS) : SS[k] = i
                                           THEN [ms[i] EXCEPT !.fl = nf(i)] ELSE ms[i]]
         IN [E0 EXCEPT !.mb2 = [mb EXCEPT ![m].msgs = ms2],
                       !.disp = [k \in 1..Len(SS) |->
                                   [m |-> m, u |-> UFetch(SS[k], ms[SS[k]].uid, nf(SS[k])), ex |-> s]],
                       !.res = FetchItems(s, ms2, SS),
                       !.flush = IF c.uid THEN "all" ELSE "noexp"]
    [] c.k = "SEARCH" ->
         LET M == SelectSeq([i \in 1..Len(ms) |-> i],
                            LAMBDA i : /\ Matches(s, c, ms, i, lat.star)
                                       /\ (c.uid \/ Enc(s, ms[i].uid) # 0))
         IN [E0 EXCEPT !.res = <<USearch(c.uid, [k \in 1..Len(M) |->
                                   IF c.uid THEN ms[M[k]].uid ELSE Enc(s, ms[M[k]].uid)])>>,
                       !.flush = IF c.uid THEN "all" ELSE "noexp"]
    [] c.k \in {"EXPUNGE", "UIDEXPUNGE"} ->
         LET D == {i \in 1..Len(ms) : /\ "d" \in ms[i].fl
                                      /\ (c.k = "UIDEXPUNGE" => InSet(ms[i].uid, c.set, Inf))}
         IN [E0 EXCEPT !.mb2 = [mb EXCEPT ![m].msgs = Keep(D)], !.disp = Gone(D)]
    [] c.k \in {"COPY", "MOVE"} ->
         LET d == c.mbox IN
         IF d = m THEN [E0 EXCEPT !.flush = "none", !.status = "no"]
         ELSE IF SS = <<>> THEN     \* nothing addressed: C08 says nothing about the completion
           [E0 EXCEPT !.status = "any", !.flush = IF c.k = "MOVE" THEN lat.mv ELSE "all"]
         ELSE
           LET D == {SS[k] : k \in 1..Len(SS)}
               src == IF c.k = "MOVE" THEN [msgs |-> Keep(D), next |-> mb[m].next] ELSE mb[m]
           IN [E0 EXCEPT
                 !.mb2 = [mb EXCEPT ![d] = [msgs |-> mb[d].msgs \o Copies(d), next |-> mb[d].next + Len(SS)],
                                    ![m] = src],
                 !.disp = Arrive(d) \o (IF c.k = "MOVE" THEN Gone(D) ELSE <<>>),
                 !.res = <<CopyUid(d)>>]
    [] OTHER -> E0

\* latitude of a command
Lats(s, c) ==
  {[star |-> st, mv |-> f] :
     st \in Stars(s, c),
     f \in IF c.k = "MOVE" /\ ~idle[s] /\ sel[s] # None /\ c.mbox # sel[s] THEN {"all", "none"} ELSE {"all"}}
\* a latitude is relevant only if it can change the step: of several latitudes
\* with the same effect only the first is kept
LatLess(a, b) == a.star < b.star \/ (a.star = b.star /\ a.mv = "all" /\ b.mv = "none")

\* queue of session t after the updates of this step have been dispatched
Q1(t, disp) ==
  LET f == SelectSeq(disp, LAMBDA d : sel[t] = d.m /\ d.ex # t)
  IN  queue[t] \o [k \in 1..Len(f) |-> f[k].u]

IdleCmd(c) == c.k \in {"IDLE", "DONE"}
NotHeld == [on |-> FALSE, items |-> <<>>]
EffOf(s, c, lat) ==
  IF IdleCmd(c)
  THEN [mb2 |-> mb, disp |-> <<>>, res |-> <<>>, flush |-> IF c.k = "DONE" THEN "all" ELSE "none",
        status |-> IF c.k = "DONE" THEN "ok" ELSE "cont", reset |-> "keep"]
  ELSE IF c.k = "RESUME"      \* the blocked writes go through; the completion follows the poll at once
  THEN [mb2 |-> mb, disp |-> <<>>, res |-> <<>>, flush |-> "none", status |-> "ok", reset |-> "keep"]
  ELSE Eff(s, c, lat)         \* STALL is a NOOP (what differs is where its output goes: Result)

LatsEff(s, c) ==
  LET L == {lat \in Lats(s, c) :
              lat.mv = "none" => /\ c.k = "MOVE"
                                 /\ SelSet(s, SetKind(c), c.set, lat.star) = {}}
      EffN(l) == LET e == EffOf(s, c, l) IN      \* what to flush is irrelevant if nothing is pending
                 IF Q1(s, e.disp) = <<>> /\ e.reset = "keep" THEN [e EXCEPT !.flush = "all"] ELSE e
  IN IF Cardinality(L) = 1 THEN L
     ELSE {l \in L : \A l2 \in L : LatLess(l2, l) => EffN(l2) # EffN(l)}

\* sessions that are idling and are not the issuer
Idlers(s) == {t \in Sessions : t # s /\ idle[t]}
\* delivery choices to idling sessions
DlChoices(s, c, lat) ==
  IF Idlers(s) = {} THEN {[t \in Sessions |-> 0]} ELSE
  LET e == EffOf(s, c, lat)
      A(t) == IF t \notin Idlers(s) THEN {0}
              ELSE IF IdleAny THEN 0..Len(Q1(t, e.disp))
              ELSE IF Len(Q1(t, e.disp)) > Len(queue[t]) THEN {Len(Q1(t, e.disp))} ELSE {0}
  IN {f \in [Sessions -> UNION {A(t) : t \in Sessions}] : \A t \in Sessions : f[t] \in A(t)}

\* the whole step as a function of the current state
Result(s, c, lat, dl) ==
  LET e  == EffOf(s, c, lat)
      q1 == [t \in Sessions |-> Q1(t, e.disp)]
      taken == [t \in Sessions |->          \* removed from the queue in this step
                 IF t = s THEN (CASE e.flush = "all"   -> q1[s]
                                  [] e.flush = "noexp" -> NoExpPrefix(q1[s])
                                  [] OTHER -> <<>>)
                 ELSE IF t \in Idlers(s) THEN SubSeq(q1[t], 1, dl[t])
                 ELSE <<>>]
      emit == [t \in Sessions |->           \* written to the client in this step
                 IF t = s /\ c.k = "STALL" THEN <<>>
                 ELSE IF t = s /\ c.k = "RESUME" THEN held[s].items
                 ELSE taken[t]]
      keep == e.reset = "keep"
      newsel == IF keep THEN sel[s] ELSE IF e.reset = "close" THEN None ELSE e.reset
      hello == IF keep \/ e.reset = "close" THEN <<>>
               ELSE <<UExists(Len(e.mb2[newsel].msgs), UidsOf(e.mb2[newsel].msgs))>>
  IN [mb    |-> e.mb2,
      sel   |-> [sel EXCEPT ![s] = newsel],
      queue |-> [t \in Sessions |->
                   IF t = s /\ ~keep THEN <<>>
                   ELSE SubSeq(q1[t], Len(taken[t]) + 1, Len(q1[t]))],
      view  |-> [t \in Sessions |->
                   IF t = s /\ ~keep THEN ApplyAll(<<>>, hello)
                   ELSE ApplyAll(view[t], emit[t])],
      idle  |-> [idle EXCEPT ![s] = IF c.k = "IDLE" THEN TRUE ELSE IF c.k = "DONE" THEN FALSE ELSE @],
      held  |-> [held EXCEPT ![s] = IF c.k = "STALL" THEN [on |-> TRUE, items |-> taken[s]] ELSE NotHeld],
      out   |-> [t \in Sessions |->
                   IF t = s /\ c.k = "STALL" THEN <<>>      \* not even the completion gets out
                   ELSE IF t = s THEN (IF keep THEN e.res \o emit[s] ELSE hello) \o <<UStatus(e.status)>>
                   ELSE emit[t]],
      pre   |-> [t \in Sessions |-> IF t = s /\ ~keep THEN <<>> ELSE view[t]],
      last  |-> [s |-> s, k |-> c.k, uid |-> c.uid]]

DoR(r) ==
  /\ mb' = r.mb /\ sel' = r.sel /\ queue' = r.queue /\ view' = r.view
  /\ idle' = r.idle /\ held' = r.held /\ out' = r.out /\ pre' = r.pre /\ last' = r.last
Do(s, c, lat, dl) == DoR(Result(s, c, lat, dl))

\* commands a session may issue in its current state
Commands(s) ==
  IF idle[s] THEN {C0("DONE")}
  ELSE IF held[s].on THEN {c \in {C0("RESUME")} : c.k \in Kinds}
  ELSE
   LET sets(u) == IF u THEN UidSets ELSE SeqSets
       anyst == {C0("NOOP")}
                \cup {Cmd("APPEND", FALSE, <<>>, m, "", f, "") : m \in AppendBoxes, f \in AppendFlags}
                \cup {Cmd("SELECT", FALSE, <<>>, m, "", {}, "") : m \in Mailboxes}
       selst == IF sel[s] = None THEN {} ELSE
                {C0("EXPUNGE"), C0("CLOSE"), C0("UNSELECT"), C0("IDLE"), C0("STALL")}
                \cup UNION {{Cmd("FETCH", u, x, None, "", {}, "") : x \in sets(u)} : u \in UidForms}
                \cup UNION {{Cmd("STORE", u, x, None, op, {f}, "") : x \in sets(u), op \in StoreOps, f \in Flags}
                               : u \in UidForms}
                \cup UNION {{Cmd(k, u, x, d, "", {}, "") : x \in sets(u), k \in {"COPY", "MOVE"},
                                                           d \in Mailboxes \ {sel[s]}} : u \in UidForms}
                \cup {Cmd("UIDEXPUNGE", TRUE, x, None, "", {}, "") :
                        x \in {y \in UidSets : ~HasStar(y)} \cup {<<R(1, 0)>>}}
                \cup {Cmd("SEARCH", u, <<>>, None, "", {}, "all") : u \in UidForms}
                \cup {Cmd("SEARCH", u, x, None, "", {}, "seq") : u \in UidForms, x \in SeqSets}
                \cup {Cmd("SEARCH", u, x, None, "", {}, "uidset") : u \in UidForms, x \in UidSets}
                \cup {Cmd("SEARCH", u, <<>>, None, "", {f}, "has") : u \in UidForms, f \in Flags}
   IN {c \in anyst \cup selst : c.k \in Kinds}

Init ==
  /\ mb = [m \in Mailboxes |-> [msgs |-> <<>>, next |-> 1]]
  /\ sel = [s \in Sessions |-> None]
  /\ view = [s \in Sessions |-> <<>>]
  /\ queue = [s \in Sessions |-> <<>>]
  /\ idle = [s \in Sessions |-> FALSE]
  /\ held = [s \in Sessions |-> NotHeld]
  /\ out = [s \in Sessions |-> <<>>]
  /\ pre = [s \in Sessions |-> <<>>]
  /\ last = [s |-> None, k |-> "init", uid |-> FALSE]

Next == \E s \in Sessions : \E c \in Commands(s) : \E lat \in LatsEff(s, c) :
          \E dl \in DlChoices(s, c, lat) : Do(s, c, lat, dl)

Spec == Init /\ [][Next]_vars

Bounded == /\ \A m \in Mailboxes : Len(mb[m].msgs) <= MaxMsgs /\ mb[m].next <= MaxUid + 1
           /\ \A s \in Sessions : Len(queue[s]) <= MaxQueue

\* ---------------------------------------------------- properties (C08)
TypeOK ==
  /\ \A s \in Sessions : sel[s] \in Mailboxes \cup {None}
  /\ \A s \in Sessions : sel[s] = None => view[s] = <<>> /\ queue[s] = <<>> /\ ~idle[s] /\ held[s] = NotHeld
  /\ \A s \in Sessions : ~(idle[s] /\ held[s].on) /\ (~held[s].on => held[s].items = <<>>)
  /\ \A m \in Mailboxes : \A i, j \in 1..Len(mb[m].msgs) :
        i < j => mb[m].msgs[i].uid < mb[m].msgs[j].uid /\ mb[m].msgs[j].uid < mb[m].next

\* Walk a response stream from the list announced before it.
\* (1) every sequence number sent (FETCH, EXPUNGE, SEARCH result) lies in
\*     1..count announced at that point of the stream, and FETCH data name the
\*     message the client knows under that number;
\* (3a) EXISTS never announces a smaller count.
\* (4a) an EXPUNGE removes from the view a message that really left the mailbox.
RECURSIVE StreamOK(_, _, _)
StreamOK(v, us, present) ==
  IF us = <<>> THEN TRUE
  ELSE LET u == Head(us) IN
       /\ CASE u.t = "exists"  -> u.n = Len(v) + Len(u.nums)
            [] u.t = "expunge" -> u.n \in 1..Len(v) /\ v[u.n] = u.uid /\ u.uid \notin present
            [] u.t = "fetch"   -> u.n \in 1..Len(v) /\ v[u.n] = u.uid
            [] u.t = "search"  -> u.n = 0 => \A k \in 1..Len(u.nums) : u.nums[k] \in 1..Len(v)
            [] OTHER           -> TRUE
       /\ StreamOK(ApplyOne(v, u), Tail(us), present)

SeqNumsWithinAnnounced ==
  \A s \in Sessions :
    LET cur == IF sel[s] = None THEN <<>> ELSE UidsOf(mb[sel[s]].msgs)
    IN StreamOK(pre[s], out[s], {cur[i] : i \in 1..Len(cur)})

\* (2) no EXPUNGE while answering a FETCH, STORE or SEARCH that is not a UID command
NoExpungeDuringNonUid ==
  (last.k \in {"FETCH", "STORE", "SEARCH"} /\ ~last.uid)
     => \A i \in 1..Len(out[last.s]) : out[last.s][i].t # "expunge"

\* (3) the announced list changes only through the EXISTS / EXPUNGE sent
CountShrinksOnlyByExpunge ==
  \A s \in Sessions : view[s] = ApplyAll(pre[s], out[s])

\* (4) each removed message is reported exactly once: what is still pending for
\* a session, applied in order, turns its view into the mailbox (every removed
\* message still in the view has exactly one EXPUNGE pending, nothing else is removed)
RECURSIVE WellFormed(_, _)
WellFormed(v, us) ==
  IF us = <<>> THEN TRUE
  ELSE LET u == Head(us) IN
       /\ CASE u.t = "exists"  -> u.n = Len(v) + Len(u.nums)
            [] u.t = "expunge" -> u.n \in 1..Len(v) /\ v[u.n] = u.uid
            [] u.t = "fetch"   -> u.n \in 1..Len(v) /\ v[u.n] = u.uid
            [] OTHER           -> TRUE
       /\ WellFormed(ApplyOne(v, u), Tail(us))
RemovedReportedOnce ==
  \A s \in Sessions : sel[s] # None =>
     /\ WellFormed(view[s], held[s].items \o queue[s])
     /\ ApplyAll(view[s], held[s].items \o queue[s]) = UidsOf(mb[sel[s]].msgs)
     /\ \A i, j \in 1..Len(view[s]) : view[s][i] = view[s][j] => i = j

\* (5) after NOOP the reconstructed list is the mailbox (a NOOP whose responses the client took its time to
\* read - STALL ... RESUME - synchronises with the mailbox as it was when the server took the pending updates)
NoopSynchronises ==
  (last.k = "NOOP" /\ sel[last.s] # None)
     => view[last.s] = UidsOf(mb[sel[last.s]].msgs) /\ queue[last.s] = <<>>

\* The four clauses that talk about the output of a step, as action properties
\* (checked on every transition, so the bounded configurations can hide the
\* observation variables out/pre/last with VIEW).
StepSeqNums   == [][SeqNumsWithinAnnounced']_vars
StepNoExpunge == [][NoExpungeDuringNonUid']_vars
StepShrink    == [][CountShrinksOnlyByExpunge']_vars
StepNoop      == [][NoopSynchronises']_vars
CoreView == <<mb, sel, view, queue, idle, held>>

\* ------------------------------------------------ observable form of items
\* what of an item is observable on the wire (compact tuples shared with the harness)
FlagSeq(fl) == SelectSeq(<<"d", "s">>, LAMBDA f : f \in fl)
NormItem(u) ==
  CASE u.t \in {"exists", "expunge"} -> <<u.t, u.n>>
    [] u.t = "fetch"   -> <<u.t, u.n, u.uid, FlagSeq(u.fl)>>
    [] u.t = "search"  -> <<u.t, u.n, u.nums>>
    [] u.t = "copyuid" -> <<u.t, u.nums, u.nums2>>
    [] OTHER           -> <<u.t>>
NormOut(us) == [i \in 1..Len(us) |-> NormItem(us[i])]

\* ------------------------------------------------ bounded instances (cfg)
AllKinds == {"NOOP", "APPEND", "SELECT", "UNSELECT", "CLOSE", "FETCH", "STORE", "SEARCH",
             "EXPUNGE", "UIDEXPUNGE", "COPY", "MOVE", "IDLE", "DONE", "STALL", "RESUME"}
Sets2     == {One(1), <<R(0, 0)>>}                                            \* 1  *
Sets3     == {One(1), One(2), <<R(0, 0)>>}                                    \* 1  2  *
SetsSmall == Sets3 \cup {<<R(1, 0)>>, <<R(2, 0)>>}                            \* + 1:*  2:*
SetsWide  == SetsSmall \cup {One(3), <<R(1, 2)>>, <<R(2, 3)>>, <<R(3, 0)>>}  \* + 3  1:2  2:3  3:*
SetsStar  == {One(1), <<R(0, 0)>>, <<R(2, 0)>>}                               \* 1  *  2:*
OnlyDeleted == {"d"}
BothFlags == {"d", "s"}
NoFlagsOnly == {{}}
PlainOrDeleted == {{}, {"d"}}
OnlyA == {"A"}
Plus == {"+"}
PlusMinus == {"+", "-"}
Both == {TRUE, FALSE}
UidOnly == {TRUE}
SeqOnly == {FALSE}
KBase    == {"APPEND", "SELECT", "NOOP"}
KExpunge == KBase \cup {"STORE", "EXPUNGE", "FETCH"}
KMove    == KBase \cup {"MOVE", "COPY", "FETCH"}
KUid     == KBase \cup {"UIDEXPUNGE", "STORE", "FETCH"}
KSearch  == KBase \cup {"SEARCH", "EXPUNGE"}
KIdle    == {"APPEND", "SELECT", "IDLE", "DONE", "EXPUNGE", "MOVE"}
KIdleQ   == {"APPEND", "SELECT", "IDLE", "DONE", "EXPUNGE", "STORE"}
KSlow    == {"APPEND", "SELECT", "STORE", "EXPUNGE", "NOOP", "STALL", "RESUME"}
KClose   == KBase \cup {"CLOSE", "UNSELECT", "FETCH"}
=============================================================================
