---------------------------- MODULE ClientLitTrace ----------------------------
(* Judge for recorded client output: per case the harness (a scripted server)  *)
(* records every token the client wrote for its arguments and the events of    *)
(* the literal handshake in their real order:                                  *)
(*   Case{cfg} | Send{tokens, sync: BOOLEAN} | Early{n} (octets seen before    *)
(*   the server reacted) | Grant | Refuse | Payload{n} | Late{n} (octets seen  *)
(*   after a refusal) | Complete{status} | Usable{ok}                          *)
EXTENDS ClientLit, Json, IOUtils

VARIABLES l, stale, unauth

Trace == ndJsonDeserialize(IOEnv.TRACE_FILE)

TraceInit == Init /\ l = 1 /\ stale = FALSE /\ unauth = FALSE

AllLegal(c, toks) == \A i \in 1..Len(toks) : LegalToken(c, toks[i])

TraceNext ==
  /\ l <= Len(Trace)
  /\ l' = l + 1
  /\ stale' = IF Trace[l].ev = "Case" THEN Trace[l].case.stale ELSE stale
  /\ unauth' = IF Trace[l].ev = "Case" THEN Trace[l].case.unauth ELSE unauth
  /\ LET r == Trace[l] IN
       \/ /\ r.ev = "Case"
          /\ cfg' = r.cfg /\ phase' = "idle" /\ wrote' = 0 /\ status' = "none" /\ alive' = TRUE
       \/ /\ r.ev = "Send" /\ AllLegal(Effective(cfg, stale, unauth), r.tokens)
          /\ IF r.sync THEN (Announce \/ AnnounceAgain) ELSE (phase \in {"idle", "granted"} /\ phase' = "sent" /\ UNCHANGED <<cfg, wrote, status, alive>>)
       \/ r.ev = "Rest" /\ AllLegal(Effective(cfg, stale, unauth), r.tokens) /\ phase = "sent" /\ UNCHANGED vars
       \/ r.ev = "Grant" /\ ServerGrant
       \/ r.ev = "Refuse" /\ ServerRefuse
       \/ r.ev = "Payload" /\ WritePayload(r.n)
       \/ r.ev = "Complete" /\ r.status = "OK" /\ ServerComplete
       \/ r.ev = "Complete" /\ r.status = "NO" /\ phase = "refused" /\ UNCHANGED vars
       \/ r.ev = "Usable" /\ r.ok /\ phase \in {"refused", "done"} /\ phase' = "done" /\ UNCHANGED <<cfg, wrote, status, alive>>
       \* "Early", "Late", a failed "Usable", any other completion: no action (rejected)

TraceAccepted ==
  LET d == TLCGet("stats").diameter IN
    IF d - 1 = Len(Trace) THEN TRUE
    ELSE /\ PrintT(<<"TRACE_REJECTED_AT", d, Len(Trace)>>)
         /\ IF d <= Len(Trace) THEN PrintT(<<"REJECTED_RECORD", ToJson(Trace[d])>>) ELSE TRUE
         /\ FALSE
=============================================================================
