CONSTANTS
  LitPlusSet = {TRUE, FALSE}
  MaxDepth = 2
  GenUnits <- AllUnits
INIT GenInit
NEXT GenNext
VIEW GenView
CHECK_DEADLOCK FALSE
