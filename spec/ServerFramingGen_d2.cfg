CONSTANTS
  LitPlusSet = {TRUE, FALSE}
  Utf8Set = {TRUE, FALSE}
  SaslSet = {TRUE, FALSE}
  MaxDepth = 2
  GenUnits <- AllUnits
INIT GenInit
NEXT GenNext
VIEW GenView
CHECK_DEADLOCK FALSE
