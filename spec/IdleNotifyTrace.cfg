CONSTANTS
  Cap = 2
  MaxBurst = 5
  Blocking = FALSE
  Clients = {"reads"}
INIT TraceInit
NEXT TraceNext
POSTCONDITION TraceAccepted
CHECK_DEADLOCK FALSE
