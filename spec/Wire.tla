------------------------------- MODULE Wire -------------------------------
(***************************************************************************)
(* The IMAP data-value syntax of RFC 9051 section 4 / 9 as go-imap's       *)
(* internal/imapwire Encoder and Decoder (and internal.ExpectFlag) use it. *)
(* Property C01: what one side's encoder writes, the peer's decoder reads  *)
(* back as the same value, consuming exactly the bytes written, in every   *)
(* negotiated encoding mode; unrepresentable values are refused.           *)
(*                                                                         *)
(* Bytes are integers 0..255 (the alphabet constants pick one member of    *)
(* every syntactic class: a " \ SP { } ( ) % * ] CR LF NUL DEL 0x80, the   *)
(* two bytes of e-acute, 0xFF).  Numbers are their decimal numerals (digit *)
(* sequences), so 2^32-1 and 2^63-1 need no big integers.  Number sets use *)
(* the symbolic point domain of NumSet.tla (Max = 9: points 1..5 are the   *)
(* numbers 1..5, 6 is a gap, 7..9 are 2^32-3 .. 2^32-1, 0 is '*').  Mailbox *)
(* names are code-point sequences, encoded with Utf7!Encode.               *)
(*                                                                         *)
(* Part 1 - the reference decoder: Parse(kind, b) reads one value of the   *)
(* given kind from the front of b and returns [ok, val, nx, form]: nx is   *)
(* the first byte it did not consume, form says WHICH syntactic form was   *)
(* used (quoted / literal / atom, non-synchronising "+", 8-bit inside      *)
(* quotes, a liberal form that only a tolerant reader accepts).            *)
(* Part 2 - per encoder mode [side, q8, lm, lp] (connection side,          *)
(* QuotedUTF8, LiteralMinus, LiteralPlus):                                 *)
(*   LegalRep(m, k, v, b)  b is a conforming representation of v in mode m *)
(*   RepSet(m, k, v)       representations a peer in mode m may send, each *)
(*                         tagged std (conforming), lib (only a reader     *)
(*                         that is liberal in what it accepts), todo       *)
(*                         (conforming, but go-imap documents it does not  *)
(*                         read it: resp-specials in an unquoted astring)  *)
(*   Reps(m, k, v)         the std ones                                    *)
(*   Pref(m, k, v)         the representation this specification prefers   *)
(*   Canon(k, v)           the documented canonicalisations (INBOX in any  *)
(*                         case, well-known flags/attributes in any case)  *)
(*   MustRefuse(k, v)      v has no representation at all                  *)
(* Part 3 - the bounded value space as a trivial state machine (Init picks *)
(* kind and first symbol, one Pick step the rest) and the properties TLC   *)
(* checks on it (Wire_mc.cfg).                                             *)
(***************************************************************************)
EXTENDS Integers, Sequences, FiniteSets, TLC

CONSTANTS StrAlpha,   \* bytes strings are built from
          StrMax,     \* strings up to this length
          MboxAlpha,  \* code points mailbox names are built from
          MboxMax,
          FlagAlpha,  \* bytes flags / mailbox attributes are built from
          FlagMax,
          TreeLevel,  \* list values: first item up to this nesting level (1 or 2)
          NestNs,     \* deep nestings: numbers of lists around the innermost value
          Kinds       \* the kinds enumerated

DQ == 34   BSL == 92   SPC == 32   LBR == 123   RBR == 125   LPAR == 40   RPAR == 41
PCT == 37  AST == 42   RBK == 93   CR == 13     LF == 10     NUL == 0     DEL == 127
PLUS == 43 DOLLAR == 36 COLONB == 58 COMMAB == 44 MINUS == 45

MinOf(S) == CHOOSE x \in S : \A y \in S : x <= y
Drop(s, n) == SubSeq(s, n + 1, Len(s))
ToSet(s) == {s[i] : i \in 1..Len(s)}
RECURSIVE Flat(_)
Flat(ss) == IF Len(ss) = 0 THEN <<>> ELSE Head(ss) \o Flat(Tail(ss))
StringsUpTo(A, n) == UNION {[1..m -> A] : m \in 0..n}

\* ATOM-CHAR: any CHAR (1..127) except atom-specials "(" ")" "{" SP CTL "%" "*" DQUOTE "\" "]"
AtomChars    == {c \in 33..126 : c \notin {LPAR, RPAR, LBR, PCT, AST, DQ, BSL, RBK}}
AStringChars == AtomChars \cup {RBK}          \* ASTRING-CHAR = ATOM-CHAR / resp-specials
DigitSet     == 48..57
SetChars     == DigitSet \cup {AST, COLONB, COMMAB}

Lower(c) == IF c >= 65 /\ c <= 90 THEN c + 32 ELSE c
Upper(c) == IF c >= 97 /\ c <= 122 THEN c - 32 ELSE c
LowerS(s) == [i \in 1..Len(s) |-> Lower(s[i])]
UpperS(s) == [i \in 1..Len(s) |-> Upper(s[i])]

---------------------------------------------------------------------------
(* numerals *)
RECURSIVE DigitsOf(_)
DigitsOf(n) == IF n < 10 THEN <<48 + n>> ELSE Append(DigitsOf(n \div 10), 48 + (n % 10))
RECURSIVE NatOf(_)       \* for numerals of at most 7 digits
NatOf(ds) == IF Len(ds) = 0 THEN 0 ELSE NatOf(SubSeq(ds, 1, Len(ds) - 1)) * 10 + (ds[Len(ds)] - 48)
StripLZ(ds) == LET nz == {i \in 1..Len(ds) : ds[i] # 48} IN
               IF nz = {} THEN <<48>> ELSE SubSeq(ds, MinOf(nz), Len(ds))
\* order of canonical numerals
NumLE(a, b) == \/ Len(a) < Len(b)
               \/ /\ Len(a) = Len(b)
                  /\ \/ a = b
                     \/ LET d == MinOf({i \in 1..Len(a) : a[i] # b[i]}) IN a[d] < b[d]
U32Max == <<52, 50, 57, 52, 57, 54, 55, 50, 57, 53>>                                   \* 4294967295
I63Max == <<57, 50, 50, 51, 51, 55, 50, 48, 51, 54, 56, 53, 52, 55, 55, 53, 56, 48, 55>> \* 9223372036854775807
U64Max == <<49, 56, 52, 52, 54, 55, 52, 52, 48, 55, 51, 55, 48, 57, 53, 53, 49, 54, 49, 53>> \* 18446744073709551615
MaxOfKind(k) == CASE k = "num" -> U32Max [] k = "num64" -> I63Max [] k = "modseq" -> U64Max

---------------------------------------------------------------------------
(* number sets: NumSet.tla on the fixed symbolic domain *)
NSMax  == 9
NSGaps == {6}
NS == INSTANCE NumSet WITH Max <- NSMax, Gaps <- NSGaps, set <- <<>>, members <- {}
Numeral(p) == IF p <= 5 THEN <<48 + p>>
              ELSE <<52, 50, 57, 52, 57, 54, 55, 50, 57, 48 + (p - 4)>>    \* 7,8,9 -> ...293, ...294, ...295
NumB(p) == IF p = 0 THEN <<AST>> ELSE Numeral(p)

\* bytes -> tokens of NumSet.tla (maximal digit runs are numerals)
RECURSIVE ScanIn(_, _, _)
ScanIn(b, i, S) == IF i > Len(b) \/ b[i] \notin S THEN i ELSE ScanIn(b, i + 1, S)
NumeralTok(ds) == IF \E p \in NS!Ends : Numeral(p) = ds THEN CHOOSE p \in NS!Ends : Numeral(p) = ds
                  ELSE IF ds = <<48>> THEN NS!ZERO
                  ELSE IF ds[1] = 48 THEN NS!LZ
                  ELSE NS!BIG          \* no point stands for it: outside the modelled domain
RECURSIVE LexSet(_)
LexSet(b) == IF Len(b) = 0 THEN <<>>
             ELSE IF b[1] = AST THEN <<0>> \o LexSet(Tail(b))
             ELSE IF b[1] = COLONB THEN <<NS!COLON>> \o LexSet(Tail(b))
             ELSE IF b[1] = COMMAB THEN <<NS!COMMA>> \o LexSet(Tail(b))
             ELSE LET e == ScanIn(b, 1, DigitSet) IN
                  <<NumeralTok(SubSeq(b, 1, e - 1))>> \o LexSet(Drop(b, e - 1))
RangeBytes(r) == IF r[1] = r[2] THEN NumB(r[1]) ELSE NumB(r[1]) \o <<COLONB>> \o NumB(r[2])
RECURSIVE SetBytes(_)
SetBytes(l) == IF Len(l) = 0 THEN <<>>
               ELSE IF Len(l) = 1 THEN RangeBytes(l[1])
               ELSE RangeBytes(l[1]) \o <<COMMAB>> \o SetBytes(Tail(l))
WellFormedSet(l) == \A i \in 1..Len(l) : Len(l[i]) = 2 /\ NS!WellFormedRange(l[i])

---------------------------------------------------------------------------
(* mailbox names: Utf7.tla reference functions *)
U == INSTANCE Utf7 WITH CpAlpha <- {}, ByteAlpha <- {}, EncMax <- 0, DecMax <- 0, TokMax <- 0,
                        Stream <- FALSE, Caps <- {}, Chunks <- {},
                        phase <- "", fam <- "", pre <- <<>>, orig <- <<>>, inp <- <<>>, pos <- 0,
                        win <- 0, eof <- FALSE, need <- "", grow <- 0, ascii <- TRUE, out <- <<>>,
                        st <- "", last <- ""
INBOX == <<73, 78, 66, 79, 88>>
IsInbox(s) == Len(s) = 5 /\ UpperS(s) = INBOX

---------------------------------------------------------------------------
(* well-known flags and mailbox attributes (RFC 9051 2.3.2, 7.3.1; RFC 6154, 8457, 5788) *)
WKFlags == {
  <<92, 83, 101, 101, 110>>,                              \* \Seen
  <<92, 65, 110, 115, 119, 101, 114, 101, 100>>,          \* \Answered
  <<92, 70, 108, 97, 103, 103, 101, 100>>,                \* \Flagged
  <<92, 68, 101, 108, 101, 116, 101, 100>>,               \* \Deleted
  <<92, 68, 114, 97, 102, 116>>,                          \* \Draft
  <<36, 70, 111, 114, 119, 97, 114, 100, 101, 100>>,      \* $Forwarded
  <<36, 77, 68, 78, 83, 101, 110, 116>>,                  \* $MDNSent
  <<36, 74, 117, 110, 107>>,                              \* $Junk
  <<36, 78, 111, 116, 74, 117, 110, 107>>,                \* $NotJunk
  <<36, 80, 104, 105, 115, 104, 105, 110, 103>>,          \* $Phishing
  <<36, 73, 109, 112, 111, 114, 116, 97, 110, 116>> }     \* $Important
WKAttrs == {
  <<92, 78, 111, 110, 69, 120, 105, 115, 116, 101, 110, 116>>,      \* \NonExistent
  <<92, 78, 111, 105, 110, 102, 101, 114, 105, 111, 114, 115>>,     \* \Noinferiors
  <<92, 78, 111, 115, 101, 108, 101, 99, 116>>,                     \* \Noselect
  <<92, 72, 97, 115, 67, 104, 105, 108, 100, 114, 101, 110>>,       \* \HasChildren
  <<92, 72, 97, 115, 78, 111, 67, 104, 105, 108, 100, 114, 101, 110>>, \* \HasNoChildren
  <<92, 77, 97, 114, 107, 101, 100>>,                               \* \Marked
  <<92, 85, 110, 109, 97, 114, 107, 101, 100>>,                     \* \Unmarked
  <<92, 83, 117, 98, 115, 99, 114, 105, 98, 101, 100>>,             \* \Subscribed
  <<92, 82, 101, 109, 111, 116, 101>>,                              \* \Remote
  <<92, 65, 108, 108>>,                                             \* \All
  <<92, 65, 114, 99, 104, 105, 118, 101>>,                          \* \Archive
  <<92, 68, 114, 97, 102, 116, 115>>,                               \* \Drafts
  <<92, 70, 108, 97, 103, 103, 101, 100>>,                          \* \Flagged
  <<92, 74, 117, 110, 107>>,                                        \* \Junk
  <<92, 83, 101, 110, 116>>,                                        \* \Sent
  <<92, 84, 114, 97, 115, 104>>,                                    \* \Trash
  <<92, 73, 109, 112, 111, 114, 116, 97, 110, 116>> }               \* \Important
\* reading: the names in either table are case-insensitive in either position
WKLower == {LowerS(f) : f \in WKFlags \cup WKAttrs}
WellKnown(v) == LowerS(v) \in WKLower

\* flag = "\" atom / atom / "\*" (flag-perm);  mailbox attribute = "\" atom
FlagOK(v) == \/ v = <<BSL, AST>>
             \/ LET body == IF Len(v) > 0 /\ v[1] = BSL THEN Tail(v) ELSE v IN
                  Len(body) > 0 /\ \A i \in 1..Len(body) : body[i] \in AtomChars
AttrOK(v) == Len(v) >= 2 /\ v[1] = BSL /\ \A i \in 2..Len(v) : v[i] \in AtomChars
WhyBadFlag(k, v) ==
  IF Len(v) = 0 THEN "empty"
  ELSE IF v = <<BSL>> THEN "lone-backslash"
  ELSE IF k = "attr" /\ v[1] # BSL THEN "no-backslash"
  ELSE IF \E i \in 2..Len(v) : v[i] = BSL THEN "inner-backslash"
  ELSE IF \E i \in 1..Len(v) : v[i] >= 128 THEN "8bit-char"      \* ATOM-CHAR is 7-bit
  ELSE "non-atom-char"

---------------------------------------------------------------------------
(* trees (parenthesised lists).  Every node has the same shape. *)
StrLeaf(b)  == [k |-> "s", b |-> b, it |-> <<>>]     \* a string
AtomLeaf(b) == [k |-> "a", b |-> b, it |-> <<>>]     \* an atom (numbers and NIL included)
ListOf(it)  == [k |-> "l", b |-> <<>>, it |-> it]
RECURSIVE Depth(_)
Depth(t) == IF t.k # "l" THEN 0
            ELSE IF Len(t.it) = 0 THEN 1
            ELSE 1 + (CHOOSE d \in {Depth(t.it[i]) : i \in 1..Len(t.it)} :
                        \A i \in 1..Len(t.it) : Depth(t.it[i]) <= d)
RECURSIVE Nest(_, _)      \* n lists around inner
Nest(n, inner) == IF n = 0 THEN inner ELSE ListOf(<<Nest(n - 1, inner)>>)
\* nestings of at least DepthCap levels need not be readable (go-imap: maxListDepth)
DepthCap == 1000

---------------------------------------------------------------------------
(* Part 1: the reference decoder *)

R(ok, val, nx, form) == [ok |-> ok, val |-> val, nx |-> nx, form |-> form]
StrForm(t) == [t |-> t, plus |-> FALSE, n |-> 0, eight |-> FALSE, ctl |-> FALSE,
               lib |-> FALSE, rsp |-> FALSE, lz |-> FALSE, badutf8 |-> FALSE]
Fail == R(FALSE, <<>>, 0, StrForm("none"))

\* number of consecutive backslashes ending at index j, not looking below lo
RECURSIVE BSRun(_, _, _)
BSRun(b, j, lo) == IF j < lo \/ b[j] # BSL THEN 0 ELSE 1 + BSRun(b, j - 1, lo)

\* remove the escaping backslashes (piecewise: one step per escape)
RECURSIVE Unesc(_)
Unesc(c) == LET bs == {i \in 1..Len(c) : c[i] = BSL} IN
            IF bs = {} THEN c
            ELSE LET p == MinOf(bs) IN
                 IF p = Len(c) THEN SubSeq(c, 1, p - 1)
                 ELSE SubSeq(c, 1, p - 1) \o <<c[p + 1]>> \o Unesc(SubSeq(c, p + 2, Len(c)))
\* a backslash that escapes (even run before it) something other than DQUOTE or "\"
GratEsc(c) == \E p \in 1..(Len(c) - 1) :
                c[p] = BSL /\ BSRun(c, p - 1, 1) % 2 = 0 /\ c[p + 1] \notin {DQ, BSL}

\* quoted = DQUOTE *QUOTED-CHAR DQUOTE at b[i] = DQUOTE
ParseQuoted(b, i) ==
  LET closers == {j \in (i + 1)..Len(b) : b[j] = DQ /\ BSRun(b, j - 1, i + 1) % 2 = 0} IN
  IF closers = {} THEN Fail
  ELSE LET j == MinOf(closers)
           c == SubSeq(b, i + 1, j - 1)
           v == Unesc(c)
           e8 == \E x \in 1..Len(c) : c[x] >= 128
       IN R(TRUE, v, j + 1,
            [StrForm("quoted") EXCEPT !.eight = e8,
                                      !.ctl = \E x \in 1..Len(c) : c[x] \in {NUL, CR, LF},
                                      !.lib = GratEsc(c),
                                      !.badutf8 = e8 /\ ~U!Utf8OK(v)])

\* end of the literal header line at p: CRLF; a liberal reader also takes [SP] [CR] LF
LineEnd(b, p) ==
  LET sp == p <= Len(b) /\ b[p] = SPC
      p1 == IF sp THEN p + 1 ELSE p
      cr == p1 <= Len(b) /\ b[p1] = CR
      p2 == IF cr THEN p1 + 1 ELSE p1
  IN IF p2 <= Len(b) /\ b[p2] = LF THEN [ok |-> TRUE, nx |-> p2 + 1, lib |-> sp \/ ~cr]
     ELSE [ok |-> FALSE, nx |-> 0, lib |-> FALSE]

\* literal = "{" number64 ["+"] "}" CRLF *CHAR8 at b[i] = "{"
ParseLiteral(b, i) ==
  LET d1 == i + 1
      d2 == ScanIn(b, d1, DigitSet)
      nd == d2 - d1
  IN IF nd = 0 \/ nd > 7 THEN Fail
     ELSE LET n == NatOf(SubSeq(b, d1, d2 - 1))
              plus == d2 <= Len(b) /\ b[d2] = PLUS
              c == IF plus THEN d2 + 1 ELSE d2
          IN IF c > Len(b) \/ b[c] # RBR THEN Fail
             ELSE LET e == LineEnd(b, c + 1) IN
               IF ~e.ok \/ e.nx + n - 1 > Len(b) THEN Fail
               ELSE R(TRUE, SubSeq(b, e.nx, e.nx + n - 1), e.nx + n,
                      [StrForm("literal") EXCEPT !.plus = plus, !.n = n, !.lib = e.lib,
                                                 !.lz = nd > 1 /\ b[d1] = 48])

NILB == <<78, 73, 76>>
\* g: "string" = quoted / literal; "astring" adds 1*ASTRING-CHAR; "nstring" adds NIL
ParseStringG(b, i, g) ==
  IF i > Len(b) THEN Fail
  ELSE IF b[i] = DQ THEN ParseQuoted(b, i)
  ELSE IF b[i] = LBR THEN ParseLiteral(b, i)
  ELSE IF g = "string" THEN Fail
  ELSE IF g = "nstring"
       THEN LET e == ScanIn(b, i, AtomChars) IN
            IF SubSeq(b, i, e - 1) = NILB THEN R(TRUE, <<>>, e, StrForm("nil")) ELSE Fail
  ELSE LET e == ScanIn(b, i, AStringChars) IN
       IF e = i THEN Fail
       ELSE R(TRUE, SubSeq(b, i, e - 1), e,
              [StrForm("atom") EXCEPT !.rsp = \E x \in i..(e - 1) : b[x] = RBK])

ParseMailbox(b, i) ==
  LET p == ParseStringG(b, i, "astring") IN
  IF ~p.ok THEN Fail
  ELSE IF IsInbox(p.val) THEN R(TRUE, INBOX, p.nx, p.form)
  ELSE IF U!MustAccept(p.val) THEN R(TRUE, U!Value(p.val), p.nx, p.form)
  ELSE Fail                                   \* not a canonical modified UTF-7 name (C16's matter)

ParseFlag(b, i) ==
  LET bs == i <= Len(b) /\ b[i] = BSL
      p  == IF bs THEN i + 1 ELSE i
  IN IF bs /\ p <= Len(b) /\ b[p] = AST THEN R(TRUE, <<BSL, AST>>, p + 1, StrForm("atom"))
     ELSE LET e == ScanIn(b, p, AtomChars) IN
          IF e = p THEN Fail ELSE R(TRUE, SubSeq(b, i, e - 1), e, StrForm("atom"))
ParseAttr(b, i) == LET p == ParseFlag(b, i) IN IF p.ok /\ AttrOK(p.val) THEN p ELSE Fail

\* number = 1*DIGIT within the range of the kind; the value is the canonical numeral
ParseNum(b, i, k) ==
  LET e == ScanIn(b, i, DigitSet) IN
  IF e = i THEN Fail
  ELSE LET ds == SubSeq(b, i, e - 1)
           v == StripLZ(ds)
       IN IF NumLE(v, MaxOfKind(k)) THEN R(TRUE, v, e, [StrForm("atom") EXCEPT !.lz = v # ds]) ELSE Fail

\* sequence-set; the value is its set of members (RFC semantics, NumSet!ParseMembers)
ParseSetB(b, i) ==
  LET e == ScanIn(b, i, SetChars) IN
  IF e = i THEN Fail
  ELSE LET toks == LexSet(SubSeq(b, i, e - 1)) IN
       IF NS!ParseOK(toks) THEN R(TRUE, NS!ParseMembers(toks), e, StrForm("atom")) ELSE Fail
ParseSRes(b, i) == IF i <= Len(b) /\ b[i] = DOLLAR THEN R(TRUE, <<>>, i + 1, StrForm("atom")) ELSE Fail

\* list = "(" [value *(SP value)] ")"; value = list / string / atom.  A liberal reader
\* takes a nested list without the SP in front of it.  form: lib, the forms of
\* all string leaves (fs), deepest nesting reached (depth)
ListForm(lib, fs, depth) == [t |-> "list", lib |-> lib, fs |-> fs, depth |-> depth]
RECURSIVE ParseVal(_, _, _), ParseItems(_, _, _, _, _, _)
ParseVal(b, i, d) ==
  IF i > Len(b) THEN Fail
  ELSE IF b[i] = LPAR THEN ParseItems(b, i + 1, d + 1, <<>>, FALSE, {})
  ELSE IF b[i] \in {DQ, LBR}
       THEN LET p == ParseStringG(b, i, "string") IN
            IF p.ok THEN R(TRUE, StrLeaf(p.val), p.nx, ListForm(p.form.lib, {p.form}, d)) ELSE Fail
  ELSE LET e == ScanIn(b, i, AtomChars) IN
       IF e = i THEN Fail ELSE R(TRUE, AtomLeaf(SubSeq(b, i, e - 1)), e, ListForm(FALSE, {}, d))
ParseItems(b, i, d, acc, lib, fs) ==
  IF i > Len(b) THEN Fail
  ELSE IF b[i] = RPAR THEN R(TRUE, ListOf(acc), i + 1, ListForm(lib, fs, d))
  ELSE LET first == Len(acc) = 0
           nosp == ~first /\ b[i] = LPAR
           at == IF first \/ nosp THEN i ELSE i + 1
       IN IF ~first /\ ~nosp /\ b[i] # SPC THEN Fail
          ELSE LET p == ParseVal(b, at, d) IN
               IF ~p.ok THEN Fail
               ELSE LET q == ParseItems(b, p.nx, d, Append(acc, p.val), lib \/ nosp \/ p.form.lib,
                                        fs \cup p.form.fs) IN
                    IF ~q.ok THEN Fail
                    ELSE [q EXCEPT !.form.depth = IF p.form.depth > q.form.depth
                                                  THEN p.form.depth ELSE q.form.depth]
ParseList(b, i) == IF i <= Len(b) /\ b[i] = LPAR THEN ParseVal(b, i, 0) ELSE Fail

StrKinds  == {"str", "lstr"}
NumKinds  == {"num", "num64", "modseq"}
SetKinds  == {"seqset", "uidset"}
FlagKinds == {"flag", "attr"}
ListKinds == {"list", "nest"}

\* long strings are length classes: n bytes `fill` except for the listed <<position, byte>>
RECURSIVE ApplyIns(_, _, _)
ApplyIns(f, ins, j) == IF j > Len(ins) THEN f ELSE ApplyIns([f EXCEPT ![ins[j][1]] = ins[j][2]], ins, j + 1)
Expand(c) == ApplyIns([i \in 1..c.n |-> c.fill], c.ins, 1)
\* the value as the decoder will hand it out, before canonicalisation
Plain(k, v) == CASE k = "lstr" -> Expand(v)
                 [] k = "nest" -> Nest(v.n, v.inner)
                 [] OTHER -> v

\* Parse(k, b): one value of kind k (read with grammar g where strings are concerned)
ParseG(k, g, b) ==
  CASE k \in StrKinds  -> ParseStringG(b, 1, g)
    [] k = "mbox"      -> ParseMailbox(b, 1)
    [] k = "flag"      -> ParseFlag(b, 1)
    [] k = "attr"      -> ParseAttr(b, 1)
    [] k \in NumKinds  -> ParseNum(b, 1, k)
    [] k \in SetKinds  -> ParseSetB(b, 1)
    [] k = "sres"      -> ParseSRes(b, 1)
    [] k \in ListKinds -> ParseList(b, 1)
Parse(k, b) == ParseG(k, "string", b)
RefDecode(k, b) == LET p == Parse(k, b) IN <<p.ok, p.val, p.nx - 1>>    \* <<ok, value, bytes consumed>>

---------------------------------------------------------------------------
(* Part 2: modes, canonical values, legal representations *)

Modes == [side : {"c", "s"}, q8 : BOOLEAN, lm : BOOLEAN, lp : BOOLEAN]
\* mode number used by the harness: 8*server + 4*q8 + 2*lm + lp
ModeOf(id) == [side |-> IF id \div 8 = 0 THEN "c" ELSE "s", q8 |-> (id \div 4) % 2 = 1,
               lm |-> (id \div 2) % 2 = 1, lp |-> id % 2 = 1]
LitMinusMax == 4096

\* canonical value: what "the same value" is compared on.  For number sets the
\* argument is a range list and the result its member set.
Canon(k, v) ==
  CASE k \in StrKinds  -> Plain(k, v)
    [] k = "mbox"      -> IF IsInbox(v) THEN INBOX ELSE v
    [] k \in FlagKinds -> IF WellKnown(v) THEN LowerS(v) ELSE v
    [] k \in SetKinds  -> NS!MembersOf(v)
    [] k \in ListKinds -> Plain(k, v)
    [] OTHER           -> v
\* the canonical value of what a parse returned (sets are parsed to members already)
CanonParsed(k, x) == IF k \in SetKinds THEN x ELSE Canon(IF k = "lstr" THEN "str" ELSE IF k = "nest" THEN "list" ELSE k, x)

MustRefuse(k, v) ==
  CASE k = "flag"      -> ~FlagOK(v)
    [] k = "attr"      -> ~AttrOK(v)
    [] k \in SetKinds  -> Len(v) = 0
    [] k \in NumKinds  -> Len(v) > 0 /\ v[1] = MINUS        \* number = 1*DIGIT: nothing negative
    [] OTHER           -> FALSE
WhyRefuse(k, v) ==
  CASE k \in FlagKinds -> WhyBadFlag(k, v)
    [] k \in SetKinds  -> "empty"
    [] k \in NumKinds  -> "negative"
    [] OTHER           -> "none"

NonSyncOK(m, n) == m.side = "c" /\ (m.lp \/ (m.lm /\ n <= LitMinusMax))
\* may a string form be used in mode m
FormOK(m, f) ==
  CASE f.t = "quoted"  -> ~f.ctl /\ (f.eight => m.q8)
    [] f.t = "literal" -> f.plus => NonSyncOK(m, f.n)
    [] OTHER           -> TRUE
\* which check failed first ("ok" if none): used for signatures; p is the parse of b.
\* BaseVerdict: the part that does not depend on the mode
BaseVerdict(k, v, b, p) ==
  IF ~p.ok THEN "not-parseable"
  ELSE IF p.nx # Len(b) + 1 THEN "trailing-bytes"
  ELSE IF CanonParsed(k, p.val) # Canon(k, v) THEN "other-value"
  ELSE IF p.form.lib THEN "liberal-form-only"
  ELSE "ok"
FormVerdict(m, k, p) ==
  IF k \in ListKinds
  THEN (IF \A f \in p.form.fs : FormOK(m, f) THEN "ok"
        ELSE IF \E f \in p.form.fs : f.t = "literal" /\ ~FormOK(m, f) THEN "form/nonsync-literal"
        ELSE IF \E f \in p.form.fs : f.ctl THEN "form/quoted-ctl" ELSE "form/quoted-8bit")
  ELSE IF k \in StrKinds \cup {"mbox"}
  THEN (IF FormOK(m, p.form) THEN "ok"
        ELSE IF p.form.t = "quoted" THEN (IF p.form.ctl THEN "form/quoted-ctl" ELSE "form/quoted-8bit")
        ELSE "form/nonsync-literal")
  ELSE "ok"
VerdictOf(m, k, v, b, p) == LET bv == BaseVerdict(k, v, b, p) IN IF bv # "ok" THEN bv ELSE FormVerdict(m, k, p)
\* a deep nesting is judged without building the tree: n "(", the innermost value, n ")"
NestVerdict(m, v, b) ==
  LET n == v.n
      L == Len(b)
  IN IF L < 2 * n \/ (\E i \in 1..n : b[i] # LPAR) \/ (\E i \in (L - n + 1)..L : b[i] # RPAR)
     THEN "not-parseable"
     ELSE LET c == <<LPAR>> \o SubSeq(b, n + 1, L - n) \o <<RPAR>> IN
          VerdictOf(m, "list", ListOf(<<v.inner>>), c, Parse("list", c))
RepVerdict(m, k, v, b) == IF k = "nest" /\ v.n > 10 THEN NestVerdict(m, v, b)
                          ELSE VerdictOf(m, k, v, b, Parse(k, b))
\* the verdicts for a set of modes (the bytes are parsed once)
RepVerdicts(ms, k, v, b) ==
  IF k = "nest" /\ v.n > 10 THEN {NestVerdict(m, v, b) : m \in ms}
  ELSE LET p == Parse(k, b)
           bv == BaseVerdict(k, v, b, p)
       IN IF bv # "ok" THEN {bv} ELSE {FormVerdict(m, k, p) : m \in ms}
LegalRep(m, k, v, b) == ~MustRefuse(k, v) /\ RepVerdict(m, k, v, b) = "ok"
\* strict reading of UTF-8 quoting (not demanded by the statement, reported as a note)
QuotedBadUtf8(k, b) == LET p == Parse(k, b) IN
  p.ok /\ (IF k \in ListKinds THEN \E f \in p.form.fs : f.badutf8 ELSE p.form.badutf8)

(* builders *)
NeedsEsc(s) == \E i \in 1..Len(s) : s[i] \in {DQ, BSL}
Esc(s) == IF ~NeedsEsc(s) THEN s
          ELSE Flat([i \in 1..Len(s) |-> IF s[i] \in {DQ, BSL} THEN <<BSL, s[i]>> ELSE <<s[i]>>])
QuotedOf(s) == <<DQ>> \o Esc(s) \o <<DQ>>
CRLF == <<CR, LF>>
LitOf(s, plus, lz, le) == <<LBR>> \o (IF lz THEN <<48>> ELSE <<>>) \o DigitsOf(Len(s))
                          \o (IF plus THEN <<PLUS>> ELSE <<>>) \o <<RBR>> \o le \o s
Quotable(m, s) == \A i \in 1..Len(s) : s[i] \notin {NUL, CR, LF} /\ (s[i] < 128 \/ m.q8)
\* quoted string with one gratuitous escape (first character that needs none)
GratOf(s) == LET ps == {i \in 1..Len(s) : s[i] \notin {DQ, BSL}}
                 p == MinOf(ps)
             IN <<DQ>> \o Esc(SubSeq(s, 1, p - 1)) \o <<BSL, s[p]>> \o Esc(Drop(s, p)) \o <<DQ>>

Rep(b, cls, g, to) == [b |-> b, cls |-> cls, g |-> g, to |-> to]
\* representations of the byte string s; g: the narrowest grammar that admits the
\* form ("string" forms are also astrings and nstrings); to: "b" both receivers,
\* "s" only a server reads it ("+" literals)
StringReps(m, s, short) ==
     (IF Quotable(m, s) THEN {Rep(QuotedOf(s), "std", "string", "b")} ELSE {})
  \cup {Rep(LitOf(s, FALSE, FALSE, CRLF), "std", "string", "b")}
  \cup (IF NonSyncOK(m, Len(s)) THEN {Rep(LitOf(s, TRUE, FALSE, CRLF), "std", "string", "s")} ELSE {})
  \cup (IF short THEN {Rep(LitOf(s, FALSE, TRUE, CRLF), "std", "string", "b")} ELSE {})
  \cup (IF short THEN {Rep(LitOf(s, FALSE, FALSE, <<LF>>), "lib", "string", "b"),
                       Rep(LitOf(s, FALSE, FALSE, <<SPC, CR, LF>>), "lib", "string", "b")} ELSE {})
  \cup (IF short /\ Quotable(m, s) /\ \E i \in 1..Len(s) : s[i] \notin {DQ, BSL}
        THEN {Rep(GratOf(s), "lib", "string", "b")} ELSE {})
AtomReps(s) ==
  IF Len(s) = 0 \/ \E i \in 1..Len(s) : s[i] \notin AStringChars THEN {}
  ELSE {Rep(s, IF \E i \in 1..Len(s) : s[i] = RBK THEN "todo" ELSE "std", "astring", "b")}

\* case variants a peer may use where case is insignificant
CaseVariants(s) == {s, LowerS(s), UpperS(s)}
MixedInbox == <<73, 110, 66, 111, 88>>     \* InBoX

PrefString(m, s) == IF Quotable(m, s) THEN QuotedOf(s)
                    ELSE LitOf(s, NonSyncOK(m, Len(s)), FALSE, CRLF)

\* list representations: chosen per string leaf by sel(s)
RECURSIVE TreeBytes(_, _, _, _)
RECURSIVE ItemsBytes(_, _, _, _)
\* mode m, tree t, how: "pref" | "lit" (every string a synchronising literal), nosp: omit SP before nested lists
TreeBytes(m, t, how, nosp) ==
  IF t.k = "a" THEN t.b
  ELSE IF t.k = "s" THEN (IF how = "pref" THEN PrefString(m, t.b) ELSE LitOf(t.b, FALSE, FALSE, CRLF))
  ELSE <<LPAR>> \o ItemsBytes(m, t.it, how, nosp) \o <<RPAR>>
ItemsBytes(m, its, how, nosp) ==
  IF Len(its) = 0 THEN <<>>
  ELSE IF Len(its) = 1 THEN TreeBytes(m, its[1], how, nosp)
  ELSE TreeBytes(m, its[1], how, nosp)
       \o (IF nosp /\ its[2].k = "l" THEN <<>> ELSE <<SPC>>) \o ItemsBytes(m, Tail(its), how, nosp)
RECURSIVE HasInnerList(_)
HasInnerList(t) == t.k = "l" /\ \E i \in 1..Len(t.it) : (i > 1 /\ t.it[i].k = "l") \/ HasInnerList(t.it[i])
Rpt(c, n) == [i \in 1..n |-> c]
NestBytes(m, c) == Rpt(LPAR, c.n) \o TreeBytes(m, c.inner, "pref", FALSE) \o Rpt(RPAR, c.n)

AltRev(l) == [i \in 1..Len(l) |-> IF l[i][1] = l[i][2] THEN l[i] ELSE <<l[i][2], l[i][1]>>]
RECURSIVE RevSetBytes(_)   \* ranges written with their endpoints swapped ("2:1", "*:3")
RevSetBytes(l) == IF Len(l) = 0 THEN <<>>
                  ELSE LET r == l[1]
                           x == IF r[1] = r[2] THEN NumB(r[1]) ELSE NumB(r[2]) \o <<COLONB>> \o NumB(r[1])
                       IN IF Len(l) = 1 THEN x ELSE x \o <<COMMAB>> \o RevSetBytes(Tail(l))

\* a list representation is for servers only when one of its literals is non-synchronising
ListRep(b, cls) == LET p == ParseList(b, 1) IN
                   Rep(b, cls, "list", IF p.ok /\ \E f \in p.form.fs : f.plus THEN "s" ELSE "b")

RepSet(m, k, v) ==
  IF MustRefuse(k, v) THEN {}
  ELSE CASE k = "str"  -> StringReps(m, v, Len(v) <= 3) \cup AtomReps(v)
                          \cup (IF Len(v) = 0 THEN {Rep(NILB, "std", "nstring", "b")} ELSE {})
         [] k = "lstr" -> StringReps(m, Expand(v), FALSE)
         [] k = "mbox" ->
              LET names == IF IsInbox(v) THEN {INBOX, LowerS(INBOX), MixedInbox} ELSE {U!Encode(v)} IN
              UNION {{[r EXCEPT !.g = "astring"] : r \in StringReps(m, e, Len(e) <= 2) \cup AtomReps(e)} : e \in names}
         [] k \in FlagKinds ->
              {Rep(x, "std", "atom", "b") : x \in (IF WellKnown(v) THEN CaseVariants(v) ELSE {v})}
         [] k \in NumKinds -> {Rep(v, "std", "atom", "b"), Rep(<<48>> \o v, "std", "atom", "b")}
         [] k \in SetKinds ->
              {Rep(SetBytes(v), "std", "atom", "b"), Rep(RevSetBytes(v), "std", "atom", "b"),
               Rep(SetBytes(v \o <<v[1]>>), "std", "atom", "b")}
         [] k = "sres" -> {Rep(<<DOLLAR>>, "std", "atom", "b")}
         \* lists: a sample of the product of the leaves' representations
         [] k = "list" ->
              {ListRep(TreeBytes(m, v, "pref", FALSE), "std"), ListRep(TreeBytes(m, v, "lit", FALSE), "std")}
              \cup (IF HasInnerList(v) THEN {ListRep(TreeBytes(m, v, "pref", TRUE), "lib")} ELSE {})
         [] k = "nest" -> {Rep(NestBytes(m, v), "std", "list",
                               IF v.inner.k = "s" /\ ~Quotable(m, v.inner.b) /\ NonSyncOK(m, Len(v.inner.b))
                               THEN "s" ELSE "b")}
Reps(m, k, v) == {r.b : r \in {x \in RepSet(m, k, v) : x.cls = "std"}}

Pref(m, k, v) ==
  CASE k = "str"  -> PrefString(m, v)
    [] k = "lstr" -> PrefString(m, Expand(v))
    [] k = "mbox" -> IF IsInbox(v) THEN INBOX ELSE PrefString(m, U!Encode(v))
    [] k \in SetKinds -> SetBytes(v)
    [] k = "sres" -> <<DOLLAR>>
    [] k = "list" -> TreeBytes(m, v, "pref", FALSE)
    [] k = "nest" -> NestBytes(m, v)
    [] OTHER -> v

\* grammar with which a representation tagged g is read
GrammarOf(g) == IF g \in {"astring", "nstring"} THEN g ELSE "string"

---------------------------------------------------------------------------
(* Part 3: the bounded value space *)

VARIABLES phase,  \* "pick" | "have"
          kind,
          pre,    \* first symbol of the value (<<>>: the empty value and the catalogue)
          val
vars == <<phase, kind, pre, val>>

LongClasses ==
  {[n |-> n, fill |-> 97, ins |-> ins] :
     n \in {4095, 4096, 4097}, ins \in {<<>>, <<<<2000, CR>>, <<2001, LF>>>>}}
MboxCatalogue == {
  INBOX, LowerS(INBOX), MixedInbox,
  INBOX \o <<32>>, INBOX \o <<97>>,                       \* not INBOX
  <<305, 110, 98, 111, 120>>, <<304, 78, 66, 79, 88>>,    \* dotless i / dotted I: not INBOX
  <<97, 38, 98>>, <<38, 65, 79, 107, 45>>,                \* a&b, the text "&AOk-"
  <<233, 8364, 128512>>, <<97, 47, 233, 32, 34, 92>>,
  \* long names (more than 128 octets of UTF-8: whatever a transformer does differently once its buffers are full)
  [i \in 1..60 |-> 26085],
  <<65, 114, 99, 104, 105, 118, 101, 47>> \o [i \in 1..50 |-> 26085 + (i % 3)] \o <<47, 50, 48, 50, 52>>,
  [i \in 1..127 |-> 97] \o <<233, 233, 8364>> \o [i \in 1..10 |-> 98] }
FlagCatalogue == {
  <<92, 83, 101, 101, 110>>, <<92, 115, 101, 101, 110>>, <<92, 83, 69, 69, 78>>,    \* \Seen \seen \SEEN
  <<83, 101, 101, 110>>,                                                           \* Seen (a keyword)
  <<90, 122, 75, 119>>, <<122, 122, 107, 119>>, <<90, 90, 75, 87>>,                  \* ZzKw zzkw ZZKW: one keyword in three
                                                                                   \* spellings - each is delivered as written
  <<36, 70, 111, 114, 119, 97, 114, 100, 101, 100>>, <<36, 102, 111, 114, 119, 97, 114, 100, 101, 100>>,
  <<36, 77, 68, 78, 83, 101, 110, 116>>, <<36, 109, 100, 110, 115, 101, 110, 116>>,
  <<92, 82, 101, 99, 101, 110, 116>>, <<78, 73, 76>>, <<92, 42>>, <<97, 93>>, <<92, 97, 93>>, <<97, 125>>,
  <<92, 78, 111, 115, 101, 108, 101, 99, 116>>, <<92, 110, 111, 115, 101, 108, 101, 99, 116>>,
  <<92, 72, 65, 83, 67, 72, 73, 76, 68, 82, 69, 78>>, <<92, 83, 101, 110, 116>>, <<78, 111, 115, 101, 108, 101, 99, 116>> }
NumCatalogue(k) ==
  {<<48>>, <<49>>, <<52, 50>>, U32Max} \cup
  (IF k = "num" THEN {} ELSE {<<52, 50, 57, 52, 57, 54, 55, 50, 57, 54>>, I63Max}) \cup
  (IF k = "modseq" THEN {<<57, 50, 50, 51, 51, 55, 50, 48, 51, 54, 56, 53, 52, 55, 55, 53, 56, 48, 56>>, U64Max} ELSE {}) \cup
  (IF k = "num64" THEN {<<MINUS, 49>>, <<MINUS>> \o <<57, 50, 50, 51, 51, 55, 50, 48, 51, 54, 56, 53, 52, 55, 55, 53, 56, 48, 56>>} ELSE {})
SetCatalogue ==
  NS!SmallCatalogue \cup
  { <<<<0, 0>>>>, <<<<1, 0>>>>, <<<<1, 1>>>>, <<<<9, 9>>>>, <<<<9, 0>>>>, <<<<1, 9>>>>,
    <<<<4, 4>>, <<1, 2>>>>,            \* not sorted
    <<<<1, 3>>, <<2, 5>>>>,            \* overlapping
    <<<<1, 1>>, <<2, 2>>, <<3, 3>>>>,  \* adjacent singletons
    <<<<0, 0>>, <<3, 3>>>> }           \* '*' first
Leaves == {StrLeaf(<<97>>), StrLeaf(<<CR, LF>>), AtomLeaf(<<49>>)}
ListsOver(X) == {ListOf(<<>>)} \cup {ListOf(<<x>>) : x \in X} \cup {ListOf(<<x, y>>) : x \in X, y \in X}
T1 == ListsOver(Leaves)
T2 == ListsOver(Leaves \cup T1)
Seconds == Leaves \cup {ListOf(<<>>), ListOf(<<StrLeaf(<<97>>)>>), AtomLeaf(NILB), StrLeaf(<<195, 169>>)}
Firsts == Leaves \cup (IF TreeLevel >= 2 THEN T2 ELSE T1)
NestCatalogue == {[n |-> n, inner |-> i] : n \in NestNs, i \in {AtomLeaf(<<97>>), ListOf(<<>>), StrLeaf(<<CR, LF>>)}}

AlphaOf(k) == CASE k = "str" -> StrAlpha [] k = "mbox" -> MboxAlpha [] k \in FlagKinds -> FlagAlpha [] OTHER -> {}
MaxLenOf(k) == CASE k = "str" -> StrMax [] k = "mbox" -> MboxMax [] k \in FlagKinds -> FlagMax [] OTHER -> 0
CatalogueOf(k) ==
  CASE k = "str" -> {<<>>}
    [] k = "lstr" -> LongClasses
    [] k = "mbox" -> {<<>>} \cup MboxCatalogue
    [] k \in FlagKinds -> {<<>>} \cup FlagCatalogue
    [] k \in NumKinds -> NumCatalogue(k)
    [] k \in SetKinds -> SetCatalogue
    [] k = "sres" -> {<<>>}
    [] k = "list" -> {ListOf(<<>>)}
    [] k = "nest" -> NestCatalogue
PresOf(k) == {<<>>} \cup (IF k = "list" THEN {<<t>> : t \in Firsts}
                          ELSE IF MaxLenOf(k) > 0 THEN {<<x>> : x \in AlphaOf(k)} ELSE {})
ValuesOf(k, p) ==
  IF p = <<>> THEN CatalogueOf(k)
  ELSE IF k = "list" THEN {ListOf(p)} \cup {ListOf(p \o <<x>>) : x \in Seconds} \cup {ListOf(<<x>> \o p) : x \in Seconds}
  ELSE {p \o t : t \in StringsUpTo(AlphaOf(k), MaxLenOf(k) - 1)}

Init == phase = "pick" /\ kind \in Kinds /\ pre \in PresOf(kind) /\ val = <<>>
Pick(v) == /\ phase = "pick" /\ phase' = "have" /\ val' = v /\ UNCHANGED <<kind, pre>>
Next == \/ phase = "pick" /\ \E v \in ValuesOf(kind, pre) : Pick(v)
        \/ phase = "have" /\ UNCHANGED vars
Spec == Init /\ [][Next]_vars

(* properties, evaluated once per value *)
Have == phase = "have"
\* what follows the value on the wire: SP Z CRLF, and SP Z SP "q\"" SP {3}) CRLF (a quoted string with an
\* escaped quote, a literal-header look-alike and a closing parenthesis behind the value)
Sentinels == << <<SPC, 90, CR, LF>>,
                <<SPC, 90, SPC, 34, 113, 92, 34, 34, SPC, 123, 51, 125, 41, CR, LF>> >>

\* every representation a conforming peer may send reference-decodes to the canonical
\* value, consuming exactly its own bytes, also when more input follows; it is legal
RepsDecode ==
  Have => \A m \in Modes : \A r \in RepSet(m, kind, val) :
    LET g == GrammarOf(r.g)
        p == ParseG(kind, g, r.b)
    IN /\ p.ok /\ p.nx = Len(r.b) + 1 /\ CanonParsed(kind, p.val) = Canon(kind, val)
       /\ \A sn \in 1..Len(Sentinels) :
            LET q == ParseG(kind, g, r.b \o Sentinels[sn]) IN q.ok /\ q.nx = p.nx /\ q.val = p.val
       /\ r.cls = "lib" <=> p.form.lib
       /\ (r.cls = "std" /\ (r.g \notin {"astring", "nstring"} \/ kind = "mbox")) => LegalRep(m, kind, val, r.b)
       /\ r.cls = "lib" => ~LegalRep(m, kind, val, r.b)
\* the specification's own choice is one of them; something representable has one
PrefLegal ==
  Have => \A m \in Modes :
    IF MustRefuse(kind, val) THEN RepSet(m, kind, val) = {}
    ELSE Pref(m, kind, val) \in Reps(m, kind, val) /\ LegalRep(m, kind, val, Pref(m, kind, val))
\* a mode never makes fewer receivers' forms legal than a weaker mode: what is legal
\* without an extension stays legal with it (modes only add representations)
ModesMonotone ==
  (Have /\ kind \notin ListKinds) =>
    LET rs == [m \in Modes |-> Reps(m, kind, val)] IN
    \A m \in Modes, n \in Modes :
      (m.side = n.side /\ (m.q8 => n.q8) /\ (m.lm => n.lm) /\ (m.lp => n.lp)) => rs[m] \subseteq rs[n]
\* the server side never writes a non-synchronising literal
ServerNoPlus ==
  Have => \A m \in Modes : m.side = "s" => \A r \in RepSet(m, kind, val) : r.to = "b"
\* list depth: a nesting below the cap is read; the form records the depth reached
DepthSeen ==
  (Have /\ kind \in ListKinds /\ ~(kind = "nest" /\ val.n > 10)) =>
     LET m == ModeOf(0)
         p == Parse(kind, Pref(m, kind, val))
     IN p.ok /\ p.form.depth = Depth(Plain(kind, val))
TypeOK == phase \in {"pick", "have"} /\ kind \in Kinds
=============================================================================
