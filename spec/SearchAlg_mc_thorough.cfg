CONSTANTS
  MaxKeys = 3
  WithCat = TRUE
INIT Init
NEXT Next
INVARIANTS AndRefIsIntersection AndRefCommutes ParseIsConjunction ParseOrderFree Distinguishes
CHECK_DEADLOCK FALSE
