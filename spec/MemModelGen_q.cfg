\* queries as vectors over three prepared scenarios
CONSTANTS
  Names <- NamesDeep
  Conns = 1
  CatIds = {1}
  MaxMsgs = 9
  MaxUid = 9
  MaxCreates = 9
  Family = "all"
  Level = 0
  Mode = "q"
  SimDepth = 0
  Chains = 0
INIT GenInitAll
NEXT GenNext
INVARIANT Emit
VIEW GenView
CHECK_DEADLOCK FALSE
