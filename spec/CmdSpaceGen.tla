---------------------------- MODULE CmdSpaceGen ----------------------------
(* Generator (spec -> impl): every (configuration, command instance) of the *)
(* catalogue is printed once as <<"T", json>> with the backend calls the    *)
(* specification predicts (exp = Exp(cfg, cmd), normalised) and whether the *)
(* command must complete OK.  The harness issues the command through a real *)
(* imapclient.Client in that configuration against a real imapserver and    *)
(* records what the stub session received; CmdSpaceTrace judges the record. *)
EXTENDS CmdSpace, Json

GenNext ==
  \/ /\ last = None
     /\ \E cmd \in Catalogue(Cfg) :
          /\ Issue(cmd)
          /\ PrintT(<<"T", ToJson([cfg |-> Cfg, cmd |-> cmd, exp |-> Exp(Cfg, cmd), must |-> MustOK(cmd)])>>)
  \/ Complete
=============================================================================
