CONSTANTS
  Sessions = {"s1", "s2"}
  Mailboxes = {"A", "B"}
  Flags <- OnlyDeleted
  MaxMsgs = 2
  MaxUid = 2
  MaxQueue = 3
  Kinds <- AllKinds
  SeqSets <- SetsSmall
  UidSets <- SetsSmall
  UidForms = {TRUE, FALSE}
  AppendFlags <- PlainOrDeleted
  IdleAny = TRUE
INIT Init
NEXT Next
CONSTRAINT Bounded
VIEW CoreView
INVARIANTS TypeOK RemovedReportedOnce
PROPERTIES StepSeqNums StepNoExpunge StepShrink StepNoop
CHECK_DEADLOCK FALSE
