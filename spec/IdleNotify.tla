----------------------------- MODULE IdleNotify -----------------------------
(***************************************************************************)
(* Wake-up protocol between a session that changes a mailbox and a session *)
(* idling on it (imapserver/tracker.go: SessionTracker.queueUpdate / Idle /  *)
(* Poll; imapmemserver holds the mailbox lock around a whole STORE / COPY / *)
(* EXPUNGE).  Part of property C14: "every command completes, no set of     *)
(* commands can block each other forever" - here the waiting is on a        *)
(* bounded channel, not on a mutex, so it is invisible to the lock          *)
(* templates of Locks.tla.                                                  *)
(*                                                                         *)
(* Processes:                                                               *)
(*   producer  one command that changes `burst` messages while holding the  *)
(*             mailbox lock M; per message: append the update to the idling *)
(*             session's queue (under that session's own mutex, atomic      *)
(*             here), remember whether a wake-up channel is registered, and *)
(*             then notify on it                                            *)
(*   consumer  the goroutine running SessionTracker.Idle: receive a         *)
(*             notification, take the whole queue (Poll), write it to the   *)
(*             client (holding no lock), repeat; or return when IDLE ends   *)
(*   client    of the idling session: reads what it is sent / stops reading *)
(*             (the consumer then blocks in its write) / ends the IDLE with *)
(*             DONE / drops the connection - at any moment                  *)
(*   other     a third session's command on the same mailbox (needs M)      *)
(*                                                                         *)
(* Blocking = FALSE is go-imap's design: the notification is a non-blocking  *)
(* send (a full channel already carries a wake-up).  Blocking = TRUE is the *)
(* guard variant: the producer waits for room in the channel while holding  *)
(* M, and never finishes once the consumer has stopped taking notifications.*)
(***************************************************************************)
EXTENDS Naturals, TLC

CONSTANTS
  \* @type: Int;
  Cap,        \* capacity of the wake-up channel (64 in go-imap; small here: only its relation to the burst matters)
  \* @type: Int;
  MaxBurst,   \* largest number of messages one command changes
  \* @type: Bool;
  Blocking,   \* design variant
  \* @type: Set(Str);
  Clients     \* behaviours of the idling session's client to consider

VARIABLES
  \* @type: Str;
  client,  \* "reads" | "stalls" | "done" | "drops"  (chosen in Init)
  \* @type: Int;
  burst,   \* number of messages the producer's command changes (chosen in Init)
  \* @type: Str;
  m,       \* holder of the mailbox lock: "none" | "prod" | "other"
  \* @type: Str;
  ppc,     \* producer: "start" | "queue" | "notify" | "done"
  \* @type: Int;
  sent,    \* updates appended so far
  \* @type: Bool;
  cap,     \* the producer saw a registered channel when it appended the last update
  \* @type: Bool;
  reg,     \* a wake-up channel is registered (SessionTracker.updates # nil)
  \* @type: Int;
  ch,      \* notifications in the channel
  \* @type: Int;
  q,       \* updates in the idling session's queue
  \* @type: Str;
  cons,    \* consumer: "select" | "poll" | "write" | "blocked" | "gone"
  \* @type: Int;
  batch,   \* updates the consumer is writing
  \* @type: Int;
  seen,    \* updates that reached the idling client
  \* @type: Str;
  opc      \* other command: "start" | "hold" | "done"

vars == <<client, burst, m, ppc, sent, cap, reg, ch, q, cons, batch, seen, opc>>

Init ==
  /\ client \in Clients /\ burst \in 1..MaxBurst
  /\ m = "none" /\ ppc = "start" /\ sent = 0 /\ cap = FALSE
  /\ reg = TRUE /\ ch = 0 /\ q = 0 /\ cons = "select" /\ batch = 0 /\ seen = 0
  /\ opc = "start"

\* ---------------------------------------------------------------- producer
ProdLock == /\ ppc = "start" /\ m = "none" /\ m' = "prod" /\ ppc' = "queue"
            /\ UNCHANGED <<client, burst, sent, cap, reg, ch, q, cons, batch, seen, opc>>

\* append the update under the session's mutex, read the registered channel
ProdQueue == /\ ppc = "queue" /\ sent < burst
             /\ q' = q + 1 /\ sent' = sent + 1 /\ cap' = reg /\ ppc' = "notify"
             /\ UNCHANGED <<client, burst, m, reg, ch, cons, batch, seen, opc>>

\* notify on the channel that was registered when the update was appended (it may be unregistered by now:
\* nobody will ever receive from it again)
ProdNotify == /\ ppc = "notify"
              /\ IF ~cap THEN ch' = ch
                 ELSE IF ch < Cap THEN ch' = ch + 1
                 ELSE ~Blocking /\ ch' = ch        \* full: skipped (non-blocking) / wait for room (blocking)
              /\ ppc' = "queue"
              /\ UNCHANGED <<client, burst, m, sent, cap, reg, q, cons, batch, seen, opc>>

ProdUnlock == /\ ppc = "queue" /\ sent = burst /\ m' = "none" /\ ppc' = "done"
              /\ UNCHANGED <<client, burst, sent, cap, reg, ch, q, cons, batch, seen, opc>>

\* ---------------------------------------------------------------- consumer (SessionTracker.Idle)
ConsRecv == /\ cons = "select" /\ ch > 0 /\ ch' = ch - 1 /\ cons' = "poll"
            /\ UNCHANGED <<client, burst, m, ppc, sent, cap, reg, q, batch, seen, opc>>

\* Poll: the whole queue is taken under the session's mutex ...
ConsPoll == /\ cons = "poll" /\ batch' = q /\ q' = 0 /\ cons' = "write"
            /\ UNCHANGED <<client, burst, m, ppc, sent, cap, reg, ch, seen, opc>>

\* ... and written to the client without any lock; a client that has stopped reading blocks the write
ConsWrite == /\ cons = "write"
             /\ IF client = "stalls" /\ batch > 0
                THEN cons' = "blocked" /\ seen' = seen /\ batch' = batch
                ELSE cons' = "select" /\ seen' = seen + batch /\ batch' = 0
             /\ UNCHANGED <<client, burst, m, ppc, sent, cap, reg, ch, q, opc>>

\* the IDLE ends (DONE, or the connection is dropped): Idle returns and unregisters the channel
ConsStop == /\ cons = "select" /\ client \in {"done", "drops"}
            /\ cons' = "gone" /\ reg' = FALSE
            /\ UNCHANGED <<client, burst, m, ppc, sent, cap, ch, q, batch, seen, opc>>

\* after DONE the session polls like any other command does (the client then issues NOOP): nothing is lost
FinalPoll == /\ cons = "gone" /\ client = "done" /\ q > 0 /\ ppc = "done"
             /\ seen' = seen + q /\ q' = 0
             /\ UNCHANGED <<client, burst, m, ppc, sent, cap, reg, ch, cons, batch, opc>>

\* ---------------------------------------------------------------- another session on the same mailbox
OtherLock == /\ opc = "start" /\ m = "none" /\ m' = "other" /\ opc' = "hold"
             /\ UNCHANGED <<client, burst, ppc, sent, cap, reg, ch, q, cons, batch, seen>>
OtherUnlock == /\ opc = "hold" /\ m' = "none" /\ opc' = "done"
               /\ UNCHANGED <<client, burst, ppc, sent, cap, reg, ch, q, cons, batch, seen>>

Producer == ProdLock \/ ProdQueue \/ ProdNotify \/ ProdUnlock
Consumer == ConsRecv \/ ConsPoll \/ ConsWrite \/ FinalPoll
Other == OtherLock \/ OtherUnlock
Next == Producer \/ Consumer \/ ConsStop \/ Other

\* the processes run; when the idling client ends its IDLE is its own business (no fairness on ConsStop)
Spec == Init /\ [][Next]_vars /\ WF_vars(Producer) /\ WF_vars(Consumer) /\ WF_vars(Other)

\* ---------------------------------------------------------------- properties
TypeOK == /\ ch \in 0..Cap /\ sent \in 0..burst /\ q \in 0..burst /\ seen \in 0..burst
          /\ m \in {"none", "prod", "other"}

\* C14: every command completes, whatever the idling session's client does
EveryCommandCompletes == <>(ppc = "done") /\ <>(opc = "done")

\* no state in which somebody still has work to do and nobody can move (the safety face of the same thing)
Quiescent == ppc = "done" /\ opc = "done"
NoStuck == (~ENABLED Next) => Quiescent

\* a waiting consumer with something in its queue has a wake-up in the channel (or the producer is about to send it)
NoLostWakeup == (cons = "select" /\ reg /\ q > 0) => (ch > 0 \/ (ppc = "notify" /\ cap))

\* a client that keeps reading, or one that ends its IDLE properly, is told about every change
AllTold == <>[]((ppc = "done" /\ client \in {"reads", "done"} /\ (client = "done" => cons = "gone")) => seen = burst)

\* what the harness is to observe for one scenario
ExpectFor(c) == [prod |-> "done", other |-> "done", told |-> IF c \in {"reads", "done"} THEN "all" ELSE "any"]
\* size of the burst relative to the channel: the harness scales it to the real capacity
Class(b) == IF b < Cap THEN "below" ELSE IF b = Cap THEN "at" ELSE IF b = Cap + 1 THEN "above" ELSE "far"
=============================================================================
