CONSTANTS
  MaxName = 4
  MaxPat = 4
INIT Init
NEXT GenNext
CHECK_DEADLOCK FALSE
