CONSTANTS
  MaxCmds = 3
  MaxPending = 3
  MaxNum = 1
  MaxItems = 1
  MaxUid = 1
  MaxCode = 1
  NFlagSets = 1
  SyncLit = FALSE
  Kinds = {"NOOP", "LOGIN", "SELECT", "UNSELECT", "STATUS", "LIST", "SEARCH", "ESEARCH", "FETCH", "EXPUNGE", "LOGOUT"}
  Greetings = {"OK"}
INIT Init
NEXT Next
VIEW McView
INVARIANTS TypeOK IdleAlone
PROPERTIES ExactlyOnce Isolation DataToRightCommand StateDiagram
CHECK_DEADLOCK FALSE
