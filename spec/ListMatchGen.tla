---------------------------- MODULE ListMatchGen ----------------------------
(* Generator (spec -> implementation): every vector of the bounded space of *)
(* ListMatch is printed with the answer(s) the reference allows:            *)
(*   e  = Matches(name, delim, Resolve(delim, ref, pattern))                *)
(*   e2 = the same under the second accepted reading (differs from e only   *)
(*        for an empty reference and a pattern starting with the delimiter) *)
(* The harness (harness/cmd/listmatch) calls imapserver.MatchList on each.  *)
EXTENDS ListMatch, Json

GenNext == /\ Next
           /\ PrintT(<<"T", ToJson([n |-> v'.n, d |-> v'.d, r |-> v'.r, p |-> v'.p,
                                    e |-> Expected(v'), e2 |-> ExpectedAlt(v')])>>)
=============================================================================
