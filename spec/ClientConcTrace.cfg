INIT TraceInit
NEXT TraceNext
INVARIANTS CompletedWereVisible
POSTCONDITION TraceAccepted
CHECK_DEADLOCK FALSE
