CONSTANTS
  LitMax = 4096
INIT Init
NEXT Next
INVARIANTS NoPayloadAfterRefusal RefusalIsLocal EndsUsable
PROPERTIES PayloadOnlyAfterGrant
CHECK_DEADLOCK FALSE
