------------------------------- MODULE Utf7 -------------------------------
(***************************************************************************)
(* Modified UTF-7 of RFC 3501 section 5.1.3 as used by go-imap             *)
(* (internal/utf7) for mailbox names.  Property C16.                       *)
(*                                                                         *)
(* Part 1 - reference functions.  Strings are sequences of integers: code  *)
(* points (Unicode scalar values) on the decoded side, bytes on the        *)
(* encoded side.  UTF-16, UTF-8, bit packing and the modified base64       *)
(* alphabet are arithmetic (div and mod).                                    *)
(*   Encode(s)      the modified UTF-7 form of s: printable ASCII stands   *)
(*                  for itself, "&" is "&-", every MAXIMAL run of other    *)
(*                  code points is one "&<base64 of UTF-16BE>-" segment    *)
(*   decoder        three-valued:                                          *)
(*     MustAccept(b)  b is a canonical encoding; Value(b) is its meaning   *)
(*     MustReject(b)  b shows one of the malformed forms the property      *)
(*                    lists (RejectWhy names it)                           *)
(*     otherwise      Unspecified: the property only demands no panic and  *)
(*                    valid UTF-8 output (non-zero discarded bits, "=",    *)
(*                    6 dangling bits after a whole number of units)       *)
(*                                                                         *)
(* Part 2 - the streaming transformer (golang.org/x/text/transform         *)
(* contract) as a state machine: Feed hands the transformer more source    *)
(* bytes / signals EOF, Call(c) is one Transform(dst[:c], src, atEOF) with *)
(* the carried ascii flag, returning nil / ShortSrc / ShortDst / Invalid;  *)
(* a ShortDst without progress forces the caller to grow dst.  Checked:    *)
(* for every schedule the accumulated output and final verdict equal the   *)
(* one-shot result, output only grows, and every schedule terminates.      *)
(***************************************************************************)
EXTENDS Integers, Sequences, FiniteSets, TLC

CONSTANTS CpAlpha,    \* code points used to build encoder inputs
          ByteAlpha,  \* bytes used to build decoder inputs
          EncMax,     \* encoder inputs: all strings over CpAlpha up to this length
          DecMax,     \* decoder inputs: all strings over ByteAlpha up to this length
          TokMax,     \* decoder inputs: concatenations of up to TokMax DecTokens
          Stream,     \* BOOLEAN: run the transformer machine on every input
          Caps,       \* dst capacities a schedule may use
          Chunks      \* numbers of source bytes a Feed may add (99 = all the rest)

AMP  == 38
DASH == 45
EQ   == 61

Printable(c) == c >= 32 /\ c <= 126
AllPrintable(b) == \A i \in 1..Len(b) : Printable(b[i])
IsScalar(c) == c >= 0 /\ c <= 1114111 /\ ~(c >= 55296 /\ c <= 57343)

RECURSIVE Flat(_)
Flat(ss) == IF Len(ss) = 0 THEN <<>> ELSE Head(ss) \o Flat(Tail(ss))
MinOf(S) == CHOOSE x \in S : \A y \in S : x <= y
Drop(s, n) == SubSeq(s, n + 1, Len(s))
IsPrefix(a, b) == Len(a) <= Len(b) /\ SubSeq(b, 1, Len(a)) = a

---------------------------------------------------------------------------
(* UTF-16 and UTF-8 *)

Utf16(cp) == IF cp < 65536 THEN <<cp>>
             ELSE LET v == cp - 65536 IN <<55296 + v \div 1024, 56320 + (v % 1024)>>
Units(s) == Flat([i \in 1..Len(s) |-> Utf16(s[i])])
UnitBytes(us) == Flat([i \in 1..Len(us) |-> <<us[i] \div 256, us[i] % 256>>])

IsHi(u) == u >= 55296 /\ u <= 56319
IsLo(u) == u >= 56320 /\ u <= 57343

\* every high surrogate is followed by a low one, no other low surrogate
RECURSIVE SurrOK(_)
SurrOK(us) == IF Len(us) = 0 THEN TRUE
              ELSE IF IsHi(us[1]) THEN Len(us) >= 2 /\ IsLo(us[2]) /\ SurrOK(Drop(us, 2))
              ELSE IF IsLo(us[1]) THEN FALSE
              ELSE SurrOK(Tail(us))

RECURSIVE CodePoints(_)    \* defined for SurrOK sequences
CodePoints(us) == IF Len(us) = 0 THEN <<>>
                  ELSE IF IsHi(us[1])
                       THEN <<65536 + (us[1] - 55296) * 1024 + (us[2] - 56320)>> \o CodePoints(Drop(us, 2))
                       ELSE <<us[1]>> \o CodePoints(Tail(us))

Utf8(c) == IF c < 128 THEN <<c>>
           ELSE IF c < 2048 THEN <<192 + c \div 64, 128 + (c % 64)>>
           ELSE IF c < 65536 THEN <<224 + c \div 4096, 128 + ((c \div 64) % 64), 128 + (c % 64)>>
           ELSE <<240 + c \div 262144, 128 + ((c \div 4096) % 64), 128 + ((c \div 64) % 64), 128 + (c % 64)>>
Utf8Str(s) == Flat([i \in 1..Len(s) |-> Utf8(s[i])])

RECURSIVE Utf8Dec(_)       \* inverse of Utf8Str on well-formed UTF-8
Utf8Dec(b) ==
  IF Len(b) = 0 THEN <<>>
  ELSE LET h == b[1] IN
    IF h < 128 THEN <<h>> \o Utf8Dec(Tail(b))
    ELSE IF h < 224 THEN <<(h - 192) * 64 + (b[2] - 128)>> \o Utf8Dec(Drop(b, 2))
    ELSE IF h < 240 THEN <<(h - 224) * 4096 + (b[2] - 128) * 64 + (b[3] - 128)>> \o Utf8Dec(Drop(b, 3))
    ELSE <<(h - 240) * 262144 + (b[2] - 128) * 4096 + (b[3] - 128) * 64 + (b[4] - 128)>> \o Utf8Dec(Drop(b, 4))

\* well-formed UTF-8: shortest forms of scalar values only
RECURSIVE Utf8OK(_)
Utf8OK(b) ==
  IF Len(b) = 0 THEN TRUE
  ELSE LET h == b[1]
           n == IF h < 128 THEN 1
                ELSE IF h >= 194 /\ h < 224 THEN 2
                ELSE IF h >= 224 /\ h < 240 THEN 3
                ELSE IF h >= 240 /\ h < 245 THEN 4 ELSE 0
       IN /\ n > 0 /\ Len(b) >= n
          /\ \A i \in 2..n : b[i] >= 128 /\ b[i] < 192
          /\ LET c == Utf8Dec(SubSeq(b, 1, n))[1] IN IsScalar(c) /\ Utf8(c) = SubSeq(b, 1, n)
          /\ Utf8OK(Drop(b, n))

---------------------------------------------------------------------------
(* modified base64: A-Z a-z 0-9 + ,   no padding *)

DigitChar(d) == IF d < 26 THEN 65 + d
                ELSE IF d < 52 THEN 97 + (d - 26)
                ELSE IF d < 62 THEN 48 + (d - 52)
                ELSE IF d = 62 THEN 43 ELSE 44
CharDigit(c) == IF c >= 65 /\ c <= 90 THEN c - 65
                ELSE IF c >= 97 /\ c <= 122 THEN c - 97 + 26
                ELSE IF c >= 48 /\ c <= 57 THEN c - 48 + 52
                ELSE IF c = 43 THEN 62
                ELSE IF c = 44 THEN 63
                ELSE -1

RECURSIVE B64(_)           \* bytes -> 6-bit digits, last digit zero-filled
B64(bs) ==
  IF Len(bs) = 0 THEN <<>>
  ELSE IF Len(bs) = 1 THEN <<bs[1] \div 4, (bs[1] % 4) * 16>>
  ELSE IF Len(bs) = 2 THEN <<bs[1] \div 4, (bs[1] % 4) * 16 + bs[2] \div 16, (bs[2] % 16) * 4>>
  ELSE <<bs[1] \div 4, (bs[1] % 4) * 16 + bs[2] \div 16,
         (bs[2] % 16) * 4 + bs[3] \div 64, bs[3] % 64>> \o B64(Drop(bs, 3))

RECURSIVE D64(_)           \* 6-bit digits -> the whole bytes they contain
D64(ds) ==
  IF Len(ds) < 2 THEN <<>>
  ELSE IF Len(ds) = 2 THEN <<ds[1] * 4 + ds[2] \div 16>>
  ELSE IF Len(ds) = 3 THEN <<ds[1] * 4 + ds[2] \div 16, (ds[2] % 16) * 16 + ds[3] \div 4>>
  ELSE <<ds[1] * 4 + ds[2] \div 16, (ds[2] % 16) * 16 + ds[3] \div 4,
         (ds[3] % 4) * 64 + ds[4]>> \o D64(Drop(ds, 4))

\* value of the bits of the last digit that belong to no whole byte
Leftover(ds) == LET n == Len(ds) IN
                CASE n % 4 = 0 -> 0
                  [] n % 4 = 1 -> ds[n]
                  [] n % 4 = 2 -> ds[n] % 16
                  [] n % 4 = 3 -> ds[n] % 4

FullUnits(bs) == [i \in 1..(Len(bs) \div 2) |-> bs[2 * i - 1] * 256 + bs[2 * i]]

---------------------------------------------------------------------------
(* Encode *)

EncSeg(run) == LET ds == B64(UnitBytes(Units(run))) IN
               <<AMP>> \o [i \in 1..Len(ds) |-> DigitChar(ds[i])] \o <<DASH>>

\* number of leading code points of s that cannot represent themselves
RunLen(s) == LET ps == {i \in 1..Len(s) : Printable(s[i])} IN
             IF ps = {} THEN Len(s) ELSE MinOf(ps) - 1

RECURSIVE Encode(_)
Encode(s) ==
  IF Len(s) = 0 THEN <<>>
  ELSE IF s[1] = AMP THEN <<AMP, DASH>> \o Encode(Tail(s))
  ELSE IF Printable(s[1]) THEN <<s[1]>> \o Encode(Tail(s))
  ELSE LET n == RunLen(s) IN EncSeg(SubSeq(s, 1, n)) \o Encode(Drop(s, n))

---------------------------------------------------------------------------
(* Decoder, three-valued *)

\* tokens: "lit" one byte standing for itself, "amp" = "&-", "seg" = "&body-"
\* with a non-empty body, "open" = "&rest" without a closing "-"
RECURSIVE Toks(_)
Toks(b) ==
  IF Len(b) = 0 THEN <<>>
  ELSE IF b[1] # AMP THEN <<[k |-> "lit", body |-> <<b[1]>>]>> \o Toks(Tail(b))
  ELSE LET ds == {j \in 2..Len(b) : b[j] = DASH} IN
       IF ds = {} THEN <<[k |-> "open", body |-> Tail(b)]>>
       ELSE LET j == MinOf(ds) IN
            <<[k |-> IF j = 2 THEN "amp" ELSE "seg", body |-> SubSeq(b, 2, j - 1)]>>
              \o Toks(Drop(b, j))

SegDigits(body) == [i \in 1..Len(body) |-> CharDigit(body[i])]

\* class of one segment body:
\*   "ok"        canonical: base64 digits only, a whole even number >= 2 of
\*               bytes, units well formed, none printable ASCII, no stray bits
\*   "alphabet"  a byte that is neither a base64 digit nor "="
\*   "empty"     not even one byte ("&A-")
\*   "odd"       odd number of UTF-16 bytes
\*   "hidden"    a unit that is printable ASCII (must stand for itself)
\*   "surrogate" lone or mis-ordered surrogate
\*   "unspec"    "=" present / non-zero discarded bits / six dangling bits
SegClass(body) ==
  LET ds == SegDigits(body)
      bad == {i \in 1..Len(body) : ds[i] = -1}
  IN IF \E i \in bad : body[i] # EQ THEN "alphabet"
     ELSE IF bad # {} THEN "unspec"
     ELSE LET bs == D64(ds)
              us == FullUnits(bs)
          IN IF Len(bs) = 0 THEN "empty"
             ELSE IF Len(bs) % 2 = 1 THEN "odd"
             ELSE IF \E i \in 1..Len(us) : Printable(us[i]) THEN "hidden"
             ELSE IF ~SurrOK(us) THEN "surrogate"
             ELSE IF Leftover(ds) # 0 \/ Len(ds) % 4 = 1 THEN "unspec"
             ELSE "ok"

RejectClasses == {"alphabet", "empty", "odd", "hidden", "surrogate"}

SegValue(body) == CodePoints(FullUnits(D64(SegDigits(body))))   \* for class "ok"

\* the malformed form b shows, "none" if it shows none of the listed ones
RejectWhy(b) ==
  LET ts == Toks(b)
      segs == {i \in 1..Len(ts) : ts[i].k = "seg"}
      badsegs == {i \in segs : SegClass(ts[i].body) \in RejectClasses}
  IN IF ~AllPrintable(b) THEN "outside"
     ELSE IF \E i \in 1..Len(ts) : ts[i].k = "open" THEN "unterminated"
     ELSE IF \E i \in segs : (i + 1) \in segs THEN "backtoback"
     ELSE IF badsegs # {} THEN SegClass(ts[MinOf(badsegs)].body)
     ELSE "none"

MustReject(b) == RejectWhy(b) # "none"

\* canonical encodings (defined on its own, not as the complement of MustReject)
MustAccept(b) ==
  LET ts == Toks(b) IN
    /\ AllPrintable(b)
    /\ \A i \in 1..Len(ts) : ts[i].k # "open"
    /\ \A i \in 1..Len(ts) : ts[i].k = "seg" => SegClass(ts[i].body) = "ok"
    /\ \A i \in 1..(Len(ts) - 1) : ~(ts[i].k = "seg" /\ ts[i + 1].k = "seg")

TokValue(t) == CASE t.k = "lit" -> t.body
                 [] t.k = "amp" -> <<AMP>>
                 [] t.k = "seg" -> SegValue(t.body)
Value(b) == LET ts == Toks(b) IN Flat([i \in 1..Len(ts) |-> TokValue(ts[i])])   \* for MustAccept(b)

Verdict(b) ==
  IF MustReject(b) THEN [v |-> "reject", why |-> RejectWhy(b), out |-> <<>>]
  ELSE IF MustAccept(b) THEN [v |-> "accept", why |-> "canonical", out |-> Value(b)]
  ELSE [v |-> "unspec", why |-> "unspec", out |-> <<>>]

---------------------------------------------------------------------------
(* Input spaces of the bounded model *)

StringsUpTo(A, n) == UNION {[1..m -> A] : m \in 0..n}

\* decoder inputs built from whole tokens (longer than the byte enumeration reaches)
DecTokens == <<
  <<97>>,                                      \* a
  <<45>>,                                      \* -
  <<38, 45>>,                                  \* &-
  <<38, 65, 79, 107, 45>>,                     \* &AOk-      U+00E9
  <<38, 73, 75, 119, 45>>,                     \* &IKw-      U+20AC
  <<38, 50, 68, 51, 101, 65, 65, 45>>,         \* &2D3eAA-   U+1F600
  <<38, 65, 79, 107, 103, 114, 65, 45>>,       \* &AOkgrA-   U+00E9 U+20AC
  <<38, 65, 71, 69, 45>>,                      \* &AGE-      hidden "a"
  <<38, 50, 68, 48, 45>>,                      \* &2D0-      lone high surrogate
  <<38, 51, 103, 68, 89, 80, 81, 45>>,         \* &3gDYPQ-   low then high surrogate
  <<38, 65, 79, 107, 65, 45>>,                 \* &AOkA-     three bytes (odd)
  <<38, 65, 45>>,                              \* &A-        no whole byte
  <<38, 65, 79, 108, 45>>,                     \* &AOl-      non-zero discarded bits
  <<38, 65, 79, 107, 61, 45>>,                 \* &AOk=-     padding
  <<38, 65, 79, 33, 107, 45>>,                 \* &AO!k-     not a base64 digit
  <<38, 65, 79, 107>>,                         \* &AOk       unterminated
  <<38>>,                                      \* &
  <<128>>,                                     \* byte outside printable ASCII
  <<38, 65, 79, 13, 107, 45>>                  \* &AO<CR>k-
>>

Fams == {"enc", "dec", "dect"}

---------------------------------------------------------------------------
(* Part 2: the streaming transformer *)

VARIABLES phase,   \* "pick" (input being chosen), "fresh" (chosen, nothing called yet), "run"
          fam,     \* input family
          pre,     \* first symbol of the input (code point, byte or token index), <<>> for the empty input
          orig,    \* the input: code points (fam "enc") or bytes
          inp,     \* source bytes of the transformer (UTF-8 of orig for "enc")
          pos,     \* source bytes consumed so far (sum of nSrc)
          win,     \* source bytes handed to the transformer so far (pos <= win)
          eof,     \* atEOF has been signalled
          need,    \* what the caller does next: "src" (Feed), "call", "done"
          grow,    \* 0, or the dst capacity the caller must use next (after ShortDst without progress)
          ascii,   \* decoder: previous token was not a base64 segment (carried across calls)
          out,     \* accumulated output bytes
          st,      \* "run", "ok", "invalid"
          last     \* result class of the last call

vars == <<phase, fam, pre, orig, inp, pos, win, eof, need, grow, ascii, out, st, last>>

IsEnc == fam = "enc"
BigCap == 100000

Res(err, o, n, asc) == [err |-> err, o |-> o, n |-> n, asc |-> asc]

\* one Transform call of the decoder on src with room bytes of dst left
RECURSIVE DecCall(_, _, _, _, _, _)
DecCall(src, atEOF, room, asc, o, n) ==
  IF Len(src) = 0 THEN Res("nil", o, n, asc \/ atEOF)
  ELSE LET c == src[1] IN
    IF ~Printable(c) THEN Res("invalid", o, n, asc)
    ELSE IF c # AMP THEN
      IF room < 1 THEN Res("shortdst", o, n, asc)
      ELSE DecCall(Tail(src), atEOF, room - 1, TRUE, Append(o, c), n + 1)
    ELSE
      LET ds == {j \in 2..Len(src) : src[j] = DASH}
          stop == IF ds = {} THEN Len(src) + 1 ELSE MinOf(ds)
      IN IF \E j \in 2..(stop - 1) : ~Printable(src[j]) THEN Res("invalid", o, n, asc)
         ELSE IF ds = {} THEN Res(IF atEOF THEN "invalid" ELSE "shortsrc", o, n, asc)
         ELSE IF stop = 2 THEN
           IF room < 1 THEN Res("shortdst", o, n, asc)
           ELSE DecCall(Drop(src, 2), atEOF, room - 1, TRUE, Append(o, AMP), n + 2)
         ELSE LET body == SubSeq(src, 2, stop - 1) IN
           IF ~asc THEN Res("invalid", o, n, asc)                 \* back-to-back shifts
           ELSE IF SegClass(body) # "ok" THEN Res("invalid", o, n, asc)
           ELSE LET b == Utf8Str(SegValue(body)) IN
             IF Len(b) > room THEN Res("shortdst", o, n, TRUE)    \* segment not consumed: flag stays TRUE
             ELSE DecCall(Drop(src, stop), atEOF, room - Len(b), FALSE, o \o b, n + stop)

\* one Transform call of the encoder (src is well-formed UTF-8, possibly cut mid-character)
RECURSIVE EncCall(_, _, _, _, _)
EncCall(src, atEOF, room, o, n) ==
  IF Len(src) = 0 THEN Res("nil", o, n, TRUE)
  ELSE LET c == src[1] IN
    IF Printable(c) THEN
      LET b == IF c = AMP THEN <<AMP, DASH>> ELSE <<c>> IN
        IF Len(b) > room THEN Res("shortdst", o, n, TRUE)
        ELSE EncCall(Tail(src), atEOF, room - Len(b), o \o b, n + 1)
    ELSE
      LET ps == {j \in 1..Len(src) : Printable(src[j])}
          k == IF ps = {} THEN Len(src) ELSE MinOf(ps) - 1
      IN IF ps = {} /\ ~atEOF THEN Res("shortsrc", o, n, TRUE)    \* the run may go on
         ELSE LET b == EncSeg(Utf8Dec(SubSeq(src, 1, k))) IN
           IF Len(b) > room THEN Res("shortdst", o, n, TRUE)
           ELSE EncCall(Drop(src, k), atEOF, room - Len(b), o \o b, n + k)

OneShot == IF IsEnc THEN EncCall(inp, TRUE, BigCap, <<>>, 0)
           ELSE DecCall(inp, TRUE, BigCap, TRUE, <<>>, 0)

Init ==
  /\ phase = "pick" /\ fam \in Fams
  /\ pre \in {<<>>} \cup {<<x>> : x \in (CASE fam = "enc" -> (IF EncMax > 0 THEN CpAlpha ELSE {})
                                          [] fam = "dec" -> (IF DecMax > 0 THEN ByteAlpha ELSE {})
                                          [] fam = "dect" -> (IF TokMax > 0 THEN 1..Len(DecTokens) ELSE {}))}
  /\ orig = <<>> /\ inp = <<>> /\ pos = 0 /\ win = 0 /\ eof = FALSE /\ need = "src"
  /\ grow = 0 /\ ascii = TRUE /\ out = <<>> /\ st = "run" /\ last = "none"

\* the inputs that start with pre
Tails == IF pre = <<>> THEN {<<>>}
         ELSE CASE fam = "enc"  -> StringsUpTo(CpAlpha, EncMax - 1)
                [] fam = "dec"  -> StringsUpTo(ByteAlpha, DecMax - 1)
                [] fam = "dect" -> StringsUpTo(1..Len(DecTokens), TokMax - 1)

InputOf(tail) == LET x == pre \o tail IN
                 IF fam = "dect" THEN Flat([i \in 1..Len(x) |-> DecTokens[x[i]]]) ELSE x

Pick(tail) ==
  /\ phase = "pick"
  /\ phase' = "fresh"
  /\ orig' = InputOf(tail)
  /\ inp' = IF IsEnc THEN Utf8Str(orig') ELSE orig'
  /\ UNCHANGED <<fam, pre, pos, win, eof, need, grow, ascii, out, st, last>>

\* the caller makes k more source bytes visible; e: EOF is signalled together with the last bytes
Feed(k, e) ==
  /\ Stream /\ phase # "pick" /\ st = "run" /\ need = "src"
  /\ ~eof
  /\ IF win < Len(inp)
       THEN /\ win' = IF win + k > Len(inp) THEN Len(inp) ELSE win + k
            /\ eof' = (win' = Len(inp) /\ e)
       ELSE /\ win' = win /\ eof' = TRUE
  /\ need' = "call" /\ phase' = "run"
  /\ UNCHANGED <<fam, pre, orig, inp, pos, grow, ascii, out, st, last>>

\* one Transform(dst[:c], inp[pos+1..win], eof)
Call(c) ==
  /\ Stream /\ phase = "run" /\ st = "run" /\ need = "call"
  /\ grow = 0 \/ c = grow
  /\ LET src == SubSeq(inp, pos + 1, win)
         r == IF IsEnc THEN EncCall(src, eof, c, <<>>, 0) ELSE DecCall(src, eof, c, ascii, <<>>, 0)
     IN /\ out' = out \o r.o
        /\ pos' = pos + r.n
        /\ ascii' = r.asc
        /\ last' = r.err
        /\ st' = IF r.err = "invalid" THEN "invalid"
                 ELSE IF r.err = "nil" /\ eof THEN "ok" ELSE "run"
        /\ need' = IF st' # "run" THEN "done"
                   ELSE IF r.err = "shortdst" THEN "call" ELSE "src"
        /\ grow' = IF r.err = "shortdst" /\ r.n = 0 /\ Len(r.o) = 0 THEN 2 * c ELSE 0
  /\ UNCHANGED <<phase, fam, pre, orig, inp, win, eof>>

Done == phase # "pick" /\ (st # "run" \/ ~Stream) /\ UNCHANGED vars

Next ==
  \/ phase = "pick" /\ \E tail \in Tails : Pick(tail)
  \/ \E k \in Chunks, e \in BOOLEAN : Feed(k, e)
  \/ \E c \in Caps \cup {grow} : c > 0 /\ Call(c)
  \/ Done

Spec == Init /\ [][Next]_vars

---------------------------------------------------------------------------
(* Properties of the reference functions, evaluated once per input *)

Fresh == phase = "fresh"

\* losslessness: the encoding is printable ASCII, canonical, and means the original
RoundTrip ==
  (Fresh /\ IsEnc) =>
     LET e == Encode(orig) IN
       /\ AllPrintable(e)
       /\ MustAccept(e) /\ ~MustReject(e)
       /\ Value(e) = orig
       /\ \A i \in 1..Len(orig) : IsScalar(orig[i])

\* the two decided verdicts never overlap, and MustAccept holds of nothing but
\* encodings (so accepting them is demanded by losslessness alone)
VerdictsDisjoint ==
  (Fresh /\ ~IsEnc) =>
     /\ ~(MustAccept(inp) /\ MustReject(inp))
     /\ MustAccept(inp) => Encode(Value(inp)) = inp

\* the design of the transformer agrees with the reference functions
OneShotAgrees ==
  Fresh =>
    LET r == OneShot IN
      IF IsEnc THEN r.err = "nil" /\ r.o = Encode(orig) /\ r.n = Len(inp)
      ELSE LET v == Verdict(inp) IN
        /\ v.v = "accept" => r.err = "nil" /\ r.o = Utf8Str(v.out) /\ r.n = Len(inp)
        /\ v.v = "reject" => r.err = "invalid"
        /\ Utf8OK(r.o)                    \* whatever was output before a rejection is valid UTF-8

(* Properties of the machine *)

TypeOK ==
  /\ phase \in {"pick", "fresh", "run"} /\ fam \in Fams
  /\ pos \in 0..Len(inp) /\ win \in pos..Len(inp)
  /\ eof \in BOOLEAN /\ ascii \in BOOLEAN
  /\ need \in {"src", "call", "done"}
  /\ st \in {"run", "ok", "invalid"}
  /\ last \in {"none", "nil", "shortsrc", "shortdst", "invalid"}
  /\ eof => win = Len(inp)

\* x/text contract: nil means everything handed over was consumed, more source
\* is never asked for after EOF, dst never has to grow beyond the largest token
Contract ==
  /\ (st = "run" /\ need = "src") => ~eof
  /\ (last = "nil" /\ need # "call") => pos = win
  /\ grow <= 256

\* every schedule ends like the one-shot call
ScheduleIndependent ==
  st # "run" =>
    LET r == OneShot IN
      /\ out = r.o
      /\ (st = "ok") = (r.err = "nil")
      /\ st = "ok" => pos = Len(inp)

OutputOnlyGrows == [][IsPrefix(out, out')]_vars

Measure == (Len(inp) - pos) * 100000 + (Len(inp) - win) * 2000
           + (IF eof THEN 0 ELSE 1000)
           + (CASE need = "call" -> 600 [] need = "src" -> 300 [] need = "done" -> 0)
           + (256 - grow)
Terminates == [][phase # "pick" => (Measure' < Measure /\ Measure' >= 0)]_vars
=============================================================================
