CONSTANTS
  Max = 8
  Gaps = {6}
INIT Init
NEXT Next
INVARIANTS TypeOK CanonicalForm MembershipIsUnion OneOfTheCanonicalLists ContainsAgrees DynamicIffStar RoundTrip NumsExact
CHECK_DEADLOCK FALSE
