CONSTANTS
  Names <- NamesDeep
  Conns = 2
  CatIds = {1, 2, 3, 4, 5}
  MaxMsgs = 100000
  MaxUid = 100000
  MaxCreates = 100000
  Family = "all"
  Level = 2
INIT TraceInit
NEXT TraceNext
INVARIANTS TypeOK UidsAscending UidValidityDistinct
PROPERTIES UidsNeverReused UidValidityFresh AppendUidExact CopyUidExact StoreExact RemovalExact QueriesPure
POSTCONDITION TraceAccepted
CHECK_DEADLOCK FALSE
