CONSTANTS
  MaxCmds = 14
  MaxPending = 3
  MaxNum = 6
  MaxItems = 3
  MaxUid = 4
  MaxCode = 3
  NFlagSets = 2
  SyncLit = FALSE
  Kinds = {"AUTHENTICATE", "LOGIN", "DELETE", "RENAME", "SUBSCRIBE", "UNSUBSCRIBE", "SETQUOTA", "SETMETADATA", "UNAUTH"}
  Greetings = {"OK"}
  SimDepth = 60
  Count = FALSE
  MaxDepth = 0
INIT GenInit
NEXT GenNext
CHECK_DEADLOCK FALSE
