----------------------------- MODULE ServerConn -----------------------------
(***************************************************************************)
(* Protocol layer of an imapserver connection (imapserver/conn.go and the  *)
(* per-command handlers): RFC 9051 connection state machine, gating of the *)
(* backend (Session) calls, authentication gating, capability             *)
(* advertisement.  Properties C05 (and the auth half of C17).              *)
(*                                                                         *)
(* The backend is an oracle: every Session call either succeeds or fails;  *)
(* `f` (index of the call that fails, 0 = none) is a parameter of each     *)
(* command action.  One action per command of the dispatch switch in       *)
(* conn.go (readCommand), each in a well-formed ("good") and a             *)
(* syntactically broken ("bad") variant.  Multi-call commands are explicit:*)
(*   SELECT while selected = Unselect, Select                              *)
(*   CLOSE                 = Expunge, Unselect                             *)
(*   AUTHENTICATE PLAIN    = SASL exchange, Login                          *)
(* `calls` and `out` describe the LAST step only (observation).            *)
(***************************************************************************)
EXTENDS Naturals, Sequences, FiniteSets, TLC

CONSTANT Configs   \* set of configuration records the model is checked for

\* The configuration is chosen in Init and never changes (one TLC run covers the
\* whole configuration product):
\*   TLS          connection is TLS from the start (implicit TLS)
\*   InsecureAuth Options.InsecureAuth
\*   PreAuth      greeting is PREAUTH
\*   HasTLSConfig Options.TLSConfig # nil (STARTTLS possible)
\*   CapMove / CapNamespace / CapUnauth: capability advertised and session implements it
\*   Sasl         the session brings its own SASL mechanisms (SessionSASL: PLAIN and XTEST); AUTHENTICATE then
\*                reaches the backend through Authenticate(mech) instead of Login
VARIABLE cfg
TLS == cfg.TLS
InsecureAuth == cfg.InsecureAuth
PreAuth == cfg.PreAuth
HasTLSConfig == cfg.HasTLSConfig
CapMove == cfg.CapMove
CapNamespace == cfg.CapNamespace
CapUnauth == cfg.CapUnauth
Sasl == cfg.Sasl

AllConfigs == {c \in [TLS : BOOLEAN, InsecureAuth : BOOLEAN, PreAuth : BOOLEAN, HasTLSConfig : BOOLEAN,
                       CapMove : BOOLEAN, CapNamespace : BOOLEAN, CapUnauth : BOOLEAN, Sasl : BOOLEAN] :
                 \* (the SASL session of the harness implements all optional interfaces or none)
                 c.Sasl => (c.CapMove = c.CapNamespace /\ c.CapNamespace = c.CapUnauth)}
\* the product named by the property, optional capabilities all on or all off
CoreConfigs == {c \in AllConfigs : c.CapMove = c.CapNamespace /\ c.CapNamespace = c.CapUnauth /\ c.Sasl = c.CapMove}

VARIABLES state,     \* "notauth" | "auth" | "selected" | "logout"
          tls,       \* BOOLEAN: the transport is encrypted now
          enabled,   \* subset of {"IMAP4rev2","UTF8=ACCEPT"}
          closed,    \* BOOLEAN: server closed the connection
          calls,     \* Seq([m: method, st: state when invoked]) of the last step
          out        \* observation record of the last step

vars == <<cfg, state, tls, enabled, closed, calls, out>>

States == {"notauth", "auth", "selected", "logout"}

\* ------------------------------------------------------------ command table
NoArgCmds  == {"NOOP", "CHECK", "LOGOUT", "CAPABILITY", "STARTTLS", "UNAUTHENTICATE",
               "NAMESPACE", "IDLE", "CLOSE", "UNSELECT", "EXPUNGE"}
AnyState   == {"NOOP", "CHECK", "LOGOUT", "CAPABILITY"}
\* "STARTTLS-PIPED": the STARTTLS line with further commands (LOGIN, SELECT, ...) appended in the same
\* segment, i.e. plaintext that reaches the server before the TLS handshake (C17 / RFC 3207 section 6)
\* "STARTTLS-GARBAGE": STARTTLS answered OK, then - instead of a TLS handshake - octets that are no TLS record, and
\* more plaintext commands: the upgrade has failed, the connection is over, nothing of it is executed
\* "AUTHENTICATE-X": AUTHENTICATE with a mechanism other than PLAIN (XTEST) and an initial response
\* "AUTHENTICATE-CONT": AUTHENTICATE PLAIN without initial response; the credentials follow the continuation request
NotAuthCmds == {"STARTTLS", "STARTTLS-PIPED", "STARTTLS-GARBAGE", "LOGIN", "AUTHENTICATE", "AUTHENTICATE-CANCEL", "AUTHENTICATE-X", "AUTHENTICATE-CONT"}
AuthCmds   == {"ENABLE", "CREATE", "DELETE", "RENAME", "SUBSCRIBE", "UNSUBSCRIBE", "STATUS",
               "LIST", "LSUB", "NAMESPACE", "IDLE", "SELECT", "EXAMINE", "APPEND",
               "UNAUTHENTICATE"}
SelCmds    == {"CLOSE", "UNSELECT", "EXPUNGE", "UID EXPUNGE", "FETCH", "UID FETCH",
               "STORE", "UID STORE", "COPY", "UID COPY", "MOVE", "UID MOVE",
               "SEARCH", "UID SEARCH"}
Cmds == AnyState \cup NotAuthCmds \cup AuthCmds \cup SelCmds \cup {"XUNKNOWN"}

\* one representative per command family (used for depth-bounded enumeration)
FamilyCmds == {"NOOP", "LOGOUT", "STARTTLS", "STARTTLS-PIPED", "STARTTLS-GARBAGE", "LOGIN", "AUTHENTICATE-CANCEL", "AUTHENTICATE-X", "AUTHENTICATE-CONT", "UNAUTHENTICATE",
               "ENABLE", "STATUS", "IDLE", "SELECT", "APPEND", "CLOSE", "UNSELECT", "UID FETCH",
               "MOVE", "XUNKNOWN"}

\* Is command c permitted by RFC 9051 in connection state st?
StateOK(c, st) ==
  \/ c \in AnyState /\ st # "logout"
  \/ c \in NotAuthCmds /\ st = "notauth"
  \/ c \in AuthCmds /\ st \in {"auth", "selected"}
  \/ c \in SelCmds /\ st = "selected"

\* Session method a single-call command invokes.
Method(c) ==
  CASE c \in {"CREATE"} -> "Create" [] c = "DELETE" -> "Delete" [] c = "RENAME" -> "Rename"
    [] c = "SUBSCRIBE" -> "Subscribe" [] c = "UNSUBSCRIBE" -> "Unsubscribe"
    [] c = "STATUS" -> "Status" [] c \in {"LIST", "LSUB"} -> "List"
    [] c = "NAMESPACE" -> "Namespace" [] c = "IDLE" -> "Idle" [] c = "APPEND" -> "Append"
    [] c = "UNAUTHENTICATE" -> "Unauthenticate"
    [] c \in {"LOGIN", "AUTHENTICATE"} -> "Login"
    [] c = "UNSELECT" -> "Unselect"
    [] c \in {"EXPUNGE", "UID EXPUNGE"} -> "Expunge"
    [] c \in {"FETCH", "UID FETCH"} -> "Fetch" [] c \in {"STORE", "UID STORE"} -> "Store"
    [] c \in {"COPY", "UID COPY"} -> "Copy" [] c \in {"MOVE", "UID MOVE"} -> "Move"
    [] c \in {"SEARCH", "UID SEARCH"} -> "Search"
    [] OTHER -> "none"

\* RFC 9051 section 6: in which states may a backend operation be reached?
Permitted(m, st) ==
  CASE m \in {"Login", "Authenticate"} -> st = "notauth"
    [] m \in {"Create", "Delete", "Rename", "Subscribe", "Unsubscribe", "Status", "List",
              "Namespace", "Idle", "Append", "Select", "Unauthenticate"} -> st \in {"auth", "selected"}
    [] m \in {"Unselect", "Expunge", "Fetch", "Store", "Copy", "Move", "Search"} -> st = "selected"
    [] OTHER -> FALSE

CanAuth == state = "notauth" /\ (tls \/ InsecureAuth)
CanStartTLS == HasTLSConfig /\ state = "notauth" /\ ~tls

\* Capability advertisement that depends on the state (capability.go).
CapsOf(st, t) ==
  [auth     |-> st = "notauth" /\ (t \/ InsecureAuth),            \* AUTH=PLAIN
   logindis |-> st = "notauth" /\ ~(t \/ InsecureAuth),           \* LOGINDISABLED
   starttls |-> HasTLSConfig /\ st = "notauth" /\ ~t,             \* STARTTLS
   idle     |-> st \in {"auth", "selected"}]                      \* IDLE, ENABLE, ... (post-auth block)

\* ------------------------------------------------------------- observation
Out(tagged, bye, cont, recent) ==
  [tagged |-> tagged, bye |-> bye, cont |-> cont, recent |-> recent]

OK == "OK"
NOTOK == "NOTOK"

Call(m) == [m |-> m, st |-> state]

\* Result of a step: new state etc.  All command actions funnel through this.
Result(st2, tls2, en2, cl2, cs, o) ==
  /\ cfg' = cfg
  /\ state' = st2 /\ tls' = tls2 /\ enabled' = en2 /\ closed' = cl2
  /\ calls' = cs /\ out' = o

Refuse == Result(state, tls, enabled, closed, <<>>, Out(NOTOK, FALSE, 0, FALSE))

Init ==
  /\ cfg \in Configs
  /\ state = IF PreAuth THEN "auth" ELSE "notauth"
  /\ tls = TLS /\ enabled = {} /\ closed = FALSE
  /\ calls = <<>> /\ out = Out(OK, FALSE, 0, FALSE)

Alive == ~closed /\ state # "logout"

\* A syntactically broken command: tagged BAD, nothing else happens.
BadSyntax(c) == Alive /\ c \notin {"XUNKNOWN", "STARTTLS-PIPED", "STARTTLS-GARBAGE"} /\ Refuse

\* One-call commands: f = 1 makes the backend call fail.
Simple(c, f) ==
  /\ Alive /\ f \in 0..1
  /\ c \in {"CREATE", "DELETE", "RENAME", "SUBSCRIBE", "UNSUBSCRIBE", "STATUS", "LIST", "LSUB",
            "APPEND", "EXPUNGE", "UID EXPUNGE", "FETCH", "UID FETCH", "STORE", "UID STORE",
            "COPY", "UID COPY", "SEARCH", "UID SEARCH", "UNSELECT"}
  /\ IF ~StateOK(c, state) THEN Refuse
     ELSE Result(IF c = "UNSELECT" /\ f = 0 THEN "auth" ELSE state, tls, enabled, closed,
                 <<Call(Method(c))>>, Out(IF f = 0 THEN OK ELSE NOTOK, FALSE, 0, FALSE))

\* Commands that need an optional interface of the session.
Optional(c, f) ==
  /\ Alive /\ f \in 0..1
  /\ c \in {"MOVE", "UID MOVE", "NAMESPACE"}
  /\ LET has == IF c = "NAMESPACE" THEN CapNamespace ELSE CapMove IN
     IF ~StateOK(c, state) \/ ~has THEN Refuse
     ELSE Result(state, tls, enabled, closed, <<Call(Method(c))>>,
                 Out(IF f = 0 THEN OK ELSE NOTOK, FALSE, 0, FALSE))

Trivial(c) ==
  /\ Alive /\ c \in {"NOOP", "CHECK", "CAPABILITY"}
  /\ Result(state, tls, enabled, closed, <<>>, Out(OK, FALSE, 0, FALSE))

Logout ==
  /\ Alive
  /\ Result("logout", tls, enabled, TRUE, <<>>, Out(OK, TRUE, 0, FALSE))

\* Unknown command: BAD; before authentication additionally BYE + close.
Unknown ==
  /\ Alive
  /\ IF state = "notauth"
     THEN Result("logout", tls, enabled, TRUE, <<>>, Out(NOTOK, TRUE, 0, FALSE))
     ELSE Refuse

StartTLS ==
  /\ Alive
  /\ IF CanStartTLS
     THEN Result(state, TRUE, enabled, closed, <<>>, Out(OK, FALSE, 0, FALSE))
     ELSE Refuse

\* STARTTLS accepted with plaintext already behind it: the server answers OK and hands the transport to
\* TLS; the plaintext can only be consumed by the handshake, which it breaks - the connection ends, the
\* commands in it are never executed (no backend call, no answer), the transport was never protected.
\* (Only modelled where STARTTLS is accepted: a refused STARTTLS is an ordinary command boundary.)
StartTLSPiped ==
  /\ Alive /\ CanStartTLS
  /\ Result("logout", tls, enabled, TRUE, <<>>, Out(OK, FALSE, 0, FALSE))

\* LOGIN u p   and   AUTHENTICATE PLAIN <initial response>
\* (a session with its own SASL mechanisms is asked through Authenticate, any other through Login)
AuthMethod(c) == IF c = "LOGIN" \/ ~Sasl THEN "Login" ELSE "Authenticate"
Login(c, f) ==
  /\ Alive /\ f \in 0..1 /\ c \in {"LOGIN", "AUTHENTICATE"}
  /\ IF ~CanAuth THEN Refuse
     ELSE Result(IF f = 0 THEN "auth" ELSE state, tls, enabled, closed, <<Call(AuthMethod(c))>>,
                 Out(IF f = 0 THEN OK ELSE NOTOK, FALSE, 0, FALSE))

\* AUTHENTICATE XTEST <initial response>: only a session with its own mechanisms knows it; the willingness to
\* authenticate at all does not depend on the mechanism
AuthX(f) ==
  /\ Alive /\ f \in 0..1
  /\ IF ~CanAuth \/ ~Sasl THEN Refuse
     ELSE Result(IF f = 0 THEN "auth" ELSE state, tls, enabled, closed, <<Call("Authenticate")>>,
                 Out(IF f = 0 THEN OK ELSE NOTOK, FALSE, 0, FALSE))

\* AUTHENTICATE PLAIN without initial response, the client answers the continuation request with its credentials:
\* whether they are accepted is the backend's decision, exactly as with an initial response
AuthCont(f) ==
  /\ Alive /\ f \in 0..1
  /\ IF ~CanAuth THEN Refuse
     ELSE IF ~Sasl THEN Result(IF f = 0 THEN "auth" ELSE state, tls, enabled, closed, <<Call("Login")>>,
                               Out(IF f = 0 THEN OK ELSE NOTOK, FALSE, 1, FALSE))
     \* a session with its own mechanisms is asked for the mechanism first (no continuation request if it refuses)
     ELSE Result(IF f = 0 THEN "auth" ELSE state, tls, enabled, closed, <<Call("Authenticate")>>,
                 Out(IF f = 0 THEN OK ELSE NOTOK, FALSE, IF f = 0 THEN 1 ELSE 0, FALSE))

\* AUTHENTICATE PLAIN without initial response, client cancels with "*":
\* a continuation request is sent only if the server is willing to authenticate (and, with a session that has
\* its own mechanisms, once that session has accepted the mechanism).
AuthCancel(f) ==
  /\ Alive /\ f \in 0..1
  /\ IF ~CanAuth THEN Refuse
     ELSE IF ~Sasl THEN f = 0 /\ Result(state, tls, enabled, closed, <<>>, Out(NOTOK, FALSE, 1, FALSE))
     ELSE Result(state, tls, enabled, closed, <<Call("Authenticate")>>, Out(NOTOK, FALSE, IF f = 0 THEN 1 ELSE 0, FALSE))

Unauthenticate(f) ==
  /\ Alive /\ f \in 0..1
  /\ IF ~StateOK("UNAUTHENTICATE", state) \/ ~CapUnauth THEN Refuse
     ELSE Result(IF f = 0 THEN "notauth" ELSE state, tls, IF f = 0 THEN {} ELSE enabled, closed,
                 <<Call("Unauthenticate")>>, Out(IF f = 0 THEN OK ELSE NOTOK, FALSE, 0, FALSE))

Enable(cap) ==
  /\ Alive /\ cap \in {"IMAP4rev2", "UTF8=ACCEPT", "XOTHER"}
  /\ IF ~StateOK("ENABLE", state) THEN Refuse
     ELSE Result(state, tls, IF cap = "XOTHER" THEN enabled ELSE enabled \cup {cap}, closed, <<>>,
                 Out(OK, FALSE, 0, FALSE))

\* IDLE ... DONE: one continuation request, the session's Idle runs in between.
Idle(f) ==
  /\ Alive /\ f \in 0..1
  /\ IF ~StateOK("IDLE", state) THEN Refuse
     ELSE Result(state, tls, enabled, closed, <<Call("Idle")>>,
                 Out(IF f = 0 THEN OK ELSE NOTOK, FALSE, 1, FALSE))

\* SELECT / EXAMINE.  From the selected state the current mailbox is closed first.
\* f = index of the failing call (0 none).
Select(c, f) ==
  /\ Alive /\ c \in {"SELECT", "EXAMINE"}
  /\ IF ~StateOK(c, state) THEN f = 0 /\ Refuse
     ELSE IF state = "selected"
     THEN /\ f \in 0..2
          /\ CASE f = 1 -> Result("selected", tls, enabled, closed, <<Call("Unselect")>>,
                                  Out(NOTOK, FALSE, 0, FALSE))
               [] f = 2 -> Result("auth", tls, enabled, closed,
                                  <<Call("Unselect"), [m |-> "Select", st |-> "auth"]>>,
                                  Out(NOTOK, FALSE, 0, FALSE))
               [] OTHER -> Result("selected", tls, enabled, closed,
                                  <<Call("Unselect"), [m |-> "Select", st |-> "auth"]>>,
                                  Out(OK, FALSE, 0, "IMAP4rev2" \notin enabled))
     ELSE /\ f \in 0..1
          /\ IF f = 1 THEN Result("auth", tls, enabled, closed, <<Call("Select")>>,
                                  Out(NOTOK, FALSE, 0, FALSE))
             ELSE Result("selected", tls, enabled, closed, <<Call("Select")>>,
                         Out(OK, FALSE, 0, "IMAP4rev2" \notin enabled))

\* CLOSE = Expunge then Unselect.
Close(f) ==
  /\ Alive /\ f \in 0..2
  /\ IF ~StateOK("CLOSE", state) THEN f = 0 /\ Refuse
     ELSE CASE f = 1 -> Result("selected", tls, enabled, closed, <<Call("Expunge")>>,
                               Out(NOTOK, FALSE, 0, FALSE))
            [] f = 2 -> Result("selected", tls, enabled, closed,
                               <<Call("Expunge"), Call("Unselect")>>, Out(NOTOK, FALSE, 0, FALSE))
            [] OTHER -> Result("auth", tls, enabled, closed,
                               <<Call("Expunge"), Call("Unselect")>>, Out(OK, FALSE, 0, FALSE))

\* Dispatch of a well-formed command c with failure index f.
Good(c, f) ==
  \/ Simple(c, f)
  \/ Optional(c, f)
  \/ f = 0 /\ Trivial(c)
  \/ f = 0 /\ c = "LOGOUT" /\ Logout
  \/ f = 0 /\ c = "XUNKNOWN" /\ Unknown
  \/ f = 0 /\ c = "STARTTLS" /\ StartTLS
  \/ f = 0 /\ c \in {"STARTTLS-PIPED", "STARTTLS-GARBAGE"} /\ StartTLSPiped
  \/ Login(c, f)
  \/ c = "AUTHENTICATE-CANCEL" /\ AuthCancel(f)
  \/ c = "AUTHENTICATE-X" /\ AuthX(f)
  \/ c = "AUTHENTICATE-CONT" /\ AuthCont(f)
  \/ c = "UNAUTHENTICATE" /\ Unauthenticate(f)
  \/ f = 0 /\ c = "ENABLE" /\ Enable("IMAP4rev2")
  \/ c = "IDLE" /\ Idle(f)
  \/ Select(c, f)
  \/ c = "CLOSE" /\ Close(f)

Next ==
  \/ \E c \in Cmds, f \in 0..2 : Good(c, f)
  \/ \E c \in Cmds : BadSyntax(c)

Spec == Init /\ [][Next]_vars

\* ----------------------------------------------------------- properties (C05)
TypeOK == state \in States /\ tls \in BOOLEAN /\ closed \in BOOLEAN

\* The backend is reached only in states in which RFC 9051 permits the operation.
BackendOnlyWhenPermitted ==
  \A i \in 1..Len(calls) : Permitted(calls[i].m, calls[i].st)

\* Credentials reach the backend only over TLS unless InsecureAuth.
CredentialsOnlyWhenSecure ==
  \A i \in 1..Len(calls) : calls[i].m \in {"Login", "Authenticate"} => (tls \/ InsecureAuth)

\* RFC 9051 section 3 state diagram.
RFCEdges ==
  {<<"notauth", "auth">>, <<"notauth", "logout">>,
   <<"auth", "selected">>, <<"auth", "logout">>, <<"auth", "notauth">>,
   <<"selected", "auth">>, <<"selected", "logout">>, <<"selected", "notauth">>,
   <<"selected", "selected">>}
FollowsDiagram == [][state' # state => <<state, state'>> \in RFCEdges]_vars

LogoutIsFinal == [][state = "logout" => FALSE]_vars
ClosedIffLogout == closed <=> state = "logout"
TLSNeverDowngrades == [][tls => tls']_vars
NothingEnabledBeforeAuth == state = "notauth" => enabled = {}
=============================================================================
