---------------------------- MODULE IdleNotifyGen ----------------------------
(* Scenario generator for IdleNotify: one line per (behaviour of the idling  *)
(* client, size class of the burst) with what the specification says must be *)
(* observed.  The harness runs each scenario on a real server (in-memory      *)
(* backend) with bursts scaled to the real channel capacity.                  *)
EXTENDS IdleNotify, Json

VARIABLE printed

GenInit == Init /\ printed = FALSE
GenNext == /\ ~printed /\ printed' = TRUE /\ UNCHANGED vars
           /\ PrintT(<<"T", ToJson([client |-> client, cls |-> Class(burst), exp |-> ExpectFor(client)])>>)
=============================================================================
