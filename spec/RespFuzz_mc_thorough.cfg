CONSTANTS
  Stride = 2
  Stride2 = 24
  Seed <- EnvSeed
INIT Init
NEXT Next
INVARIANTS TypeOK Disjoint RouteAgrees BasesDeliver
CHECK_DEADLOCK FALSE
