--------------------------- MODULE SearchAlgTrace ---------------------------
(* Judge: every record written by the harness (what the REAL code returned) *)
(* is re-evaluated against the specification.                               *)
(*                                                                          *)
(*  kind "and":  a, b = the operands as built in Go, r = the receiver after *)
(*               the real a.And(&b), field by field.  Accepted iff          *)
(*               Match(r,m) <=> Match(a,m) /\ Match(b,m) for every m of the *)
(*               universe of {r,a,b}.                                       *)
(*  kind "keys": keys = the key list of a SEARCH command sent on the wire,  *)
(*               ok = the command was accepted and reached Session.Search,  *)
(*               r = the *imap.SearchCriteria the session received.         *)
(*               Accepted iff ok and Match(r,m) <=> all keys match m.       *)
(*                                                                          *)
(* Records are independent, so they are judged in parallel: Init picks a    *)
(* chunk, one Next step picks a record of that chunk.  A rejected record    *)
(* prints <<"BAD", json>> (line number, witness message, fields whose       *)
(* meaning differs from the reference conjunction) and judging continues,   *)
(* so that every rejected record is reported; the postcondition checks that *)
(* all records were judged.                                                 *)
EXTENDS SearchAlg, Json, IOUtils

VARIABLES chunk, l

Trace == ndJsonDeserialize(IOEnv.TRACE_FILE)
NChunks == 64

Ref(rec) == IF rec.kind = "keys" THEN ParseKeys(rec.keys) ELSE AndRef(rec.a, rec.b)
Others(rec) == IF rec.kind = "keys" THEN KeyCriteria(rec.keys) ELSE {rec.a, rec.b}
Want(rec, m) ==
  IF rec.kind = "keys" THEN \A i \in 1..Len(rec.keys) : Match(KeyMeaning(rec.keys[i]), m)
  ELSE Match(rec.a, m) /\ Match(rec.b, m)

Accepted(rec) ==
  /\ rec.ok
  /\ \A m \in Universe({rec.r} \cup Others(rec)) : Match(rec.r, m) <=> Want(rec, m)

\* diagnosis of a rejected record (labels only; the verdict is Accepted)
Only(c, f) == Put(E, f, c[f])
FieldDiffers(x, y, f) ==
  \E m \in Universe({Only(x, f), Only(y, f)}) : Match(Only(x, f), m) # Match(Only(y, f), m)
Diagnosis(i, rec) ==
  IF ~rec.ok THEN [line |-> i, ok |-> FALSE]
  ELSE LET U == Universe({rec.r} \cup Others(rec))
           w == CHOOSE m \in U : Match(rec.r, m) # Want(rec, m)
       IN [line |-> i, ok |-> TRUE, witness |-> w, got |-> Match(rec.r, w), want |-> Want(rec, w),
           diff |-> {f \in Fields : FieldDiffers(rec.r, Ref(rec), f)}, ref |-> Ref(rec)]

Judge(i) ==
  IF Accepted(Trace[i]) THEN TRUE
  ELSE PrintT(<<"BAD", ToJson(Diagnosis(i, Trace[i]))>>)

TraceInit ==
  /\ chunk \in 1..NChunks /\ l = 0
  /\ fam = "trace" /\ ca = E /\ cb = E /\ ks = <<>> /\ done = TRUE

TraceNext ==
  /\ l = 0
  /\ chunk' = chunk
  /\ l' \in {i \in 1..Len(Trace) : i % NChunks = chunk - 1}
  /\ Judge(l')
  /\ UNCHANGED vars

AllJudged ==
  LET st == TLCGet("stats") IN
    IF st.distinct = NChunks + Len(Trace) THEN TRUE
    ELSE PrintT(<<"NOT_ALL_JUDGED", st.distinct, Len(Trace)>>) /\ FALSE
=============================================================================
