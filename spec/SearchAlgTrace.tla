--------------------------- MODULE SearchAlgTrace ---------------------------
(* Judge: every record written by the harness (what the REAL code returned) *)
(* is re-evaluated against the specification.                               *)
(*                                                                          *)
(*  kind "and":  a, b = the operands as built in Go, r = the receiver after *)
(*               the real a.And(&b), field by field.  Accepted iff          *)
(*               Match(r,m) <=> Match(a,m) /\ Match(b,m) for every m of the *)
(*               universe of {r,a,b}.                                       *)
(*  kind "keys": keys = the key list of a SEARCH command sent on the wire,  *)
(*               ok = the command was accepted and reached Session.Search,  *)
(*               r = the *imap.SearchCriteria the session received.         *)
(*               Accepted iff ok and Match(r,m) <=> all keys match m.       *)
(*                                                                          *)
(* Records are independent, so they are judged in parallel: Init picks a    *)
(* chunk, one Next step picks a record of that chunk.  A rejected record    *)
(* prints <<"BAD", json>> (line number, witness message, fields whose       *)
(* meaning differs from the reference conjunction) and judging continues,   *)
(* so that every rejected record is reported; the postcondition checks that *)
(* all records were judged.                                                 *)
EXTENDS SearchAlg, Json, IOUtils

VARIABLES chunk, l

Trace == ndJsonDeserialize(IOEnv.TRACE_FILE)
NChunks == 64

Ref(rec) == IF rec.kind = "keys" THEN ParseKeys(rec.keys) ELSE AndRef(rec.a, rec.b)
Others(rec) == IF rec.kind = "keys" THEN KeyCriteria(rec.keys) ELSE {rec.a, rec.b}
Want(rec, m) ==
  IF rec.kind = "keys" THEN \A i \in 1..Len(rec.keys) : Match(KeyMeaning(rec.keys[i]), m)
  ELSE Match(rec.a, m) /\ Match(rec.b, m)

Accepted(rec) ==
  /\ rec.ok
  /\ \A m \in Universe({rec.r} \cup Others(rec)) : Match(rec.r, m) <=> Want(rec, m)

-----------------------------------------------------------------------------
(* Diagnosis of a rejected record.  Labels only: the verdict is Accepted.   *)
(* diff = paths (field names, list indices as strings) of the fields whose  *)
(* meaning differs from the reference conjunction.                          *)
Only(c, f) == Put(E, f, c[f])
FieldDiffers(x, y, f) ==
  \E m \in Universe({Only(x, f), Only(y, f)}) : Match(Only(x, f), m) # Match(Only(y, f), m)

RECURSIVE DiffPaths(_, _)
DiffPaths(x, y) ==
  LET leaf == {<<f>> : f \in {g \in Fields \ {"not", "or"} : FieldDiffers(x, y, g)}}
      nots == IF ~FieldDiffers(x, y, "not") THEN {}
              ELSE LET sub == IF Len(x.not) # Len(y.not) THEN {}
                              ELSE UNION {{<<"not", ToString(i)>> \o p : p \in DiffPaths(x.not[i], y.not[i])} :
                                          i \in 1..Len(x.not)}
                   IN IF sub = {} THEN {<<"not">>} ELSE sub
      ors  == IF ~FieldDiffers(x, y, "or") THEN {}
              ELSE LET sub == IF Len(x.or) # Len(y.or) THEN {}
                              ELSE UNION {{<<"or", ToString(i), ToString(j)>> \o p :
                                             p \in DiffPaths(x.or[i][j], y.or[i][j])} :
                                          i \in 1..Len(x.or), j \in 1..2}
                   IN IF sub = {} THEN {<<"or">>} ELSE sub
  IN leaf \cup nots \cup ors

(* Model of one known deviation, used only to label rejected records (sig   *)
(* and-drops-smaller): And replaces a set Smaller of the receiver by an     *)
(* unset Smaller of the argument; the SEARCH parser goes through And for    *)
(* date and size keys only and parses a parenthesised list into the         *)
(* criteria under construction.                                             *)
AndDrop(a, b) ==
  [AndRef(a, b) EXCEPT !.smaller = IF a.smaller = 0 \/ b.smaller < a.smaller THEN b.smaller ELSE a.smaller]
ViaAnd == {"SINCE", "BEFORE", "ON", "SENTSINCE", "SENTBEFORE", "SENTON", "LARGER", "SMALLER"}
RECURSIVE Flat(_)
Flat(s) == IF s = <<>> THEN <<>>
           ELSE (IF s[1].k = "LIST" THEN Flat(s[1].sub) ELSE <<s[1]>>) \o Flat(Tail(s))
RECURSIVE MeaningD(_), ParseD(_)
MeaningD(key) ==
  CASE key.k = "NOT" -> [E EXCEPT !.not = <<ParseD(<<key.sub[1]>>)>>]
    [] key.k = "OR" -> [E EXCEPT !.or = <<<<ParseD(<<key.sub[1]>>), ParseD(<<key.sub[2]>>)>>>>]
    [] OTHER -> KeyMeaning(key)
ParseD(s) ==
  LET f == Flat(s) IN
    IF f = <<>> THEN E
    ELSE LET last == f[Len(f)]
             init == ParseD(SubSeq(f, 1, Len(f) - 1))
         IN IF last.k \in ViaAnd THEN AndDrop(init, MeaningD(last)) ELSE AndRef(init, MeaningD(last))
Drop(rec) == IF rec.kind = "keys" THEN ParseD(rec.keys) ELSE AndDrop(rec.a, rec.b)

Diagnosis(i, rec) ==
  IF ~rec.ok THEN [line |-> i, ok |-> FALSE]
  ELSE LET U == Universe({rec.r} \cup Others(rec))
           w == CHOOSE m \in U : Match(rec.r, m) # Want(rec, m)
       IN [line |-> i, ok |-> TRUE, witness |-> w, got |-> Match(rec.r, w), want |-> Want(rec, w),
           diff |-> DiffPaths(rec.r, Ref(rec)), ref |-> Ref(rec), drop |-> Drop(rec)]

Judge(i) ==
  IF Accepted(Trace[i]) THEN TRUE
  ELSE PrintT(<<"BAD", ToJson(Diagnosis(i, Trace[i]))>>)

TraceInit ==
  /\ chunk \in 1..NChunks /\ l = 0
  /\ fam = "trace" /\ ca = E /\ cb = E /\ ks = <<>> /\ done = TRUE

TraceNext ==
  /\ l = 0
  /\ chunk' = chunk
  /\ l' \in {i \in 1..Len(Trace) : i % NChunks = chunk - 1}
  /\ Judge(l')
  /\ UNCHANGED vars

AllJudged ==
  LET st == TLCGet("stats") IN
    IF st.distinct = NChunks + Len(Trace) THEN TRUE
    ELSE PrintT(<<"NOT_ALL_JUDGED", st.distinct, Len(Trace)>>) /\ FALSE
=============================================================================
