CONSTANTS
  Max = 8
  Gaps = {6}
INIT GenInit
NEXT GenNext
VIEW GenView
CHECK_DEADLOCK FALSE
