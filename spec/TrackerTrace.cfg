CONSTANTS
  Sessions = {"s1", "s2", "s3", "s4", "s5", "s6"}
  MaxMsgs = 64
  MaxIds = 100000
  MaxK = 8
  MaxQueue = 100000
INIT TraceInit
NEXT TraceNext
INVARIANTS TypeOK QueueLeadsToMailbox TranslationSound NoDuplicates
PROPERTIES EmitsInQueueOrder NoExpungeWhenDisallowed ViewChangesOnlyByEmission SyncAfterFullPoll
POSTCONDITION TraceAccepted
CHECK_DEADLOCK FALSE
