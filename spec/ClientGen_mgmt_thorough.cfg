CONSTANTS
  MaxCmds = 5
  MaxPending = 3
  MaxNum = 2
  MaxItems = 1
  MaxUid = 1
  MaxCode = 1
  NFlagSets = 2
  SyncLit = FALSE
  Kinds = {"AUTHENTICATE", "LOGIN", "DELETE", "RENAME", "SUBSCRIBE", "UNSUBSCRIBE", "SETQUOTA", "SETMETADATA", "UNAUTH"}
  Greetings = {"OK"}
  SimDepth = 0
  Count = FALSE
  MaxDepth = 0
INIT GenInit
NEXT GenNext
VIEW GenView
CHECK_DEADLOCK FALSE
