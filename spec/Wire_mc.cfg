\* design-level check of the reference codec on the small value space (quick tier: 12 of the
\* 19 alphabet bytes for strings, flags to length 2; Wire_mc_thorough.cfg and both generators
\* use all 19 bytes and flags to length 3 / 4)
CONSTANTS
  StrAlpha = {97, 34, 92, 32, 123, 40, 93, 13, 0, 195, 169, 255}
  StrMax = 2
  MboxAlpha = {97, 38, 45, 34, 92, 32, 13, 233, 8364, 128512}
  MboxMax = 2
  FlagAlpha = {92, 97, 36, 32, 40, 42}
  FlagMax = 2
  TreeLevel = 1
  NestNs = {4}
  Kinds = {"str", "lstr", "mbox", "flag", "attr", "num", "num64", "modseq", "seqset", "uidset", "sres", "list", "nest"}
INIT Init
NEXT Next
INVARIANTS TypeOK RepsDecode PrefLegal ModesMonotone ServerNoPlus DepthSeen
CHECK_DEADLOCK FALSE
