CONSTANTS
  Configs <- C17Configs
  Cases <- SmallCases
  Faulty = TRUE
INIT STInit
NEXT STNext
INVARIANTS NoParseAfterSwitch
CHECK_DEADLOCK FALSE
