CONSTANTS
  Wide = TRUE
INIT Init
NEXT GenNext
INVARIANTS NormIdempotent CatalogueInContract NormKeepsNumbers
CHECK_DEADLOCK FALSE
