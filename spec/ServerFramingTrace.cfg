CONSTANTS
  LitPlusSet = {TRUE, FALSE}
  Utf8Set = {TRUE, FALSE}
  SaslSet = {TRUE, FALSE}
INIT TraceInit
NEXT TraceNext
INVARIANTS TypeOK ContOnlyWhenWilling PayloadOnlyAsArgument
POSTCONDITION TraceAccepted
CHECK_DEADLOCK FALSE
