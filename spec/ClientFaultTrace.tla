--------------------------- MODULE ClientFaultTrace ---------------------------
(* Judge for recorded fault-injection runs of the real client: one short trace *)
(* per (session script, byte offset of the reply stream, fault kind).           *)
(*   Run{end: layout, cut, fault, mid}  the connection is faulted after `cut`   *)
(*                                  bytes; mid: that is inside a response       *)
(*   Ret{i, res}                    the blocking call of command i returned     *)
(*   End{issued, closed, hung, self, dead} the run is over; self: every call    *)
(*                                  had returned before the caller closed the   *)
(*                                  client; dead: how one more command, issued  *)
(*                                  after a call had reported the failure, ended*)
EXTENDS ClientFault, Json, IOUtils

VARIABLE l

Trace == ndJsonDeserialize(IOEnv.TRACE_FILE)

TraceInit == Init /\ l = 1

Run(r) ==
  /\ layout' = r.end /\ delivered' = r.cut /\ fault' = r.fault /\ inside' = r.mid /\ issued' = 0
  /\ result' = [i \in 1..Len(r.end) |-> "none"] /\ reader' = "run" /\ closeSt' = "no"

\* a call returned: success requires the completion to have been delivered in full
Ret(r) ==
  /\ r.i \in 1..NCmds /\ result[r.i] = "none"
  /\ r.res = "ok" => delivered >= EndOff[r.i]
  /\ result' = [result EXCEPT ![r.i] = r.res]
  /\ issued' = IF r.i > issued THEN r.i ELSE issued
  /\ UNCHANGED <<layout, delivered, fault, inside, reader, closeSt>>

\* at the end of a run every issued call has returned, Close has returned (so the reader is gone)
End(r) ==
  /\ ~r.hung /\ r.closed
  /\ (fault = "stall" /\ inside) => r.self      \* the client's own timeout, not the caller's Close
  /\ r.dead \in {"", "err"}                      \* IssueDead: a command issued after the failure fails at once
  /\ \A i \in 1..r.issued : Returned(i)
  /\ reader' = "exited" /\ closeSt' = "returned"
  /\ UNCHANGED <<layout, delivered, fault, inside, issued, result>>

TraceNext ==
  /\ l <= Len(Trace)
  /\ l' = l + 1
  /\ LET r == Trace[l] IN
       \/ r.ev = "Run" /\ Run(r)
       \/ r.ev = "Ret" /\ Ret(r)
       \/ r.ev = "End" /\ End(r)

TraceAccepted ==
  LET d == TLCGet("stats").diameter IN
    IF d - 1 = Len(Trace) THEN TRUE
    ELSE /\ PrintT(<<"TRACE_REJECTED_AT", d, Len(Trace)>>)
         /\ IF d <= Len(Trace) THEN PrintT(<<"REJECTED_RECORD", ToJson(Trace[d])>>) ELSE TRUE
         /\ FALSE
=============================================================================
