------------------------------ MODULE Utf7Gen ------------------------------
(* Generator (spec -> implementation): one line per input of the bounded   *)
(* space, carrying the input and what the specification predicts:          *)
(*   encoder vector  [k:"enc", s: code points, out: bytes of Encode(s)]    *)
(*   decoder vector  [k:"dec", b: bytes, v: "accept"|"reject"|"unspec",    *)
(*                    why: malformed form / "canonical", out: code points] *)
(* Init picks the family and the first symbol, one Pick step the rest, so  *)
(* the workers share the enumeration.  The harness runs the real encoder / *)
(* decoder on every line, one-shot and under every buffer schedule.        *)
EXTENDS Utf7, Json

EncVec == [k |-> "enc", s |-> orig', out |-> Encode(orig')]
DecVec == LET v == Verdict(inp') IN
          [k |-> "dec", b |-> inp', v |-> v.v, why |-> v.why, out |-> v.out]

GenNext == phase = "pick" /\ \E tail \in Tails :
             /\ Pick(tail)
             /\ PrintT(<<"T", ToJson(IF IsEnc THEN EncVec ELSE DecVec)>>)
=============================================================================
