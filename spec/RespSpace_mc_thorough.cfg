CONSTANTS
  Wide = TRUE
INIT Init
NEXT Next
INVARIANTS NormIdempotent CatalogueInContract NormKeepsNumbers
CHECK_DEADLOCK FALSE
