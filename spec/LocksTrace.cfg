INIT TraceInit
NEXT TraceNext
INVARIANT Exclusive
POSTCONDITION TraceAccepted
CHECK_DEADLOCK FALSE
