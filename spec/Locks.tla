------------------------------- MODULE Locks -------------------------------
(* C14 -- lock protocol of concurrent sessions (imapserver + imapmemserver). *)
(*                                                                         *)
(* Generic model: a set of processes (= sessions, each executing ONE        *)
(* command), each running a TEMPLATE = the sequence of acquire / release    *)
(* steps over named, NON-REENTRANT mutexes that the command performs.       *)
(* Templates are not written by hand: they are mined at check time from the *)
(* working tree (harness/cmd/locks mine: every sync.Mutex operation of the  *)
(* two packages is instrumented with go build -overlay, every command kind  *)
(* is run alone in every "world" = assignment of selected mailboxes to      *)
(* sessions) and read here from an ndjson file:                             *)
(*   [w |-> "ABA", n |-> 3, s |-> 2, id |-> 17,                             *)
(*    steps |-> << <<"a","mbox[B]",3>>, <<"a","mbox[A]",6>>, ... >>]          *)
(* step = <<op, lock name, index of the step in the mined template>>;       *)
(* ops: "a" Lock, "r" Unlock, "ra" RLock, "rr" RUnlock.                     *)
(* The miner merges equal sequences and applies two reductions that neither *)
(* add nor remove wait cycles: R1 drops steps on locks that only one        *)
(* session of the world ever touches (cm[i], enc[i]: nobody else can hold   *)
(* them); R2 drops a Lock immediately followed by the Unlock of the same    *)
(* lock while the process holds nothing (it never waits while holding, so   *)
(* it is on no cycle, and it holds the lock only until its next own step).  *)
(* `locks mine -reduce 0` writes the unreduced templates (cross-check).     *)
(*                                                                         *)
(* A scenario = one world and, for every session of it, one mined template  *)
(* of that (world, session) or the empty template (session does nothing).   *)
(* Since every mined template releases everything it acquired (checked      *)
(* below, TemplatesBalanced), a set of commands blocking each other forever *)
(* exists in some history iff it exists with one command per session        *)
(* started from a common world.                                             *)
(*                                                                         *)
(* Properties: (1) no reachable STUCK state (some process not finished and   *)
(* no process can step): every stuck state is printed as a T line with the  *)
(* schedule that reaches it, the harness re-enacts it on the real server;   *)
(* (2) Termination == <>AllDone under weak fairness of every process        *)
(* (Locks_live.cfg).                                                        *)
EXTENDS Integers, Sequences, FiniteSets, TLC, Json, IOUtils

Data == ndJsonDeserialize(IOEnv.TEMPLATES_FILE)

\* bounds (strings from the environment; "" = default)
EnvNat(s, d) == IF s \in DOMAIN IOEnv /\ IOEnv[s] # "" THEN atoi(IOEnv[s]) ELSE d
MinProcs == EnvNat("LOCKS_MINPROCS", 2)      \* worlds with fewer sessions are skipped
MaxProcs == EnvNat("LOCKS_MAXPROCS", 3)      \* worlds with more sessions are skipped

VARIABLES
  world,  \* the world string of the scenario
  tpl,    \* tpl[p] = sequence of steps <<op, lock, index in the mined template>> of process p
  pc,     \* pc[p] = index of the next step of p
  hw,     \* hw[p] = locks p holds in write (exclusive) mode
  hr,     \* hr[p] = locks p holds in read mode
  lab,    \* lab[p] = id of the mined template p runs (0 = none)      (not in VIEW)
  hist    \* schedule so far: sequence of <<p, i>>, i = index in the mined template (not in VIEW)

vars == <<world, tpl, pc, hw, hr, lab, hist>>
View == <<world, tpl, pc>>

Worlds == {Data[k].w : k \in DOMAIN Data}
NProcs(w) == CHOOSE n \in 1..8 : \E k \in DOMAIN Data : Data[k].w = w /\ Data[k].n = n
Ids(w, s) == {k \in DOMAIN Data : Data[k].w = w /\ Data[k].s = s}

Procs == DOMAIN tpl

-----------------------------------------------------------------------------
\* locks held after executing the first k steps of a step sequence
RECURSIVE HeldAfter(_, _, _)
HeldAfter(seq, k, mode) ==
  IF k = 0 THEN {}
  ELSE LET h == HeldAfter(seq, k - 1, mode)
           st == seq[k]
       IN IF mode = "w" THEN
            IF st[1] = "a" THEN h \cup {st[2]} ELSE IF st[1] = "r" THEN h \ {st[2]} ELSE h
          ELSE
            IF st[1] = "ra" THEN h \cup {st[2]} ELSE IF st[1] = "rr" THEN h \ {st[2]} ELSE h

Raw(k) == IF k = 0 THEN <<>> ELSE Data[k].steps
Balanced(seq) == HeldAfter(seq, Len(seq), "w") = {} /\ HeldAfter(seq, Len(seq), "r") = {}
TemplatesBalanced == \A k \in DOMAIN Data : Balanced(Raw(k))

Opt(w, p) == {0} \cup Ids(w, p)
\* choice tuples, built per session so that TLC never enumerates a full function space
Choices(w) ==
  LET n == NProcs(w) IN
    IF n = 1 THEN {<<a>> : a \in Opt(w, 1)}
    ELSE IF n = 2 THEN {<<a, b>> : a \in Opt(w, 1), b \in Opt(w, 2)}
    ELSE IF n = 3 THEN {<<a, b, c>> : a \in Opt(w, 1), b \in Opt(w, 2), c \in Opt(w, 3)}
    ELSE IF n = 4 THEN {<<a, b, c, d>> : a \in Opt(w, 1), b \in Opt(w, 2), c \in Opt(w, 3), d \in Opt(w, 4)}
    ELSE {}

KeepHist == EnvNat("LOCKS_NOHIST", 0) = 0

Init ==
  \E w \in Worlds :
    /\ NProcs(w) >= MinProcs /\ NProcs(w) <= MaxProcs
    /\ \E choice \in Choices(w) :
         /\ Cardinality({p \in 1..NProcs(w) : choice[p] # 0}) >= 2
         /\ world = w
         /\ lab = choice
         /\ tpl = [p \in 1..NProcs(w) |-> Raw(choice[p])]
         /\ pc = [p \in 1..NProcs(w) |-> 1]
         /\ hw = [p \in 1..NProcs(w) |-> {}]
         /\ hr = [p \in 1..NProcs(w) |-> {}]
         /\ hist = <<>>

-----------------------------------------------------------------------------
Done(p) == pc[p] > Len(tpl[p])
Cur(p) == [o |-> tpl[p][pc[p]][1], l |-> tpl[p][pc[p]][2], i |-> tpl[p][pc[p]][3]]

Enabled(p) ==
  /\ ~Done(p)
  /\ CASE Cur(p).o = "a"  -> \A q \in Procs : Cur(p).l \notin hw[q] \cup hr[q]   \* non-reentrant: q = p included
       [] Cur(p).o = "ra" -> \A q \in Procs : Cur(p).l \notin hw[q]
       [] OTHER -> TRUE

Step(p) ==
  /\ Enabled(p)
  /\ pc' = [pc EXCEPT ![p] = @ + 1]
  /\ hw' = [hw EXCEPT ![p] = IF Cur(p).o = "a" THEN @ \cup {Cur(p).l} ELSE IF Cur(p).o = "r" THEN @ \ {Cur(p).l} ELSE @]
  /\ hr' = [hr EXCEPT ![p] = IF Cur(p).o = "ra" THEN @ \cup {Cur(p).l} ELSE IF Cur(p).o = "rr" THEN @ \ {Cur(p).l} ELSE @]
  /\ hist' = IF KeepHist THEN Append(hist, <<p, Cur(p).i>>) ELSE hist
  /\ UNCHANGED <<world, tpl, lab>>

AllDone == \A p \in Procs : Done(p)
Stuck == ~AllDone /\ \A p \in Procs : ~Enabled(p)

StuckReport ==
  [kind |-> "stuck", w |-> world, lab |-> lab, sched |-> hist,
   blocked |-> [p \in Procs |->
                  IF Done(p) THEN [i |-> 0, want |-> "", held |-> {}]
                  ELSE [i |-> Cur(p).i, want |-> Cur(p).l, held |-> hw[p] \cup hr[p]]]]

\* one complete interleaving per scenario (first found), for followability replays
DoneReport == [kind |-> "done", w |-> world, lab |-> lab, sched |-> hist]

PrintDone == EnvNat("LOCKS_PRINTDONE", 0) = 1

Next ==
  \/ \E p \in Procs : Step(p)
  \/ Stuck /\ PrintT(<<"T", ToJson(StuckReport)>>) /\ UNCHANGED vars
  \/ AllDone /\ PrintDone /\ PrintT(<<"T", ToJson(DoneReport)>>) /\ UNCHANGED vars

Spec == Init /\ [][Next]_vars
FairSpec == Spec /\ \A p \in 1..8 : WF_vars(p \in Procs /\ Step(p))

-----------------------------------------------------------------------------
\* invariants of the model itself
MutualExclusion ==
  \A p, q \in Procs : p # q =>
     /\ hw[p] \cap (hw[q] \cup hr[q]) = {}
NoStuck == ~Stuck
Termination == <>AllDone

ASSUME TemplatesBalanced
=============================================================================
