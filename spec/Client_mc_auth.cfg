CONSTANTS
  MaxCmds = 3
  MaxPending = 3
  MaxNum = 2
  MaxItems = 2
  Kinds = {"LOGIN", "CAPABILITY", "ENABLE", "NAMESPACE", "LIST", "LISTSTATUS", "STATUS", "GETQUOTA", "GETQUOTAROOT", "GETMETADATA", "APPEND", "CREATE", "UNAUTH"}
  Greetings = {"OK", "PREAUTH"}
INIT Init
NEXT Next
VIEW McView
INVARIANTS TypeOK IdleAlone
PROPERTIES ExactlyOnce Isolation DataToRightCommand StateDiagram
CHECK_DEADLOCK FALSE
