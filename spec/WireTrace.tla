----------------------------- MODULE WireTrace -----------------------------
(* Judge for C01: re-evaluates what the real Encoder wrote and what the     *)
(* real Decoder of the other side made of it.                               *)
(*                                                                          *)
(* One record per (kind, value) and group of encoder modes that produced    *)
(* the same observation:                                                    *)
(*   k, v     kind and value handed to the real Encoder (Wire.tla's value   *)
(*            forms; long strings and deep nestings as classes)             *)
(*   ms       the mode numbers of the group (8*server + 4*q8 + 2*lm + lp)   *)
(*   err      the encoder reported an error                                 *)
(*   bytes    everything that reached the connection: the value, then the   *)
(*            sentinel Sentinels[sn] written through the same Encoder       *)
(*   dec      per real decoding function f of the peer's Decoder fed with   *)
(*            exactly these bytes: ok (its result), err (Err() or a         *)
(*            returned error), val (the value, same forms), rest (the bytes *)
(*            it left unread, at most 16) and left (their number)           *)
(* Clauses, exactly those of the statement:                                 *)
(*   MustRefuse(k, v):  err, and the bytes written do not parse as a value  *)
(*   otherwise, if the encoder accepted the value: the bytes are the value  *)
(*   in a form legal in every mode of the group followed by the sentinel;   *)
(*   every decoding function returns the canonical value without error and  *)
(*   leaves exactly the sentinel.  (Nestings that reach the depth cap may   *)
(*   be refused by the decoder.)                                            *)
(* A disagreement prints <<"BAD", "{line, sig}">> (sig: a tuple of strings, *)
(* joined with "/" by the driver) and the evaluation goes on.  Lines <<"NOTE", ...>> are observations the statement does not  *)
(* forbid (encoder refuses a representable value, invalid UTF-8 inside a    *)
(* quoted string under UTF8 quoting).                                       *)
EXTENDS Wire, Json, IOUtils

VARIABLE l        \* next record

FirstBad == 7     \* TLC register: line of the first disagreement (0: none)
Trace == ndJsonDeserialize(IOEnv.TRACE_FILE)

TraceInit == phase = "have" /\ kind = "trace" /\ pre = <<>> /\ val = <<>> /\ l = 1 /\ TLCSet(FirstBad, 0)

\* canonical value of a decoded value x (decoded forms: long strings and deep
\* nestings come back as classes, number sets as range lists)
DecodedSame(k, v, x) ==
  CASE k = "lstr" -> x = v \/ (x.n = v.n /\ Expand(x) = Expand(v))
    [] k = "nest" -> x = v
    [] k \in SetKinds -> WellFormedSet(x) /\ NS!MembersOf(x) = Canon(k, v)
    [] OTHER -> Canon(k, x) = Canon(k, v)

NestDepth(v) == v.n + Depth(v.inner)
MustRead(k, v) == k # "nest" \/ NestDepth(v) < DepthCap

\* nothing is demanded of a nesting that reaches the depth cap; a reader that reports
\* success on it but hands out something else is noted
DecSigs(k, v, d, Sentinel) ==
  LET cl == IF MustRead(k, v) THEN "dec" ELSE "info" IN
  IF d.err \/ ~d.ok THEN (IF MustRead(k, v) THEN {<<"dec", d.f, "error">>} ELSE {})
  ELSE IF d.f # "DiscardValue" /\ ~DecodedSame(k, v, d.val) THEN {<<cl, d.f, "value">>}
  ELSE IF d.rest # Sentinel \/ d.left # Len(Sentinel) THEN {<<cl, d.f, "leftover">>}
  ELSE {}

ParsesAs(k, b) == Len(b) > 0 /\ Parse(k, b).ok

Judge(r) ==
  LET k == r.k
      v == r.v
      n == Len(r.bytes)
      sl == Len(Sentinels[r.sn])
  IN IF MustRefuse(k, v)
     THEN (IF r.err /\ ~ParsesAs(k, r.bytes) THEN {}
           ELSE {<<"enc", "accepts-unrepresentable", k, WhyRefuse(k, v)>>})
     ELSE IF r.err THEN {<<"info", "enc-refuses-representable", k>>}
     ELSE IF n < sl \/ SubSeq(r.bytes, n - sl + 1, n) # Sentinels[r.sn] THEN {<<"enc", "no-sentinel", k>>}
     ELSE LET body == SubSeq(r.bytes, 1, n - sl)
              vs == RepVerdicts({ModeOf(r.ms[i]) : i \in 1..Len(r.ms)}, k, v, body)
          IN {<<"enc", "illegal-rep", k, x>> : x \in vs \ {"ok"}}
             \cup UNION {DecSigs(k, v, r.dec[i], Sentinels[r.sn]) : i \in 1..Len(r.dec)}
             \cup (IF vs = {"ok"} /\ ~(k = "nest" /\ v.n > 10) /\ QuotedBadUtf8(k, body)
                   THEN {<<"info", "quoted-invalid-utf8", k>>} ELSE {})

InfoSig(sg) == sg[1] = "info"
Report(sigs) ==
  LET bad == {sg \in sigs : ~InfoSig(sg)} IN
  /\ \A sg \in sigs : PrintT(<<IF InfoSig(sg) THEN "NOTE" ELSE "BAD", ToJson([line |-> l, sig |-> sg])>>)
  /\ (bad # {} /\ TLCGet(FirstBad) = 0) => TLCSet(FirstBad, l)

TraceNext ==
  /\ l <= Len(Trace)
  /\ l' = l + 1
  /\ UNCHANGED vars
  /\ LET r == Trace[l] IN r.ev = "Enc" /\ Report(Judge(r))

TraceAccepted ==
  LET d == TLCGet("stats").diameter IN
    IF d - 1 = Len(Trace) /\ TLCGet(FirstBad) = 0 THEN TRUE
    ELSE LET at == IF TLCGet(FirstBad) # 0 THEN TLCGet(FirstBad) ELSE d IN
         /\ PrintT(<<"TRACE_REJECTED_AT", at, Len(Trace)>>)
         /\ IF at <= Len(Trace) THEN PrintT(<<"REJECTED_RECORD", ToJson([k |-> Trace[at].k, v |-> Trace[at].v, ms |-> Trace[at].ms])>>) ELSE TRUE
         /\ FALSE
=============================================================================
