-------------------------- MODULE ServerFramingGen --------------------------
(* Generator: all unit sequences up to MaxDepth, for every configuration and *)
(* start state.  A line carries the units only; the harness records what the *)
(* real server does and ServerFramingTrace judges it (the specification is   *)
(* nondeterministic where RFC 7888 gives the server a choice).               *)
EXTENDS ServerFraming, Json

CONSTANT MaxDepth, GenUnits

VARIABLE hist, start

GenInit == Init /\ hist = <<>> /\ start = [litplus |-> litplus, state |-> state, utf8 |-> utf8, sasl |-> sasl]

GenNext ==
  /\ Len(hist) < MaxDepth
  /\ \E u \in GenUnits : WellFormedUnit(u) /\ Step(u) /\ hist' = Append(hist, u)
  /\ start' = start
  /\ PrintT(<<"T", ToJson([start |-> start, units |-> hist'])>>)

\* one line per unit sequence (the outcome nondeterminism of the spec is not enumerated twice)
GenView == <<start, hist, closed \/ stuck>>

AllUnits == Units
\* thorough depth-3 run: the interesting core (refusals and their neighbours)
CoreUnits == {u \in Units : u.cmd \in {"LOGIN-user", "CREATE", "APPEND", "APPEND-fail", "APPEND-panic", "NOOP-lit", "NOOP", "IDLE", "FETCH-hdr"}
                           /\ ~(u.size = "small" /\ u.payload = "benign" /\ u.form = "sync")}
=============================================================================
