CONSTANTS
  MaxKeys = 2
  WithCat = FALSE
INIT Init
NEXT Next
INVARIANTS AndRefIsIntersection AndRefCommutes ParseIsConjunction ParseOrderFree Distinguishes
CHECK_DEADLOCK FALSE
