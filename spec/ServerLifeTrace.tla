---------------------------- MODULE ServerLifeTrace ----------------------------
(* Judge for recorded connection life cycles: one trace per connection run   *)
(* (valid transcript cut at a byte offset, mutated transcript, garbage).     *)
(* Events are logged by the harness under one mutex in their real order:     *)
(*   NewSession | Call{m,n,kind} | Cut | SessionClose | ConnClosed | Exit    *)
(* plus Panic (a "panic" line of the server's logger), for which no action   *)
(* exists.  The trace of a connection must END in phase "done".              *)
EXTENDS ServerLife, Json, IOUtils

VARIABLE l

Trace == ndJsonDeserialize(IOEnv.TRACE_FILE)

TraceInit == Init /\ l = 1

Reset ==
  /\ phase' = "new" /\ mode' = "line" /\ sessionOpen' = FALSE /\ closeCount' = 0
  /\ connClosed' = FALSE /\ idleRunning' = FALSE /\ peerGone' = FALSE /\ exited' = FALSE

\* reader modes are not logged: the backend-visible part of each action is what is checked
ObservedCall(r) ==
  /\ phase = "serving" /\ sessionOpen
  /\ r.kind = "buffered" => r.n <= LitMax
  /\ r.kind = "append" => r.n <= AppendMax
  /\ r.nest <= NestMax          \* nesting depth of the arguments the call was made with (0: flat)
  /\ UNCHANGED vars

ObservedIdle(r) ==
  /\ phase = "serving" /\ sessionOpen
  /\ idleRunning' = (r.ev = "IdleStart")
  /\ UNCHANGED <<phase, mode, sessionOpen, closeCount, connClosed, peerGone, exited>>

ObservedSessionClose ==
  /\ phase \in {"serving", "teardown"} /\ sessionOpen /\ ~idleRunning
  /\ phase' = "teardown" /\ sessionOpen' = FALSE /\ closeCount' = closeCount + 1
  /\ UNCHANGED <<mode, connClosed, idleRunning, peerGone, exited>>

ObservedConnClosed == ConnClose

\* a record "End" closes the trace of one connection: everything must be cleaned up
ObservedEnd ==
  /\ phase = "done" /\ closeCount = 1 /\ connClosed /\ ~idleRunning
  /\ UNCHANGED vars

TraceNext ==
  /\ l <= Len(Trace)
  /\ l' = l + 1
  /\ LET r == Trace[l] IN
       \/ r.ev = "Reset" /\ Reset
       \/ r.ev = "NewSession" /\ NewSession
       \/ r.ev = "Call" /\ ObservedCall(r)
       \/ r.ev \in {"IdleStart", "IdleStop"} /\ ObservedIdle(r)
       \/ r.ev = "Cut" /\ peerGone' = TRUE
                       /\ UNCHANGED <<phase, mode, sessionOpen, closeCount, connClosed, idleRunning, exited>>
       \/ r.ev = "SessionClose" /\ ObservedSessionClose
       \/ r.ev = "ConnClosed" /\ ObservedConnClosed
       \/ r.ev = "Exit" /\ Exit
       \/ r.ev = "End" /\ ObservedEnd

TraceAccepted ==
  LET d == TLCGet("stats").diameter IN
    IF d - 1 = Len(Trace) THEN TRUE
    ELSE /\ PrintT(<<"TRACE_REJECTED_AT", d, Len(Trace)>>)
         /\ IF d <= Len(Trace) THEN PrintT(<<"REJECTED_RECORD", ToJson(Trace[d])>>) ELSE TRUE
         /\ FALSE
=============================================================================
