--------------------------- MODULE ClientConcTrace ---------------------------
(* Monitor for hook logs recorded from free-running (stress) executions of the *)
(* real client: per command (tag) the linearization points must occur in the   *)
(* order the design of ClientConc (RegisterBeforeInit = FALSE) allows:         *)
(*   initialised  ->  visible (registered)  ->  completed exactly once,        *)
(* a completion never concerns an uninitialised command, and when a round ends *)
(* every command that became visible has been completed and no API call hangs. *)
EXTENDS Naturals, Sequences, FiniteSets, TLC, Json, IOUtils

VARIABLES l, initedT, registeredT, completedT

Trace == ndJsonDeserialize(IOEnv.TRACE_FILE)

TraceInit == l = 1 /\ initedT = {} /\ registeredT = {} /\ completedT = {}

Hook(r) ==
  CASE r.point = "begin.inited" ->
         /\ r.tag \notin initedT /\ initedT' = initedT \cup {r.tag}
         /\ UNCHANGED <<registeredT, completedT>>
    [] r.point = "begin.registered" ->
         /\ r.tag \in initedT /\ r.tag \notin registeredT /\ registeredT' = registeredT \cup {r.tag}
         /\ UNCHANGED <<initedT, completedT>>
    [] r.point = "complete" ->
         /\ r.tag \in initedT /\ r.tag \notin completedT /\ completedT' = completedT \cup {r.tag}
         /\ UNCHANGED <<initedT, registeredT>>
    [] OTHER -> UNCHANGED <<initedT, registeredT, completedT>>

TraceNext ==
  /\ l <= Len(Trace)
  /\ l' = l + 1
  /\ LET r == Trace[l] IN
       \/ r.ev = "Reset" /\ initedT' = {} /\ registeredT' = {} /\ completedT' = {}
       \/ r.ev = "Hook" /\ Hook(r)
       \/ r.ev = "End" /\ r.hung = 0 /\ registeredT \subseteq completedT
                       /\ UNCHANGED <<initedT, registeredT, completedT>>

CompletedWereVisible == completedT \subseteq initedT

TraceAccepted ==
  LET d == TLCGet("stats").diameter IN
    IF d - 1 = Len(Trace) THEN TRUE
    ELSE /\ PrintT(<<"TRACE_REJECTED_AT", d, Len(Trace)>>)
         /\ IF d <= Len(Trace) THEN PrintT(<<"REJECTED_RECORD", ToJson(Trace[d])>>) ELSE TRUE
         /\ FALSE
=============================================================================
