------------------------------- MODULE NumSet -------------------------------
(***************************************************************************)
(* Message number sets of go-imap: internal/imapnum Set/Range and the      *)
(* public imap.SeqSet / imap.UIDSet wrappers.  Property C15.               *)
(*                                                                         *)
(* Numbers.  TLC integers are 32-bit signed, the interesting numbers are   *)
(* 2^32-2 and 2^32-1.  The specification therefore works on a small        *)
(* ordered domain of *points* 1..Max.  The harness maps points to real     *)
(* numbers by an order- and adjacency-preserving injection: consecutive    *)
(* points that are both usable stand for consecutive real numbers, the top *)
(* point Max stands for 2^32-1 (so Max-1 is 2^32-2), and every point in    *)
(* Gaps stands for a whole block of (more than 16) real numbers lying      *)
(* strictly between its neighbours.  A gap point is never used as an       *)
(* endpoint of an inserted value, so a range either covers the whole block *)
(* or none of it and no false adjacency is introduced.  0 is '*' (STAR),   *)
(* exactly as in the code.                                                 *)
(*                                                                         *)
(* State.  set is the range list as the code keeps it (sequence of pairs   *)
(* <<start, stop>>; <<n,0>> is "n:*", <<0,0>> is "*").  members is a ghost: *)
(* the union of everything inserted so far, under RFC semantics, written   *)
(* without reference to the algorithm ("n:*" inserts n..Max and STAR, a    *)
(* range inserts everything between its endpoints whatever their order).   *)
(*                                                                         *)
(* Actions, one per mutating entry point:                                  *)
(*   AddNum(v)      Set.AddNum(v)           v = 0 is '*'                   *)
(*   AddRange(x,y)  Set.AddRange(x, y)      any order, 0 on either side    *)
(*   AddSet(t)      Set.AddSet(t)           t a number set                 *)
(* The next value of set is computed by Insert, a line-by-line             *)
(* transcription of Set.insert / search / Range.Merge (with the uint32     *)
(* wrap of Stop+1 at Max); the properties below say what the statement of  *)
(* C15 demands of it and are phrased on members only.                      *)
(*                                                                         *)
(* Reference operators (the oracle for the queries):                       *)
(*   Canonical(l)    sorted, disjoint, non-adjacent, '*' only in last place *)
(*   Alts(m)         all canonical lists whose member set is m (1 or 2:    *)
(*                   "k:Max,*" and "k:*" have the same members)            *)
(*   ContainsRef, DynamicRef, NumsRef, StringRef (token list), and the     *)
(*   reference parser ParseOK / ParseMembers / ParseList over tokens.      *)
(***************************************************************************)
EXTENDS Integers, Sequences, FiniteSets, TLC

CONSTANTS Max,    \* top point; stands for 2^32-1
          Gaps    \* points standing for blocks of numbers never used as endpoints

VARIABLES set,      \* Seq(<<start, stop>>): the range list
          members   \* ghost: SUBSET (1..Max \cup {STAR})

vars == <<set, members>>

STAR   == 0
Points == 1..Max
Ends   == Points \ Gaps          \* points usable as endpoints / probes with a single real number
Args   == Ends \cup {STAR}       \* arguments of AddNum / AddRange

MinOf(S) == CHOOSE x \in S : \A y \in S : x <= y
MaxOf(S) == CHOOSE x \in S : \A y \in S : y <= x

\* ------------------------- meaning of values -------------------------
\* what inserting the seq-range x:y means (RFC 9051: either order; '*' with
\* the reading of the doc comment: "n:*" contains '*' and every q >= n)
InsRange(x, y) ==
  IF x = STAR /\ y = STAR THEN {STAR}
  ELSE IF x = STAR THEN (y..Max) \cup {STAR}
  ELSE IF y = STAR THEN (x..Max) \cup {STAR}
  ELSE (IF x <= y THEN x..y ELSE y..x)
InsNum(v) == InsRange(v, v)

\* members of one stored range / of a range list
MemOf(r) == IF r[1] = 0 THEN {STAR}
            ELSE IF r[2] = 0 THEN (r[1]..Max) \cup {STAR}
            ELSE r[1]..r[2]
MembersOf(l) == UNION {MemOf(l[i]) : i \in 1..Len(l)}

WellFormedRange(r) ==
  /\ r[1] \in Args /\ r[2] \in Args
  /\ (r[1] = 0 => r[2] = 0)
  /\ (r[2] # 0 => r[1] <= r[2])

\* canonical form: well-formed ranges, ascending, disjoint, not even adjacent;
\* a '*'-bearing value ("n:*" or "*") can only be the last one
Canonical(l) ==
  /\ \A i \in 1..Len(l) : WellFormedRange(l[i])
  /\ \A i \in 1..(Len(l) - 1) : l[i][2] # 0
  /\ \A i \in 1..(Len(l) - 1) : l[i+1][1] # 0 => l[i][2] + 1 < l[i+1][1]

\* the unique canonical list of a static set S \subseteq Points
RECURSIVE StaticList(_)
StaticList(S) ==
  IF S = {} THEN <<>>
  ELSE LET lo == MinOf(S)
           hi == CHOOSE h \in S : h >= lo /\ (lo..h) \subseteq S /\ (h + 1) \notin S
       IN <<<<lo, hi>>>> \o StaticList(S \ (lo..hi))

\* all canonical lists with member set m
Alts(m) ==
  LET S == m \ {STAR}
      L == StaticList(S)
  IN IF STAR \notin m THEN {L}
     ELSE {L \o <<<<0, 0>>>>} \cup
          (IF Max \in S
           THEN {[L EXCEPT ![Len(L)] = <<L[Len(L)][1], 0>>]}
           ELSE {})

\* ------------------------- reference queries -------------------------
ContainsRef(m, q) == q # 0 /\ q \in m          \* Contains(0) is false by the doc comment
DynamicRef(m)     == STAR \in m
StaticRef(m)      == STAR \notin m
\* a static set is "small" when enumerating it is feasible for the harness
Small(m)          == m \cap Gaps = {} /\ Cardinality(m) <= 16
RECURSIVE Ascending(_)
Ascending(S) == IF S = {} THEN <<>> ELSE <<MinOf(S)>> \o Ascending(S \ {MinOf(S)})
\* Nums(): defined for static sets; exactly the members, ascending; it returns
NumsRef(m) == Ascending(m \ {STAR})

\* ------------------------- text: tokens -------------------------
\* A text is a sequence of tokens.  n \in Ends is the decimal numeral of the
\* real number of point n (no leading zero), 0 is "*"; the others:
COLON == -1      \* ":"
COMMA == -2      \* ","
ZERO  == -3      \* "0"
LZ    == -4      \* numeral with a leading zero ("01", "00", "04294967295")
BIG   == -5      \* numeral > 2^32-1 ("4294967296", ...)
JUNK  == -6      \* any text without digits, '*', ':' and ','
IsDigitTok(t) == t \in Ends \/ t \in {ZERO, LZ, BIG}
\* adjacent numerals would fuse into another numeral: such token strings are
\* not texts (generator constraint, not a verdict)
LexOK(toks) == \A i \in 1..(Len(toks) - 1) : ~(IsDigitTok(toks[i]) /\ IsDigitTok(toks[i+1]))

RangeText(r) == IF r[1] = r[2] THEN <<r[1]>>
                ELSE <<r[1], COLON, r[2]>>
RECURSIVE StringRef(_)
StringRef(l) == IF l = <<>> THEN <<>>
                ELSE IF Len(l) = 1 THEN RangeText(l[1])
                ELSE RangeText(l[1]) \o <<COMMA>> \o StringRef(Tail(l))

\* ------------------------- reference parser -------------------------
\* sequence-set = (seq-number / seq-range) *("," (seq-number / seq-range))
\* seq-number = nz-number / "*", seq-range = seq-number ":" seq-number
RECURSIVE Items(_)
Items(toks) ==
  IF \E i \in 1..Len(toks) : toks[i] = COMMA
  THEN LET i == CHOOSE k \in 1..Len(toks) :
                   toks[k] = COMMA /\ \A j \in 1..(k - 1) : toks[j] # COMMA
       IN <<SubSeq(toks, 1, i - 1)>> \o Items(SubSeq(toks, i + 1, Len(toks)))
  ELSE <<toks>>
IsSeqNumber(t) == t \in Args
ItemOK(it) == \/ Len(it) = 1 /\ IsSeqNumber(it[1])
              \/ Len(it) = 3 /\ IsSeqNumber(it[1]) /\ it[2] = COLON /\ IsSeqNumber(it[3])
ItemX(it) == it[1]
ItemY(it) == IF Len(it) = 1 THEN it[1] ELSE it[3]
ParseOK(toks) == LET its == Items(toks) IN \A i \in 1..Len(its) : ItemOK(its[i])
ParseMembers(toks) ==
  LET its == Items(toks) IN UNION {InsRange(ItemX(its[i]), ItemY(its[i])) : i \in 1..Len(its)}

\* ------------------ transcription of the algorithm ------------------
\* Range.Less, Range.Contains (numset.go:18-31)
RLess(s, q) == (s[2] < q \/ q = 0) /\ s[2] # 0
RContains(s, q) == IF q = 0 THEN s[2] = 0
                   ELSE s[1] # 0 /\ s[1] <= q /\ (q <= s[2] \/ s[2] = 0)
\* uint32 successor: 2^32-1 + 1 wraps to 0
Succ(x) == IF x = Max THEN 0 ELSE x + 1
\* Range.Merge (numset.go:33-66): <<union, ok>>
RMerge(s0, t0) ==
  IF s0 = t0 THEN <<s0, TRUE>>
  ELSE IF s0[1] # 0 /\ t0[1] # 0
  THEN LET s == IF s0[1] > t0[1] THEN t0 ELSE s0
           t == IF s0[1] > t0[1] THEN s0 ELSE t0
       IN IF (s[2] >= t[2] /\ t[2] # 0) \/ s[2] = 0 THEN <<s, TRUE>>
          ELSE IF Succ(s[2]) >= t[1] \/ s[2] = Max THEN <<<<s[1], t[2]>>, TRUE>>
          ELSE <<s0, FALSE>>
  ELSE IF s0[1] = 0
  THEN (IF t0[2] = 0 THEN <<t0, TRUE>> ELSE <<s0, FALSE>>)
  ELSE IF s0[2] = 0 THEN <<s0, TRUE>> ELSE <<s0, FALSE>>

\* Set.search (numset.go:236-252); indices are 0-based as in the code,
\* element i of the code is s[i+1] here.  Result <<index, found>>.
RECURSIVE BSearch(_, _, _, _)
BSearch(s, q, lo, hi) ==
  IF lo < hi
  THEN LET mid == (lo + hi) \div 2
       IN IF RLess(s[mid + 1], q) THEN BSearch(s, q, mid + 1, hi)
          ELSE BSearch(s, q, lo, mid)
  ELSE lo
Search(s, q) ==
  LET n == Len(s)
      m == BSearch(s, q, 0, n - 1)
  IN IF n = 0 \/ RLess(s[m + 1], q) THEN <<n, FALSE>>
     ELSE <<m, RContains(s[m + 1], q)>>

RemoveAt(s, k) == SubSeq(s, 1, k - 1) \o SubSeq(s, k + 1, Len(s))
InsertAt(s, i, v) == SubSeq(s, 1, i) \o <<v>> \o SubSeq(s, i + 1, Len(s))
\* the trailing loop of insert: keep merging s[i] with its successor
RECURSIVE Absorb(_, _)
Absorb(s, i) ==
  IF i + 2 > Len(s) THEN s
  ELSE LET m == RMerge(s[i + 1], s[i + 2])
       IN IF m[2] THEN Absorb(RemoveAt([s EXCEPT ![i + 1] = m[1]], i + 2), i)
          ELSE s
\* Set.insert (numset.go:172-208)
Insert(s, v) ==
  LET n  == Len(s)
      i  == Search(s, v[1])[1]
      pm == IF i > 0 THEN RMerge(s[i], v) ELSE <<v, FALSE>>
      s1 == IF i > 0 THEN [s EXCEPT ![i] = pm[1]] ELSE s
  IN IF i = n THEN (IF pm[2] THEN s1 ELSE Append(s1, v))
     ELSE IF pm[2] THEN Absorb(s1, i - 1)
     ELSE LET m2 == RMerge(s1[i + 1], v)
          IN IF m2[2] THEN Absorb([s1 EXCEPT ![i + 1] = m2[1]], i)
             ELSE InsertAt(s1, i, v)

\* Set.AddRange's normalisation of its arguments (numset.go:105-111)
AlgRange(x, y) == IF (y < x /\ y # 0) \/ x = 0 THEN <<y, x>> ELSE <<x, y>>
AlgAddNum(s, v)      == Insert(s, <<v, v>>)
AlgAddRange(s, x, y) == Insert(s, AlgRange(x, y))
RECURSIVE AlgAddSet(_, _)
AlgAddSet(s, t) == IF t = <<>> THEN s ELSE AlgAddSet(Insert(s, Head(t)), Tail(t))
AlgContains(s, q) == Search(s, q)[2] /\ q # 0
AlgDynamic(s)     == Len(s) > 0 /\ s[Len(s)][2] = 0

\* ParseSet: split at ",", parse each item, AddRange it (numset.go:295-306)
RECURSIVE ParseFold(_, _)
ParseFold(s, its) ==
  IF its = <<>> THEN s
  ELSE ParseFold(AlgAddRange(s, ItemX(Head(its)), ItemY(Head(its))), Tail(its))
ParseList(toks) == ParseFold(<<>>, Items(toks))

\* ------------------------------ actions ------------------------------
Init == set = <<>> /\ members = {}

AddNum(v) ==
  /\ v \in Args
  /\ set' = AlgAddNum(set, v)
  /\ members' = members \cup InsNum(v)

AddRange(x, y) ==
  /\ x \in Args /\ y \in Args
  /\ set' = AlgAddRange(set, x, y)
  /\ members' = members \cup InsRange(x, y)

AddSet(t) ==
  /\ Canonical(t)
  /\ set' = AlgAddSet(set, t)
  /\ members' = members \cup MembersOf(t)

\* catalogue of other sets for the bounded model (needs at least 7 usable points);
\* E(k) is the k-th smallest usable point
RECURSIVE Kth(_, _)
Kth(S, k) == IF k = 1 THEN MinOf(S) ELSE Kth(S \ {MinOf(S)}, k - 1)
E(k) == Kth(Ends, k)
SmallCatalogue ==
  { <<>>,
    <<<<E(2), E(2)>>>>,
    <<<<E(1), E(2)>>, <<E(4), E(4)>>>>,
    <<<<E(3), Max - 1>>>>,
    <<<<E(5), E(5)>>, <<Max, Max>>>>,
    <<<<Max - 1, 0>>>>,
    <<<<E(2), E(2)>>, <<0, 0>>>>,
    <<<<E(4), Max>>, <<0, 0>>>> }

Next ==
  \/ \E v \in Args : AddNum(v)
  \/ \E x \in Args, y \in Args : AddRange(x, y)
  \/ \E t \in SmallCatalogue : AddSet(t)

Spec == Init /\ [][Next]_vars

\* --------------------------- properties (C15) ---------------------------
TypeOK == /\ members \subseteq (Points \cup {STAR})
          /\ \A i \in 1..Len(set) : Len(set[i]) = 2

\* canonical form after any sequence of insertions
CanonicalForm == Canonical(set)
\* membership equals the union of what was inserted
MembershipIsUnion == MembersOf(set) = members
\* ... and the two together, through the constructive description
OneOfTheCanonicalLists ==
  /\ set \in Alts(members)
  /\ \A l \in Alts(members) : Canonical(l) /\ MembersOf(l) = members
\* Contains agrees with membership for every probe (0 included)
ContainsAgrees == \A q \in 0..Max : AlgContains(set, q) = ContainsRef(members, q)
\* dynamic exactly when '*' was inserted
DynamicIffStar == AlgDynamic(set) = DynamicRef(members)
\* the text form is valid sequence-set text with the same members and parses
\* back to an equal set (the empty set has no text form in the grammar)
RoundTrip ==
  set # <<>> =>
    LET txt == StringRef(set) IN
      /\ LexOK(txt) /\ ParseOK(txt)
      /\ ParseMembers(txt) = members
      /\ ParseList(txt) = set
\* enumeration of a static set: exactly the members, ascending
NumsExact ==
  StaticRef(members) =>
    LET ns == NumsRef(members) IN
      /\ {ns[i] : i \in 1..Len(ns)} = members
      /\ \A i \in 1..(Len(ns) - 1) : ns[i] < ns[i+1]
=============================================================================
