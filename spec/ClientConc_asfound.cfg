CONSTANTS
  Subs = {1, 2}
  RegisterBeforeInit = TRUE
  Literal = {}
  ReleaseOnRefusal = TRUE
  OwnAtTag = TRUE
  Streaming = {}
INIT Init
NEXT Next
INVARIANTS TypeOK NoDataRace AtMostOnce NobodyStuck GoodEnd
CHECK_DEADLOCK FALSE
