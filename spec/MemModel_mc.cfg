\* design-level model check, quick: full alphabet, 2 connections, tiny bounds
CONSTANTS
  Names <- NamesABC
  Conns = 2
  CatIds = {1}
  MaxMsgs = 2
  MaxUid = 2
  MaxCreates = 3
  Family = "all"
INIT Init
NEXT Next
CONSTRAINT Bounded
VIEW View
INVARIANTS TypeOK UidsAscending UidValidityDistinct
PROPERTIES UidsNeverReused UidValidityFresh AppendUidExact CopyUidExact StoreExact RemovalExact QueriesPure
CHECK_DEADLOCK FALSE
