\* design-level check of the whole alphabet (namespace + message commands) on a small instance
CONSTANTS
  Names <- NamesAC
  Conns = 1
  CatIds = {1}
  MaxMsgs = 1
  MaxUid = 1
  MaxCreates = 2
  Family = "all"
  Level = 0
INIT Init
NEXT Next
CONSTRAINT Bounded
VIEW View
INVARIANTS TypeOK UidsAscending UidValidityDistinct AllDefined
PROPERTIES UidsNeverReused UidValidityFresh AppendUidExact CopyUidExact StoreExact RemovalExact QueriesPure
CHECK_DEADLOCK FALSE
