CONSTANTS
  Names <- NamesABC
  Conns = 1
  CatIds = {1}
  MaxMsgs = 1
  MaxUid = 1
  MaxCreates = 2
  Family = "ns"
  Level = 0
  Mode = "bfs"
  SimDepth = 0
INIT GenInit
NEXT GenNext
CONSTRAINT Bounded
INVARIANT Emit
VIEW GenView
CHECK_DEADLOCK FALSE
