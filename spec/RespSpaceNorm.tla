--------------------------- MODULE RespSpaceNorm ---------------------------
(***************************************************************************)
(* C03 - backend data reach the client caller intact.                      *)
(*                                                                         *)
(* Value shapes of everything an imapserver backend (Session) can hand to  *)
(* the server's response writers, Norm = exactly the representation        *)
(* changes the protocol itself imposes, and the writers' contract.  The    *)
(* catalogue of values is in RespSpace.tla (which EXTENDS this module);    *)
(* RespSpaceTrace.tla judges recorded cases with the same Norm.  A *case*  *)
(* is                                                                      *)
(*     [k |-> kind, rev2 |-> BOOLEAN, req |-> request, data |-> data]      *)
(* and the property is                                                     *)
(*     Norm(case with data := what the client delivered) = Norm(case)      *)
(*                                                                         *)
(* Value shapes (shared with harness/cmd/respspace and RespSpaceTrace):    *)
(*  Str   opaque string identity: a short string over [A-Za-z0-9_.:+/@=-]  *)
(*        stands for itself, "~name" is an entry of the harness' table of  *)
(*        special strings ("~b:Seen" = backslash Seen, "~d:Junk" = $Junk), *)
(*        "#len:fp" is length + fingerprint (recorded traces only).        *)
(*  F     string in a case-insensitive position: [s |-> Str, l |-> Str of  *)
(*        the ASCII-lower-cased string] (TLC cannot fold case itself; the  *)
(*        harness verifies l against s for every catalogue value).         *)
(*  Num   integer; negative values are symbolic points above 2^31-1:       *)
(*        -1 = 2^32-1, -2 = 2^32-2, -3 = 2^63-1, -4 = 2^32, -5 = 2^31,     *)
(*        -6 = 2^32+1, -7 = 2^53.                                          *)
(*  Opt X <<>> (nil / absent) or <<x>>.                                    *)
(*  Date  Opt [u |-> unix seconds, z |-> zone offset in minutes,           *)
(*        f |-> 1 iff a sub-second part is present]; <<>> = zero time.     *)
(*  Every field name has one type in the whole module (TLC compares        *)
(*  records field by field).  Norm maps a shape to the same shape, so      *)
(*  idempotence is a plain equation.                                       *)
(***************************************************************************)
EXTENDS Integers, Sequences, FiniteSets, TLC

U32MAX == -1
U32MAX1 == -2
I63MAX == -3
P32 == -4
P31 == -5
P32P1 == -6
P53 == -7

-----------------------------------------------------------------------------
(* generic helpers *)
SeqRange(s) == {s[i] : i \in DOMAIN s}
RECURSIVE S2S(_)
(* canonical enumeration of a finite set (TLC's CHOOSE is deterministic) *)
S2S(S) == IF S = {} THEN <<>> ELSE LET x == CHOOSE y \in S : TRUE IN <<x>> \o S2S(S \ {x})
Opt(S) == {<<>>} \cup {<<x>> : x \in S}
Fd(s, l) == [s |-> s, l |-> l]
Fs(s) == [s |-> s, l |-> s]                 \* already lower case
Fl(f) == [s |-> f.l, l |-> f.l]             \* fold
Min2(a, b) == IF a <= b THEN a ELSE b
Max2(a, b) == IF a <= b THEN b ELSE a

(* every value of every field once, the other fields as in base *)
One(base, V) == {base} \cup UNION {{[base EXCEPT ![f] = w] : w \in V[f]} : f \in DOMAIN V}
(* every pair of values of two different fields (2-way coverage) *)
Two(base, V) == One(base, V) \cup
   UNION {UNION {{[base EXCEPT ![f] = x, ![g] = w] : x \in V[f], w \in V[g]}
                 : g \in DOMAIN V \ {f}} : f \in DOMAIN V}
(* 2-way coverage between the fields named in P only, 1-way for the rest *)
TwoOn(base, V, P) == One(base, V) \cup
   UNION {UNION {{[base EXCEPT ![f] = x, ![g] = w] : x \in V[f], w \in V[g]}
                 : g \in P \ {f}} : f \in P}

-----------------------------------------------------------------------------
(***************************************************************************)
(* NORM - one clause per representation change the protocol imposes.       *)
(***************************************************************************)

(* N1  flags and mailbox attributes are case-insensitive and unordered.     *)
(*     RFC 3501 section 9 note (1): "all alphabetic characters are          *)
(*     case-insensitive"; RFC 5788 section 1: keywords are case-insensitive;*)
(*     go-imap internal.canonicalFlag re-spells known flags.  flag-list is  *)
(*     "(" [flag *(SP flag)] ")": there is no NIL form, nil = empty.        *)
NormFlags(fs) == S2S({Fl(f) : f \in SeqRange(fs)})

(* N2  RFC 3501 section 5.1: "the case-insensitive mailbox name INBOX".     *)
NormMbox(f) == IF f.l = "inbox" THEN Fd("INBOX", "inbox") ELSE f

(* N3  STATUS carries exactly the requested items (RFC 3501 section 6.3.10: *)
(*     "the status data items to request"; imapserver.writeStatus writes    *)
(*     options.X only).  An item that was not requested is absent.          *)
NormStatus(sd, items) ==
  [mbox     |-> NormMbox(sd.mbox),
   msgs     |-> IF "MESSAGES" \in items THEN sd.msgs ELSE <<>>,
   uidnext  |-> IF "UIDNEXT" \in items THEN sd.uidnext ELSE 0,
   uidval   |-> IF "UIDVALIDITY" \in items THEN sd.uidval ELSE 0,
   unseen   |-> IF "UNSEEN" \in items THEN sd.unseen ELSE <<>>,
   deleted  |-> IF "DELETED" \in items THEN sd.deleted ELSE <<>>,
   size     |-> IF "SIZE" \in items THEN sd.size ELSE <<>>,
   applimit |-> IF "APPENDLIMIT" \in items THEN sd.applimit ELSE <<>>,
   delstor  |-> IF "DELETED-STORAGE" \in items THEN sd.delstor ELSE <<>>]

(* N4  LIST: attributes as N1, names as N2, OLDNAME "" = no OLDNAME item    *)
(*     (imap.ListData.OldName is a plain string), STATUS only when          *)
(*     RETURN (STATUS ...) was requested (RFC 5819 section 2), then as N3.  *)
NormList(ld, st) ==
  [attrs  |-> NormFlags(ld.attrs),
   delim  |-> ld.delim,
   mbox   |-> NormMbox(ld.mbox),
   child  |-> ld.child,
   old    |-> NormMbox(ld.old),
   status |-> IF st = <<>> \/ ld.status = <<>> THEN <<>>
              ELSE <<NormStatus(ld.status[1], SeqRange(st[1]))>>]

(* N5  date-time (RFC 3501 section 9) and RFC 5322 date-time have second    *)
(*     resolution and a numeric zone: the sub-second part and the zone name *)
(*     cannot be carried.  A zero envelope date is NIL.                     *)
NormDate(d) == IF d = <<>> THEN <<>> ELSE <<[u |-> d[1].u, z |-> d[1].z, f |-> 0]>>

(* N6  address lists: "(" 1*address ")" / nil - an empty list cannot be     *)
(*     written, nil = empty.  RFC 3501 section 7.4.2: "If the Sender or     *)
(*     Reply-To lines are absent in the header, or are present but empty,   *)
(*     the server sets the corresponding member of the envelope to be the   *)
(*     same value as the from member" (imapserver.writeEnvelope does it).   *)
NormAL(al) == IF al = <<>> THEN <<>> ELSE IF al[1] = <<>> THEN <<>> ELSE al
NormIrt(l) == l       \* []string: nil and empty have the same shape here
NormEnv(e) ==
  LET from == NormAL(e.from) IN
  [date    |-> NormDate(e.date),
   subj    |-> e.subj,
   from    |-> from,
   sender  |-> IF NormAL(e.sender) = <<>> THEN from ELSE e.sender,
   replyto |-> IF NormAL(e.replyto) = <<>> THEN from ELSE e.replyto,
   to      |-> NormAL(e.to),
   cc      |-> NormAL(e.cc),
   bcc     |-> NormAL(e.bcc),
   irt     |-> NormIrt(e.irt),
   mid     |-> e.mid]
ZeroEnv == [date |-> <<>>, subj |-> "", from |-> <<>>, sender |-> <<>>, replyto |-> <<>>,
            to |-> <<>>, cc |-> <<>>, bcc |-> <<>>, irt |-> <<>>, mid |-> ""]

(* N7  body-fld-param = "(" string SP string *(...) ")" / nil: an empty     *)
(*     map cannot be written, nil = empty.  RFC 2045 section 5.1: parameter *)
(*     names are case-insensitive (the client lower-cases them); a map is   *)
(*     unordered.                                                           *)
NormP(p) == IF p = <<>> THEN <<>>
            ELSE LET s == {[key |-> Fl(x.key), pv |-> x.pv] : x \in SeqRange(p[1])} IN
                 IF s = {} THEN <<>> ELSE <<S2S(s)>>
NormDisp(d) == IF d = <<>> THEN <<>> ELSE <<[val |-> d[1].val, dparams |-> NormP(d[1].dparams)]>>
(* N8  body-fld-lang = nstring / "(" string *(SP string) ")": nil = empty.  *)
NormLang(l) == IF l = <<>> THEN <<>> ELSE IF l[1] = <<>> THEN <<>> ELSE l
(* N9  RFC 2045 section 6.1: encoding values are case-insensitive and       *)
(*     "Content-Transfer-Encoding: 7BIT is assumed if the header field is   *)
(*     not present" (server writes 7BIT for "", upper-cases the rest).      *)
NormEnc(f) == IF f.l = "" THEN Fs("7bit") ELSE Fl(f)

(* N10 RFC 3501 section 7.4.2: BODY is the "non-extensible form of          *)
(*     BODYSTRUCTURE": extension data is present iff BODYSTRUCTURE was      *)
(*     requested.  body-type-msg requires an envelope: a nil envelope is    *)
(*     the empty envelope (imapserver.writeEnvelope).                       *)
RECURSIVE NormBS(_, _)
NormBS(b, ext) ==
  IF b.mp
  THEN [mp   |-> TRUE,
        kids |-> [i \in DOMAIN b.kids |-> NormBS(b.kids[i], ext)],
        sub  |-> b.sub,
        mext |-> IF ~ext \/ b.mext = <<>> THEN <<>>
                 ELSE <<[mparams |-> NormP(b.mext[1].mparams), disp |-> NormDisp(b.mext[1].disp),
                         lang |-> NormLang(b.mext[1].lang), loc |-> b.mext[1].loc]>>]
  ELSE [mp     |-> FALSE,
        type   |-> b.type,
        sub    |-> b.sub,
        params |-> NormP(b.params),
        id     |-> b.id,
        desc   |-> b.desc,
        enc    |-> NormEnc(b.enc),
        octets |-> b.octets,
        msg    |-> IF b.msg = <<>> THEN <<>>
                   ELSE <<[menv  |-> <<NormEnv(IF b.msg[1].menv = <<>> THEN ZeroEnv ELSE b.msg[1].menv[1])>>,
                           mbs   |-> NormBS(b.msg[1].mbs, ext),
                           lines |-> b.msg[1].lines]>>,
        text   |-> b.text,
        ext    |-> IF ~ext \/ b.ext = <<>> THEN <<>>
                   ELSE <<[disp |-> NormDisp(b.ext[1].disp), lang |-> NormLang(b.ext[1].lang),
                           loc |-> b.ext[1].loc]>>]

(* N11 RFC 3501 section 7.4.2 "BODY[<section>]<<origin octet>>": the        *)
(*     response names the section and the origin only; .PEEK and the        *)
(*     requested length are not part of it.  RFC 9051 section 9             *)
(*     msg-att-static: "BINARY" section-binary SP (nstring / literal8) -    *)
(*     a BINARY response has no origin at all.                              *)
NormSec(s) == [spec |-> s.spec, part |-> s.part, hf |-> s.hf, hfn |-> s.hfn,
               partial |-> IF s.partial = <<>> THEN <<>>
                           ELSE <<[off |-> s.partial[1].off, psize |-> 0]>>,
               peek |-> FALSE]
NormItem(it, req) ==
  CASE it.t = "flags" -> [t |-> "flags", flags |-> NormFlags(it.flags)]
    [] it.t = "date"  -> [t |-> "date", date |-> NormDate(it.date)]
    [] it.t = "env"   -> [t |-> "env", env |-> NormEnv(it.env)]
    [] it.t = "bs"    -> [t |-> "bs", bs |-> NormBS(it.bs, req.bs = "BODYSTRUCTURE")]
    [] it.t = "sec"   -> [t |-> "sec", sec |-> NormSec(it.sec), n |-> it.n,
                          p |-> IF it.n = 0 THEN "" ELSE it.p]
    [] it.t = "bin"   -> [t |-> "bin", part |-> it.part, bpartial |-> <<>>, peek |-> FALSE,
                          n |-> it.n, p |-> IF it.n = 0 THEN "" ELSE it.p]
    [] OTHER          -> it          \* size, uid, binsz
IsLit(it) == it.t \in {"sec", "bin"}
(* N12 the statement orders only body literals ("in the order sent"); the   *)
(*     other items of a message are a record (imapclient.FetchMessageBuffer)*)
(*     and messages are keyed by sequence number (DESIGN 1.5 rule 1).       *)
NormItems(items, req) ==
  LET n == [i \in DOMAIN items |-> NormItem(items[i], req)]
      Of(tt) == SelectSeq(n, LAMBDA x : x.t = tt) IN
  Of("flags") \o Of("date") \o Of("size") \o Of("uid") \o Of("env") \o Of("bs") \o Of("binsz")
     \o SelectSeq(n, IsLit)
NormMsg(m, req) == [seq |-> m.seq, items |-> NormItems(m.items, req)]

(* N13 a number set denotes a set of numbers (RFC 3501 section 9            *)
(*     sequence-set); ranges whose ends are both below 2^31 are expanded,   *)
(*     a range touching a symbolic point stays one element.                 *)
NormNS(rs) ==
  S2S(UNION {(IF r[1] >= 0 /\ r[2] >= 0
             THEN {<<n, n>> : n \in Min2(r[1], r[2]) .. Max2(r[1], r[2])}
             ELSE {r}) : r \in SeqRange(rs)})

(* N14 imap.SearchData: "UID, Min, Max, Count: requires IMAP4rev2 or        *)
(*     ESEARCH" - the SEARCH form carries All only.  ESEARCH (RFC 4731      *)
(*     section 3.1) carries the requested result options; ALL is assumed    *)
(*     when none is requested; MIN/MAX/ALL are omitted when nothing         *)
(*     matches, so 0 / empty = absent.                                      *)
NormSearch(d, req, rev2) ==
  LET es  == rev2 \/ req.ret # <<>>
      ret == IF req.ret = <<>> THEN {"ALL"} ELSE SeqRange(req.ret)
      all == IF es /\ "ALL" \notin ret THEN <<>> ELSE NormNS(d.all) IN
  [all   |-> all,
   allk  |-> IF all = <<>> THEN "" ELSE d.allk,
   isuid |-> es /\ d.isuid,
   min   |-> IF es /\ "MIN" \in ret THEN d.min ELSE 0,
   max   |-> IF es /\ "MAX" \in ret THEN d.max ELSE 0,
   count |-> IF es /\ "COUNT" \in ret THEN d.count ELSE 0]

(* N15 APPENDUID / COPYUID are optional ("requires UIDPLUS or IMAP4rev2"):  *)
(*     a nil *AppendData / *CopyData is the zero value.                     *)
NormAppend(d) == IF d = <<>> THEN <<>>
                 ELSE IF d[1].uid = 0 /\ d[1].uidval = 0 THEN <<>> ELSE d
NormCD(d) == IF d = <<>> THEN <<>>
             ELSE IF d[1].uidval = 0 /\ d[1].src = <<>> /\ d[1].dst = <<>> THEN <<>>
             ELSE <<[uidval |-> d[1].uidval, src |-> NormNS(d[1].src), dst |-> NormNS(d[1].dst)]>>

(* N16 RFC 2342 section 5: namespace = nil / "(" 1*namespace-descr ")":     *)
(*     nil = empty.                                                         *)
NormNSp(l) == IF l = <<>> THEN <<>> ELSE IF l[1] = <<>> THEN <<>> ELSE l

(* N17 capabilities: imap.CapSet.Has - "Some capabilities are implied by    *)
(*     others"; imapserver.availableCaps - "Some extensions (e.g. SASL-IR,  *)
(*     ENABLE) don't require backend support and thus are always enabled".  *)
(*     Compared: which of the capabilities a backend can switch on the      *)
(*     client sees as supported.                                            *)
Rev2Implied == {"NAMESPACE", "UNSELECT", "UIDPLUS", "ESEARCH", "SEARCHRES", "ENABLE", "IDLE",
                "SASL-IR", "LIST-EXTENDED", "LIST-STATUS", "MOVE", "LITERAL-", "STATUS=SIZE"}
BackendCaps == {"IMAP4rev1", "IMAP4rev2", "NAMESPACE", "UIDPLUS", "ESEARCH", "SEARCHRES",
                "LIST-EXTENDED", "LIST-STATUS", "MOVE", "STATUS=SIZE", "BINARY",
                "CREATE-SPECIAL-USE", "LITERAL+", "UNAUTHENTICATE"}
CapHas(S, k) == k \in S \/ ("IMAP4rev2" \in S /\ k \in Rev2Implied)
NormCaps(cs) == S2S({k \in BackendCaps : CapHas(SeqRange(cs), k)})

NormData(cs) ==
  CASE cs.k = "list"   -> S2S({NormList(cs.data[i], cs.req.st) : i \in DOMAIN cs.data})
    [] cs.k = "status" -> NormStatus(cs.data, SeqRange(cs.req.sitems))
    [] cs.k = "select" -> [flags |-> NormFlags(cs.data.flags), pflags |-> NormFlags(cs.data.pflags),
                           num |-> cs.data.num, uidnext |-> cs.data.uidnext, uidval |-> cs.data.uidval,
                           list |-> IF cs.data.list = <<>> THEN <<>>
                                    ELSE <<NormList(cs.data.list[1], <<>>)>>]
    [] cs.k = "fetch"  -> S2S({NormMsg(cs.data[i], cs.req) : i \in DOMAIN cs.data})
    [] cs.k = "search" -> NormSearch(cs.data, cs.req, cs.rev2)
    [] cs.k = "append" -> NormAppend(cs.data)
    [] cs.k = "copy"   -> [cd |-> NormCD(cs.data.cd), xp |-> cs.data.xp]
    [] cs.k = "ns"     -> [personal |-> NormNSp(cs.data.personal), other |-> NormNSp(cs.data.other),
                           shared |-> NormNSp(cs.data.shared)]
    [] cs.k = "caps"   -> NormCaps(cs.data)
    [] cs.k = "expunge" -> cs.data     \* order is data: RFC 3501 section 7.4.1, numbers shift
Norm(cs) == [cs EXCEPT !.data = NormData(cs)]

-----------------------------------------------------------------------------
(***************************************************************************)
(* CONTRACT - what the writers' documentation (or a panic message, or the  *)
(* grammar the writer targets) requires of the backend.                    *)
(***************************************************************************)
StatusOK(sd, items) ==
  /\ "MESSAGES" \in items => sd.msgs # <<>>          \* writeStatus dereferences the pointer
  /\ "UNSEEN" \in items => sd.unseen # <<>>
  /\ "DELETED" \in items => sd.deleted # <<>>
  /\ "SIZE" \in items => sd.size # <<>>
  /\ "DELETED-STORAGE" \in items => sd.delstor # <<>>
  /\ sd.mbox.s # ""                                  \* "The mailbox name is always populated"
ListOK(ld, st) ==
  /\ ld.mbox.s # "" \/ TRUE
  /\ (st # <<>> /\ ld.status # <<>>) =>
        /\ StatusOK(ld.status[1], SeqRange(st[1]))
        /\ NormMbox(ld.status[1].mbox) = NormMbox(ld.mbox)     \* the STATUS belongs to this mailbox
RECURSIVE BSOK(_, _)
BSOK(b, ext) ==
  IF b.mp
  THEN /\ Len(b.kids) >= 1        \* "imap.BodyStructureMultiPart must have at least one child"
       /\ ext => b.mext # <<>>    \* "client requested extended body structure but a non-extended one is written back"
       /\ \A i \in DOMAIN b.kids : BSOK(b.kids[i], ext)
  ELSE /\ ext => b.ext # <<>>
       /\ (b.text # <<>>) <=> (b.type \in {"text", "TEXT", "Text"})   \* body-type-text has body-fld-lines
       /\ (b.msg # <<>>) <=> (b.type \in {"message", "MESSAGE"} /\ b.sub \in {"rfc822", "RFC822", "global"})
       /\ b.msg # <<>> => BSOK(b.msg[1].mbs, ext)
ItemOK(it, req) ==
  CASE it.t = "bs"   -> req.bs \in {"BODY", "BODYSTRUCTURE"} /\ BSOK(it.bs, req.bs = "BODYSTRUCTURE")
    [] it.t = "date" -> it.date # <<>>               \* a message has an internal date
    [] it.t = "uid"  -> it.uid # 0
    [] it.t = "sec"  -> /\ (it.sec.hf # <<>> \/ it.sec.hfn # <<>>) => it.sec.spec = "HEADER"
                        /\ ~(it.sec.hf # <<>> /\ it.sec.hfn # <<>>)
                        /\ it.sec.partial # <<>> => it.sec.partial[1].off \notin {P32, P32P1, P53, I63MAX}
                                                     \* "<" number ">": 32 bits
    [] OTHER -> TRUE
InContract(cs) ==
  CASE cs.k = "list"   -> \A i \in DOMAIN cs.data : ListOK(cs.data[i], cs.req.st)
    [] cs.k = "status" -> StatusOK(cs.data, SeqRange(cs.req.sitems)) /\ cs.data.mbox = cs.req.mbox
    [] cs.k = "select" -> cs.data.list # <<>> => ListOK(cs.data.list[1], <<>>)
    [] cs.k = "fetch"  -> \A i \in DOMAIN cs.data :
                            /\ cs.data[i].seq # 0
                            /\ \A j \in DOMAIN cs.data[i].items : ItemOK(cs.data[i].items[j], cs.req)
                            \* for UID FETCH the UID precedes the first literal (client doc comment)
                            /\ cs.req.uid => /\ cs.data[i].items # <<>>
                                             /\ cs.data[i].items[1].t = "uid"
    [] cs.k = "search" -> /\ cs.data.isuid = cs.req.uid
                          /\ cs.data.allk = (IF cs.req.uid THEN "uid" ELSE "seq")
    [] cs.k = "copy"   -> /\ cs.data.cd # <<>> => (cs.data.cd[1].src # <<>> /\ cs.data.cd[1].dst # <<>>)
                          /\ ~cs.req.move => cs.data.xp = <<>>
                          /\ \A i \in DOMAIN cs.data.xp : cs.data.xp[i] # 0
    [] cs.k = "caps"   -> "IMAP4rev1" \in SeqRange(cs.data) \/ "IMAP4rev2" \in SeqRange(cs.data)
    [] cs.k = "expunge" -> \A i \in DOMAIN cs.data : cs.data[i] # 0
    [] OTHER -> TRUE

=============================================================================
