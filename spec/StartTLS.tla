------------------------------ MODULE StartTLS ------------------------------
(***************************************************************************)
(* STARTTLS boundary (property C17): imapserver/starttls.go,               *)
(* imapclient/starttls.go, NewStartTLS in imapclient/client.go, and the     *)
(* authentication gating of imapserver (capability.go, login.go,            *)
(* authenticate.go).                                                        *)
(*                                                                         *)
(* ONE direction of a connection is modelled: the bytes a peer (or a       *)
(* man-in-the-middle) writes towards the RECEIVER, which is the go-imap     *)
(* server (side = "server") or the go-imap client (side = "client").       *)
(*   sock   bytes written by the peer, not yet read by the receiver        *)
(*   buf    bytes read into the receiver's bufio.Reader, not yet parsed    *)
(*   layer  "plain" | "tls": who consumes the receiver's input             *)
(* Deliver(k) moves the next k bytes sock -> buf (one Read returning k     *)
(* bytes: every segmentation of the input is a behaviour), ParseLine       *)
(* interprets one complete line of buf as IMAP while layer = "plain",      *)
(* Switch is the interpretation of the STARTTLS command line (server) /    *)
(* of the tagged OK answering STARTTLS (client); from then on every byte   *)
(* in buf and sock can only be consumed by HandshakeConsume (it is input   *)
(* of the TLS handshake).  The ghost `pas` (parsedAfterSwitch) lists lines *)
(* interpreted as IMAP although the switch had happened; it can only grow  *)
(* in the deliberately wrong design Faulty = TRUE (CVE-2011-0411: the      *)
(* buffered remainder stays with the IMAP parser).                         *)
(*                                                                         *)
(* What a parsed line MEANS on the server side is not restated here: the   *)
(* module extends ServerConn (C05) and a parsed command is ServerConn's    *)
(* Good(c, 0), so state, tls, CanAuth, CanStartTLS, CapsOf are the ones    *)
(* of the server state machine.  The client side (greeting, capabilities,  *)
(* unilateral data, NewStartTLS result) is specified here.                 *)
(*                                                                         *)
(* A byte is the integer 2*i + e: i = index of its line in `stream`,       *)
(* e = 1 iff it is the last byte (LF) of that line.                        *)
(***************************************************************************)
EXTENDS ServerConn, Integers

CONSTANTS Cases,    \* set of [side, lines] records: the inputs covered by a run
          Faulty    \* BOOLEAN: TRUE = wrong design (used to show the invariants can fail)

VARIABLES side,     \* "server" | "client": who receives
          stream,   \* Seq([tag, c, n]): the lines the peer writes (n = length in bytes)
          sock, buf, layer,
          parsed,   \* ghost: indices of the lines interpreted as IMAP, in order
          pas,      \* ghost: parsedAfterSwitch
          garbage,  \* number of plaintext bytes that went into the TLS handshake
          resps,    \* server: tagged responses to stream lines, Seq([tag, cls])
          scalls,   \* server: backend calls caused by stream lines, Seq(method)
          hs,       \* "none" | "ok" | "fail": TLS handshake after the switch
          cl        \* client-side state (record, see ClientInit)

chvars == <<side, stream, sock, buf, layer, parsed, pas, garbage, resps, scalls, hs, cl>>
stvars == <<vars, chvars>>

\* ------------------------------------------------------------------ configurations
\* Servers with and without InsecureAuth and TLS configuration.  The connection starts in
\* plaintext (implicit TLS is C05's business); tls becomes TRUE only through STARTTLS, so
\* the product tls x InsecureAuth x HasTLSConfig is covered by the reachable states.
C17Configs == {c \in AllConfigs : ~c.TLS /\ ~c.PreAuth /\ ~c.CapMove /\ ~c.CapNamespace /\ ~c.CapUnauth}
ClientCfg == [TLS |-> FALSE, InsecureAuth |-> FALSE, PreAuth |-> FALSE, HasTLSConfig |-> TRUE,
              CapMove |-> FALSE, CapNamespace |-> FALSE, CapUnauth |-> FALSE, Sasl |-> FALSE]

\* ------------------------------------------------------------------ catalogue
L(t, c) == [tag |-> t, c |-> c, n |-> 4]      \* model lines: 4 cut points (text | text | CR | LF)

\* server side: [pre] a STARTTLS [suffix]
\* (AUTHENTICATE-X: a SASL mechanism other than PLAIN, known to sessions with their own mechanisms - cfg.Sasl)
SrvPre == {<<>>, <<L("p", "CAPABILITY")>>, <<L("p", "LOGIN")>>, <<L("p", "NOOP")>>, <<L("p", "AUTHENTICATE-X")>>}
SrvSuffix == {<<>>, <<L("b", "LOGIN")>>, <<L("b", "NOOP")>>, <<L("b", "CAPABILITY")>>,
              <<L("b", "CREATE")>>, <<L("b", "AUTHENTICATE")>>, <<L("b", "AUTHENTICATE-X")>>,
              <<L("b", "LOGIN"), L("e", "CREATE")>>}
SrvCases == {[side |-> "server", lines |-> p \o <<L("a", "STARTTLS")>> \o s] : p \in SrvPre, s \in SrvSuffix}
SrvCasesSmall == {[side |-> "server", lines |-> p \o <<L("a", "STARTTLS")>> \o s] :
                     p \in {<<>>, <<L("p", "LOGIN")>>, <<L("p", "AUTHENTICATE-X")>>}, s \in SrvSuffix}

\* client side: greeting [pre] T-OK [suffix]
\*   GOK  `* OK ready`            GOKC `* OK [CAPABILITY <PlainCaps>] ready`
\*   GPREAUTH `* PREAUTH [CAPABILITY <PlainCaps>] hi`      GBYE `* BYE busy`
\*   TOK  `<tag of the client's STARTTLS> OK Begin TLS negotiation now`
\*   CAPS `* CAPABILITY <EvilCaps>`   OKCAPS `* OK [CAPABILITY <EvilCaps>] hi`
\*   EXISTS `* <100+i> EXISTS`   EXPUNGE `* <100+i> EXPUNGE`   (i = index of the line)
\*   TAGGED `X9 OK done` (unknown tag)   BYE `* BYE bye`   PREAUTH `* PREAUTH hi`
Greetings == {"GOK", "GOKC", "GPREAUTH", "GBYE"}
\* (capabilities announced in plaintext between the client's STARTTLS and its OK are plaintext knowledge as well)
\* CONT `+ <base64>`: a continuation request nobody asked for, written in plaintext
CliPre == {<<>>, <<L("*", "EXISTS")>>, <<L("*", "CAPS")>>, <<L("*", "OKCAPS")>>, <<L("+", "CONT")>>}
CliSuffix == {<<>>, <<L("*", "OKCAPS")>>, <<L("*", "CAPS")>>, <<L("*", "EXISTS")>>, <<L("*", "EXPUNGE")>>,
              <<L("X", "TAGGED")>>, <<L("*", "BYE")>>, <<L("*", "PREAUTH")>>,
              <<L("*", "CAPS"), L("*", "EXISTS")>>}
\* TOKC `<tag> OK [CAPABILITY <EvilCaps>] Begin TLS negotiation now`: the completion of STARTTLS is itself plaintext -
\* what it says about capabilities is no more to be trusted than any other plaintext (RFC 3501 6.2.1, RFC 9051 6.2.1:
\* the client MUST discard cached information about server capabilities once TLS has been started)
Toks == {"TOK", "TOKC"}
CliCases == {[side |-> "client", lines |-> <<L("*", g)>> \o p \o <<L("T", t)>> \o s] :
                g \in Greetings, p \in CliPre, s \in CliSuffix, t \in Toks}
CliCasesSmall == {[side |-> "client", lines |-> <<L("*", g)>> \o p \o <<L("T", "TOK")>> \o s] :
                g \in Greetings, p \in {<<>>}, s \in CliSuffix}
             \cup {[side |-> "client", lines |-> <<L("*", "GOKC"), L("*", "EXISTS"), L("T", "TOK")>> \o s] :
                s \in {<<>>, <<L("*", "EXISTS")>>}}
             \cup {[side |-> "client", lines |-> <<L("*", g), L("*", c), L("T", "TOK")>> \o s] :
                g \in {"GOK", "GOKC"}, c \in {"CAPS", "OKCAPS"}, s \in {<<>>, <<L("*", "EXISTS")>>}}
             \cup {[side |-> "client", lines |-> <<L("*", g), L("+", "CONT"), L("T", "TOK")>> \o s] :
                g \in {"GOK", "GOKC"}, s \in {<<>>, <<L("*", "EXISTS")>>}}
             \cup {[side |-> "client", lines |-> <<L("*", g), L("T", "TOKC")>> \o s] :
                g \in {"GOK", "GOKC"}, s \in {<<>>, <<L("*", "EXISTS")>>}}

AllCases == SrvCases \cup CliCases
SmallCases == SrvCasesSmall \cup CliCasesSmall

PlainCaps == {"IMAP4rev1", "STARTTLS", "LOGINDISABLED"}   \* what the peer says before TLS
EvilCaps  == {"IMAP4rev1", "AUTH=PLAIN", "XEVIL"}         \* only ever said by a plaintext suffix
TLSCaps   == {"IMAP4rev1", "AUTH=PLAIN", "XINSIDE"}       \* what the peer says inside TLS

\* ------------------------------------------------------------------ bytes
BytesOfLine(i, n) == [j \in 1..n |-> 2 * i + (IF j = n THEN 1 ELSE 0)]
RECURSIVE FlatFrom(_, _)
FlatFrom(s, i) == IF i > Len(s) THEN <<>> ELSE BytesOfLine(i, s[i].n) \o FlatFrom(s, i + 1)

IsLast(b) == b % 2 = 1
HasLine(b) == \E i \in 1..Len(b) : IsLast(b[i])
LineEnd(b) == CHOOSE i \in 1..Len(b) : IsLast(b[i]) /\ \A j \in 1..(i - 1) : ~IsLast(b[j])
Rest(b) == SubSeq(b, LineEnd(b) + 1, Len(b))
FirstLine(b) == b[1] \div 2

RECURSIVE SumLen(_, _)
SumLen(idx, i) == IF i > Len(idx) THEN 0 ELSE stream[idx[i]].n + SumLen(idx, i + 1)

\* ------------------------------------------------------------------ client state
ClientInit == [greet |-> "none",      \* "none" | "OK" | "PREAUTH" | "BYE"
               cstate |-> "none",     \* what Client.State() reports
               caps |-> {},           \* what the client believes the capabilities are ({} = not known)
               handler |-> <<>>,      \* unilateral data handed to the application (line indices)
               dead |-> FALSE,        \* reader stopped, connection closed
               upgraded |-> FALSE]    \* upgradeStartTLS happened

\* meaning of one plaintext line for the client
CApply(c, li, k) ==
  IF c.greet = "none" THEN
    CASE k = "GOK"      -> [c EXCEPT !.greet = "OK", !.cstate = "notauth"]
      [] k = "GOKC"     -> [c EXCEPT !.greet = "OK", !.cstate = "notauth", !.caps = PlainCaps]
      [] k = "GPREAUTH" -> [c EXCEPT !.greet = "PREAUTH", !.cstate = "auth", !.caps = PlainCaps]
      [] OTHER          -> [c EXCEPT !.greet = "BYE", !.cstate = "logout", !.dead = TRUE]
  ELSE
    CASE k \in Toks                 -> [c EXCEPT !.upgraded = TRUE, !.caps = {}]   \* capabilities are forgotten
      [] k \in {"CAPS", "OKCAPS"}   -> [c EXCEPT !.caps = EvilCaps]
      \* a continuation request without a command that waits for one: a protocol error, the client gives up (what must
      \* not happen is that it is kept for a command issued inside TLS - checked by the harness with an IDLE there)
      [] k = "CONT"                 -> [c EXCEPT !.dead = TRUE]
      [] k \in {"EXISTS", "EXPUNGE"} -> [c EXCEPT !.handler = Append(@, li)]
      [] OTHER                      -> c

\* NewStartTLS: "error" | "client" | "pending"
NewStartTLSResult ==
  IF cl.upgraded THEN (IF cl.greet = "OK" THEN "client" ELSE "error")
  ELSE IF cl.dead THEN "error" ELSE "pending"
MustRefuse == cl.greet \in {"PREAUTH", "BYE"}

\* ------------------------------------------------------------------ initial state
STInit ==
  /\ Init
  /\ \E cs \in Cases :
       /\ side = cs.side /\ stream = cs.lines /\ sock = FlatFrom(cs.lines, 1)
  /\ side = "client" => cfg = ClientCfg
  /\ buf = <<>> /\ layer = "plain" /\ parsed = <<>> /\ pas = <<>> /\ garbage = 0
  /\ resps = <<>> /\ scalls = <<>> /\ hs = "none" /\ cl = ClientInit

\* ------------------------------------------------------------------ actions
Deliver(k) ==
  /\ k \in 1..Len(sock)
  /\ buf' = buf \o SubSeq(sock, 1, k)
  /\ sock' = SubSeq(sock, k + 1, Len(sock))
  /\ UNCHANGED <<vars, side, stream, layer, parsed, pas, garbage, resps, scalls, hs, cl>>

SrvCanParse == side = "server" /\ layer = "plain" /\ HasLine(buf) /\ Alive

\* The server interprets the next complete line: ServerConn decides what happens.
SrvParse ==
  /\ SrvCanParse
  /\ LET li == FirstLine(buf)
         ln == stream[li] IN
       /\ Good(ln.c, 0)
       /\ buf' = Rest(buf)
       /\ parsed' = Append(parsed, li)
       /\ resps' = Append(resps, [tag |-> ln.tag, cls |-> out'.tagged])
       /\ scalls' = scalls \o [j \in 1..Len(calls') |-> calls'[j].m]
       /\ layer' = IF tls' THEN "tls" ELSE "plain"
  /\ UNCHANGED <<side, stream, sock, pas, garbage, hs, cl>>

CliCanParse == side = "client" /\ layer = "plain" /\ HasLine(buf) /\ ~cl.dead

CliParse ==
  /\ CliCanParse
  /\ LET li == FirstLine(buf) IN
       /\ cl' = CApply(cl, li, stream[li].c)
       /\ buf' = Rest(buf)
       /\ parsed' = Append(parsed, li)
       /\ layer' = IF cl'.upgraded THEN "tls" ELSE "plain"
  /\ UNCHANGED <<vars, side, stream, sock, pas, garbage, resps, scalls, hs>>

ParseLine == (SrvParse \/ CliParse) /\ layer' = "plain"
Switch    == (SrvParse \/ CliParse) /\ layer' = "tls"

\* After the switch the TLS layer owns the input: whatever is buffered is handshake input.
HandshakeConsume ==
  /\ layer = "tls" /\ Len(buf) > 0
  /\ garbage' = garbage + Len(buf)
  /\ buf' = <<>>
  /\ UNCHANGED <<vars, side, stream, sock, layer, parsed, pas, resps, scalls, hs, cl>>

\* The wrong design: a buffered line survives the switch and is interpreted as IMAP.
FaultyParse ==
  /\ Faulty /\ layer = "tls" /\ HasLine(buf)
  /\ pas' = Append(pas, FirstLine(buf))
  /\ parsed' = Append(parsed, FirstLine(buf))
  /\ buf' = Rest(buf)
  /\ UNCHANGED <<vars, side, stream, sock, layer, garbage, resps, scalls, hs, cl>>

Quiet == sock = <<>> /\ buf = <<>>

\* The peer performs the TLS handshake after having written everything.  Plaintext in the
\* handshake input may or may not break it (the property does not say); without any it works.
HsDone(ok) ==
  /\ layer = "tls" /\ hs = "none" /\ Quiet
  /\ garbage = 0 => ok
  /\ hs' = IF ok THEN "ok" ELSE "fail"
  /\ cl' = IF side = "client" /\ ~ok THEN [cl EXCEPT !.dead = TRUE] ELSE cl
  /\ UNCHANGED <<vars, side, stream, sock, buf, layer, parsed, pas, garbage, resps, scalls>>

\* Server: a further command sent through the established layer (plaintext if no switch
\* happened, inside TLS after a successful handshake).  Observation: out', calls', CapsOf.
ProbeCmds == {"NOOP", "CAPABILITY", "LOGIN"}
CanProbe == side = "server" /\ sock = <<>> /\ ~SrvCanParse /\ (layer = "tls" => hs = "ok")
Probe(c) ==
  /\ CanProbe /\ c \in ProbeCmds
  /\ Good(c, 0)
  /\ UNCHANGED chvars

\* Client: the peer answers a CAPABILITY command inside TLS.
TlsAnswer ==
  /\ side = "client" /\ cl.upgraded /\ ~cl.dead /\ hs = "ok" /\ cl.greet = "OK"
  /\ cl' = [cl EXCEPT !.caps = TLSCaps]
  /\ UNCHANGED <<vars, side, stream, sock, buf, layer, parsed, pas, garbage, resps, scalls, hs>>

STNext ==
  \/ \E k \in 1..Len(sock) : Deliver(k)
  \/ ParseLine \/ Switch \/ HandshakeConsume \/ FaultyParse
  \/ \E ok \in BOOLEAN : HsDone(ok)
  \/ \E c \in ProbeCmds : Probe(c)
  \/ TlsAnswer

STSpec == STInit /\ [][STNext]_stvars

\* ------------------------------------------------------------------ properties (C17)
STTypeOK ==
  /\ side \in {"server", "client"} /\ layer \in {"plain", "tls"} /\ hs \in {"none", "ok", "fail"}
  /\ garbage \in Nat /\ TypeOK

\* No plaintext line is interpreted once the switch has happened, for every segmentation.
NoParseAfterSwitch == pas = <<>>
FrozenAfterSwitch == [][layer = "tls" => parsed' = parsed]_stvars

\* Every input byte is in flight, buffered, was interpreted in plaintext BEFORE the switch,
\* or was input of the TLS handshake; the interpreted lines are a prefix of the stream.
Conservation == Len(sock) + Len(buf) + garbage + SumLen(parsed, 1) = SumLen([i \in 1..Len(stream) |-> i], 1)
ParsedIsPrefix == \A i \in 1..Len(parsed) : parsed[i] = i
OnlyHandshakeAfterSwitch ==
  layer = "tls" /\ ~Faulty =>
     /\ Len(parsed) >= 1 /\ stream[parsed[Len(parsed)]].c \in {"STARTTLS"} \cup Toks
     /\ SumLen([i \in 1..(Len(stream) - Len(parsed)) |-> Len(parsed) + i], 1) = Len(sock) + Len(buf) + garbage

\* server: layer and ServerConn's tls are the same thing
LayerIsTLS == side = "server" => ((layer = "tls") <=> tls)

\* Authentication gating (the product tls x InsecureAuth x HasTLSConfig, via ServerConn):
\* credentials reach the backend only if tls \/ InsecureAuth ...
CredsOnlyWhenSecure == CredentialsOnlyWhenSecure
\* ... LOGINDISABLED is advertised iff credentials would be refused, AUTH= iff accepted,
\* STARTTLS iff it is available.
AdvertiseConsistent ==
  LET cp == CapsOf(state, tls) IN
    IF state = "notauth"
    THEN (cp.logindis <=> ~CanAuth) /\ (cp.auth <=> CanAuth) /\ (cp.starttls <=> CanStartTLS)
    ELSE ~cp.logindis /\ ~cp.auth /\ ~cp.starttls
\* a command of the stream reaches the backend only if it was interpreted before the switch
BackendOnlyFromPlain == Len(scalls) > 0 => Len(parsed) > 0

\* client: after the upgrade nothing the plaintext said survives ...
ClientTrustsOnlyTLS == side = "client" /\ cl.upgraded => cl.caps \in {{}, TLSCaps}
\* ... unilateral data are delivered only for lines in front of the tagged OK ...
HandlerOnlyBeforeSwitch ==
  \A i \in 1..Len(cl.handler) : \E j \in (cl.handler[i] + 1)..Len(stream) : stream[j].c \in Toks
\* ... and a client is handed out only on an OK greeting, not authenticated.
RefusesPreauth ==
  /\ MustRefuse => NewStartTLSResult # "client"
  /\ NewStartTLSResult = "client" => cl.cstate \in {"notauth", "logout"}
=============================================================================
