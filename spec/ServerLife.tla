------------------------------ MODULE ServerLife ------------------------------
(***************************************************************************)
(* Life cycle of one imapserver connection (property C06): whatever bytes  *)
(* arrive and wherever the peer disconnects, the protocol layer            *)
(*   - reaches the backend only between NewSession and Session.Close,      *)
(*   - buffers a literal in memory only if it is at most LitMax bytes,     *)
(*   - hands APPEND at most AppendMax bytes,                               *)
(*   - hands over arguments whose parenthesised nesting is at most NestMax *)
(*     deep (search keys are the one place where a command nests),         *)
(*   - closes the backend session exactly once, closes the connection and  *)
(*     leaves no goroutine behind once the peer is gone.                   *)
(* The reader modes in which a disconnect can strike are explicit.         *)
(***************************************************************************)
EXTENDS Naturals, Sequences, TLC

CONSTANTS LitMax, AppendMax,   \* 4096, 100 MiB (classes in the bounded model)
          NestMax,             \* 1000: deepest list nesting the reader follows
          Sizes                \* literal sizes the model tries

VARIABLES phase,       \* "new" | "serving" | "teardown" | "done"
          mode,        \* reader mode: "line" | "literal" | "sasl" | "idle"
          sessionOpen, \* backend session exists and is not closed
          closeCount,  \* number of Session.Close calls
          connClosed,  \* server closed its end
          idleRunning, \* the IDLE goroutine is alive
          peerGone,    \* the client has disconnected (EOF or reset)
          exited       \* serve() returned, no goroutine of the connection is left

vars == <<phase, mode, sessionOpen, closeCount, connClosed, idleRunning, peerGone, exited>>

Init ==
  /\ phase = "new" /\ mode = "line" /\ sessionOpen = FALSE /\ closeCount = 0
  /\ connClosed = FALSE /\ idleRunning = FALSE /\ peerGone = FALSE /\ exited = FALSE

NewSession ==
  /\ phase = "new"
  /\ phase' = "serving" /\ sessionOpen' = TRUE
  /\ UNCHANGED <<mode, closeCount, connClosed, idleRunning, peerGone, exited>>

\* a backend call with a buffered string argument of n bytes (0 = no such argument)
Call(n) ==
  /\ phase = "serving" /\ sessionOpen /\ mode = "line"
  /\ n <= LitMax
  /\ UNCHANGED vars

\* APPEND hands a reader of n bytes to the backend
CallAppend(n) ==
  /\ phase = "serving" /\ sessionOpen /\ mode \in {"line", "literal"}
  /\ n <= AppendMax
  /\ mode' = "line"
  /\ UNCHANGED <<phase, sessionOpen, closeCount, connClosed, idleRunning, peerGone, exited>>

EnterLiteral(n) ==
  /\ phase = "serving" /\ mode = "line" /\ n <= AppendMax
  /\ mode' = "literal"
  /\ UNCHANGED <<phase, sessionOpen, closeCount, connClosed, idleRunning, peerGone, exited>>

EnterSasl == /\ phase = "serving" /\ mode = "line" /\ mode' = "sasl"
             /\ UNCHANGED <<phase, sessionOpen, closeCount, connClosed, idleRunning, peerGone, exited>>
LeaveSasl == /\ phase = "serving" /\ mode = "sasl" /\ mode' = "line"
             /\ UNCHANGED <<phase, sessionOpen, closeCount, connClosed, idleRunning, peerGone, exited>>
EnterIdle == /\ phase = "serving" /\ mode = "line" /\ mode' = "idle" /\ idleRunning' = TRUE
             /\ UNCHANGED <<phase, sessionOpen, closeCount, connClosed, peerGone, exited>>
LeaveIdle == /\ phase = "serving" /\ mode = "idle" /\ mode' = "line" /\ idleRunning' = FALSE
             /\ UNCHANGED <<phase, sessionOpen, closeCount, connClosed, peerGone, exited>>

\* the peer disconnects: possible at any moment, in every reader mode
Disconnect ==
  /\ ~peerGone /\ peerGone' = TRUE
  /\ UNCHANGED <<phase, mode, sessionOpen, closeCount, connClosed, idleRunning, exited>>

\* the serve loop notices the end (EOF, read error, LOGOUT, fatal protocol error, panic recovered)
BeginTeardown ==
  /\ phase = "serving" /\ phase' = "teardown"
  /\ UNCHANGED <<mode, sessionOpen, closeCount, connClosed, idleRunning, peerGone, exited>>

StopIdle ==
  /\ phase = "teardown" /\ idleRunning /\ idleRunning' = FALSE
  /\ UNCHANGED <<phase, mode, sessionOpen, closeCount, connClosed, peerGone, exited>>

SessionClose ==
  /\ phase = "teardown" /\ sessionOpen /\ ~idleRunning
  /\ sessionOpen' = FALSE /\ closeCount' = closeCount + 1
  /\ UNCHANGED <<phase, mode, connClosed, idleRunning, peerGone, exited>>

\* The server closes its end: at the very end of the teardown, or earlier - a BYE sent because of an
\* unknown command, or Server.Close, close the connection while the serve loop is still running; commands
\* that were already received may still be executed before the loop notices.
ConnClose ==
  /\ phase \in {"new", "serving", "teardown"} /\ ~connClosed   \* "new": Server.Close before the session exists
  /\ connClosed' = TRUE
  /\ UNCHANGED <<phase, mode, sessionOpen, closeCount, idleRunning, peerGone, exited>>

Exit ==
  /\ phase = "teardown" /\ connClosed /\ ~sessionOpen /\ ~idleRunning /\ ~exited
  /\ exited' = TRUE /\ phase' = "done"
  /\ UNCHANGED <<mode, sessionOpen, closeCount, connClosed, idleRunning, peerGone>>

Serve == NewSession \/ (\E n \in Sizes : Call(n) \/ CallAppend(n) \/ EnterLiteral(n))
         \/ EnterSasl \/ LeaveSasl \/ EnterIdle \/ LeaveIdle
Teardown == BeginTeardown \/ StopIdle \/ SessionClose \/ ConnClose \/ Exit

Next == Serve \/ Disconnect \/ Teardown

\* once the peer is gone the server makes progress towards the end
Fairness == /\ WF_vars(Teardown)
            /\ WF_vars((peerGone \/ connClosed) /\ BeginTeardown)

Spec == Init /\ [][Next]_vars /\ Fairness

\* ------------------------------------------------------------- properties
TypeOK == closeCount \in 0..2 /\ phase \in {"new", "serving", "teardown", "done"}
CloseAtMostOnce == closeCount <= 1
DoneMeansClean == phase = "done" => closeCount = 1 /\ connClosed /\ ~idleRunning /\ ~sessionOpen
NoCallAfterClose == [][~sessionOpen /\ phase # "new" => UNCHANGED sessionOpen]_vars
\* a served connection whose peer is gone ends cleanly
CleanupAfterDisconnect == ((peerGone \/ connClosed) /\ phase \in {"serving", "teardown"}) ~> (phase = "done")
=============================================================================
