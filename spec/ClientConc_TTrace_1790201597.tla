---- MODULE ClientConc_TTrace_1790201597 ----
EXTENDS Sequences, TLCExt, Toolbox, Naturals, TLC, ClientConc

_expression ==
    LET ClientConc_TEExpression == INSTANCE ClientConc_TEExpression
    IN ClientConc_TEExpression!expression
----

_trace ==
    LET ClientConc_TETrace == INSTANCE ClientConc_TETrace
    IN ClientConc_TETrace!trace
----

_inv ==
    ~(
        TLCGet("level") = Len(_TETrace)
        /\
        ncomp = (<<1, 0>>)
        /\
        conn = ("lost")
        /\
        pc = (<<"done", "idle">>)
        /\
        found = (0)
        /\
        inited = ({1})
        /\
        race = (FALSE)
        /\
        reader = ("exit")
        /\
        panicked = (FALSE)
        /\
        registered = (<<>>)
        /\
        enc = (1)
        /\
        sent = ({1})
        /\
        closer = ((0 :> [st |-> "done", take |-> <<>>] @@ 1 :> [st |-> "none", take |-> <<>>] @@ 2 :> [st |-> "none", take |-> <<>>]))
    )
----

_init ==
    /\ ncomp = _TETrace[1].ncomp
    /\ panicked = _TETrace[1].panicked
    /\ conn = _TETrace[1].conn
    /\ pc = _TETrace[1].pc
    /\ found = _TETrace[1].found
    /\ reader = _TETrace[1].reader
    /\ enc = _TETrace[1].enc
    /\ inited = _TETrace[1].inited
    /\ sent = _TETrace[1].sent
    /\ registered = _TETrace[1].registered
    /\ closer = _TETrace[1].closer
    /\ race = _TETrace[1].race
----

_next ==
    /\ \E i,j \in DOMAIN _TETrace:
        /\ \/ /\ j = i + 1
              /\ i = TLCGet("level")
        /\ ncomp  = _TETrace[i].ncomp
        /\ ncomp' = _TETrace[j].ncomp
        /\ panicked  = _TETrace[i].panicked
        /\ panicked' = _TETrace[j].panicked
        /\ conn  = _TETrace[i].conn
        /\ conn' = _TETrace[j].conn
        /\ pc  = _TETrace[i].pc
        /\ pc' = _TETrace[j].pc
        /\ found  = _TETrace[i].found
        /\ found' = _TETrace[j].found
        /\ reader  = _TETrace[i].reader
        /\ reader' = _TETrace[j].reader
        /\ enc  = _TETrace[i].enc
        /\ enc' = _TETrace[j].enc
        /\ inited  = _TETrace[i].inited
        /\ inited' = _TETrace[j].inited
        /\ sent  = _TETrace[i].sent
        /\ sent' = _TETrace[j].sent
        /\ registered  = _TETrace[i].registered
        /\ registered' = _TETrace[j].registered
        /\ closer  = _TETrace[i].closer
        /\ closer' = _TETrace[j].closer
        /\ race  = _TETrace[i].race
        /\ race' = _TETrace[j].race

\* Uncomment the ASSUME below to write the states of the error trace
\* to the given file in Json format. Note that you can pass any tuple
\* to `JsonSerialize`. For example, a sub-sequence of _TETrace.
    \* ASSUME
    \*     LET J == INSTANCE Json
    \*         IN J!JsonSerialize("ClientConc_TTrace_1790201597.json", _TETrace)

=============================================================================

 Note that you can extract this module `ClientConc_TEExpression`
  to a dedicated file to reuse `expression` (the module in the 
  dedicated `ClientConc_TEExpression.tla` file takes precedence 
  over the module `ClientConc_TEExpression` below).

---- MODULE ClientConc_TEExpression ----
EXTENDS Sequences, TLCExt, Toolbox, Naturals, TLC, ClientConc

expression == 
    [
        \* To hide variables of the `ClientConc` spec from the error trace,
        \* remove the variables below.  The trace will be written in the order
        \* of the fields of this record.
        ncomp |-> ncomp
        ,panicked |-> panicked
        ,conn |-> conn
        ,pc |-> pc
        ,found |-> found
        ,reader |-> reader
        ,enc |-> enc
        ,inited |-> inited
        ,sent |-> sent
        ,registered |-> registered
        ,closer |-> closer
        ,race |-> race
        
        \* Put additional constant-, state-, and action-level expressions here:
        \* ,_stateNumber |-> _TEPosition
        \* ,_ncompUnchanged |-> ncomp = ncomp'
        
        \* Format the `ncomp` variable as Json value.
        \* ,_ncompJson |->
        \*     LET J == INSTANCE Json
        \*     IN J!ToJson(ncomp)
        
        \* Lastly, you may build expressions over arbitrary sets of states by
        \* leveraging the _TETrace operator.  For example, this is how to
        \* count the number of times a spec variable changed up to the current
        \* state in the trace.
        \* ,_ncompModCount |->
        \*     LET F[s \in DOMAIN _TETrace] ==
        \*         IF s = 1 THEN 0
        \*         ELSE IF _TETrace[s].ncomp # _TETrace[s-1].ncomp
        \*             THEN 1 + F[s-1] ELSE F[s-1]
        \*     IN F[_TEPosition - 1]
    ]

=============================================================================



Parsing and semantic processing can take forever if the trace below is long.
 In this case, it is advised to uncomment the module below to deserialize the
 trace from a generated binary file.

\*
\*---- MODULE ClientConc_TETrace ----
\*EXTENDS IOUtils, TLC, ClientConc
\*
\*trace == IODeserialize("ClientConc_TTrace_1790201597.bin", TRUE)
\*
\*=============================================================================
\*

---- MODULE ClientConc_TETrace ----
EXTENDS TLC, ClientConc

trace == 
    <<
    ([ncomp |-> <<0, 0>>,conn |-> "open",pc |-> <<"idle", "idle">>,found |-> 0,inited |-> {},race |-> FALSE,reader |-> "run",panicked |-> FALSE,registered |-> <<>>,enc |-> 0,sent |-> {},closer |-> (0 :> [st |-> "none", take |-> <<>>] @@ 1 :> [st |-> "none", take |-> <<>>] @@ 2 :> [st |-> "none", take |-> <<>>])]),
    ([ncomp |-> <<0, 0>>,conn |-> "open",pc |-> <<"write", "idle">>,found |-> 0,inited |-> {1},race |-> FALSE,reader |-> "run",panicked |-> FALSE,registered |-> <<1>>,enc |-> 1,sent |-> {},closer |-> (0 :> [st |-> "none", take |-> <<>>] @@ 1 :> [st |-> "none", take |-> <<>>] @@ 2 :> [st |-> "none", take |-> <<>>])]),
    ([ncomp |-> <<0, 0>>,conn |-> "open",pc |-> <<"cont", "idle">>,found |-> 0,inited |-> {1},race |-> FALSE,reader |-> "run",panicked |-> FALSE,registered |-> <<1>>,enc |-> 1,sent |-> {1},closer |-> (0 :> [st |-> "none", take |-> <<>>] @@ 1 :> [st |-> "none", take |-> <<>>] @@ 2 :> [st |-> "none", take |-> <<>>])]),
    ([ncomp |-> <<1, 0>>,conn |-> "open",pc |-> <<"cont", "idle">>,found |-> 0,inited |-> {1},race |-> FALSE,reader |-> "run",panicked |-> FALSE,registered |-> <<>>,enc |-> 1,sent |-> {1},closer |-> (0 :> [st |-> "none", take |-> <<>>] @@ 1 :> [st |-> "none", take |-> <<>>] @@ 2 :> [st |-> "none", take |-> <<>>])]),
    ([ncomp |-> <<1, 0>>,conn |-> "open",pc |-> <<"wait", "idle">>,found |-> 0,inited |-> {1},race |-> FALSE,reader |-> "run",panicked |-> FALSE,registered |-> <<>>,enc |-> 1,sent |-> {1},closer |-> (0 :> [st |-> "none", take |-> <<>>] @@ 1 :> [st |-> "none", take |-> <<>>] @@ 2 :> [st |-> "none", take |-> <<>>])]),
    ([ncomp |-> <<1, 0>>,conn |-> "lost",pc |-> <<"wait", "idle">>,found |-> 0,inited |-> {1},race |-> FALSE,reader |-> "run",panicked |-> FALSE,registered |-> <<>>,enc |-> 1,sent |-> {1},closer |-> (0 :> [st |-> "none", take |-> <<>>] @@ 1 :> [st |-> "none", take |-> <<>>] @@ 2 :> [st |-> "none", take |-> <<>>])]),
    ([ncomp |-> <<1, 0>>,conn |-> "lost",pc |-> <<"wait", "idle">>,found |-> 0,inited |-> {1},race |-> FALSE,reader |-> "run",panicked |-> FALSE,registered |-> <<>>,enc |-> 1,sent |-> {1},closer |-> (0 :> [st |-> "swapped", take |-> <<>>] @@ 1 :> [st |-> "none", take |-> <<>>] @@ 2 :> [st |-> "none", take |-> <<>>])]),
    ([ncomp |-> <<1, 0>>,conn |-> "lost",pc |-> <<"wait", "idle">>,found |-> 0,inited |-> {1},race |-> FALSE,reader |-> "exit",panicked |-> FALSE,registered |-> <<>>,enc |-> 1,sent |-> {1},closer |-> (0 :> [st |-> "done", take |-> <<>>] @@ 1 :> [st |-> "none", take |-> <<>>] @@ 2 :> [st |-> "none", take |-> <<>>])]),
    ([ncomp |-> <<1, 0>>,conn |-> "lost",pc |-> <<"done", "idle">>,found |-> 0,inited |-> {1},race |-> FALSE,reader |-> "exit",panicked |-> FALSE,registered |-> <<>>,enc |-> 1,sent |-> {1},closer |-> (0 :> [st |-> "done", take |-> <<>>] @@ 1 :> [st |-> "none", take |-> <<>>] @@ 2 :> [st |-> "none", take |-> <<>>])])
    >>
----


=============================================================================

---- CONFIG ClientConc_TTrace_1790201597 ----
CONSTANTS
    Subs = { 1 , 2 }
    RegisterBeforeInit = FALSE
    Literal = { 1 }
    ReleaseOnRefusal = FALSE
    Streaming = { }

INVARIANT
    _inv

CHECK_DEADLOCK
    \* CHECK_DEADLOCK off because of PROPERTY or INVARIANT above.
    FALSE

INIT
    _init

NEXT
    _next

CONSTANT
    _TETrace <- _trace

ALIAS
    _expression
=============================================================================
\* Generated on Wed Sep 23 22:13:18 UTC 2026