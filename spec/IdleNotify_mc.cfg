CONSTANTS
  Cap = 2
  MaxBurst = 5
  Blocking = FALSE
  Clients = {"reads", "stalls", "done", "drops"}
SPECIFICATION Spec
INVARIANTS TypeOK NoStuck NoLostWakeup
PROPERTIES EveryCommandCompletes AllTold
CHECK_DEADLOCK FALSE
