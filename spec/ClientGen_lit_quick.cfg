CONSTANTS
  MaxCmds = 3
  MaxPending = 2
  MaxNum = 1
  MaxItems = 1
  MaxUid = 1
  MaxCode = 1
  NFlagSets = 1
  SyncLit = TRUE
  Kinds = {"STATUS", "APPEND", "NOOP"}
  Greetings = {"PREAUTH"}
  SimDepth = 0
  Count = FALSE
  MaxDepth = 0
INIT GenInit
NEXT GenNext
VIEW GenView
CHECK_DEADLOCK FALSE
