----------------------------- MODULE ListMatch -----------------------------
(* Reference semantics of IMAP LIST wildcard matching (property C20).      *)
(*                                                                         *)
(* Code under test: imapserver.MatchList(name, delim, reference, pattern)  *)
(* (imapserver/list.go), used by imapmemserver's User.List.                *)
(*                                                                         *)
(* Strings are sequences of character codes (Unicode code points, so the   *)
(* harness maps a sequence to a Go string with string([]rune)); positive   *)
(* integers.  The hierarchy delimiter is a character code, or NoDelim (0)  *)
(* when the server has a flat namespace (Go: delim rune == 0).             *)
(*                                                                         *)
(* The statement of C20: the function accepts the name exactly when the    *)
(* pattern, resolved against the reference, matches it with '*' standing   *)
(* for any character sequence, '%' for any sequence not containing the     *)
(* delimiter, and every other character matching only itself.              *)
(*                                                                         *)
(* A *resolved pattern* is a sequence of items: a positive integer is a    *)
(* literal character, ANY (-1) is the wildcard '*', SEG (-2) the wildcard  *)
(* '%'.  Characters coming from the reference are always literal items     *)
(* (even '*' and '%'), characters coming from the pattern argument are     *)
(* wildcards when they are '*' or '%'.                                     *)
(*                                                                         *)
(* READING (what "resolved against the reference" means; see Resolve):     *)
(*  R-a  empty reference, pattern not starting with the delimiter: the     *)
(*       pattern itself.                                                   *)
(*  R-b  non-empty reference: the reference, followed by the delimiter if  *)
(*       there is a delimiter and the reference does not already end with  *)
(*       it, followed by the pattern (documented by TestMatchList rows     *)
(*       ref "Misato" / "Misato/", pattern "Misato").  With no delimiter   *)
(*       the reference is simply prepended.                                *)
(*  R-c  pattern starting with the delimiter and a non-empty reference:    *)
(*       the pattern is absolute, the reference is ignored and the leading *)
(*       delimiter is dropped (documented by TestMatchList rows ref        *)
(*       "Shinji", pattern "/Misato/*" = true and ref "Misato", pattern    *)
(*       "/Misato" = false for the name "Misato/Misato").                  *)
(*  R-d  pattern starting with the delimiter and an EMPTY reference is not *)
(*       settled by the statement nor by the unit test: either the rule of *)
(*       R-c (drop the leading delimiter) or R-a (the pattern itself) is   *)
(*       accepted: Allowed has two members there.                          *)
(*  R-e  a reference containing '*' or '%' is not settled (literal or      *)
(*       wildcard): Allowed = BOOLEAN, and neither the enumerated space    *)
(*       nor the random driver contains such references.                   *)
(***************************************************************************)
EXTENDS Integers, Sequences, FiniteSets, TLC

CONSTANTS MaxName, MaxPat   \* length bounds of the enumeration machine below

STAR    == 42     \* '*'
PCT     == 37     \* '%'
ANY     == -1     \* resolved item: any character sequence
SEG     == -2     \* resolved item: any sequence without the delimiter
NoDelim == 0

IsWild(x) == x < 0

(* the pattern argument as items: '*' and '%' become wildcards *)
Wild(pat) == [i \in 1..Len(pat) |->
                IF pat[i] = STAR THEN ANY ELSE IF pat[i] = PCT THEN SEG ELSE pat[i]]

Absolute(d, pat) == d # NoDelim /\ Len(pat) > 0 /\ pat[1] = d

(* the literal prefix a non-empty reference contributes (R-b) *)
RefPrefix(d, ref) ==
  IF ref = <<>> THEN <<>>
  ELSE IF d # NoDelim /\ ref[Len(ref)] # d THEN ref \o <<d>>
  ELSE ref

Resolve(d, ref, pat) ==
  IF Absolute(d, pat) THEN Wild(Tail(pat))          \* R-c (and first reading of R-d)
  ELSE RefPrefix(d, ref) \o Wild(pat)               \* R-a, R-b

(* second accepted reading of R-d *)
ResolveAlt(d, ref, pat) ==
  IF Absolute(d, pat) /\ ref = <<>> THEN Wild(pat) ELSE Resolve(d, ref, pat)

(* The textbook recursive matcher over resolved patterns.  With d = NoDelim *)
(* no character equals d, so SEG behaves like ANY.                          *)
RECURSIVE Matches(_, _, _)
Matches(n, d, p) ==
  IF p = <<>> THEN n = <<>>
  ELSE IF p[1] = ANY THEN
         Matches(n, d, Tail(p)) \/ (n # <<>> /\ Matches(Tail(n), d, p))
  ELSE IF p[1] = SEG THEN
         Matches(n, d, Tail(p)) \/ (n # <<>> /\ n[1] # d /\ Matches(Tail(n), d, p))
  ELSE n # <<>> /\ n[1] = p[1] /\ Matches(Tail(n), d, Tail(p))

(* a vector is [n |-> name, d |-> delimiter, r |-> reference, p |-> pattern] *)
Expected(v)    == Matches(v.n, v.d, Resolve(v.d, v.r, v.p))
ExpectedAlt(v) == Matches(v.n, v.d, ResolveAlt(v.d, v.r, v.p))
RefHasWildcard(v) == \E i \in 1..Len(v.r) : v.r[i] \in {STAR, PCT}
Allowed(v) == IF RefHasWildcard(v) THEN BOOLEAN ELSE {Expected(v), ExpectedAlt(v)}

-----------------------------------------------------------------------------
(* Sanity lemmas on the reference itself (checked by ListMatch_mc.cfg on    *)
(* every vector of the bounded space, and the cheap ones again on every     *)
(* recorded vector by ListMatchTrace).                                      *)

ToStar(p) == [i \in 1..Len(p) |-> IF p[i] = SEG THEN ANY ELSE p[i]]
SubSeqOrEmpty(s, a, b) == IF a > b THEN <<>> ELSE SubSeq(s, a, b)
HasPrefix(s, pre) == Len(pre) <= Len(s) /\ SubSeq(s, 1, Len(pre)) = pre

(* Declarative meaning, read off the statement and independent of the      *)
(* character-by-character recursion above: the name is the concatenation   *)
(* of Len(p) consecutive pieces, piece i being what item i stands for.     *)
PieceOK(piece, d, item) ==
  IF item = ANY THEN TRUE
  ELSE IF item = SEG THEN \A i \in 1..Len(piece) : piece[i] # d
  ELSE piece = <<item>>

RECURSIVE Declarative(_, _, _)
Declarative(n, d, p) ==
  IF p = <<>> THEN n = <<>>
  ELSE \E k \in 0..Len(n) :
         /\ PieceOK(SubSeqOrEmpty(n, 1, k), d, p[1])
         /\ Declarative(SubSeqOrEmpty(n, k + 1, Len(n)), d, Tail(p))

(* The lemmas.  rp is the resolved pattern of vector v, m = Matches(v.n, v.d, rp)  *)
(* and ms = Matches(v.n, v.d, ToStar(rp)); they are passed in so that TLC computes *)
(* them once per vector.                                                          *)
LemStarAll(v)        == Matches(v.n, v.d, <<ANY>>)
LemPct(v)            == Matches(v.n, v.d, <<SEG>>) <=> (\A i \in 1..Len(v.n) : v.n[i] # v.d)
LemMonotone(m, ms)   == m => ms                      \* replacing % by * only adds matches
LemLiteral(v, rp, m) == (\A i \in 1..Len(rp) : ~IsWild(rp[i])) => (m <=> v.n = rp)
LemNoDelim(v, m, ms) == v.d = NoDelim => (m <=> ms)   \* no delimiter: % behaves like *
LemDeclarative(v, rp, m) == m <=> Declarative(v.n, v.d, rp)
(* a relative pattern under a reference selects the names below the reference     *)
(* prefix whose remainder matches the pattern alone                               *)
LemPrefix(v, m) == LET pre == RefPrefix(v.d, v.r) IN
                     ~Absolute(v.d, v.p) =>
                       (m <=> /\ HasPrefix(v.n, pre)
                              /\ Matches(SubSeqOrEmpty(v.n, Len(pre) + 1, Len(v.n)), v.d, Wild(v.p)))
(* the two readings differ only where R-d says so *)
LemAltNarrow(v, rp) == ~(v.r = <<>> /\ Absolute(v.d, v.p)) => ResolveAlt(v.d, v.r, v.p) = rp

CheapLemmas(v) ==
  LET rp == Resolve(v.d, v.r, v.p)
      m  == Matches(v.n, v.d, rp)
      ms == Matches(v.n, v.d, ToStar(rp))
  IN /\ LemStarAll(v) /\ LemPct(v) /\ LemMonotone(m, ms) /\ LemLiteral(v, rp, m)
     /\ LemNoDelim(v, m, ms) /\ LemPrefix(v, m) /\ LemAltNarrow(v, rp)
AllLemmas(v) ==
  /\ CheapLemmas(v)
  /\ LET rp == Resolve(v.d, v.r, v.p) IN LemDeclarative(v, rp, Matches(v.n, v.d, rp))

-----------------------------------------------------------------------------
(* Enumeration machine: every vector of the bounded space is one state.    *)
(* Init picks name and delimiter, one step picks reference and pattern, so *)
(* TLC's workers share the space.  ListMatchGen prints the vectors,        *)
(* ListMatchTrace walks the same variables through recorded vectors.       *)

VARIABLES ph, v
vars == <<ph, v>>

A == 97   B == 98   SLASH == 47     \* 'a' 'b' '/'
NameAlpha == {A, B, SLASH}
PatAlpha  == {A, B, SLASH, STAR, PCT}
Delims    == {SLASH, NoDelim}        \* with NoDelim '/' is an ordinary character
Refs      == { <<>>, <<A>>, <<A, SLASH>>, <<B, SLASH>>, <<A, SLASH, B>>, <<SLASH>> }

SeqsUpTo(S, k) == UNION {[1..m -> S] : m \in 0..k}

Init == /\ ph = 0
        /\ \E n \in SeqsUpTo(NameAlpha, MaxName), d \in Delims :
             v = [n |-> n, d |-> d, r |-> <<>>, p |-> <<>>]

Next == /\ ph = 0
        /\ ph' = 1
        /\ \E r \in Refs, p \in SeqsUpTo(PatAlpha, MaxPat) :
             v' = [v EXCEPT !.r = r, !.p = p]

Spec == Init /\ [][Next]_vars

TypeOK == ph \in {0, 1} /\ DOMAIN v = {"n", "d", "r", "p"}
Lemmas      == ph = 1 => AllLemmas(v)
LemmasCheap == ph = 1 => CheapLemmas(v)
=============================================================================
