CONSTANTS
  MaxName = 12
  MaxPat = 12
INIT TraceInit
NEXT TraceNextAll
INVARIANTS TypeOK
POSTCONDITION TraceAccepted
CHECK_DEADLOCK FALSE
