CONSTANTS
  Configs <- C17Configs
  Cases <- AllCases
  Faulty = FALSE
INIT STInit
NEXT STNext
INVARIANTS STTypeOK NoParseAfterSwitch Conservation ParsedIsPrefix OnlyHandshakeAfterSwitch LayerIsTLS
  CredsOnlyWhenSecure BackendOnlyWhenPermitted AdvertiseConsistent BackendOnlyFromPlain
  ClientTrustsOnlyTLS HandlerOnlyBeforeSwitch RefusesPreauth
PROPERTIES FrozenAfterSwitch TLSNeverDowngrades
CHECK_DEADLOCK FALSE
