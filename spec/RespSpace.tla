------------------------------ MODULE RespSpace ------------------------------
(***************************************************************************)
(* C03 - backend data reach the client caller intact.                      *)
(*                                                                         *)
(* Catalogue of every structure an imapserver backend (Session) can hand   *)
(* to the server's response writers.  The value shapes, Norm (= exactly    *)
(* the representation changes the protocol itself imposes, clauses N1..N17 *)
(* with their citations) and the writers' contract are in                  *)
(* RespSpaceNorm.tla, which this module extends.  A *case* is              *)
(*     [k |-> kind, rev2 |-> BOOLEAN, req |-> request, data |-> data]      *)
(* and the property is                                                     *)
(*     Norm(case with data := what the client delivered) = Norm(case)      *)
(* RespSpace_mc.cfg checks the specification itself: Norm is idempotent on *)
(* every catalogue case and every catalogue case is inside the contract.   *)
(* RespSpaceGen prints the cases (spec -> implementation).                 *)
(***************************************************************************)
EXTENDS RespSpaceNorm

CONSTANT Wide      \* FALSE: quick catalogue; TRUE: thorough catalogue

VARIABLES ph, c
vars == <<ph, c>>

(* 2-way coverage of all fields (thorough) or of the fields that interact (quick) *)
Cover(base, V, P) == IF Wide THEN Two(base, V) ELSE TwoOn(base, V, P)

-----------------------------------------------------------------------------
(***************************************************************************)
(* CATALOGUE                                                               *)
(***************************************************************************)
StrsCore == {"", "abc", "~q", "~u8", "~crlf", "~ew", "NIL"}
Strs == IF Wide THEN StrsCore \cup {"~sp", "~long", "~u8long", "~lt"} ELSE StrsCore

(* --- mailbox names, LIST, STATUS ---------------------------------------- *)
MbINBOX == Fd("INBOX", "inbox")
Mbinbox == Fd("inbox", "inbox")
MbWork  == Fd("Work", "work")
MbU8    == Fd("~u8mb", "~u8mbl")
Mboxes == {MbINBOX, Mbinbox, MbWork, MbU8, Fs("~amp"), Fs("~qmb"), Fs("~spmb"), Fd("NIL", "nil")}
           \cup (IF Wide THEN {Fd("Inbox", "inbox"), Fs("~amp2"), Fd("~u7look", "~u7lookl")} ELSE {})
NoMb == Fs("")
AttrLists == {<<>>, <<Fd("~b:Noselect", "~b:noselect")>>, <<Fs("~b:noselect")>>,
              <<Fd("~b:HasChildren", "~b:haschildren"), Fd("~b:Subscribed", "~b:subscribed")>>,
              <<Fd("~b:Sent", "~b:sent"), Fd("~b:Marked", "~b:marked"), Fd("~b:XCustom", "~b:xcustom")>>}
Delims == {47, 46, 0, 92} \cup (IF Wide THEN {34, 8594} ELSE {})
OptNums == {<<>>, <<0>>, <<5>>, <<U32MAX>>}
OptNums64 == {<<>>, <<0>>, <<5>>, <<P32>>, <<I63MAX>>}
StatusBase(mb) == [mbox |-> mb, msgs |-> <<5>>, uidnext |-> 6, uidval |-> 7, unseen |-> <<5>>,
                   deleted |-> <<5>>, size |-> <<5>>, applimit |-> <<5>>, delstor |-> <<5>>]
StatusVals == [msgs |-> OptNums \ {<<>>}, uidnext |-> {0, 6, U32MAX}, uidval |-> {0, 7, U32MAX},
               unseen |-> OptNums \ {<<>>}, deleted |-> OptNums \ {<<>>}, size |-> OptNums64 \ {<<>>},
               applimit |-> OptNums, delstor |-> OptNums64 \ {<<>>}]
AllItems == <<"MESSAGES", "UIDNEXT", "UIDVALIDITY", "UNSEEN", "DELETED", "SIZE", "APPENDLIMIT",
              "DELETED-STORAGE">>
ItemSets == {<<>>, AllItems, <<"MESSAGES", "UNSEEN">>} \cup {<<AllItems[i]>> : i \in DOMAIN AllItems}
(* items that are not requested may be nil *)
Sparse(sd, items) ==
  [sd EXCEPT !.msgs = IF "MESSAGES" \in items THEN @ ELSE <<>>,
             !.unseen = IF "UNSEEN" \in items THEN @ ELSE <<>>,
             !.deleted = IF "DELETED" \in items THEN @ ELSE <<>>,
             !.size = IF "SIZE" \in items THEN @ ELSE <<>>,
             !.delstor = IF "DELETED-STORAGE" \in items THEN @ ELSE <<>>]
StatusCases ==
  UNION {{[req |-> [mbox |-> mb, sitems |-> AllItems], data |-> sd] : sd \in One(StatusBase(mb), StatusVals)}
         : mb \in {MbINBOX, Mbinbox, MbWork, MbU8}}
  \cup UNION {{[req |-> [mbox |-> MbWork, sitems |-> it], data |-> sd] :
                  sd \in {StatusBase(MbWork), Sparse(StatusBase(MbWork), SeqRange(it))}} : it \in ItemSets}

LDBase == [attrs |-> <<>>, delim |-> 47, mbox |-> MbWork, child |-> <<>>, old |-> NoMb, status |-> <<>>]
LDVals == [attrs |-> AttrLists, delim |-> Delims, mbox |-> Mboxes, child |-> {<<>>, <<TRUE>>, <<FALSE>>},
           old |-> {NoMb, Fd("Old", "old"), MbU8, Mbinbox}]
LDs == Cover(LDBase, LDVals, {"mbox", "child", "old"})
WithSt(ld, sd) == [ld EXCEPT !.status = <<[sd EXCEPT !.mbox = ld.mbox]>>]
StItems == <<"MESSAGES", "UNSEEN">>
\* lp: which (reference, pattern) the caller asks with - "" "*", "" "%", "Work" "%", "Work/2024" "Q1", "" "INBOX".  What the
\* backend writes is delivered whatever was asked (matching is the backend's business: RFC 3501 6.3.8 leaves the
\* interpretation of the reference to the server).
ListPatterns == 0..4
WithLp(cs) == {[lc EXCEPT !.req = [st |-> lc.req.st, lp |-> n]] : lc \in cs, n \in ListPatterns}
ListCases0 ==
  {[req |-> [st |-> <<>>], data |-> <<ld>>] : ld \in LDs}
  \cup {[req |-> [st |-> <<>>], data |-> <<LDBase, [LDBase EXCEPT !.mbox = MbINBOX], [LDBase EXCEPT !.mbox = MbU8]>>],
        [req |-> [st |-> <<>>], data |-> <<>>],
        \* a backend may supply Status although STATUS was not requested: not written
        [req |-> [st |-> <<>>], data |-> <<WithSt(LDBase, StatusBase(MbWork))>>]}
  \cup {[req |-> [st |-> <<StItems>>], data |-> <<WithSt(ld, StatusBase(MbWork))>>]
          : ld \in One(LDBase, [mbox |-> Mboxes, child |-> {<<TRUE>>}, old |-> {Fd("Old", "old")}])}
  \cup {[req |-> [st |-> <<it>>], data |-> <<WithSt(LDBase, Sparse(StatusBase(MbWork), SeqRange(it)))>>]
          : it \in ItemSets}
  \* LIST-STATUS pairing: some mailboxes with, some without STATUS, in both positions
  \cup {[req |-> [st |-> <<StItems>>], data |-> d] : d \in
          {<<WithSt(LDBase, StatusBase(MbWork)), [LDBase EXCEPT !.mbox = MbU8]>>,
           <<[LDBase EXCEPT !.mbox = MbU8], WithSt(LDBase, StatusBase(MbWork))>>,
           <<[LDBase EXCEPT !.mbox = MbU8, !.attrs = <<Fd("~b:Noselect", "~b:noselect")>>],
             [LDBase EXCEPT !.mbox = Mbinbox], WithSt(LDBase, StatusBase(MbWork))>>,
           <<WithSt([LDBase EXCEPT !.mbox = Mbinbox], StatusBase(MbWork)),
             WithSt([LDBase EXCEPT !.mbox = MbU8], [StatusBase(MbWork) EXCEPT !.msgs = <<U32MAX>>]),
             WithSt(LDBase, [StatusBase(MbWork) EXCEPT !.unseen = <<0>>])>>}}
ListCases == WithLp(ListCases0)

(* --- SELECT -------------------------------------------------------------- *)
FlagLists == {<<>>, <<Fd("~b:Seen", "~b:seen")>>,
              <<Fs("~b:seen"), Fd("~d:Forwarded", "~d:forwarded"), Fs("custom")>>,
              <<Fd("~b:Answered", "~b:answered"), Fd("~b:Flagged", "~b:flagged"), Fd("~b:Deleted", "~b:deleted"),
                Fd("~b:Draft", "~b:draft"), Fd("~b:SEEN", "~b:seen"), Fd("Custom", "custom")>>}
PFlagLists == FlagLists \cup {<<Fd("~b:Seen", "~b:seen"), Fs("~b:*")>>}
SelBase == [flags |-> <<Fd("~b:Seen", "~b:seen")>>, pflags |-> <<Fd("~b:Seen", "~b:seen"), Fs("~b:*")>>,
            num |-> 5, uidnext |-> 6, uidval |-> 7, list |-> <<>>]
SelVals(mb) == [flags |-> FlagLists, pflags |-> PFlagLists, num |-> {0, 5, U32MAX},
                uidnext |-> {0, 6, P31, U32MAX}, uidval |-> {0, 7, U32MAX},
                list |-> {<<>>, <<[LDBase EXCEPT !.mbox = mb]>>,
                          \* RFC 9051 6.3.2: the LIST tells which name the server used, OLDNAME = the name sent
                          <<[LDBase EXCEPT !.mbox = MbWork, !.old = mb]>>,
                          <<[LDBase EXCEPT !.mbox = NormMbox(mb), !.attrs = <<Fd("~b:HasChildren", "~b:haschildren")>>]>>}]
SelectCases ==
  UNION {{[req |-> [mbox |-> mb], data |-> sd] : sd \in Cover(SelBase, SelVals(mb), {"flags", "pflags"})}
         : mb \in {MbINBOX, Mbinbox, MbWork, MbU8}}

(* --- envelope -------------------------------------------------------------- *)
D1 == [u |-> 1700000000, z |-> 0, f |-> 0]
D2 == [u |-> 1000000000, z |-> 330, f |-> 0]
D3 == [u |-> 86399, z |-> -480, f |-> 1]
D4 == [u |-> 951782400, z |-> 60, f |-> 0]      \* 29-Feb-2000, single-digit day boundary
Dates == {<<D1>>, <<D2>>, <<D3>>} \cup (IF Wide THEN {<<D4>>} ELSE {})
A1 == [name |-> "Al", local |-> "al", host |-> "ex.org"]
A2 == [name |-> "~u8", local |-> "~q", host |-> "h"]
A3 == [name |-> "", local |-> "x", host |-> "y.z"]
A4 == [name |-> "~ew", local |-> "~sp", host |-> "~u8"]
GS == [name |-> "", local |-> "grp", host |-> ""]      \* RFC 3501 7.4.2 group syntax: start
GE == [name |-> "", local |-> "", host |-> ""]         \* end of group
ALs == {<<>>, <<<<>>>>, <<<<A1>>>>, <<<<A1, A2>>>>, <<<<GS, A1, A3, GE>>>>, <<<<A4>>>>, <<<<A3, A1>>>>}
Irts == {<<>>, <<"a@b">>, <<"a@b", "c.d@e.f">>, <<"~midlit">>} \cup (IF Wide THEN {<<"a@b", "a@b", "z@y">>} ELSE {})
Mids == {"", "m1@h", "a.b@c.d", "~midlit"}
EnvBase == [date |-> <<D1>>, subj |-> "abc", from |-> <<<<A1>>>>, sender |-> <<>>, replyto |-> <<>>,
            to |-> <<<<A1>>>>, cc |-> <<>>, bcc |-> <<>>, irt |-> <<>>, mid |-> "m1@h"]
EnvVals == [date |-> {<<>>} \cup Dates, subj |-> Strs, from |-> ALs, sender |-> ALs, replyto |-> ALs,
            to |-> ALs, cc |-> ALs, bcc |-> ALs, irt |-> Irts, mid |-> Mids]
Envs == Cover(EnvBase, EnvVals, {"from", "sender", "replyto", "cc", "bcc"}) \cup {ZeroEnv}
EnvU8 == [EnvBase EXCEPT !.subj = "~u8", !.from = <<<<A2>>>>, !.cc = <<<<A1, A2>>>>, !.irt = <<"a@b", "c.d@e.f">>]

(* --- body structure -------------------------------------------------------- *)
PCharset == [key |-> Fs("charset"), pv |-> "utf-8"]
Params == {<<>>, <<<<>>>>, <<<<PCharset>>>>,
           <<<<[key |-> Fd("Name", "name"), pv |-> "~u8"], [key |-> Fs("x"), pv |-> "~q"]>>>>,
           <<<<[key |-> Fd("CHARSET", "charset"), pv |-> "~ew"]>>>>,
           <<<<[key |-> Fs("filename"), pv |-> ""], [key |-> Fs("b"), pv |-> "~crlf"]>>>>}
Disps == {<<>>, <<[val |-> "attachment", dparams |-> <<>>]>>,
          <<[val |-> "INLINE", dparams |-> <<<<[key |-> Fd("FileName", "filename"), pv |-> "~u8"]>>>>]>>,
          <<[val |-> "", dparams |-> <<<<>>>>]>>}
Langs == {<<>>, <<<<>>>>, <<<<"en">>>>, <<<<"en", "fr-CA">>>>, <<<<"">>>>}
Locs == {"", "http://x/y", "~u8"}
Ext1Base == [disp |-> <<>>, lang |-> <<>>, loc |-> ""]
Ext1s == Two(Ext1Base, [disp |-> Disps, lang |-> Langs, loc |-> Locs])
ExtMBase == [mparams |-> <<<<[key |-> Fs("boundary"), pv |-> "xyz"]>>>>, disp |-> <<>>, lang |-> <<>>, loc |-> ""]
ExtMs == Two(ExtMBase, [mparams |-> Params, disp |-> Disps, lang |-> Langs, loc |-> Locs])

SPBase == [mp |-> FALSE, type |-> "application", sub |-> "pdf", params |-> <<>>, id |-> "", desc |-> "",
           enc |-> Fs("base64"), octets |-> 10, msg |-> <<>>, text |-> <<>>, ext |-> <<Ext1Base>>]
SPText == [SPBase EXCEPT !.type = "text", !.sub = "plain", !.params = <<<<PCharset>>>>, !.enc = Fs(""),
                         !.text = <<5>>]
Encs == {Fs(""), Fs("base64"), Fd("BASE64", "base64"), Fd("Quoted-Printable", "quoted-printable"),
         Fs("8bit"), Fd("7BIT", "7bit"), Fs("x-unknown")}
SPVals == [sub |-> {"pdf", "octet-stream", "", "~u8"}, params |-> Params, id |-> {"", "~cid", "~q"},
           desc |-> Strs, enc |-> Encs, octets |-> {0, 10, P31, U32MAX}, ext |-> {<<e>> : e \in Ext1s}]
SPApps == Cover(SPBase, SPVals, {"params", "enc"})
           \cup {[SPBase EXCEPT !.type = t, !.sub = s] : t \in {"image", "AUDIO", "", "~u8", "x-tExt"}, s \in {"png", ""}}
SPTexts == One(SPText, [type |-> {"text", "TEXT", "Text"}, sub |-> {"plain", "HTML"},
                        text |-> {<<0>>, <<5>>, <<P32>>, <<I63MAX>>}, enc |-> Encs,
                        ext |-> {<<e>> : e \in {Ext1Base, [Ext1Base EXCEPT !.lang = <<<<"en">>>>],
                                                [disp |-> <<[val |-> "inline", dparams |-> <<>>]>>, lang |-> <<>>, loc |-> "~u8"]}}])
SPMsgOf(env, inner, ln) == [SPBase EXCEPT !.type = "message", !.sub = "rfc822", !.enc = Fs("7bit"),
                                          !.msg = <<[menv |-> env, mbs |-> inner, lines |-> ln]>>]
MP(kids, sub, mext) == [mp |-> TRUE, kids |-> kids, sub |-> sub, mext |-> mext]
MPFlat == {MP(<<SPText>>, "mixed", <<ExtMBase>>), MP(<<SPText, SPBase>>, "ALTERNATIVE", <<ExtMBase>>),
           MP(<<SPText, SPBase, SPText>>, "", <<ExtMBase>>)}
           \cup {MP(<<SPText, SPBase>>, "mixed", <<e>>) : e \in ExtMs}
MPDeep == {MP(<<m>>, "mixed", <<ExtMBase>>) : m \in MPFlat}
          \cup {MP(<<SPText, MP(<<SPBase, MP(<<SPText, SPBase>>, "related", <<e>>)>>, "alternative", <<ExtMBase>>), SPBase>>,
                   "mixed", <<ExtMBase>>) : e \in {ExtMBase, [ExtMBase EXCEPT !.lang = <<<<"en", "fr-CA">>>>, !.disp = <<[val |-> "inline", dparams |-> <<>>]>>]}}
          \cup {MP(<<MP(<<MP(<<SPText>>, "a", <<ExtMBase>>)>>, "b", <<ExtMBase>>)>>, "c", <<ExtMBase>>)}
MsgInner == {SPText, MP(<<SPText, SPBase>>, "mixed", <<ExtMBase>>)}
SPMsgs == {SPMsgOf(e, i, l) : e \in {<<>>, <<EnvBase>>, <<EnvU8>>, <<ZeroEnv>>}, i \in MsgInner, l \in {0, 7}}
          \cup {SPMsgOf(<<EnvBase>>, SPText, l) : l \in {P32, I63MAX}}
          \cup {[SPMsgOf(<<EnvBase>>, SPText, 3) EXCEPT !.type = t, !.sub = s] :
                   t \in {"message", "MESSAGE"}, s \in {"rfc822", "RFC822", "global"}}
          \* message/rfc822 inside multipart inside message/rfc822
          \cup {SPMsgOf(<<EnvBase>>, MP(<<SPText, SPMsgOf(<<EnvU8>>, SPText, 1)>>, "mixed", <<ExtMBase>>), 9),
                MP(<<SPText, SPMsgOf(<<>>, MP(<<SPBase>>, "digest", <<ExtMBase>>), 2)>>, "mixed", <<ExtMBase>>)}
BSExt == SPApps \cup SPTexts \cup SPMsgs \cup MPFlat \cup MPDeep
RECURSIVE Strip(_)
Strip(b) == IF b.mp THEN [b EXCEPT !.kids = [i \in DOMAIN b.kids |-> Strip(b.kids[i])], !.mext = <<>>]
            ELSE [b EXCEPT !.ext = <<>>,
                           !.msg = IF b.msg = <<>> THEN <<>> ELSE <<[b.msg[1] EXCEPT !.mbs = Strip(b.msg[1].mbs)]>>]
(* only the top level carries extension data: allowed for BODY *)
Mixed == {[b EXCEPT !.kids = [i \in DOMAIN b.kids |-> Strip(b.kids[i])]] : b \in MPFlat}
BSCases == {[how |-> "BODYSTRUCTURE", v |-> b] : b \in BSExt}
           \cup {[how |-> "BODY", v |-> b] : b \in (IF Wide THEN BSExt ELSE MPDeep \cup SPMsgs \cup SPTexts)
                                                 \cup {Strip(x) : x \in BSExt} \cup Mixed}

(* --- FETCH ------------------------------------------------------------------ *)
Sec0 == [spec |-> "", part |-> <<>>, hf |-> <<>>, hfn |-> <<>>, partial |-> <<>>, peek |-> FALSE]
SecVals == [spec |-> {"", "HEADER", "TEXT"}, part |-> {<<>>, <<1>>, <<1, 2>>, <<2, 1, 3>>},
            partial |-> {<<>>, <<[off |-> 0, psize |-> 10]>>, <<[off |-> 5, psize |-> P32]>>,
                         <<[off |-> P31, psize |-> 1]>>, <<[off |-> U32MAX, psize |-> 1]>>},
            peek |-> {FALSE, TRUE}]
Secs == Two(Sec0, SecVals)
        \cup {[Sec0 EXCEPT !.spec = "MIME", !.part = p] : p \in {<<1>>, <<1, 2>>}}
        \cup {[Sec0 EXCEPT !.spec = "HEADER", !.hf = h, !.part = p] :
                h \in {<<"Subject">>, <<"From", "X-Foo", "~q">>}, p \in {<<>>, <<2>>}}
        \cup {[Sec0 EXCEPT !.spec = "HEADER", !.hfn = h, !.part = p] :
                h \in {<<"Subject">>, <<"From", "~sp">>}, p \in {<<>>, <<2>>}}
LitSizes == {0, 1, 4095, 4096, 4097}
PClasses == {"a", "crlf", "nul", "hi", "mix"}
SecItem(s, n, p) == [t |-> "sec", sec |-> s, n |-> n, p |-> p]
BinItem(part, bp, pk, n, p) == [t |-> "bin", part |-> part, bpartial |-> bp, peek |-> pk, n |-> n, p |-> p]
BinSz(part, v) == [t |-> "binsz", part |-> part, binsz |-> v]
FlagsItem(fl) == [t |-> "flags", flags |-> fl]
UidItem(u) == [t |-> "uid", uid |-> u]
SizeItem(n) == [t |-> "size", rsize |-> n]
DateItem(d) == [t |-> "date", date |-> d]
SecH == [Sec0 EXCEPT !.spec = "HEADER"]
SecT == [Sec0 EXCEPT !.spec = "TEXT"]
SecP == [Sec0 EXCEPT !.part = <<1, 2>>, !.partial = <<[off |-> 5, psize |-> 100]>>]
Rq(uid, bs, rev) == [uid |-> uid, bs |-> bs, rev |-> rev]
RqPlain == Rq(FALSE, "", FALSE)
Msg1(items) == <<[seq |-> 1, items |-> items]>>
FetchScalar ==
  {[req |-> RqPlain, data |-> Msg1(<<FlagsItem(fl), DateItem(d), SizeItem(n), UidItem(u)>>)] :
      fl \in FlagLists, d \in Dates, n \in {0, 4096, P32, I63MAX}, u \in {1, P31, U32MAX}}
  \cup {[req |-> RqPlain, data |-> Msg1(<<it>>)] : it \in
         {FlagsItem(<<>>), SizeItem(P53), UidItem(U32MAX1), DateItem(<<D1>>)}}
  \cup {[req |-> RqPlain, data |-> Msg1(<<>>)]}         \* nothing requested that the backend has
  \* several messages, sequence numbers up to 2^32-1, written out of order
  \cup {[req |-> RqPlain, data |-> <<[seq |-> 3, items |-> <<UidItem(7), FlagsItem(<<>>)>>],
                                      [seq |-> 1, items |-> <<UidItem(5), FlagsItem(<<Fd("~b:Seen", "~b:seen")>>)>>],
                                      [seq |-> U32MAX, items |-> <<UidItem(U32MAX), SizeItem(1)>>]>>]}
  \cup {[req |-> Rq(TRUE, "", FALSE), data |-> <<[seq |-> 2, items |-> <<UidItem(U32MAX), FlagsItem(<<>>)>>],
                                                 [seq |-> 1, items |-> <<UidItem(9), SizeItem(P32)>>]>>]}
FetchEnv == {[req |-> RqPlain, data |-> Msg1(<<[t |-> "env", env |-> e]>>)] : e \in Envs}
FetchBS == {[req |-> Rq(FALSE, x.how, FALSE), data |-> Msg1(<<[t |-> "bs", bs |-> x.v]>>)] : x \in BSCases}
FetchSec ==
  {[req |-> RqPlain, data |-> Msg1(<<SecItem(s, 10, "mix")>>)] : s \in Secs}
  \cup {[req |-> RqPlain, data |-> Msg1(<<SecItem(s, n, p)>>)] : s \in {Sec0, SecP}, n \in LitSizes, p \in PClasses}
  \* ORDER: several literals in one message, requested in the same or the reverse order
  \cup {[req |-> Rq(FALSE, "", rv), data |-> Msg1(its)] : rv \in BOOLEAN, its \in
         {<<SecItem(SecH, 10, "crlf"), SecItem(SecT, 4097, "mix"), SecItem(Sec0, 1, "nul")>>,
          <<SecItem(Sec0, 4096, "hi"), SecItem(SecP, 0, "a"), SecItem(SecH, 4095, "crlf"), SecItem(SecT, 1, "a")>>,
          <<SecItem(SecT, 1, "a"), FlagsItem(<<Fd("~b:Seen", "~b:seen")>>), SecItem(SecH, 2, "crlf"),
            BinItem(<<1>>, <<>>, FALSE, 3, "nul"), SizeItem(5), BinItem(<<>>, <<>>, FALSE, 4097, "hi")>>}}
  \cup {[req |-> Rq(TRUE, "", rv), data |-> Msg1(<<UidItem(9), SecItem(SecH, 10, "crlf"), SecItem(Sec0, 4096, "mix")>>)]
         : rv \in BOOLEAN}
  \* two messages with literals
  \cup {[req |-> RqPlain, data |-> <<[seq |-> 1, items |-> <<SecItem(Sec0, 4096, "mix"), SecItem(SecH, 3, "crlf")>>],
                                      [seq |-> 2, items |-> <<SecItem(Sec0, 0, "a"), SecItem(SecH, 4097, "nul")>>]>>]}
FetchBin ==
  {[req |-> RqPlain, data |-> Msg1(<<BinItem(pt, bp, pk, n, p)>>)] :
      pt \in {<<>>, <<1>>, <<1, 2>>}, bp \in {<<>>, <<[off |-> 0, psize |-> 10]>>}, pk \in BOOLEAN,
      n \in {0, 10, 4096}, p \in {"nul", "hi"}}
  \cup {[req |-> RqPlain, data |-> Msg1(<<BinSz(pt, v)>>)] : pt \in {<<>>, <<1>>, <<1, 2>>}, v \in {0, 10, U32MAX}}
  \cup {[req |-> RqPlain, data |-> Msg1(<<BinSz(<<1>>, 5), BinSz(<<2>>, 6), FlagsItem(<<>>)>>)]}
FetchCombo ==
  {[req |-> Rq(u, b, FALSE),
    data |-> Msg1(<<UidItem(9), FlagsItem(fl), [t |-> "env", env |-> e], [t |-> "bs", bs |-> bsv],
                    DateItem(<<D2>>), SizeItem(P32), SecItem(SecH, 4096, "crlf"), SecItem(SecT, 10, "mix")>>)] :
      u \in BOOLEAN, b \in {"BODY", "BODYSTRUCTURE"}, fl \in {<<>>, <<Fd("~b:Seen", "~b:seen")>>},
      e \in {EnvBase, EnvU8}, bsv \in {SPText, MP(<<SPText, SPBase>>, "mixed", <<ExtMBase>>)}}
FetchCases == FetchScalar \cup FetchEnv \cup FetchBS \cup FetchSec \cup FetchBin \cup FetchCombo

(* --- SEARCH ------------------------------------------------------------------ *)
NSets == {<<>>, <<<<1, 1>>>>, <<<<1, 3>>>>, <<<<1, 3>>, <<5, 5>>, <<9, 10>>>>, <<<<2, 4>>, <<3, 6>>>>,
          <<<<7, 7>>, <<2, 2>>>>, <<<<U32MAX1, U32MAX>>>>, <<<<P31, P31>>, <<1, 1>>>>,
          \* results of a size at which an implementation may start to send them in pieces
          <<<<1, 2500>>>>, <<<<10, 1009>>, <<5000, 6500>>>>}
NSetsES == NSets \cup {<<<<1, U32MAX>>>>}          \* too large to enumerate in the SEARCH form
Rets == {<<>>, <<"ALL">>, <<"MIN">>, <<"MAX">>, <<"COUNT">>, <<"MIN", "MAX", "COUNT">>, <<"ALL", "COUNT">>,
         <<"MIN", "MAX", "ALL", "COUNT">>}
SearchCasesOf(rev2) ==
  {[req |-> [uid |-> u, ret |-> r],
    data |-> [all |-> a, allk |-> IF u THEN "uid" ELSE "seq", isuid |-> u, min |-> mm[1], max |-> mm[2], count |-> mm[3]]] :
      u \in BOOLEAN, r \in Rets, a \in (IF rev2 THEN NSetsES ELSE NSets),
      mm \in {<<0, 0, 0>>, <<1, 10, 7>>, <<U32MAX, U32MAX, U32MAX>>}}
  \cup {[req |-> [uid |-> u, ret |-> r],
         data |-> [all |-> <<<<1, U32MAX>>>>, allk |-> IF u THEN "uid" ELSE "seq", isuid |-> u, min |-> 1, max |-> U32MAX,
                   count |-> U32MAX]] : u \in BOOLEAN, r \in Rets \ {<<>>}}

(* --- APPEND / COPY / MOVE / EXPUNGE / NAMESPACE / CAPABILITY ----------------- *)
AppendCases == {[req |-> [n |-> n], data |-> d] : n \in {0, 10, 4097},
                  d \in {<<>>, <<[uid |-> 1, uidval |-> 1]>>, <<[uid |-> U32MAX, uidval |-> U32MAX]>>,
                         <<[uid |-> P31, uidval |-> 0]>>}}   \* a UID is never zero: not a value a backend may supply
USets == {<<<<1, 1>>>>, <<<<1, 3>>, <<7, 7>>>>, <<<<U32MAX1, U32MAX>>>>, <<<<5, 9>>>>, <<<<4, 4>>, <<2, 2>>>>}
CDs == {<<>>} \cup {<<[uidval |-> v, src |-> s, dst |-> d]>> : v \in {1, U32MAX}, s \in USets, d \in USets}
Xps == {<<>>, <<1>>, <<3, 2, 1>>, <<1, 1, 1>>, <<U32MAX>>}
CopyCases ==
  {[req |-> [uid |-> u, move |-> FALSE], data |-> [cd |-> cd, xp |-> <<>>]] : u \in BOOLEAN, cd \in CDs}
  \cup {[req |-> [uid |-> u, move |-> TRUE], data |-> [cd |-> cd, xp |-> x]] : u \in BOOLEAN,
          cd \in {<<>>, <<[uidval |-> 1, src |-> <<<<1, 3>>, <<7, 7>>>>, dst |-> <<<<5, 9>>>>]>>,
                  <<[uidval |-> U32MAX, src |-> <<<<U32MAX1, U32MAX>>>>, dst |-> <<<<1, 1>>>>]>>}, x \in Xps}
LongXp == [i \in 1..300 |-> 301 - i]
ExpungeCases == {[req |-> [uid |-> u], data |-> x] : u \in BOOLEAN, x \in Xps \cup {LongXp}}
NDs == {[prefix |-> p, delim |-> d] : p \in {"", "INBOX.", "~u8", "~q", "~amp", "~lt"}, d \in {46, 0}}
       \cup {[prefix |-> "Other/", delim |-> d] : d \in Delims}
NLists == {<<>>, <<<<>>>>, <<<<[prefix |-> "", delim |-> 47]>>>>,
           <<<<[prefix |-> "INBOX.", delim |-> 46], [prefix |-> "~u8", delim |-> 0]>>>>}
NsCases == {[req |-> [x |-> 0], data |-> [personal |-> a, other |-> b, shared |-> cc]] : a \in NLists, b \in NLists, cc \in NLists}
           \cup {[req |-> [x |-> 0], data |-> [personal |-> <<<<d>>>>, other |-> <<>>, shared |-> <<<<d, d>>>>]] : d \in NDs}
ExtCaps == BackendCaps \ {"IMAP4rev1", "IMAP4rev2"}
CapSets == UNION {{S2S(b), S2S(b \cup ExtCaps)} \cup {S2S(b \cup {e}) : e \in ExtCaps}
                  : b \in {{"IMAP4rev1"}, {"IMAP4rev2"}, {"IMAP4rev1", "IMAP4rev2"}}}
CapsCases == {[req |-> [x |-> 0], data |-> cs] : cs \in CapSets}

Kinds == {"list", "status", "select", "fetch", "search", "append", "copy", "expunge", "ns", "caps"}
CasesOf(k, rev2) ==
  CASE k = "list"    -> ListCases
    [] k = "status"  -> StatusCases
    [] k = "select"  -> SelectCases
    [] k = "fetch"   -> FetchCases
    [] k = "search"  -> SearchCasesOf(rev2)
    [] k = "append"  -> AppendCases
    [] k = "copy"    -> CopyCases
    [] k = "expunge" -> ExpungeCases
    [] k = "ns"      -> NsCases
    [] k = "caps"    -> IF rev2 THEN {} ELSE CapsCases     \* one configuration: the capability list itself

-----------------------------------------------------------------------------
Init == /\ ph = 0
        /\ c \in {[k |-> k, rev2 |-> r] : k \in Kinds, r \in BOOLEAN}
Next == /\ ph = 0
        /\ ph' = 1
        /\ \E x \in CasesOf(c.k, c.rev2) :
              c' = [k |-> c.k, rev2 |-> c.rev2, req |-> x.req, data |-> x.data]

(* properties of the specification itself (RespSpace_mc.cfg) *)
NormIdempotent == ph = 1 => Norm(Norm(c)) = Norm(c)
CatalogueInContract == ph = 1 => InContract(c)
(* the clauses do not collapse everything: Norm separates the catalogue values that differ in a *)
(* field no clause mentions (checked on the scalars of SELECT and APPEND)                       *)
NormKeepsNumbers == (ph = 1 /\ c.k = "select") => Norm(c).data.num = c.data.num /\ Norm(c).data.uidval = c.data.uidval
=============================================================================
