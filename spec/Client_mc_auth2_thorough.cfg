CONSTANTS
  MaxCmds = 2
  MaxPending = 2
  MaxNum = 2
  MaxItems = 2
  MaxUid = 1
  MaxCode = 1
  NFlagSets = 2
  SyncLit = FALSE
  Kinds = {"LIST", "LISTSTATUS", "STATUS", "GETQUOTA", "GETQUOTAROOT", "GETMETADATA"}
  Greetings = {"PREAUTH"}
INIT Init
NEXT Next
VIEW McView
INVARIANTS TypeOK IdleAlone
PROPERTIES ExactlyOnce Isolation DataToRightCommand StateDiagram
CHECK_DEADLOCK FALSE
