CONSTANTS
  StrAlpha = {}
  StrMax = 0
  MboxAlpha = {}
  MboxMax = 0
  FlagAlpha = {}
  FlagMax = 0
  TreeLevel = 1
  NestNs = {}
  Kinds = {"trace"}
INIT TraceInit
NEXT TraceNext
POSTCONDITION TraceAccepted
CHECK_DEADLOCK FALSE
