--------------------------- MODULE RespFuzzTrace ---------------------------
(* Judge for C11 (implementation -> specification).                         *)
(*                                                                          *)
(* The Go driver makes up token lines the generator of RespFuzz does not    *)
(* produce (several random edits of conformant lines, token soups), runs    *)
(* each through a real client and records, per line, the context, the       *)
(* tokens and what happened: [k, t, o: [ret, crash, panic, accpanic, err,   *)
(* status]].  The driver does not know the class of its lines: this module  *)
(* re-derives it from the tokens with the classifier of RespFuzz and checks *)
(* that the recorded outcome is one the class allows:                       *)
(*   any class: returned, no crash, no reader panic, no accessor panic      *)
(*   D: completion status = the status of the conformant line (OK/NO/BAD)   *)
(*   E: an error was reported                                               *)
(* A disagreement does not stop the evaluation: one BAD line per signature  *)
(* and record is printed, the first bad record is remembered.               *)
EXTENDS RespFuzz, Json

VARIABLE l        \* next record

FirstBad == 7     \* TLC registers (single worker)
NumD == 8
NumE == 9
NumX == 10

Trace == ndJsonDeserialize(IOEnv.TRACE_FILE)

TraceInit ==
  /\ l = 1
  /\ base = 1 /\ pos = 0 /\ phase = "done" /\ line = <<>> /\ mut = <<NoMut>>
  /\ cls = [c |-> "X", w |-> "", b |-> 0, amb |-> FALSE, at |-> 0]
  /\ TLCSet(FirstBad, 0) /\ TLCSet(NumD, 0) /\ TLCSet(NumE, 0) /\ TLCSet(NumX, 0)

SigsFor(r, cl) ==
  LET o == r.o IN
     (IF r.k \notin Kinds THEN {"harness/unknown-context"} ELSE {})
  \cup (IF cl.amb THEN {"spec/ambiguous-line"} ELSE {})
  \cup (IF o.crash THEN {"crash"} ELSE {})
  \cup (IF ~o.ret /\ ~o.crash THEN {"nonreturn"} ELSE {})
  \cup (IF o.panic THEN {"reader-panic"} ELSE {})
  \cup (IF o.accpanic THEN {"accessor-panic"} ELSE {})
  \* (after a panic the outcome of the call is a consequence of it: only the panic is reported)
  \cup (IF o.ret /\ ~o.crash /\ ~o.panic /\ ~o.accpanic /\ cl.c = "E" /\ ~o.err
          THEN {"not-rejected/" \o cl.w \o "/" \o r.k} ELSE {})
  \cup (IF o.ret /\ ~o.crash /\ ~o.panic /\ ~o.accpanic /\ cl.c = "D" /\ o.status # Bases[cl.b].st
          THEN {"conformant-rejected/" \o r.k \o "/" \o Bases[cl.b].name} ELSE {})

Count(cl) ==
  CASE cl.c = "D" -> TLCSet(NumD, TLCGet(NumD) + 1)
    [] cl.c = "E" -> TLCSet(NumE, TLCGet(NumE) + 1)
    [] OTHER      -> TLCSet(NumX, TLCGet(NumX) + 1)

Report(r, cl) ==
  LET sigs == SigsFor(r, cl) IN
  /\ \A sg \in sigs : PrintT(<<"BAD", ToJson([line |-> l, sig |-> sg, class |-> cl.c, why |-> cl.w, at |-> cl.at])>>)
  /\ (sigs # {} /\ TLCGet(FirstBad) = 0) => TLCSet(FirstBad, l)
  /\ Count(cl)

TraceNext ==
  /\ l <= Len(Trace)
  /\ l' = l + 1
  /\ UNCHANGED vars
  /\ \E cl \in {Classify(Trace[l].k, Trace[l].t)} : Report(Trace[l], cl)

TraceAccepted ==
  LET d == TLCGet("stats").diameter IN
    /\ PrintT(<<"CLASSES", TLCGet(NumD), TLCGet(NumE), TLCGet(NumX)>>)
    /\ IF d - 1 = Len(Trace) /\ TLCGet(FirstBad) = 0 THEN TRUE
       ELSE LET at == IF TLCGet(FirstBad) # 0 THEN TLCGet(FirstBad) ELSE d IN
            /\ PrintT(<<"TRACE_REJECTED_AT", at, Len(Trace)>>)
            /\ IF at <= Len(Trace) THEN PrintT(<<"REJECTED_RECORD", ToJson(Trace[at])>>) ELSE TRUE
            /\ FALSE
=============================================================================
