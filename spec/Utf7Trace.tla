----------------------------- MODULE Utf7Trace -----------------------------
(* Implementation -> specification.  The harness feeds the real encoder    *)
(* and decoder random inputs far outside the enumerated space (any code    *)
(* point, up to 40 symbols, random shift sequences with surrogates and     *)
(* stray bits, mutated real encodings, random buffer schedules with dst    *)
(* sizes 1..16 and source chunks 1..8) and records what the REAL code      *)
(* returned.  Every record is re-evaluated here with the operators of      *)
(* Utf7; the Go side has no oracle of its own.                             *)
(*   enc record: the real encoding (one-shot and streamed) must be         *)
(*     Encode(s), printable ASCII, and the real decoder must give s back   *)
(*   dec record: no panic, valid UTF-8, terminated; MustAccept inputs      *)
(*     decode to Value(b), MustReject inputs are rejected; Unspecified     *)
(*     inputs are free                                                     *)
EXTENDS Utf7, Json, IOUtils

VARIABLE l

Trace == ndJsonDeserialize(IOEnv.TRACE_FILE)

TraceInit == Init /\ fam = "enc" /\ pre = <<>> /\ l = 1

Finished(r) == r.sst \in {"ok", "invalid"}

EncOK(r) ==
  LET e == Encode(r.s) IN
    /\ \A i \in 1..Len(r.s) : IsScalar(r.s[i])
    /\ ~r.panic /\ r.ok
    /\ AllPrintable(r.out)                 \* printable ASCII
    /\ r.out = e                           \* the RFC 3501 form
    /\ r.backok /\ r.back = r.s            \* decodes back to exactly the original
    /\ r.sst = "ok" /\ r.sout = e          \* however the buffers are chunked

DecOK(r) ==
  LET v == Verdict(r.b) IN
    /\ ~r.panic /\ r.valid /\ Finished(r)
    /\ v.v = "accept" => r.ok /\ r.out = v.out /\ r.sst = "ok" /\ r.sout = v.out
    /\ v.v = "reject" => ~r.ok /\ r.sst = "invalid"

TraceNext ==
  /\ l <= Len(Trace)
  /\ l' = l + 1
  /\ UNCHANGED vars
  /\ LET r == Trace[l] IN
       \/ r.k = "enc" /\ EncOK(r) /\ PrintT(<<"T", ToJson([l |-> l, k |-> "enc", v |-> "encode", why |-> ""])>>)
       \/ r.k = "dec" /\ DecOK(r) /\ LET v == Verdict(r.b) IN
                                        PrintT(<<"T", ToJson([l |-> l, k |-> "dec", v |-> v.v, why |-> v.why])>>)

Why(r) == IF r.k = "enc" THEN <<"enc", Encode(r.s)>>
          ELSE LET v == Verdict(r.b) IN <<"dec", v.v, v.why, v.out>>

TraceAccepted ==
  LET d == TLCGet("stats").diameter IN
    IF d - 1 = Len(Trace) THEN TRUE
    ELSE /\ PrintT(<<"TRACE_REJECTED_AT", d, Len(Trace)>>)
         /\ IF d <= Len(Trace)
              THEN /\ PrintT(<<"REJECTED_RECORD", ToJson(Trace[d])>>)
                   /\ PrintT(<<"SPEC_SAYS", ToJson(Why(Trace[d]))>>)
              ELSE TRUE
         /\ FALSE
=============================================================================
