---------------------------- MODULE NumSetTrace ----------------------------
(* Judge for C15: re-evaluates what the real number sets showed.           *)
(*                                                                         *)
(* The trace (ndjson) starts with a Domain record (Max, Gaps: the symbolic *)
(* domain the harness used, see NumSet.tla), then per recorded history a   *)
(* Reset record followed by one record per insertion carrying, for each of *)
(* the three flavours (imapnum.Set, imap.SeqSet, imap.UIDSet), the range   *)
(* list, the tokenised String(), Dynamic(), the Contains table, the result *)
(* of parsing String() back with the real parser and what Nums() did in   *)
(* its child process.  Parse records carry a token string and what every   *)
(* real parse path made of it.                                             *)
(*                                                                         *)
(* members follows the specification (union of the insertions) whatever    *)
(* the code did; every observation is judged against it with exactly the  *)
(* clauses of the statement.  A disagreement does not stop the evaluation: *)
(* it prints <<"BAD", "{line, f, sig}">> and goes on, so that one    *)
(* known finding cannot hide another violation further down the file.      *)
EXTENDS NumSet, Json, IOUtils

VARIABLE l        \* next record

\* TLC register holding the line of the first record with a disagreement
\* (0: none); read by the postcondition (single worker)
FirstBad == 7

Trace == ndJsonDeserialize(IOEnv.TRACE_FILE)

\* the domain is the one the harness announces in the first record
TraceMax  == Trace[1].max
TraceGaps == {Trace[1].gaps[i] : i \in 1..Len(Trace[1].gaps)}

TraceInit == Init /\ l = 1 /\ TLCSet(FirstBad, 0)

ToSet(s) == {s[i] : i \in 1..Len(s)}
AllWellFormed(rs) == \A i \in 1..Len(rs) : Len(rs[i]) = 2 /\ WellFormedRange(rs[i])

\* ---- judgement of one flavour's observation o when the members must be m ----
RangeSigs(o, m) ==
  IF ~AllWellFormed(o.ranges) THEN {"ranges/malformed"}
  ELSE IF ~Canonical(o.ranges) THEN {"ranges/not-canonical"}
  ELSE IF MembersOf(o.ranges) # m THEN {"ranges/members"}
  ELSE {}

\* the text form is valid sequence-set text denoting the same members (the
\* empty set has no text form in the grammar: nothing is demanded of it) ...
StringSigs(o, m) ==
  IF m = {} THEN {}
  ELSE IF LexOK(o.str) /\ ParseOK(o.str) /\ ParseMembers(o.str) = m THEN {}
  ELSE {"string/not-same-members"}
\* ... and the real parser turns it back into an equal set
RoundTripSigs(o, m) ==
  IF m = {} \/ (o.rt.ok /\ o.rt.ranges = o.ranges) THEN {} ELSE {"roundtrip"}

DynamicSigs(o, m) == IF o.dyn = DynamicRef(m) THEN {} ELSE {"dynamic"}

ContainsSigs(o, m) ==
  (IF Len(o.con) = Max /\ \A q \in 1..Max : o.con[q] = (IF ContainsRef(m, q) THEN 1 ELSE 0)
   THEN {} ELSE {"contains"})
  \cup (IF o.c0 = 0 THEN {} ELSE {"contains-zero"})

\* Nums() is only called when the set is static and small; then it must
\* return, report ok and yield exactly the members in ascending order
NumsSigs(o, m) ==
  IF ~o.nums.called THEN {}
  ELSE IF ~(StaticRef(m) /\ Small(m)) THEN {"harness/nums-called-on-large-or-dynamic"}
  ELSE IF ~o.nums.returned
       THEN (IF Max \in m THEN {"nums-nonterminating/stop=2^32-1"} ELSE {"nums-nonterminating/other"})
  ELSE IF o.nums.ok /\ o.nums.vals = NumsRef(m) /\ o.nums.why = "" THEN {}
  ELSE {"nums-wrong"}

Judge(o, m) ==
  LET rs == RangeSigs(o, m) IN
    rs \cup StringSigs(o, m) \cup RoundTripSigs(o, m) \cup DynamicSigs(o, m)
       \cup ContainsSigs(o, m)
       \cup (IF rs = {} THEN NumsSigs(o, m)
             ELSE NumsSigs(o, m) \ {"harness/nums-called-on-large-or-dynamic"})

\* ---- judgement of one parse path p on token string toks ----
ParseSigs(p, toks) ==
  IF ~LexOK(toks) THEN {"harness/text-not-lexable"}
  ELSE IF ~ParseOK(toks)
       THEN (IF p.ok THEN {"parse/accepts-invalid"} ELSE {})
  ELSE IF ~p.ok THEN {"parse/rejects-valid"}
  ELSE LET m == ParseMembers(toks) IN
       IF ~AllWellFormed(p.ranges) THEN {"parse/members"}
       ELSE (IF MembersOf(p.ranges) = m /\ p.dyn = DynamicRef(m)
                /\ Len(p.con) = Max
                /\ \A q \in 1..Max : p.con[q] = (IF ContainsRef(m, q) THEN 1 ELSE 0)
             THEN {} ELSE {"parse/members"})
            \cup (IF Canonical(p.ranges) THEN {} ELSE {"parse/not-canonical"})

Report(findings) ==
  /\ \A f \in findings : PrintT(<<"BAD", ToJson([line |-> l, f |-> f[1], sig |-> f[2]])>>)
  /\ (findings # {} /\ TLCGet(FirstBad) = 0) => TLCSet(FirstBad, l)

Observed(r) ==
  Report(UNION {{<<r.obs[i].f, sg>> : sg \in Judge(r.obs[i], members')} : i \in 1..Len(r.obs)})

RECURSIVE AddNums(_, _)
AddNums(s, vs) == IF vs = <<>> THEN s ELSE AddNums(AlgAddNum(s, Head(vs)), Tail(vs))

ArgOK(v) == v \in Args

TraceNext ==
  /\ l <= Len(Trace)
  /\ l' = l + 1
  /\ LET r == Trace[l] IN
       \/ /\ r.ev = "Domain" /\ l = 1
          /\ UNCHANGED vars
       \/ /\ r.ev = "Reset"
          /\ set' = <<>> /\ members' = {}
       \/ /\ r.ev = "AddNum"
          /\ IF \A i \in 1..Len(r.vs) : ArgOK(r.vs[i])
             THEN /\ set' = AddNums(set, r.vs)
                  /\ members' = members \cup UNION {InsNum(r.vs[i]) : i \in 1..Len(r.vs)}
                  /\ Observed(r)
             ELSE UNCHANGED vars /\ Report({<<"harness", "harness/bad-argument">>})
       \/ /\ r.ev = "AddRange"
          /\ IF ArgOK(r.x) /\ ArgOK(r.y)
             THEN AddRange(r.x, r.y) /\ Observed(r)
             ELSE UNCHANGED vars /\ Report({<<"harness", "harness/bad-argument">>})
       \/ /\ r.ev = "AddSet"
          /\ IF AllWellFormed(r.t) /\ Canonical(r.t)
             THEN AddSet(r.t) /\ Observed(r)
             ELSE UNCHANGED vars /\ Report({<<"harness", "harness/bad-argument">>})
       \/ /\ r.ev = "Parse"
          /\ UNCHANGED vars
          /\ Report(UNION {{<<r.res[i].f, sg>> : sg \in ParseSigs(r.res[i], r.toks)} : i \in 1..Len(r.res)})

TraceSpec == TraceInit /\ [][TraceNext]_<<vars, l>>

TraceAccepted ==
  LET d == TLCGet("stats").diameter IN
    IF d - 1 = Len(Trace) /\ TLCGet(FirstBad) = 0 THEN TRUE
    ELSE LET at == IF TLCGet(FirstBad) # 0 THEN TLCGet(FirstBad) ELSE d IN
         /\ PrintT(<<"TRACE_REJECTED_AT", at, Len(Trace)>>)
         /\ IF at <= Len(Trace) THEN PrintT(<<"REJECTED_RECORD", ToJson(Trace[at])>>) ELSE TRUE
         /\ FALSE
=============================================================================
