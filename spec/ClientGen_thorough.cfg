CONSTANTS
  MaxCmds = 4
  MaxPending = 3
  MaxNum = 2
  MaxItems = 2
INIT GenInit
NEXT GenNext
VIEW GenView
CHECK_DEADLOCK FALSE
