CONSTANTS
  MaxCmds = 3
  MaxPending = 3
  MaxNum = 2
  MaxItems = 1
INIT GenInit
NEXT GenNext
VIEW GenView
CHECK_DEADLOCK FALSE
