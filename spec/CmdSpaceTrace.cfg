CONSTANTS
  Thorough = FALSE
INIT TraceInit
NEXT TraceNext
POSTCONDITION AllJudged
CHECK_DEADLOCK FALSE
