CONSTANTS
  Subs = {1, 2, 3}
  RegisterBeforeInit = FALSE
  Literal = {}
  ReleaseOnRefusal = TRUE
  Streaming = {}
INIT GenInit
NEXT GenNext
CONSTRAINT GenConstraint
CHECK_DEADLOCK FALSE
