CONSTANTS
  Thorough = TRUE
INIT Init
NEXT GenNext
INVARIANTS CfgInv CatalogueLegal NormIdempotent AcceptSane WellTyped
CHECK_DEADLOCK FALSE
