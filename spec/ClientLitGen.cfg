CONSTANTS
  LitMax = 4096
INIT GenInit
NEXT GenNext
CHECK_DEADLOCK FALSE
