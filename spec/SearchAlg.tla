------------------------------ MODULE SearchAlg ------------------------------
(* Search-criteria algebra of go-imap (property C19).                       *)
(*                                                                          *)
(* Code anchors: imap.SearchCriteria / SearchCriteria.And (search.go), the  *)
(* SEARCH key parser that folds keys into one criteria value                *)
(* (imapserver/search.go readSearchKeyWithAtom), and the documented         *)
(* matching semantics as used by imapmemserver (message.search).            *)
(*                                                                          *)
(* A criteria value is a record mirroring imap.SearchCriteria:              *)
(*   seq, uid     lists of number sets; a number set is a list of <<lo,hi>> *)
(*   since, before, sentsince, sentbefore   day numbers, 0 = unset          *)
(*   header       list of [k, v] (field name lower-cased, needle)           *)
(*   body, text   lists of needles                                          *)
(*   flag, notflag  lists of flags (lower-cased)                            *)
(*   larger, smaller  sizes, 0 = unset                                      *)
(*   not          list of criteria;   or  list of pairs of criteria         *)
(* "When multiple fields are populated, the result is the intersection of   *)
(* all messages that match the fields" (doc comment of SearchCriteria);     *)
(* zero = unset; date keys compare the date only.                           *)
(*                                                                          *)
(* A message is what the criteria can observe of it:                        *)
(*   seq, uid, date (internal date, day number), sent (day number of the    *)
(*   Date header, NoDate if none), flags (set), size, hdr (set of [k,v] it  *)
(*   satisfies), body / text (sets of needles occurring in it).             *)
EXTENDS Integers, Sequences, FiniteSets, TLC

CONSTANTS MaxKeys,   \* SEARCH commands with 1..MaxKeys keys are enumerated
          WithCat    \* BOOLEAN: also enumerate all pairs of the mixed catalogue

NoDate == -1

E == [seq |-> <<>>, uid |-> <<>>, since |-> 0, before |-> 0, sentsince |-> 0,
      sentbefore |-> 0, header |-> <<>>, body |-> <<>>, text |-> <<>>,
      flag |-> <<>>, notflag |-> <<>>, larger |-> 0, smaller |-> 0,
      not |-> <<>>, or |-> <<>>]

-----------------------------------------------------------------------------
(* Meaning                                                                  *)

InSet(n, s) == \E i \in 1..Len(s) : s[i][1] <= n /\ n <= s[i][2]
\* "$" (RFC 5182): the messages of the saved search result.  It is a UID set that is no list of ranges - written
\* <<<<0, 0>>>> here ('*' sets are not part of this specification) - and it means "m is in the saved result".
SRes == << <<0, 0>> >>
InUidSet(m, s) == IF s = SRes THEN m.saved ELSE InSet(m.uid, s)

RECURSIVE Match(_, _)
Match(c, m) ==
  /\ \A i \in 1..Len(c.seq) : InSet(m.seq, c.seq[i])
  /\ \A i \in 1..Len(c.uid) : InUidSet(m, c.uid[i])
  /\ c.since # 0 => m.date >= c.since
  /\ c.before # 0 => m.date < c.before
  /\ c.sentsince # 0 => (m.sent # NoDate /\ m.sent >= c.sentsince)
  /\ c.sentbefore # 0 => (m.sent # NoDate /\ m.sent < c.sentbefore)
  /\ \A i \in 1..Len(c.header) : c.header[i] \in m.hdr
  /\ \A i \in 1..Len(c.body) : c.body[i] \in m.body
  /\ \A i \in 1..Len(c.text) : c.text[i] \in m.text
  /\ \A i \in 1..Len(c.flag) : c.flag[i] \in m.flags
  /\ \A i \in 1..Len(c.notflag) : c.notflag[i] \notin m.flags
  /\ c.larger # 0 => m.size > c.larger
  /\ c.smaller # 0 => m.size < c.smaller
  /\ \A i \in 1..Len(c.not) : ~Match(c.not[i], m)
  /\ \A i \in 1..Len(c.or) : Match(c.or[i][1], m) \/ Match(c.or[i][2], m)

-----------------------------------------------------------------------------
(* Reference conjunction: field-wise intersection, zero = unset             *)

Tighter(x, y, up) ==      \* the stricter of two bounds; up: larger is stricter
  IF x = 0 THEN y ELSE IF y = 0 THEN x
  ELSE IF (up /\ x > y) \/ (~up /\ x < y) THEN x ELSE y

AndRef(a, b) ==
  [seq |-> a.seq \o b.seq, uid |-> a.uid \o b.uid,
   since |-> Tighter(a.since, b.since, TRUE),
   before |-> Tighter(a.before, b.before, FALSE),
   sentsince |-> Tighter(a.sentsince, b.sentsince, TRUE),
   sentbefore |-> Tighter(a.sentbefore, b.sentbefore, FALSE),
   header |-> a.header \o b.header, body |-> a.body \o b.body, text |-> a.text \o b.text,
   flag |-> a.flag \o b.flag, notflag |-> a.notflag \o b.notflag,
   larger |-> Tighter(a.larger, b.larger, TRUE),
   smaller |-> Tighter(a.smaller, b.smaller, FALSE),
   not |-> a.not \o b.not, or |-> a.or \o b.or]

-----------------------------------------------------------------------------
(* Message universe.  Match(c, m) looks at m only through comparisons with  *)
(* constants occurring in c.  Every numeric constraint is a threshold test  *)
(* (since d: date >= d; before d: date < d; larger n: size >= n+1; smaller  *)
(* n: size < n; range lo..hi: num >= lo and num < hi+1), so for a finite    *)
(* set S of criteria the thresholds cut each numeric dimension into         *)
(* intervals and the universe below has one message in every interval (each *)
(* threshold itself, and one point below the least): a message on each side *)
(* of every bound.  For every mentioned flag / needle / header field there  *)
(* is a message with and without it, and there is a message with no Date    *)
(* header.  Dimensions that S does not mention are fixed (they cannot       *)
(* influence any Match over S).  Hence a law checked on Universe(S) holds   *)
(* for all messages.                                                        *)

RECURSIVE Nodes(_)
Nodes(c) == {c} \cup UNION {Nodes(c.not[i]) : i \in 1..Len(c.not)}
                \cup UNION {Nodes(c.or[i][1]) \cup Nodes(c.or[i][2]) : i \in 1..Len(c.or)}

Elems(s) == {s[i] : i \in 1..Len(s)}
Least(T) == CHOOSE n \in T : \A k \in T : n <= k
Reps(T) == IF T = {} THEN {1} ELSE T \cup {Least(T) - 1}
SetThresholds(sets) == UNION {UNION {{r[1], r[2] + 1} : r \in Elems(s)} : s \in sets}
NumReps(sets) == LET R == {n \in Reps(SetThresholds(sets)) : n >= 1} IN IF R = {} THEN {1} ELSE R

Universe(S) ==
  LET N == UNION {Nodes(c) : c \in S}
  IN [seq   : NumReps(UNION {Elems(c.seq) : c \in N}),
      uid   : NumReps(UNION {Elems(c.uid) \ {SRes} : c \in N}),
      saved : IF \E c \in N : SRes \in Elems(c.uid) THEN BOOLEAN ELSE {FALSE},
      date  : Reps(({c.since : c \in N} \cup {c.before : c \in N}) \ {0}),
      sent  : {NoDate} \cup Reps(({c.sentsince : c \in N} \cup {c.sentbefore : c \in N}) \ {0}),
      flags : SUBSET UNION {Elems(c.flag) \cup Elems(c.notflag) : c \in N},
      size  : Reps({c.larger + 1 : c \in {x \in N : x.larger # 0}} \cup ({c.smaller : c \in N} \ {0})),
      hdr   : SUBSET UNION {Elems(c.header) : c \in N},
      body  : SUBSET UNION {Elems(c.body) : c \in N},
      text  : SUBSET UNION {Elems(c.text) : c \in N}]

\* the law of property C19 for one pair and a candidate conjunction r
IsIntersection(r, a, b) ==
  \A m \in Universe({r, a, b}) : Match(r, m) <=> (Match(a, m) /\ Match(b, m))

-----------------------------------------------------------------------------
(* SEARCH keys (RFC 3501 / 9051 search-key).  A key is a record             *)
(*   [k, n, s, v, set, sub]: name, number/day, flag or header name, needle, *)
(*   number set, sub-keys (NOT: 1, OR: 2, LIST = parenthesised list: any).  *)

K0(name) == [k |-> name, n |-> 0, s |-> "", v |-> "", set |-> <<>>, sub |-> <<>>]
KN(name, n) == [K0(name) EXCEPT !.n = n]
KS(name, s) == [K0(name) EXCEPT !.s = s]
KV(name, v) == [K0(name) EXCEPT !.v = v]
KSet(name, set) == [K0(name) EXCEPT !.set = set]
KSub(name, sub) == [K0(name) EXCEPT !.sub = sub]

SysFlagKeys == {"ANSWERED", "DELETED", "DRAFT", "FLAGGED", "SEEN", "RECENT"}
SysFlag(name) ==
  CASE name = "ANSWERED" -> "\\answered" [] name = "DELETED" -> "\\deleted"
    [] name = "DRAFT" -> "\\draft"       [] name = "FLAGGED" -> "\\flagged"
    [] name = "SEEN" -> "\\seen"         [] name = "RECENT" -> "\\recent"
UnFlag(name) ==
  CASE name = "UNANSWERED" -> "\\answered" [] name = "UNDELETED" -> "\\deleted"
    [] name = "UNDRAFT" -> "\\draft"       [] name = "UNFLAGGED" -> "\\flagged"
    [] name = "UNSEEN" -> "\\seen"
AddrKeys == {"BCC", "CC", "FROM", "SUBJECT", "TO"}
AddrField(name) ==
  CASE name = "BCC" -> "bcc" [] name = "CC" -> "cc" [] name = "FROM" -> "from"
    [] name = "SUBJECT" -> "subject" [] name = "TO" -> "to"

RECURSIVE KeyMeaning(_), ParseKeys(_)
KeyMeaning(key) ==
  LET k == key.k IN
  CASE k = "ALL" -> E
    [] k \in SysFlagKeys -> [E EXCEPT !.flag = <<SysFlag(k)>>]
    [] k \in {"UNANSWERED", "UNDELETED", "UNDRAFT", "UNFLAGGED", "UNSEEN"} ->
         [E EXCEPT !.notflag = <<UnFlag(k)>>]
    [] k = "NEW" -> [E EXCEPT !.flag = <<"\\recent">>, !.notflag = <<"\\seen">>]
    [] k = "OLD" -> [E EXCEPT !.notflag = <<"\\recent">>]
    [] k = "KEYWORD" -> [E EXCEPT !.flag = <<key.s>>]
    [] k = "UNKEYWORD" -> [E EXCEPT !.notflag = <<key.s>>]
    [] k = "SEQ" -> [E EXCEPT !.seq = <<key.set>>]
    [] k = "UID" -> [E EXCEPT !.uid = <<key.set>>]
    [] k = "SINCE" -> [E EXCEPT !.since = key.n]
    [] k = "BEFORE" -> [E EXCEPT !.before = key.n]
    [] k = "ON" -> [E EXCEPT !.since = key.n, !.before = key.n + 1]
    [] k = "SENTSINCE" -> [E EXCEPT !.sentsince = key.n]
    [] k = "SENTBEFORE" -> [E EXCEPT !.sentbefore = key.n]
    [] k = "SENTON" -> [E EXCEPT !.sentsince = key.n, !.sentbefore = key.n + 1]
    [] k = "LARGER" -> [E EXCEPT !.larger = key.n]
    [] k = "SMALLER" -> [E EXCEPT !.smaller = key.n]
    [] k = "HEADER" -> [E EXCEPT !.header = <<[k |-> key.s, v |-> key.v]>>]
    [] k \in AddrKeys -> [E EXCEPT !.header = <<[k |-> AddrField(k), v |-> key.v]>>]
    [] k = "BODY" -> [E EXCEPT !.body = <<key.v>>]
    [] k = "TEXT" -> [E EXCEPT !.text = <<key.v>>]
    [] k = "NOT" -> [E EXCEPT !.not = <<KeyMeaning(key.sub[1])>>]
    [] k = "OR" -> [E EXCEPT !.or = <<<<KeyMeaning(key.sub[1]), KeyMeaning(key.sub[2])>>>>]
    [] k = "LIST" -> ParseKeys(key.sub)

\* how a SEARCH command's key list becomes one criteria value: left fold with And
ParseKeys(ks) ==
  IF ks = <<>> THEN E
  ELSE AndRef(ParseKeys(SubSeq(ks, 1, Len(ks) - 1)), KeyMeaning(ks[Len(ks)]))

KeyCriteria(ks) == {KeyMeaning(ks[i]) : i \in 1..Len(ks)}

\* r selects exactly the messages that satisfy all keys of ks
IsConjunctionOfKeys(r, ks) ==
  \A m \in Universe({r} \cup KeyCriteria(ks)) :
     Match(r, m) <=> \A i \in 1..Len(ks) : Match(KeyMeaning(ks[i]), m)

-----------------------------------------------------------------------------
(* Bounded enumeration space (shared by the model check and the generator)  *)

S1 == <<<<1, 1>>>>
S2 == <<<<2, 2>>>>
S12 == <<<<1, 2>>>>
S13 == <<<<1, 1>>, <<3, 3>>>>
S123 == <<<<1, 3>>>>      \* a single range that spans the gap of S13 (a set that covers only the END POINTS of another)
F1 == "\\seen"
F2 == "kw1"
H1 == [k |-> "subject", v |-> "n1"]
H2 == [k |-> "x-h", v |-> "n2"]
L1 == [E EXCEPT !.flag = <<F1>>]
L2 == [E EXCEPT !.smaller = 20]
L3 == [E EXCEPT !.since = 3]
L4 == [E EXCEPT !.body = <<"n1">>]
Lists2(x, y) == {<<>>, <<x>>, <<y>>, <<x, y>>}

Fields == {"seq", "uid", "since", "before", "sentsince", "sentbefore", "header", "body",
           "text", "flag", "notflag", "larger", "smaller", "not", "or"}

Values(f) ==
  CASE f = "seq" -> {<<>>, <<S1>>, <<S12>>, <<S2, S12>>, <<S13>>, <<S123>>}
    [] f = "uid" -> {<<>>, <<S1>>, <<S12>>, <<S2, S12>>, <<S13>>, <<S123>>, <<SRes>>, <<SRes, S12>>}
    [] f \in {"since", "before", "sentsince", "sentbefore"} -> {0, 2, 3, 4}
    [] f = "header" -> Lists2(H1, H2)
    [] f \in {"body", "text"} -> Lists2("n1", "n2")
    [] f \in {"flag", "notflag"} -> Lists2(F1, F2)
    [] f \in {"larger", "smaller"} -> {0, 10, 20}
    [] f = "not" -> Lists2(L1, L2)
    [] f = "or" -> Lists2(<<L1, L2>>, <<L3, L4>>)

\* background criteria: what the other fields hold while one field varies
Backgrounds ==
  {E,
   [E EXCEPT !.flag = <<F1>>, !.smaller = 20, !.sentsince = 2],
   [E EXCEPT !.larger = 10, !.since = 2, !.notflag = <<F2>>],
   [E EXCEPT !.sentbefore = 4, !.body = <<"n1">>, !.not = <<[E EXCEPT !.larger = 20]>>]}

Put(c, f, v) == [c EXCEPT ![f] = v]

\* mixed catalogue: several fields at once, nesting up to depth 2
Catalogue ==
  {E,
   [E EXCEPT !.seq = <<S12>>, !.uid = <<S2>>],
   [E EXCEPT !.seq = <<S13>>, !.flag = <<F2>>],
   [E EXCEPT !.uid = <<S12>>, !.before = 4],
   [E EXCEPT !.since = 2, !.before = 4],
   [E EXCEPT !.since = 3, !.sentsince = 2],
   [E EXCEPT !.since = 4, !.sentbefore = 3],
   [E EXCEPT !.before = 3, !.sentbefore = 4],
   [E EXCEPT !.before = 2, !.larger = 10],
   [E EXCEPT !.sentsince = 3, !.sentbefore = 4],
   [E EXCEPT !.sentsince = 4, !.smaller = 20],
   [E EXCEPT !.larger = 10, !.smaller = 20],
   [E EXCEPT !.larger = 20, !.flag = <<F1>>],
   [E EXCEPT !.smaller = 10, !.notflag = <<F1>>],
   [E EXCEPT !.smaller = 20, !.header = <<H1>>],
   [E EXCEPT !.larger = 10, !.text = <<"n1">>],
   [E EXCEPT !.header = <<H1, H2>>, !.body = <<"n2">>],
   [E EXCEPT !.header = <<H2>>, !.text = <<"n2">>, !.before = 3],
   [E EXCEPT !.body = <<"n1", "n2">>, !.text = <<"n1">>],
   [E EXCEPT !.flag = <<F1, F2>>, !.since = 2],
   [E EXCEPT !.flag = <<F2>>, !.notflag = <<F1>>, !.smaller = 20],
   [E EXCEPT !.notflag = <<F1, F2>>, !.larger = 10],
   [E EXCEPT !.not = <<L1>>, !.smaller = 20],
   [E EXCEPT !.not = <<L2, L3>>, !.larger = 10],
   [E EXCEPT !.not = <<[E EXCEPT !.or = <<<<L1, L2>>>>]>>, !.since = 2],
   [E EXCEPT !.not = <<[E EXCEPT !.larger = 10, !.smaller = 20]>>],
   [E EXCEPT !.or = <<<<L1, L2>>>>, !.before = 4],
   [E EXCEPT !.or = <<<<L3, L4>>>>, !.smaller = 10],
   [E EXCEPT !.or = <<<<L1, L3>>, <<L2, L4>>>>],
   [E EXCEPT !.or = <<<<[E EXCEPT !.not = <<L2>>], L1>>>>, !.larger = 20],
   [E EXCEPT !.or = <<<<[E EXCEPT !.larger = 10, !.flag = <<F2>>], [E EXCEPT !.smaller = 10]>>>>,
             !.sentsince = 2],
   [E EXCEPT !.seq = <<S1>>, !.not = <<[E EXCEPT !.uid = <<S2>>]>>],
   [E EXCEPT !.uid = <<S13>>, !.or = <<<<[E EXCEPT !.seq = <<S2>>], L1>>>>],
   [E EXCEPT !.text = <<"n2">>, !.not = <<L4>>, !.smaller = 20],
   [E EXCEPT !.sentbefore = 2, !.not = <<[E EXCEPT !.sentsince = 3]>>],
   [E EXCEPT !.larger = 10, !.smaller = 20, !.since = 2, !.before = 4]}

Family(fam) ==
  IF fam = "cat" THEN Catalogue
  ELSE {Put(bg, fam, v) : bg \in Backgrounds, v \in Values(fam)}
Families == Fields \cup (IF WithCat THEN {"cat"} ELSE {})

KeyCat ==
  {K0("ALL"), K0("SEEN"), K0("UNSEEN"), KS("KEYWORD", F2), KS("UNKEYWORD", F2),
   K0("NEW"), K0("OLD"), K0("RECENT"),
   KSet("SEQ", S12), KSet("UID", <<<<2, 3>>>>),
   KN("SINCE", 3), KN("BEFORE", 4), KN("ON", 3), KN("SENTSINCE", 2), KN("SENTBEFORE", 4),
   KN("LARGER", 10), KN("SMALLER", 20),
   [K0("HEADER") EXCEPT !.s = "x-h", !.v = "n2"], KV("SUBJECT", "n1"),
   KV("BODY", "n1"), KV("TEXT", "n2"),
   KSub("NOT", <<K0("SEEN")>>), KSub("NOT", <<KN("LARGER", 10)>>),
   KSub("OR", <<K0("UNSEEN"), KN("SMALLER", 20)>>),
   KSub("LIST", <<KS("KEYWORD", F2), KN("SMALLER", 20)>>)}

RECURSIVE KeySeqs(_)
KeySeqs(n) == IF n = 0 THEN {<<>>}
              ELSE LET P == KeySeqs(n - 1) IN P \cup {Append(p, k) : p \in {q \in P : Len(q) = n - 1}, k \in KeyCat}

-----------------------------------------------------------------------------
(* Enumeration as a two-step state graph: Init picks the first component,   *)
(* one Next step picks the rest, so all workers share the evaluation.       *)

VARIABLES fam,    \* family of the pair ("keys" for key sequences)
          ca, cb, \* the pair of criteria
          ks,     \* the key sequence
          done

vars == <<fam, ca, cb, ks, done>>

Init ==
  /\ done = FALSE
  /\ cb = E
  /\ \/ fam \in Families /\ ca \in Family(fam) /\ ks = <<>>
     \/ fam = "keys" /\ ca = E /\ ks \in {<<k>> : k \in KeyCat}

Next ==
  /\ ~done
  /\ done' = TRUE
  /\ fam' = fam /\ ca' = ca
  /\ \/ fam # "keys" /\ cb' \in Family(fam) /\ ks' = ks
     \/ fam = "keys" /\ cb' = cb /\ ks' \in {ks \o r : r \in KeySeqs(MaxKeys - 1)}

Spec == Init /\ [][Next]_vars

-----------------------------------------------------------------------------
(* Properties of the reference (design level)                               *)

\* AndRef is intersection: Match(AndRef(a,b), m) <=> Match(a,m) /\ Match(b,m)
AndRefIsIntersection ==
  (done /\ fam # "keys") => IsIntersection(AndRef(ca, cb), ca, cb)

\* commutative in meaning (operand order does not matter)
AndRefCommutes ==
  (done /\ fam # "keys") =>
     \A m \in Universe({ca, cb}) : Match(AndRef(ca, cb), m) <=> Match(AndRef(cb, ca), m)

\* folding single-key criteria with AndRef gives the conjunction of the keys ...
ParseIsConjunction ==
  (done /\ fam = "keys") => IsConjunctionOfKeys(ParseKeys(ks), ks)

\* ... and therefore means the same under every permutation of the keys
Permuted(s, p) == [i \in 1..Len(s) |-> s[p[i]]]
ParseOrderFree ==
  (done /\ fam = "keys") =>
     \A p \in Permutations(1..Len(ks)) :
        \A m \in Universe(KeyCriteria(ks)) :
           Match(ParseKeys(ks), m) <=> Match(ParseKeys(Permuted(ks, p)), m)

\* the universe really has a message on each side of every constraint:
\* every single-field criteria value of the space is satisfied by some message
\* and falsified by another (unless it is the empty constraint)
Distinguishes ==
  (done /\ fam \in Fields) =>
     LET c == Put(E, fam, cb[fam]) IN
       /\ \E m \in Universe({c}) : Match(c, m)
       /\ c # E => \E m \in Universe({c}) : ~Match(c, m)
=============================================================================
