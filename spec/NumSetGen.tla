----------------------------- MODULE NumSetGen -----------------------------
(* Generator for C15, part 1: NumSet + history.  Every generated           *)
(* transition prints the behaviour reaching it; every step carries the     *)
(* observation the specification predicts after it:                        *)
(*   ranges  the list the transcribed algorithm yields                     *)
(*   alts    every canonical list with the predicted members (what the     *)
(*           statement allows), each with its text form as token list      *)
(*   dyn     Dynamic()                                                     *)
(*   con     Contains(q) for every point q = 1..Max (1/0); Contains(0) = 0 *)
(*   small   TRUE iff the set is static and enumerating it is feasible;    *)
(*           then nums is what Nums() must return (it must return)         *)
(*   top     TRUE iff point Max (2^32-1) is a member                       *)
(*   rt      TRUE iff the text form must parse back to an equal set        *)
EXTENDS NumSet, Json

VARIABLE hist

AltSeq(m) == LET A == Alts(m)
                 a == CHOOSE l \in A : \A k \in A : Len(k) <= Len(l)  \* "...,k:Max,*" first
             IN IF Cardinality(A) = 1 THEN <<[l |-> a, s |-> StringRef(a)]>>
                ELSE LET b == CHOOSE l \in A : l # a
                     IN <<[l |-> a, s |-> StringRef(a)], [l |-> b, s |-> StringRef(b)]>>

Exp(s, m) ==
  [ranges |-> s,
   alts   |-> AltSeq(m),
   dyn    |-> DynamicRef(m),
   con    |-> [q \in 1..Max |-> IF ContainsRef(m, q) THEN 1 ELSE 0],
   small  |-> StaticRef(m) /\ Small(m),
   nums   |-> IF StaticRef(m) /\ Small(m) THEN NumsRef(m) ELSE <<>>,
   top    |-> Max \in m,
   rt     |-> s # <<>>]

Log(op, x, y, t) ==
  hist' = Append(hist, [op |-> op, x |-> x, y |-> y, t |-> t, exp |-> Exp(set', members')])

GenInit == Init /\ hist = <<>>

GenStep ==
  \/ \E v \in Args : AddNum(v) /\ Log("AddNum", v, 0, <<>>)
  \/ \E x \in Args, y \in Args : AddRange(x, y) /\ Log("AddRange", x, y, <<>>)
  \/ \E t \in SmallCatalogue : AddSet(t) /\ Log("AddSet", 0, 0, t)

GenNext == GenStep /\ PrintT(<<"T", ToJson([max |-> Max, gaps |-> Ascending(Gaps), h |-> hist'])>>)

GenView == <<set, members>>
=============================================================================
