\* every transition of the larger namespace instance (thorough)
CONSTANTS
  Names <- NamesABC
  Conns = 1
  CatIds = {1}
  MaxMsgs = 1
  MaxUid = 1
  MaxCreates = 3
  Family = "ns"
  Level = 1
  Mode = "bfs"
  SimDepth = 0
  Chains = 0
INIT GenInitAll
NEXT GenNext
CONSTRAINT Bounded
INVARIANTS Emit TypeOK UidsAscending UidValidityDistinct
PROPERTIES UidsNeverReused UidValidityFresh AppendUidExact CopyUidExact StoreExact RemovalExact QueriesPure
VIEW GenView
CHECK_DEADLOCK FALSE
