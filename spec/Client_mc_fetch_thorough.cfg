CONSTANTS
  MaxCmds = 3
  MaxPending = 2
  MaxNum = 2
  MaxItems = 1
  MaxUid = 1
  MaxCode = 1
  NFlagSets = 2
  SyncLit = FALSE
  Kinds = {"SELECT", "FETCH", "STORE", "UIDFETCH"}
  Greetings = {"PREAUTH"}
INIT Init
NEXT Next
VIEW McView
INVARIANTS TypeOK IdleAlone
PROPERTIES ExactlyOnce Isolation DataToRightCommand StateDiagram
CHECK_DEADLOCK FALSE
