CONSTANTS
  Sessions = {"s1", "s2"}
  Mailboxes = {"A"}
  Flags <- BothFlags
  MaxMsgs = 2
  MaxUid = 2
  MaxQueue = 2
  Kinds <- KExpunge
  SeqSets <- Sets2
  UidSets <- Sets2
  UidForms <- SeqOnly
  AppendFlags <- NoFlagsOnly
  AppendBoxes <- OnlyA
  StoreOps <- PlusMinus
  IdleAny = FALSE
INIT GenInit
NEXT GenNext
CONSTRAINT Bounded
VIEW GenView
INVARIANTS TypeOK RemovedReportedOnce
PROPERTIES StepSeqNums StepNoExpunge StepShrink StepNoop
CHECK_DEADLOCK FALSE
