--------------------------- MODULE StartTLSTrace ---------------------------
(* Trace validation for StartTLS (impl -> spec).  The harness records, per   *)
(* case, what really happened at the receiver's socket and what it           *)
(* observed, in the order it happened:                                       *)
(*   Reset      side, configuration, the lines written (real byte lengths)   *)
(*   Deliver    k: one Read of the receiver returned k bytes of the stream   *)
(* server side                                                               *)
(*   Call       m: the stub Session was called                               *)
(*   Resp       tag, cls, layer: a tagged response, seen in plaintext on     *)
(*              the wire ("plain") or inside the TLS session ("tls")         *)
(*   Handshake  ok: result of the TLS handshake the harness performed        *)
(*   Probe / ProbeResp  a further command sent through the established       *)
(*              layer and its result (class, capabilities)                   *)
(* client side                                                               *)
(*   Handler    idx: the unilateral data handler was called for line idx     *)
(*   Handshake  ok                                                           *)
(*   Early      caps: Client.Caps() before the peer said anything inside TLS *)
(*   TlsAnswer  the peer answers CAPABILITY inside TLS                       *)
(*   End        err (NewStartTLS failed), caps, state                        *)
(* Every record must be explained by an action of StartTLS; in particular a  *)
(* Resp / Call / Handler record needs a line that may still be interpreted   *)
(* (layer = "plain"), so evidence that a line behind the switch was          *)
(* interpreted has no matching action and the trace is rejected at that      *)
(* record.  Steps the harness cannot see (the client parsing a line that     *)
(* has no visible effect, the TLS layer swallowing buffered bytes) are       *)
(* silent steps.  Acceptance = some interleaving consumes all records        *)
(* (the furthest record reached is kept in TLC register 8).                  *)
EXTENDS StartTLS, Json, IOUtils

VARIABLES l,      \* next record
          pend,   \* backend calls seen and not yet attributed to a response
          probe   \* probe command announced, "none" if none

Trace == ndJsonDeserialize(IOEnv.TRACE_FILE)

trvars == <<stvars, l, pend, probe>>

TraceInit ==
  /\ cfg = ClientCfg /\ state = "notauth" /\ tls = FALSE /\ enabled = {} /\ closed = FALSE
  /\ calls = <<>> /\ out = Out(OK, FALSE, 0, FALSE)
  /\ side = "client" /\ stream = <<>> /\ sock = <<>> /\ buf = <<>> /\ layer = "plain"
  /\ parsed = <<>> /\ pas = <<>> /\ garbage = 0 /\ resps = <<>> /\ scalls = <<>> /\ hs = "none"
  /\ cl = ClientInit
  /\ l = 1 /\ pend = <<>> /\ probe = "none"
  /\ TLCSet(8, 1)

SetOf(s) == {s[i] : i \in 1..Len(s)}
Methods(cs) == [j \in 1..Len(cs) |-> cs[j].m]

Reset(r) ==
  /\ cfg' = IF r.side = "server" THEN r.cfg ELSE ClientCfg
  /\ state' = "notauth" /\ tls' = FALSE /\ enabled' = {} /\ closed' = FALSE
  /\ calls' = <<>> /\ out' = Out(OK, FALSE, 0, FALSE)
  /\ side' = r.side /\ stream' = r.stream /\ sock' = FlatFrom(r.stream, 1)
  /\ buf' = <<>> /\ layer' = "plain" /\ parsed' = <<>> /\ pas' = <<>> /\ garbage' = 0
  /\ resps' = <<>> /\ scalls' = <<>> /\ hs' = "none" /\ cl' = ClientInit
  /\ pend' = <<>> /\ probe' = "none"

TrDeliver(r) == Deliver(r.k) /\ UNCHANGED <<pend, probe>>

\* ---- server
TrCall(r) ==
  /\ side = "server"
  /\ SrvCanParse \/ probe # "none"
  /\ pend' = Append(pend, r.m)
  /\ UNCHANGED <<stvars, probe>>

TrResp(r) ==
  /\ r.layer = "plain" /\ probe = "none"
  /\ SrvCanParse
  /\ stream[FirstLine(buf)].tag = r.tag
  /\ SrvParse
  /\ out'.tagged = r.cls
  /\ Methods(calls') = pend
  /\ pend' = <<>> /\ UNCHANGED probe

\* a handshake attempt of the peer can only succeed if the receiver switched
TrHandshake(r) ==
  /\ hs = "none"
  /\ r.ok => layer = "tls"
  /\ hs' = IF r.ok THEN "ok" ELSE "fail"
  /\ cl' = IF side = "client" /\ ~r.ok THEN [cl EXCEPT !.dead = TRUE] ELSE cl
  /\ UNCHANGED <<vars, side, stream, sock, buf, layer, parsed, pas, garbage, resps, scalls, pend, probe>>

TrProbe(r) ==
  /\ side = "server" /\ ~SrvCanParse /\ (layer = "tls" => hs = "ok")
  /\ probe = "none" /\ pend = <<>>
  /\ probe' = r.c
  /\ UNCHANGED <<stvars, pend>>

TrProbeResp(r) ==
  /\ probe = r.c /\ r.c \in ProbeCmds
  /\ Good(r.c, 0)
  /\ out'.tagged = r.cls
  /\ Methods(calls') = pend
  /\ r.c = "CAPABILITY" => r.caps = CapsOf(state', tls')
  /\ probe' = "none" /\ pend' = <<>>
  /\ UNCHANGED chvars

\* ---- client
\* The client hands unilateral data to the application as soon as it has read the text of the
\* response, possibly before the final LF of the line arrives (readResponseData runs before
\* ExpectCRLF).  So a Handler record does not consume the line (a silent CliParse does, later);
\* it needs the line to be the one the plaintext parser is working on: first in buf, all of it
\* present except possibly the last byte, and no switch so far.
TrHandler(r) ==
  /\ side = "client" /\ layer = "plain" /\ ~cl.dead
  /\ Len(buf) > 0 /\ FirstLine(buf) = r.idx
  /\ stream[r.idx].c = r.kind /\ r.kind \in {"EXISTS", "EXPUNGE"}
  /\ HasLine(buf) \/ Len(buf) >= stream[r.idx].n - 1
  /\ UNCHANGED <<stvars, pend, probe>>

TrEarly(r) ==
  /\ side = "client" /\ cl.upgraded
  /\ SetOf(r.caps) = cl.caps
  /\ UNCHANGED <<stvars, pend, probe>>

TrTlsAnswer == TlsAnswer /\ UNCHANGED <<pend, probe>>

TrEnd(r) ==
  /\ pend = <<>> /\ probe = "none"
  /\ side = "client" =>
       /\ MustRefuse => r.err
       /\ ~r.err =>
            /\ NewStartTLSResult = "client"
            /\ SetOf(r.caps) \in {{}, cl.caps}
            /\ r.state \in {cl.cstate, "logout"}
  /\ UNCHANGED <<stvars, pend, probe>>

Consume(r) ==
  CASE r.ev = "Reset"     -> Reset(r)
    [] r.ev = "Deliver"   -> TrDeliver(r)
    [] r.ev = "Call"      -> TrCall(r)
    [] r.ev = "Resp"      -> TrResp(r)
    [] r.ev = "Handshake" -> TrHandshake(r)
    [] r.ev = "Probe"     -> TrProbe(r)
    [] r.ev = "ProbeResp" -> TrProbeResp(r)
    [] r.ev = "Handler"   -> TrHandler(r)
    [] r.ev = "Early"     -> TrEarly(r)
    [] r.ev = "TlsAnswer" -> TrTlsAnswer
    [] r.ev = "End"       -> TrEnd(r)
    [] OTHER              -> FALSE

\* what the harness cannot see
Silent ==
  /\ \/ CliParse
     \/ HandshakeConsume
  /\ UNCHANGED <<l, pend, probe>>

TraceNext ==
  /\ l <= Len(Trace)
  /\ \/ /\ Consume(Trace[l])
        /\ l' = l + 1
        /\ TLCSet(8, IF l + 1 > TLCGet(8) THEN l + 1 ELSE TLCGet(8))
     \/ Silent

\* evaluated on every state reached while explaining the recorded observations
TraceNoParseAfterSwitch == pas = <<>>
TraceFrozen == [][layer = "tls" /\ l' = l + 1 /\ Trace[l].ev # "Reset" => parsed' = parsed]_trvars

\* within one connection the transport never goes back to plaintext
TraceTLSNeverDowngrades == [][(l' = l + 1 /\ Trace[l].ev # "Reset") => (tls => tls')]_trvars

TraceAccepted ==
  LET d == TLCGet(8) IN
    IF d = Len(Trace) + 1 THEN TRUE
    ELSE /\ PrintT(<<"TRACE_REJECTED_AT", d, Len(Trace)>>)
         /\ IF d <= Len(Trace) THEN PrintT(<<"REJECTED_RECORD", ToJson(Trace[d])>>) ELSE TRUE
         /\ FALSE
=============================================================================
