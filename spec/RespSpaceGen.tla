---------------------------- MODULE RespSpaceGen ----------------------------
(* Generator (spec -> implementation): every case of the catalogue is      *)
(* printed as (configuration, request, data) together with exp = what the  *)
(* client must deliver under Norm.  harness/cmd/respspace lets a real      *)
(* imapclient.Client issue the request against a real imapserver.Server    *)
(* whose stub Session writes `data` through the real writer API, and       *)
(* compares what Wait/Collect/Next deliver with exp.                       *)
EXTENDS RespSpace, Json

GenNext == /\ Next
           /\ PrintT(<<"T", ToJson([k |-> c'.k, rev2 |-> c'.rev2, req |-> c'.req, data |-> c'.data,
                                    exp |-> NormData(c')])>>)
=============================================================================
