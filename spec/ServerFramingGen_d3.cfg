CONSTANTS
  LitPlusSet = {TRUE, FALSE}
  Utf8Set = {TRUE, FALSE}
  SaslSet = {TRUE, FALSE}
  MaxDepth = 3
  GenUnits <- CoreUnits
INIT GenInit
NEXT GenNext
VIEW GenView
CHECK_DEADLOCK FALSE
