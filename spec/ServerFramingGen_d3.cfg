CONSTANTS
  LitPlusSet = {TRUE, FALSE}
  MaxDepth = 3
  GenUnits <- CoreUnits
INIT GenInit
NEXT GenNext
VIEW GenView
CHECK_DEADLOCK FALSE
