INIT TraceInit
NEXT TraceNextAll
INVARIANTS RecordedInContract RecordedNormIdempotent
CHECK_DEADLOCK FALSE
