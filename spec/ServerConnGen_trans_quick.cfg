CONSTANTS
  Configs <- CoreConfigs
  GenCmds <- Cmds
  MaxDepth = 30
  DepthMode = FALSE
INIT GenInit
NEXT GenNext
VIEW GenView
CHECK_DEADLOCK FALSE
