\* every transition of the two-connection instance
CONSTANTS
  Names <- NamesAC
  Conns = 2
  CatIds = {1}
  MaxMsgs = 1
  MaxUid = 1
  MaxCreates = 2
  Family = "two"
  Level = 0
  Mode = "bfs"
  SimDepth = 0
  Chains = 0
INIT GenInitAll
NEXT GenNext
CONSTRAINT Bounded
INVARIANTS Emit TypeOK UidsAscending UidValidityDistinct
PROPERTIES UidsNeverReused UidValidityFresh AppendUidExact CopyUidExact StoreExact RemovalExact QueriesPure
VIEW GenView
CHECK_DEADLOCK FALSE
