CONSTANTS
  MaxCmds = 3
  MaxPending = 3
  MaxNum = 2
  MaxItems = 1
INIT Init
NEXT Next
VIEW McView
INVARIANTS TypeOK
PROPERTIES ExactlyOnce Isolation DataToRightCommand StateDiagram
CHECK_DEADLOCK FALSE
