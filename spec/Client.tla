------------------------------- MODULE Client -------------------------------
(***************************************************************************)
(* imapclient.Client against a protocol-conformant server (property C12):  *)
(* routing of tagged and untagged responses to pipelined commands, and the *)
(* client's mirror of the connection state and of the selected mailbox.    *)
(*                                                                         *)
(* The specification is the MEANING OF THE TRANSCRIPT: it computes, from   *)
(* the commands submitted and the lines the server has sent so far, the    *)
(* connection state, the selected-mailbox summary, which commands are      *)
(* complete with which status, and which data each of them was given.      *)
(* Client actions: Submit(kind, arg), IdleDone.  Server actions (enabled   *)
(* only as RFC 9051 permits): greeting (OK / PREAUTH), untagged data,      *)
(* continuation request for IDLE, tagged completion of ANY pending command *)
(* (out-of-order completion), BYE + close.  Pipelines are restricted to    *)
(* the unambiguous ones of RFC 9051 section 5.5 (commands with the same    *)
(* class of untagged data are answered in the order sent; STATUS, quota    *)
(* and metadata data are discriminated by name, ESEARCH by tag).           *)
(*                                                                         *)
(* Kinds (the instance chooses a subset, so that several small instances   *)
(* cover the whole command set):                                           *)
(*   no data        NOOP LOGIN LOGOUT UNSELECT CLOSE UNAUTH CREATE DELETE  *)
(*                  RENAME SUBSCRIBE UNSUBSCRIBE SETQUOTA SETMETADATA      *)
(*   AUTHENTICATE   (PLAIN without SASL-IR) command line, continuation     *)
(*                  request, credentials, completion; or refused at once   *)
(*   SELECT         EXISTS FLAGS PERMANENTFLAGS UIDNEXT UIDVALIDITY LIST   *)
(*   fetch class    FETCH (1:* or 1)  STORE  UIDFETCH (matched by UID)     *)
(*   expunge class  EXPUNGE UIDEXPUNGE                                     *)
(*   list class     LIST  LISTSTATUS (LIST ... RETURN (STATUS ...))        *)
(*   one response   SEARCH SORT THREAD CAPABILITY ENABLE NAMESPACE         *)
(*   by name/tag    STATUS ESEARCH GETQUOTA GETQUOTAROOT GETMETADATA       *)
(*   response code  COPY (COPYUID) APPEND (APPENDUID) MOVE (untagged OK    *)
(*                  [COPYUID], expunges are ordinary expunges)             *)
(*   IDLE           continuation request, DONE, unilateral data meanwhile  *)
(***************************************************************************)
EXTENDS Naturals, Sequences, FiniteSets, TLC

CONSTANTS MaxCmds,     \* commands submitted per behaviour
          MaxPending,  \* pipelined commands
          MaxNum,      \* largest message count
          MaxItems,    \* data responses per command
          MaxUid,      \* largest UID a FETCH response carries (0: none)
          MaxCode,     \* largest number in a COPYUID / APPENDUID response code
          NFlagSets,   \* how many different flag lists the server uses (1 or 2)
          SyncLit,     \* BOOLEAN: the server advertises no non-synchronising literals - the message of an APPEND is a
                       \* synchronising literal: the client stops after the command line and waits for "+"
          Kinds,       \* kinds of command the client submits in this instance
          Greetings    \* greetings the server may open with: subset of {"OK", "PREAUTH"}

Mailboxes == {"A", "B"}
FlagSets == IF NFlagSets = 1 THEN {"f0"} ELSE {"f0", "f1"}   \* f0 = (\Seen), f1 = (\Seen \Deleted custom)  (concrete lists in the harness)
CapSets == {"c0", "c1"}           \* capability lists (concrete lists in the harness)
Prefixes == {"p0", "p1"}          \* namespace descriptions
None == "none"

\* ESEARCH: a UID SEARCH with RETURN options; its data response carries the tag of the command
\* (RFC 4731 search correlator), so any number may be in flight and be answered in any order
AllKinds == {"NOOP", "LOGIN", "SELECT", "UNSELECT", "STATUS", "LIST", "SEARCH", "ESEARCH", "FETCH", "EXPUNGE", "LOGOUT",
             "CLOSE", "UNAUTH", "CREATE", "STORE", "UIDFETCH", "UIDEXPUNGE", "LISTSTATUS", "SORT", "THREAD",
             "CAPABILITY", "ENABLE", "NAMESPACE", "GETQUOTA", "GETQUOTAROOT", "GETMETADATA", "COPY", "APPEND",
             "MOVE", "IDLE", "AUTHENTICATE", "DELETE", "RENAME", "SUBSCRIBE", "UNSUBSCRIBE", "SETQUOTA", "SETMETADATA"}
ASSUME Kinds \subseteq AllKinds /\ Greetings \subseteq {"OK", "PREAUTH"} /\ Greetings # {}

ByName == {"STATUS", "GETQUOTA", "GETQUOTAROOT", "GETMETADATA"}
ArgsOf(k) == CASE k \in ByName \cup {"SELECT"} -> Mailboxes
               [] k = "FETCH" -> {"all", "one"}          \* FETCH 1:*  /  FETCH 1
               [] k = "LIST" -> {"all", "ref"}           \* LIST "" "*"  /  LIST "A" "%" (reference A, answered with A:
                                                         \* how a reference combines with the pattern is the server's business)
               [] OTHER -> {None}

FetchClass == {"FETCH", "STORE", "UIDFETCH"}
ExpungeClass == {"EXPUNGE", "UIDEXPUNGE"}
ListClass == {"LIST", "LISTSTATUS"}
\* classes of commands whose untagged data carries nothing that names the command: a server answers them in the
\* order sent, the data belongs to the oldest one that can take it
ClassOf(k) == CASE k \in FetchClass -> FetchClass [] k \in ExpungeClass -> ExpungeClass [] k \in ListClass -> ListClass
                [] OTHER -> {k}
Ordered == FetchClass \cup ExpungeClass \cup ListClass \cup {"SEARCH", "SORT", "THREAD", "CAPABILITY", "ENABLE", "NAMESPACE", "MOVE"}
\* commands that change the connection state (or, IDLE, occupy the connection) are not pipelined
Exclusive == {"SELECT", "LOGIN", "UNSELECT", "CLOSE", "UNAUTH", "LOGOUT", "IDLE", "AUTHENTICATE"}

VARIABLES greet,    \* the greeting this connection started with
          cstate,   \* "notauth" | "auth" | "selected" | "logout"
          mbox,     \* [name, num, flags, perm]; name = None when nothing is selected
          cmds,     \* Seq([kind, arg, st, ph, acc]) all commands, index = id; st = "pending" | "OK" | "NO" | "BAD" | "ERR"
          alive,    \* connection open
          comp,     \* ids completed by the LAST step
          uni       \* unilateral data handed to the handler by the LAST step: Seq(<<type, n, x>>)

vars == <<greet, cstate, mbox, cmds, alive, comp, uni>>

NoMbox == [name |-> None, num |-> 0, flags |-> None, perm |-> None]
\* what a command has been given so far.  num .. list: SELECT data; items: data responses in the order delivered;
\* seqs / uids: messages a fetch-class command has been given; pendm: LISTSTATUS - the mailbox whose STATUS is awaited,
\* GETQUOTAROOT - the quota root announced by QUOTAROOT
EmptyAcc == [num |-> 0, flags |-> None, perm |-> None, uidnext |-> 0, uidval |-> 0, list |-> None,
             items |-> <<>>, seqs |-> {}, uids |-> {}, pendm |-> None]

Ids == 1..Len(cmds)
PendingIds == {i \in Ids : cmds[i].st = "pending"}
PendingOf(k) == {i \in PendingIds : cmds[i].kind = k}
PendingIn(S) == {i \in PendingIds : cmds[i].kind \in S}
Oldest(S) == CHOOSE i \in S : \A j \in S : i <= j
\* the pending command a response of data kind k is routed to (the oldest one)
Target(k) == Oldest(PendingOf(k))

Init ==
  /\ greet \in Greetings
  /\ cstate = IF greet = "PREAUTH" THEN "auth" ELSE "notauth"
  /\ mbox = NoMbox /\ cmds = <<>> /\ alive = TRUE
  /\ comp = {} /\ uni = <<>>

Quiet == comp' = {} /\ uni' = <<>>

\* ---------------------------------------------------------------- client
\* an IDLE occupies the connection until DONE has been written, a command with a synchronising literal until
\* the continuation request (or the refusal) has arrived
Blocking(i) == \/ cmds[i].kind \in Exclusive \ {"IDLE"}
               \/ cmds[i].kind = "IDLE" /\ cmds[i].ph # "stopping"
               \/ cmds[i].kind = "APPEND" /\ SyncLit /\ cmds[i].ph = ""

\* RFC 9051 5.5: do not pipeline commands whose untagged data could be confused.
Unambiguous(k, a) ==
  \* two commands with the same class of untagged data may be in flight only because the server answers
  \* them in the order sent (see Tagged): their data then belongs to the oldest one
  /\ k \in Ordered => Cardinality(PendingIn(ClassOf(k))) <= 1
  /\ k \in ByName => \A i \in PendingOf(k) : cmds[i].arg # a
  \* an untagged SEARCH response carries no correlator: this client hands it to the oldest pending search of
  \* either form, so the two forms are not mixed in one pipeline (treated as ambiguous, not as a defect)
  /\ k = "SEARCH" => PendingOf("ESEARCH") = {}
  /\ k = "ESEARCH" => PendingOf("SEARCH") = {}
  \* STATUS data answers a STATUS command or belongs to a LIST ... RETURN (STATUS); QUOTA data answers GETQUOTA
  \* or GETQUOTAROOT: not mixed either
  /\ k = "STATUS" => PendingOf("LISTSTATUS") = {}
  /\ k = "LISTSTATUS" => PendingOf("STATUS") = {}
  /\ k = "GETQUOTA" => PendingOf("GETQUOTAROOT") = {}
  /\ k = "GETQUOTAROOT" => PendingOf("GETQUOTA") = {}
  \* state-changing commands are not pipelined with commands that depend on the state
  /\ k \in Exclusive => PendingIds = {}
  /\ \A i \in PendingIds : ~Blocking(i)

Submit(k, a) ==
  /\ alive /\ cstate # "logout"
  /\ Len(cmds) < MaxCmds /\ Cardinality(PendingIds) < MaxPending
  /\ k \in Kinds /\ a \in ArgsOf(k)
  /\ Unambiguous(k, a)
  /\ cmds' = Append(cmds, [kind |-> k, arg |-> a, st |-> "pending", ph |-> "", acc |-> EmptyAcc])
  /\ Quiet /\ UNCHANGED <<greet, cstate, mbox, alive>>

\* a command submitted after the connection has been lost (or closed by the server): it completes at once, with an
\* error - it must not wait for an answer that cannot come
SubmitDead(k, a) ==
  /\ ~alive /\ Len(cmds) < MaxCmds
  /\ k \in Kinds /\ a \in ArgsOf(k)
  /\ cmds' = Append(cmds, [kind |-> k, arg |-> a, st |-> "ERR", ph |-> "", acc |-> EmptyAcc])
  /\ comp' = {Len(cmds) + 1} /\ uni' = <<>>
  /\ UNCHANGED <<greet, cstate, mbox, alive>>

\* the caller ends an IDLE: DONE is written, the connection can be used again
IdleDone(i) ==
  /\ alive /\ i \in PendingOf("IDLE") /\ cmds[i].ph = "idling"
  /\ cmds' = [cmds EXCEPT ![i].ph = "stopping"]
  /\ Quiet /\ UNCHANGED <<greet, cstate, mbox, alive>>

\* ---------------------------------------------------------------- server: untagged data
SetAcc(i, acc) == cmds' = [cmds EXCEPT ![i].acc = acc]
AddItem(i, it) == SetAcc(i, [cmds[i].acc EXCEPT !.items = Append(@, it)])
Held(i) == Len(cmds[i].acc.items) + (IF cmds[i].kind = "LISTSTATUS" /\ cmds[i].acc.pendm # None THEN 1 ELSE 0)
RoomFor(i) == Held(i) < MaxItems
NoItem(i) == cmds[i].acc.items = <<>>

SelPending == PendingOf("SELECT") # {}
SelAcc(f, v) == /\ SetAcc(Target("SELECT"), [cmds[Target("SELECT")].acc EXCEPT ![f] = v])
                /\ mbox' = mbox /\ uni' = <<>>

\* * n EXISTS
Exists(n) ==
  /\ alive /\ n \in 0..MaxNum
  /\ IF SelPending
     THEN SelAcc("num", n)
     ELSE /\ cstate = "selected" /\ n >= mbox.num
          /\ mbox' = [mbox EXCEPT !.num = n] /\ uni' = <<<<"exists", n, None>>>>
          /\ cmds' = cmds
  /\ comp' = {} /\ UNCHANGED <<greet, cstate, alive>>

\* * FLAGS (...)
Flags(f) ==
  /\ alive /\ f \in FlagSets
  /\ IF SelPending
     THEN SelAcc("flags", f)
     ELSE /\ cstate = "selected"
          /\ mbox' = [mbox EXCEPT !.flags = f] /\ uni' = <<<<"flags", 0, f>>>>
          /\ cmds' = cmds
  /\ comp' = {} /\ UNCHANGED <<greet, cstate, alive>>

\* * OK [PERMANENTFLAGS (...)]
PermFlags(f) ==
  /\ alive /\ f \in FlagSets
  /\ IF SelPending
     THEN SelAcc("perm", f)
     ELSE /\ cstate = "selected"
          /\ mbox' = [mbox EXCEPT !.perm = f] /\ uni' = <<<<"permflags", 0, f>>>>
          /\ cmds' = cmds
  /\ comp' = {} /\ UNCHANGED <<greet, cstate, alive>>

\* * OK [UIDNEXT n] / * OK [UIDVALIDITY n] : part of the answer to SELECT
\* (a server is free in the order of these; the model fixes one - validity, then next - and small values)
UidValidity(n) == /\ alive /\ SelPending /\ n \in 1..MaxUid /\ cmds[Target("SELECT")].acc.uidval = 0
                  /\ SelAcc("uidval", n) /\ comp' = {} /\ UNCHANGED <<greet, cstate, alive>>
UidNext(n) == /\ alive /\ SelPending /\ n \in 1..MaxUid /\ cmds[Target("SELECT")].acc.uidval # 0
              /\ cmds[Target("SELECT")].acc.uidnext = 0
              /\ SelAcc("uidnext", n) /\ comp' = {} /\ UNCHANGED <<greet, cstate, alive>>

\* * n EXPUNGE : the server only expunges existing messages of the selected mailbox
Expunge(n) ==
  /\ alive /\ cstate = "selected" /\ ~SelPending /\ n \in 1..mbox.num
  /\ mbox' = [mbox EXCEPT !.num = @ - 1]
  /\ IF PendingIn(ExpungeClass) # {}
     THEN LET t == Oldest(PendingIn(ExpungeClass)) IN
          /\ RoomFor(t) /\ AddItem(t, <<"expunge", n, None>>) /\ uni' = <<>>
     ELSE /\ cmds' = cmds /\ uni' = <<<<"expunge", n, None>>>>
  /\ comp' = {} /\ UNCHANGED <<greet, cstate, alive>>

\* Does the pending fetch-class command i take the FETCH response for message n carrying UID u (0: no UID item)?
\* It asked for the message and has not been given it yet; a UID command recognises its messages by UID only.
Wants(i, n, u) ==
  LET c == cmds[i] IN
  CASE c.kind = "UIDFETCH" -> u # 0 /\ u \notin c.acc.uids
    [] c.kind = "FETCH" -> (c.arg = "one" => n = 1) /\ n \notin c.acc.seqs
    [] c.kind = "STORE" -> n \notin c.acc.seqs
    [] OTHER -> FALSE
FetchTargets(n, u) == {i \in PendingIn(FetchClass) : Wants(i, n, u)}

\* * n FETCH ([UID u] FLAGS (...))
\* a FETCH response no pending command takes (not asked for, or already given) is a unilateral flag update
Fetch(n, f, u) ==
  /\ alive /\ cstate = "selected" /\ ~SelPending /\ n \in 1..mbox.num /\ f \in FlagSets /\ u \in 0..MaxUid
  /\ IF FetchTargets(n, u) # {}
     THEN LET t == Oldest(FetchTargets(n, u)) IN
          /\ RoomFor(t)
          /\ SetAcc(t, [cmds[t].acc EXCEPT !.items = Append(@, <<"fetch", n, f>>),
                                           !.seqs = IF cmds[t].kind = "UIDFETCH" THEN @ ELSE @ \cup {n},
                                           !.uids = IF cmds[t].kind = "UIDFETCH" THEN @ \cup {u} ELSE @])
          /\ uni' = <<>>
     ELSE /\ cmds' = cmds /\ uni' = <<<<"fetch", n, f>>>>
  /\ comp' = {} /\ UNCHANGED <<greet, cstate, mbox, alive>>

\* * LIST () "/" m
List(m) ==
  /\ alive /\ m \in Mailboxes
  /\ IF PendingIn(ListClass) # {}
     THEN LET t == Oldest(PendingIn(ListClass)) IN
          /\ RoomFor(t)
          /\ (cmds[t].kind = "LIST" /\ cmds[t].arg = "ref") => m = "A"
          /\ IF cmds[t].kind = "LIST" THEN AddItem(t, <<"list", 0, m>>)
             \* RETURN (STATUS): the mailbox is held back until its STATUS (or the next LIST) arrives
             ELSE SetAcc(t, [cmds[t].acc EXCEPT !.pendm = m,
                                                !.items = IF cmds[t].acc.pendm = None THEN @ ELSE Append(@, <<"list", 0, cmds[t].acc.pendm>>)])
     \* RFC 9051 6.3.2: the LIST response for the mailbox being selected is part of the answer to SELECT
     ELSE /\ SelPending /\ cmds[Target("SELECT")].arg = m /\ cmds[Target("SELECT")].acc.list = None
          /\ SetAcc(Target("SELECT"), [cmds[Target("SELECT")].acc EXCEPT !.list = m])
  /\ Quiet /\ UNCHANGED <<greet, cstate, mbox, alive>>

\* * STATUS m (MESSAGES n)
Status(m, n) ==
  /\ alive /\ n \in 0..MaxNum
  /\ \/ \E i \in PendingOf("STATUS") : cmds[i].arg = m /\ NoItem(i) /\ AddItem(i, <<"status", n, m>>)
     \/ /\ {i \in PendingOf("LISTSTATUS") : cmds[i].acc.pendm = m} # {}
        /\ LET t == Oldest({i \in PendingOf("LISTSTATUS") : cmds[i].acc.pendm = m}) IN
           SetAcc(t, [cmds[t].acc EXCEPT !.pendm = None, !.items = Append(@, <<"liststatus", n, m>>)])
  /\ Quiet /\ UNCHANGED <<greet, cstate, mbox, alive>>

\* one-response data for the oldest pending command of its kind
Single(k, it) == /\ alive /\ PendingOf(k) # {} /\ NoItem(Target(k)) /\ AddItem(Target(k), it)
                 /\ Quiet /\ UNCHANGED <<greet, cstate, mbox, alive>>
Search(n) == n \in 1..MaxNum /\ Single("SEARCH", <<"search", n, None>>)          \* * SEARCH n
Sort(n) == n \in 1..MaxNum /\ Single("SORT", <<"sort", n, None>>)                \* * SORT n
Thread(n) == n \in 1..MaxNum /\ Single("THREAD", <<"thread", n, None>>)          \* * THREAD (n)
Caps(c) == c \in CapSets /\ Single("CAPABILITY", <<"caps", 0, c>>)               \* * CAPABILITY ...
Enabled == Single("ENABLE", <<"enabled", 0, None>>)                              \* * ENABLED UTF8=ACCEPT
Namespace(p) == p \in Prefixes /\ Single("NAMESPACE", <<"ns", 0, p>>)            \* * NAMESPACE ((prefix delim)) NIL NIL
MoveUid(n) == n \in 1..MaxNum /\ Single("MOVE", <<"copyuid", n, None>>)          \* * OK [COPYUID n 1:2 5:6]

\* * ESEARCH (TAG "<tag of i>") UID COUNT n : routed by the correlator, not by position
Esearch(i, n) ==
  /\ alive /\ i \in PendingOf("ESEARCH") /\ n \in 1..MaxNum
  /\ NoItem(i) /\ AddItem(i, <<"esearch", n, None>>)
  /\ Quiet /\ UNCHANGED <<greet, cstate, mbox, alive>>

\* * QUOTAROOT m r : the roots of the mailbox a GETQUOTAROOT asked about
QuotaRoot(m, r) ==
  /\ alive /\ r \in Mailboxes
  /\ \E i \in PendingOf("GETQUOTAROOT") : cmds[i].arg = m /\ cmds[i].acc.pendm = None
                                          /\ SetAcc(i, [cmds[i].acc EXCEPT !.pendm = r])
  /\ Quiet /\ UNCHANGED <<greet, cstate, mbox, alive>>

\* * QUOTA r (STORAGE n 100) : answers the GETQUOTA for root r, or the GETQUOTAROOT whose mailbox has root r
Quota(r, n) ==
  /\ alive /\ n \in 0..MaxNum
  /\ \/ \E i \in PendingOf("GETQUOTA") : cmds[i].arg = r /\ NoItem(i) /\ AddItem(i, <<"quota", n, r>>)
     \/ /\ {i \in PendingOf("GETQUOTAROOT") : cmds[i].acc.pendm = r} # {}
        /\ LET t == Oldest({i \in PendingOf("GETQUOTAROOT") : cmds[i].acc.pendm = r}) IN
           NoItem(t) /\ AddItem(t, <<"quota", n, r>>)
  /\ Quiet /\ UNCHANGED <<greet, cstate, mbox, alive>>

\* * METADATA m (/private/comment "v<n>") : entry values answer the GETMETADATA for m
Metadata(m, n) ==
  /\ alive /\ n \in 1..MaxNum
  /\ \E i \in PendingOf("GETMETADATA") : cmds[i].arg = m /\ NoItem(i) /\ AddItem(i, <<"meta", n, m>>)
  /\ Quiet /\ UNCHANGED <<greet, cstate, mbox, alive>>

\* * METADATA m /private/comment : an entry list (no values) announces a change, whoever is pending
MetaChanged(m) ==
  /\ alive /\ cstate \in {"auth", "selected"} /\ m \in Mailboxes
  /\ uni' = <<<<"meta", 0, m>>>> /\ comp' = {}
  /\ UNCHANGED <<greet, cstate, mbox, cmds, alive>>

\* * OK [CLOSED] : the previous mailbox is closed while a SELECT is in progress
Closed ==
  /\ alive /\ cstate = "selected" /\ SelPending
  /\ cstate' = "auth" /\ mbox' = NoMbox
  /\ Quiet /\ UNCHANGED <<greet, cmds, alive>>

\* ---------------------------------------------------------------- server: continuation, tagged completion
\* May a conformant server answer OK to command i now?
OkAllowed(i) ==
  LET k == cmds[i].kind IN
  CASE k \in {"NOOP", "LOGOUT", "CAPABILITY"} -> TRUE
    [] k \in {"LOGIN", "AUTHENTICATE"} -> cstate = "notauth"
    [] k \in {"SELECT", "STATUS", "LIST", "LISTSTATUS", "CREATE", "UNAUTH", "ENABLE", "NAMESPACE", "GETQUOTA",
              "GETQUOTAROOT", "GETMETADATA", "APPEND", "IDLE", "DELETE", "RENAME", "SUBSCRIBE", "UNSUBSCRIBE",
              "SETQUOTA", "SETMETADATA"} -> cstate \in {"auth", "selected"}
    [] OTHER -> cstate = "selected"

\* + idling / + go ahead : the server accepts the IDLE, or the synchronising literal of the APPEND (which the
\* client then writes, with the rest of the command); "+ " (empty challenge): the server asks for the credentials
\* of an AUTHENTICATE, which the client then writes
Cont(i) ==
  /\ alive
  /\ i \in PendingOf("IDLE") \/ (SyncLit /\ i \in PendingOf("APPEND")) \/ i \in PendingOf("AUTHENTICATE")
  /\ cmds[i].ph = "" /\ OkAllowed(i)
  /\ cmds' = [cmds EXCEPT ![i].ph = IF cmds[i].kind = "IDLE" THEN "idling" ELSE "sent"]
  /\ Quiet /\ UNCHANGED <<greet, cstate, mbox, alive>>

\* what a command holds back is handed over when it completes, however it completes
Flushed(c) == IF c.kind = "LISTSTATUS" /\ c.acc.pendm # None
              THEN [c EXCEPT !.acc.items = Append(@, <<"list", 0, c.acc.pendm>>), !.acc.pendm = None]
              ELSE c

\* code: the tagged OK carries the response code with the command's result (COPYUID n 1:2 5:6 / APPENDUID n 3)
Tagged(i, st, code) ==
  /\ alive /\ i \in PendingIds /\ st \in {"OK", "NO", "BAD"}
  /\ st = "OK" => OkAllowed(i)
  /\ code \in 0..MaxCode /\ (code # 0 => st = "OK" /\ cmds[i].kind \in {"COPY", "APPEND"})
  \* commands with the same class of untagged data are completed in the order they were sent
  /\ cmds[i].kind \in Ordered => \A j \in PendingIn(ClassOf(cmds[i].kind)) : i <= j
  \* IDLE: refused instead of the continuation request, or completed after DONE
  /\ cmds[i].kind = "IDLE" => IF st = "OK" THEN cmds[i].ph = "stopping" ELSE cmds[i].ph = ""
  \* a synchronising literal: refused instead of the continuation request (NO / BAD, nothing of the literal is ever
  \* sent, everything else goes on), or the command is answered after the literal has been received
  /\ (cmds[i].kind = "APPEND" /\ SyncLit /\ st = "OK") => cmds[i].ph = "sent"
  \* AUTHENTICATE: refused at once (mechanism not offered) or answered after the credentials have been received
  /\ (cmds[i].kind = "AUTHENTICATE" /\ st = "OK") => cmds[i].ph = "sent"
  \* BAD means the command was not understood: whether a selected mailbox survives a BAD SELECT is not
  \* settled by the RFC, and a conformant server has no reason to answer BAD to a well-formed SELECT
  /\ ~(st = "BAD" /\ cmds[i].kind = "SELECT" /\ cstate = "selected")
  /\ LET c == Flushed(cmds[i])
         d == IF code = 0 THEN c
              ELSE [c EXCEPT !.acc.items = Append(@, <<IF c.kind = "COPY" THEN "copyuid" ELSE "appenduid", code, None>>)]
     IN cmds' = [cmds EXCEPT ![i] = [d EXCEPT !.st = st]]
  /\ comp' = {i} /\ uni' = <<>>
  /\ LET k == cmds[i].kind IN
     CASE k \in {"LOGIN", "AUTHENTICATE"} /\ st = "OK" -> cstate' = "auth" /\ mbox' = mbox
       [] k = "SELECT" /\ st = "OK" ->
            /\ cstate' = "selected"
            /\ mbox' = [name |-> cmds[i].arg, num |-> cmds[i].acc.num,
                        flags |-> cmds[i].acc.flags, perm |-> cmds[i].acc.perm]
       \* RFC 3501 6.3.1 / RFC 9051 6.3.2: if SELECT fails, no mailbox is selected
       [] k = "SELECT" /\ st # "OK" ->
            /\ cstate' = IF cstate = "selected" THEN "auth" ELSE cstate
            /\ mbox' = NoMbox
       [] k \in {"UNSELECT", "CLOSE"} /\ st = "OK" -> cstate' = "auth" /\ mbox' = NoMbox
       [] k = "UNAUTH" /\ st = "OK" -> cstate' = "notauth" /\ mbox' = NoMbox
       [] k = "LOGOUT" /\ st = "OK" -> cstate' = "logout" /\ mbox' = NoMbox
       [] OTHER -> cstate' = cstate /\ mbox' = mbox
  /\ UNCHANGED <<greet, alive>>

\* The server says BYE and closes (or the connection is lost): every pending command fails.
Bye ==
  /\ alive
  /\ alive' = FALSE /\ cstate' = "logout" /\ mbox' = NoMbox
  /\ cmds' = [i \in Ids |-> IF cmds[i].st = "pending" THEN [Flushed(cmds[i]) EXCEPT !.st = "ERR"] ELSE cmds[i]]
  /\ comp' = PendingIds /\ uni' = <<>> /\ greet' = greet

Next ==
  \/ \E k \in Kinds : \E a \in ArgsOf(k) : Submit(k, a) \/ SubmitDead(k, a)
  \/ \E i \in 1..MaxCmds : IdleDone(i) \/ Cont(i)
  \/ \E n \in 0..MaxNum : Exists(n) \/ Expunge(n) \/ Search(n) \/ Sort(n) \/ Thread(n) \/ MoveUid(n)
                          \/ UidNext(n) \/ UidValidity(n)
  \/ \E f \in FlagSets : Flags(f) \/ PermFlags(f)
  \/ \E n \in 1..MaxNum, f \in FlagSets, u \in 0..MaxUid : Fetch(n, f, u)
  \/ \E m \in Mailboxes, n \in 0..MaxNum : Status(m, n) \/ Quota(m, n) \/ Metadata(m, n)
  \/ \E m \in Mailboxes : List(m) \/ MetaChanged(m) \/ \E r \in Mailboxes : QuotaRoot(m, r)
  \/ \E c \in CapSets : Caps(c)
  \/ \E p \in Prefixes : Namespace(p)
  \/ Enabled
  \/ \E i \in 1..MaxCmds, n \in 1..MaxNum : Esearch(i, n)
  \/ Closed
  \/ \E i \in 1..MaxCmds, st \in {"OK", "NO", "BAD"}, code \in 0..MaxCode : Tagged(i, st, code)
  \/ Bye

Spec == Init /\ [][Next]_vars

\* ---------------------------------------------------------------- properties (C12)
TypeOK ==
  /\ cstate \in {"notauth", "auth", "selected", "logout"}
  /\ (mbox.name # None) <=> (cstate = "selected")
  /\ comp \subseteq Ids
  /\ \A i \in Ids : cmds[i].kind \in Kinds /\ cmds[i].arg \in ArgsOf(cmds[i].kind)

\* each command completes at most once and never changes its status afterwards
ExactlyOnce ==
  [][\A i \in Ids : cmds[i].st # "pending" => (i \notin comp' /\ cmds'[i] = cmds[i])]_vars

\* a NO or BAD for one command leaves everything else alone
Isolation ==
  [][\A i \in Ids : (i \in comp' /\ cmds'[i].st \in {"NO", "BAD"} /\ cmds[i].kind # "SELECT") =>
        /\ cstate' = cstate /\ mbox' = mbox /\ alive' = alive
        /\ \A j \in Ids : j # i => cmds'[j] = cmds[j]]_vars

\* data is only ever added to a pending command of the right kind (and, where data is named, the right name)
KindsTaking(t) ==
  CASE t = "expunge" -> ExpungeClass [] t = "fetch" -> FetchClass
    [] t = "status" -> {"STATUS"} [] t = "list" -> ListClass [] t = "liststatus" -> {"LISTSTATUS"}
    [] t = "search" -> {"SEARCH"} [] t = "esearch" -> {"ESEARCH"} [] t = "sort" -> {"SORT"} [] t = "thread" -> {"THREAD"}
    [] t = "caps" -> {"CAPABILITY"} [] t = "enabled" -> {"ENABLE"} [] t = "ns" -> {"NAMESPACE"}
    [] t = "quota" -> {"GETQUOTA", "GETQUOTAROOT"} [] t = "meta" -> {"GETMETADATA"}
    [] t = "copyuid" -> {"COPY", "MOVE"} [] t = "appenduid" -> {"APPEND"}
    [] OTHER -> {}
DataToRightCommand ==
  [][\A i \in Ids : cmds'[i].acc # cmds[i].acc =>
        /\ cmds[i].st = "pending"
        /\ \A x \in 1..Len(cmds'[i].acc.items) :
             LET it == cmds'[i].acc.items[x] IN
               /\ cmds[i].kind \in KindsTaking(it[1])
               /\ (it[1] \in {"status", "meta"} \/ (it[1] = "quota" /\ cmds[i].kind = "GETQUOTA")) => it[3] = cmds[i].arg
               /\ (it[1] = "fetch" /\ cmds[i].kind = "FETCH" /\ cmds[i].arg = "one") => it[2] = 1]_vars

StateDiagram ==
  [][cstate' # cstate => <<cstate, cstate'>> \in
       {<<"notauth", "auth">>, <<"auth", "selected">>, <<"selected", "auth">>,
        <<"auth", "notauth">>, <<"selected", "notauth">>,
        <<"notauth", "logout">>, <<"auth", "logout">>, <<"selected", "logout">>}]_vars

\* while an IDLE is running (continuation received, DONE not yet written) nothing else is in flight
IdleAlone == \A i \in PendingOf("IDLE") : cmds[i].ph # "stopping" => PendingIds = {i}

Bounded == Len(cmds) <= MaxCmds

\* View for the quick model check: completed commands are history (their number is kept); the
\* action properties are still evaluated on every generated transition.
McView == <<greet, cstate, mbox, alive, Len(cmds), {<<cmds[i].kind, cmds[i].arg, cmds[i].ph, cmds[i].acc>> : i \in PendingIds}>>
=============================================================================
