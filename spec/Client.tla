------------------------------- MODULE Client -------------------------------
(***************************************************************************)
(* imapclient.Client against a protocol-conformant server (property C12):  *)
(* routing of tagged and untagged responses to pipelined commands, and the *)
(* client's mirror of the connection state and of the selected mailbox.    *)
(*                                                                         *)
(* The specification is the MEANING OF THE TRANSCRIPT: it computes, from   *)
(* the commands submitted and the lines the server has sent so far, the    *)
(* connection state, the selected-mailbox summary, which commands are      *)
(* complete with which status, and which data each of them was given.      *)
(* Client actions: Submit(kind, arg).  Server actions (enabled only as RFC *)
(* 9051 permits): untagged data, tagged completion of ANY pending command  *)
(* (out-of-order completion), BYE + close.  Pipelines are restricted to    *)
(* the unambiguous ones of RFC 9051 section 5.5 (at most one pending       *)
(* command per kind of untagged data; STATUS is discriminated by name).    *)
(***************************************************************************)
EXTENDS Naturals, Sequences, FiniteSets, TLC

CONSTANTS MaxCmds,     \* commands submitted per behaviour
          MaxPending,  \* pipelined commands
          MaxNum,      \* largest message count
          MaxItems     \* data responses per command

Mailboxes == {"A", "B"}
FlagSets == {"f0", "f1"}          \* f0 = (\Seen), f1 = (\Seen \Deleted custom)  (concrete lists in the harness)
None == "none"

\* ESEARCH: a UID SEARCH with RETURN options; its data response carries the tag of the command
\* (RFC 4731 search correlator), so any number may be in flight and be answered in any order
Kinds == {"NOOP", "LOGIN", "SELECT", "UNSELECT", "STATUS", "LIST", "SEARCH", "ESEARCH", "FETCH", "EXPUNGE", "LOGOUT"}
HasArg(k) == k \in {"SELECT", "STATUS"}

VARIABLES cstate,   \* "notauth" | "auth" | "selected" | "logout"
          mbox,     \* [name, num, flags, perm]; name = None when nothing is selected
          cmds,     \* Seq([kind, arg, st, acc]) all commands, index = id; st = "pending" | "OK" | "NO" | "BAD" | "ERR"
          alive,    \* connection open
          comp,     \* ids completed by the LAST step
          uni       \* unilateral data handed to the handler by the LAST step: Seq(<<type, n, flagset>>)

vars == <<cstate, mbox, cmds, alive, comp, uni>>

NoMbox == [name |-> None, num |-> 0, flags |-> None, perm |-> None]
EmptyAcc == [num |-> 0, flags |-> None, perm |-> None, items |-> <<>>]

Ids == 1..Len(cmds)
PendingIds == {i \in Ids : cmds[i].st = "pending"}
PendingOf(k) == {i \in PendingIds : cmds[i].kind = k}
\* the pending command a response of data kind k is routed to (the oldest one)
Target(k) == CHOOSE i \in PendingOf(k) : \A j \in PendingOf(k) : i <= j

Init ==
  /\ cstate = "notauth" /\ mbox = NoMbox /\ cmds = <<>> /\ alive = TRUE
  /\ comp = {} /\ uni = <<>>

Quiet == comp' = {} /\ uni' = <<>>

\* ---------------------------------------------------------------- client
\* RFC 9051 5.5: do not pipeline commands whose untagged data could be confused.
Unambiguous(k, a) ==
  /\ k \in {"SELECT", "LOGIN", "UNSELECT", "LOGOUT"} => PendingOf(k) = {}
  \* two commands with the same kind of untagged data may be in flight only because the server answers
  \* them in the order sent (see Tagged): their data then belongs to the oldest one
  /\ k \in {"FETCH", "SEARCH", "EXPUNGE", "LIST"} => Cardinality(PendingOf(k)) <= 1
  /\ k = "STATUS" => \A i \in PendingOf("STATUS") : cmds[i].arg # a
  \* an untagged SEARCH response carries no correlator: this client hands it to the oldest pending search of
  \* either form, so the two forms are not mixed in one pipeline (treated as ambiguous, not as a defect)
  /\ k = "SEARCH" => PendingOf("ESEARCH") = {}
  /\ k = "ESEARCH" => PendingOf("SEARCH") = {}
  \* state-changing commands are not pipelined with commands that depend on the state
  /\ k \in {"SELECT", "UNSELECT", "LOGOUT", "LOGIN"} => PendingIds = {}
  /\ \A i \in PendingIds : cmds[i].kind \notin {"SELECT", "UNSELECT", "LOGOUT", "LOGIN"}

Submit(k, a) ==
  /\ alive /\ cstate # "logout"
  /\ Len(cmds) < MaxCmds /\ Cardinality(PendingIds) < MaxPending
  /\ (HasArg(k) /\ a \in Mailboxes) \/ (~HasArg(k) /\ a = None)
  /\ Unambiguous(k, a)
  /\ cmds' = Append(cmds, [kind |-> k, arg |-> a, st |-> "pending", acc |-> EmptyAcc])
  /\ Quiet /\ UNCHANGED <<cstate, mbox, alive>>

\* ---------------------------------------------------------------- server: untagged data
SetAcc(i, acc) == cmds' = [cmds EXCEPT ![i].acc = acc]
AddItem(i, it) == SetAcc(i, [cmds[i].acc EXCEPT !.items = Append(@, it)])
RoomFor(i) == Len(cmds[i].acc.items) < MaxItems

SelPending == PendingOf("SELECT") # {}

\* * n EXISTS
Exists(n) ==
  /\ alive /\ n \in 0..MaxNum
  /\ IF SelPending
     THEN /\ SetAcc(Target("SELECT"), [cmds[Target("SELECT")].acc EXCEPT !.num = n])
          /\ mbox' = mbox /\ uni' = <<>>
     ELSE /\ cstate = "selected" /\ n >= mbox.num
          /\ mbox' = [mbox EXCEPT !.num = n] /\ uni' = <<<<"exists", n, None>>>>
          /\ cmds' = cmds
  /\ comp' = {} /\ UNCHANGED <<cstate, alive>>

\* * FLAGS (...)
Flags(f) ==
  /\ alive /\ f \in FlagSets
  /\ IF SelPending
     THEN /\ SetAcc(Target("SELECT"), [cmds[Target("SELECT")].acc EXCEPT !.flags = f])
          /\ mbox' = mbox /\ uni' = <<>>
     ELSE /\ cstate = "selected"
          /\ mbox' = [mbox EXCEPT !.flags = f] /\ uni' = <<<<"flags", 0, f>>>>
          /\ cmds' = cmds
  /\ comp' = {} /\ UNCHANGED <<cstate, alive>>

\* * OK [PERMANENTFLAGS (...)]
PermFlags(f) ==
  /\ alive /\ f \in FlagSets
  /\ IF SelPending
     THEN /\ SetAcc(Target("SELECT"), [cmds[Target("SELECT")].acc EXCEPT !.perm = f])
          /\ mbox' = mbox /\ uni' = <<>>
     ELSE /\ cstate = "selected"
          /\ mbox' = [mbox EXCEPT !.perm = f] /\ uni' = <<<<"permflags", 0, f>>>>
          /\ cmds' = cmds
  /\ comp' = {} /\ UNCHANGED <<cstate, alive>>

\* * n EXPUNGE : the server only expunges existing messages of the selected mailbox
Expunge(n) ==
  /\ alive /\ cstate = "selected" /\ ~SelPending /\ n \in 1..mbox.num
  /\ mbox' = [mbox EXCEPT !.num = @ - 1]
  /\ IF PendingOf("EXPUNGE") # {}
     THEN /\ RoomFor(Target("EXPUNGE")) /\ AddItem(Target("EXPUNGE"), <<"expunge", n, None>>) /\ uni' = <<>>
     ELSE /\ cmds' = cmds /\ uni' = <<<<"expunge", n, None>>>>
  /\ comp' = {} /\ UNCHANGED <<cstate, alive>>

\* * n FETCH (FLAGS (...))
Fetch(n, f) ==
  /\ alive /\ cstate = "selected" /\ ~SelPending /\ n \in 1..mbox.num /\ f \in FlagSets
  \* a FETCH response for a message the pending command has already been given is a unilateral flag update
  /\ IF PendingOf("FETCH") # {} /\ ~(\E x \in 1..Len(cmds[Target("FETCH")].acc.items) : cmds[Target("FETCH")].acc.items[x][2] = n)
     THEN /\ RoomFor(Target("FETCH")) /\ AddItem(Target("FETCH"), <<"fetch", n, f>>) /\ uni' = <<>>
     ELSE /\ cmds' = cmds /\ uni' = <<<<"fetch", n, f>>>>
  /\ comp' = {} /\ UNCHANGED <<cstate, mbox, alive>>

\* * STATUS m (MESSAGES n)
Status(m, n) ==
  /\ alive /\ n \in 0..MaxNum
  /\ \E i \in PendingOf("STATUS") : cmds[i].arg = m /\ cmds[i].acc.items = <<>> /\ AddItem(i, <<"status", n, m>>)
  /\ Quiet /\ UNCHANGED <<cstate, mbox, alive>>

\* * LIST () "/" m
List(m) ==
  /\ alive /\ PendingOf("LIST") # {} /\ m \in Mailboxes
  /\ RoomFor(Target("LIST")) /\ AddItem(Target("LIST"), <<"list", 0, m>>)
  /\ Quiet /\ UNCHANGED <<cstate, mbox, alive>>

\* * SEARCH n
Search(n) ==
  /\ alive /\ PendingOf("SEARCH") # {} /\ n \in 1..MaxNum
  /\ cmds[Target("SEARCH")].acc.items = <<>> /\ AddItem(Target("SEARCH"), <<"search", n, None>>)
  /\ Quiet /\ UNCHANGED <<cstate, mbox, alive>>

\* * ESEARCH (TAG "<tag of i>") UID COUNT n : routed by the correlator, not by position
Esearch(i, n) ==
  /\ alive /\ i \in PendingOf("ESEARCH") /\ n \in 1..MaxNum
  /\ cmds[i].acc.items = <<>> /\ AddItem(i, <<"esearch", n, None>>)
  /\ Quiet /\ UNCHANGED <<cstate, mbox, alive>>

\* * OK [CLOSED] : the previous mailbox is closed while a SELECT is in progress
Closed ==
  /\ alive /\ cstate = "selected" /\ SelPending
  /\ cstate' = "auth" /\ mbox' = NoMbox
  /\ Quiet /\ UNCHANGED <<cmds, alive>>

\* ---------------------------------------------------------------- server: tagged completion
\* May a conformant server answer OK to command i now?
OkAllowed(i) ==
  LET k == cmds[i].kind IN
  CASE k \in {"NOOP", "LOGOUT"} -> TRUE
    [] k = "LOGIN" -> cstate = "notauth"
    [] k \in {"SELECT", "STATUS", "LIST"} -> cstate \in {"auth", "selected"}
    [] OTHER -> cstate = "selected"

Complete(i, st) ==
  /\ cmds' = [cmds EXCEPT ![i].st = st]
  /\ comp' = {i} /\ uni' = <<>>

Tagged(i, st) ==
  /\ alive /\ i \in PendingIds /\ st \in {"OK", "NO", "BAD"}
  /\ st = "OK" => OkAllowed(i)
  \* commands with the same kind of untagged data are completed in the order they were sent
  /\ cmds[i].kind \in {"FETCH", "SEARCH", "EXPUNGE", "LIST"} => \A j \in PendingOf(cmds[i].kind) : i <= j
  \* BAD means the command was not understood: whether a selected mailbox survives a BAD SELECT is not
  \* settled by the RFC, and a conformant server has no reason to answer BAD to a well-formed SELECT
  /\ ~(st = "BAD" /\ cmds[i].kind = "SELECT" /\ cstate = "selected")
  /\ Complete(i, st)
  /\ LET k == cmds[i].kind IN
     CASE k = "LOGIN" /\ st = "OK" -> cstate' = "auth" /\ mbox' = mbox
       [] k = "SELECT" /\ st = "OK" ->
            /\ cstate' = "selected"
            /\ mbox' = [name |-> cmds[i].arg, num |-> cmds[i].acc.num,
                        flags |-> cmds[i].acc.flags, perm |-> cmds[i].acc.perm]
       \* RFC 3501 6.3.1 / RFC 9051 6.3.2: if SELECT fails, no mailbox is selected
       [] k = "SELECT" /\ st # "OK" ->
            /\ cstate' = IF cstate = "selected" THEN "auth" ELSE cstate
            /\ mbox' = NoMbox
       [] k = "UNSELECT" /\ st = "OK" -> cstate' = "auth" /\ mbox' = NoMbox
       [] k = "LOGOUT" /\ st = "OK" -> cstate' = "logout" /\ mbox' = NoMbox
       [] OTHER -> cstate' = cstate /\ mbox' = mbox
  /\ alive' = alive

\* The server says BYE and closes (or the connection is lost): every pending command fails.
Bye ==
  /\ alive
  /\ alive' = FALSE /\ cstate' = "logout" /\ mbox' = NoMbox
  /\ cmds' = [i \in Ids |-> IF cmds[i].st = "pending" THEN [cmds[i] EXCEPT !.st = "ERR"] ELSE cmds[i]]
  /\ comp' = PendingIds /\ uni' = <<>>

Next ==
  \/ \E k \in Kinds, a \in Mailboxes \cup {None} : Submit(k, a)
  \/ \E n \in 0..MaxNum : Exists(n) \/ Expunge(n) \/ Search(n)
  \/ \E f \in FlagSets : Flags(f) \/ PermFlags(f)
  \/ \E n \in 1..MaxNum, f \in FlagSets : Fetch(n, f)
  \/ \E m \in Mailboxes, n \in 0..MaxNum : Status(m, n)
  \/ \E m \in Mailboxes : List(m)
  \/ \E i \in 1..MaxCmds, n \in 1..MaxNum : Esearch(i, n)
  \/ Closed
  \/ \E i \in 1..MaxCmds, st \in {"OK", "NO", "BAD"} : Tagged(i, st)
  \/ Bye

Spec == Init /\ [][Next]_vars

\* ---------------------------------------------------------------- properties (C12)
TypeOK ==
  /\ cstate \in {"notauth", "auth", "selected", "logout"}
  /\ (mbox.name # None) <=> (cstate = "selected")
  /\ comp \subseteq Ids

\* each command completes at most once and never changes its status afterwards
ExactlyOnce ==
  [][\A i \in Ids : cmds[i].st # "pending" => (i \notin comp' /\ cmds'[i] = cmds[i])]_vars

\* a NO or BAD for one command leaves everything else alone
Isolation ==
  [][\A i \in Ids : (i \in comp' /\ cmds'[i].st \in {"NO", "BAD"} /\ cmds[i].kind # "SELECT") =>
        /\ cstate' = cstate /\ mbox' = mbox /\ alive' = alive
        /\ \A j \in Ids : j # i => cmds'[j] = cmds[j]]_vars

\* data is only ever added to a pending command of the right kind
DataToRightCommand ==
  [][\A i \in Ids : cmds'[i].acc # cmds[i].acc =>
        /\ cmds[i].st = "pending"
        /\ \A x \in 1..Len(cmds'[i].acc.items) :
             LET t == cmds'[i].acc.items[x][1] IN
               \/ (t = "expunge" /\ cmds[i].kind = "EXPUNGE")
               \/ (t = "fetch" /\ cmds[i].kind = "FETCH")
               \/ (t = "status" /\ cmds[i].kind = "STATUS" /\ cmds'[i].acc.items[x][3] = cmds[i].arg)
               \/ (t = "list" /\ cmds[i].kind = "LIST")
               \/ (t = "search" /\ cmds[i].kind = "SEARCH")
               \/ (t = "esearch" /\ cmds[i].kind = "ESEARCH")]_vars

StateDiagram ==
  [][cstate' # cstate => <<cstate, cstate'>> \in
       {<<"notauth", "auth">>, <<"auth", "selected">>, <<"selected", "auth">>,
        <<"notauth", "logout">>, <<"auth", "logout">>, <<"selected", "logout">>}]_vars

Bounded == Len(cmds) <= MaxCmds

\* View for the quick model check: completed commands are history (their number is kept); the
\* action properties are still evaluated on every generated transition.
McView == <<cstate, mbox, alive, Len(cmds), {<<cmds[i].kind, cmds[i].arg, cmds[i].acc>> : i \in PendingIds}>>
=============================================================================
