CONSTANTS
  CpAlpha = {97}
  ByteAlpha = {97}
  EncMax = 0
  DecMax = 0
  TokMax = 0
  Stream = FALSE
  Caps = {1}
  Chunks = {1}
INIT TraceInit
NEXT TraceNext
POSTCONDITION TraceAccepted
CHECK_DEADLOCK FALSE
