-------------------------- MODULE ServerConnTrace --------------------------
(* Trace validation for ServerConn: long random command sequences run       *)
(* against a real imapserver connection (random configuration per trace).   *)
(* Every record carries the command, the scripted backend failure index and *)
(* the complete observation; the invariants of ServerConn are evaluated on  *)
(* every observed state.                                                    *)
EXTENDS ServerConn, Json, IOUtils

VARIABLE l

Trace == ndJsonDeserialize(IOEnv.TRACE_FILE)

TraceInit == Init /\ l = 1

Matches(o) ==
  /\ o.tagged = out'.tagged /\ o.bye = out'.bye /\ o.cont = out'.cont /\ o.recent = out'.recent
  /\ o.calls = [i \in 1..Len(calls') |-> calls'[i].m]
  /\ o.state = state' /\ o.closed = closed'
  /\ o.after = 0   \* commands pipelined behind a closing command (same segment) are never answered
  /\ ~closed' => o.caps = CapsOf(state', tls')

Reset(r) ==
  /\ cfg' = r.cfg
  /\ state' = IF r.cfg.PreAuth THEN "auth" ELSE "notauth"
  /\ tls' = r.cfg.TLS /\ enabled' = {} /\ closed' = FALSE
  /\ calls' = <<>> /\ out' = Out(OK, FALSE, 0, FALSE)

\* The scripted failure index f has no effect when fewer than f calls are made.
Cmd(r) ==
  \/ r.v = "bad" /\ BadSyntax(r.c) /\ Matches(r.obs)
  \/ r.v = "good" /\ \E g \in 0..2 :
        /\ Good(r.c, g)
        /\ g = r.f \/ (g = 0 /\ r.f > Len(calls'))
        /\ Matches(r.obs)

TraceNext ==
  /\ l <= Len(Trace)
  /\ l' = l + 1
  /\ LET r == Trace[l] IN
       \/ r.ev = "Reset" /\ Reset(r)
       \/ r.ev = "Cmd" /\ Cmd(r)

\* within one connection the transport never goes back to plaintext
TraceTLSNeverDowngrades == [][(l <= Len(Trace) /\ Trace[l].ev = "Cmd") => (tls => tls')]_<<vars, l>>

TraceAccepted ==
  LET d == TLCGet("stats").diameter IN
    IF d - 1 = Len(Trace) THEN TRUE
    ELSE /\ PrintT(<<"TRACE_REJECTED_AT", d, Len(Trace)>>)
         /\ IF d <= Len(Trace) THEN PrintT(<<"REJECTED_RECORD", ToJson(Trace[d])>>) ELSE TRUE
         /\ FALSE
=============================================================================
