---------------------------- MODULE MemModelGen ----------------------------
(* Generator for property C09 (spec -> impl).                               *)
(*                                                                         *)
(* Mode "bfs": TLC enumerates the bounded state graph of MemModel; for     *)
(* every distinct state it prints ONE line                                  *)
(*    <<"T", "{hist: [step...], next: [step...]}">>                         *)
(* hist = the (near-)shortest behaviour that reaches the state, next = every*)
(* command of the alphabet explored in that state; a step is                *)
(*    [cmd, r (predicted normalised result), audit (predicted audit),       *)
(*     sig, pure (the command leaves the model state unchanged)].           *)
(* So every transition of the graph is printed exactly once.  The harness   *)
(* replays hist on a fresh real server, runs all pure successors on that    *)
(* server and every state-changing successor on its own fresh replay.       *)
(*                                                                         *)
(* Mode "sim": Chains independent random walks of SimDepth steps through    *)
(* the same machine (a richer alphabet than the exhaustive instances can    *)
(* afford): every state has ONE successor, drawn by TLC!RandomElement from  *)
(* the commands explored in it (seeded by tlc -seed).  A line is printed    *)
(* when a walk is complete, with next = {}; the harness compares result and *)
(* audit after every step.                                                  *)
(*                                                                         *)
(* Mode "q" (queries as vectors): Init picks one of the prepared scenarios  *)
(* (Scenarios, folded through Exec), there is no Next; the successors are   *)
(* the query alphabet QueryCmds: every SEARCH key combination up to depth 2 *)
(* of NOT/OR over the probe pools, every body section and partial range of  *)
(* the pool, every LIST / LSUB pattern of the pattern pool.                 *)
EXTENDS MemModel, Json

CONSTANTS Mode, SimDepth, Chains

VARIABLES hist, chain

(* a command without the fields that have their default value (shorter lines) *)
Compact(cmd) == [f \in {"op", "c"} \cup {g \in DOMAIN cmd : cmd[g] # C0[g]} |-> cmd[f]]

(* full: with the predicted audit even when the state does not change *)
StepRecF(S, cmd, full) ==
  LET e == Exec(S, cmd) IN
  [cmd |-> Compact(cmd), r |-> e.r,
   audit |-> IF e.S = S /\ ~full THEN <<>> ELSE Audit(e.S, Names),
   sig |-> Sig(S, cmd), pure |-> e.S = S]
StepRec(S, cmd) == StepRecF(S, cmd, FALSE)

-----------------------------------------------------------------------------
(* query alphabet of mode "q" *)
KS(kind, set)  == [K0 EXCEPT !.k = kind, !.set = set]
KN(kind, n)    == [K0 EXCEPT !.k = kind, !.n = n]
KF(kind, f)    == [K0 EXCEPT !.k = kind, !.f = f]
KNot(a)        == [K0 EXCEPT !.k = "NOT", !.sub = <<a>>]
KOr(a, b)      == [K0 EXCEPT !.k = "OR", !.sub = <<a, b>>]

SizeProbes == {1, 118, 119, 120, 346, 347, 3007, 100000}
DayProbes  == {5, 20, 21, 32}
SentProbes == {15, 16, 19, 40}
Atoms ==
     {K0}
  \cup {KS("SEQ", s) : s \in { << <<1, 1>> >>, << <<2, 4>> >>, << <<0, 0>> >>, << <<1, 1>>, <<3, 3>> >>, << <<2, 0>> >> }}
  \cup {KS("UID", s) : s \in { << <<1, 1>> >>, << <<3, 5>> >>, << <<0, 0>> >>, << <<6, 0>> >>, << <<7, 0>> >>, << <<2, 2>> >> }}
  \cup {KF("FLAG", f) : f \in DOMAIN FlagKey}
  \cup {KF("KEYWORD", f) : f \in {"kw1", "KW1", "kw2"}} \cup {KF("UNKEYWORD", "Kw1")}
  \cup {KN(k, n) : k \in {"LARGER", "SMALLER"}, n \in SizeProbes}
  \cup {KN(k, n) : k \in {"SINCE", "BEFORE", "ON"}, n \in DayProbes}
  \cup {KN(k, n) : k \in {"SENTSINCE", "SENTBEFORE", "SENTON"}, n \in SentProbes}
  \cup {KN("HDR", n) : n \in 1..NumHdrProbes}
  \cup {KN("BODY", n) : n \in 1..NumWordProbes}
  \cup {KN("TEXT", n) : n \in 1..NumWordProbes}
(* one representative per kind of key for the nested combinations *)
Reps ==
  { KS("SEQ", << <<2, 4>> >>), KS("UID", << <<3, 5>> >>), KS("UID", << <<6, 0>> >>),
    KF("FLAG", "SEEN"), KF("FLAG", "UNDELETED"), KF("KEYWORD", "KW1"),
    KN("LARGER", 346), KN("SMALLER", 346), KN("SINCE", 20), KN("BEFORE", 20), KN("ON", 20),
    KN("SENTSINCE", 19), KN("SENTON", 15), KN("HDR", 1), KN("HDR", 4), KN("BODY", 1), KN("TEXT", 4) }
Reps2 == { KS("SEQ", << <<2, 4>> >>), KF("FLAG", "SEEN"), KN("SMALLER", 346), KN("ON", 20),
           KN("SENTBEFORE", 19), KN("HDR", 9), KN("BODY", 6), KN("TEXT", 1) }
KeyLists ==
     {<<a>> : a \in Atoms}
  \cup {<<KNot(a)>> : a \in Atoms}
  \cup {<<KOr(a, b)>> : a \in Reps, b \in Reps}
  \cup {<<a, b>> : a \in Reps, b \in Reps}
  \cup {<<KNot(KNot(a))>> : a \in Reps}
  \cup {<<KNot(KOr(a, b))>> : a \in Reps2, b \in Reps2}
  \cup {<<KOr(KNot(a), b)>> : a \in Reps2, b \in Reps2}
  \cup {<<KOr(a, KNot(b))>> : a \in Reps2, b \in Reps2}
  \cup {<<KOr(KOr(a, b), c)>> : a \in Reps2, b \in Reps2, c \in Reps2}
  \cup {<<KOr(a, KOr(b, c)), KNot(a)>> : a \in Reps2, b \in {KF("FLAG", "SEEN")}, c \in Reps2}
SearchCmds ==
     {[C0 EXCEPT !.op = "SEARCH", !.keys = ks] : ks \in KeyLists}
  \cup {[C0 EXCEPT !.op = "SEARCH", !.uid = TRUE, !.keys = <<a>>] : a \in Atoms}
  \cup {[C0 EXCEPT !.op = "SEARCH", !.uid = TRUE, !.keys = <<KOr(a, b)>>] : a \in Reps2, b \in Reps2}

QSets == { << <<1, 0>> >>, << <<1, 1>> >>, << <<2, 2>> >>, << <<3, 3>> >>, << <<2, 3>> >>, << <<0, 0>> >>,
           << <<4, 0>> >>, << <<5, 5>> >> }
QUidSets == QSets \cup { << <<6, 0>> >>, << <<7, 0>> >>, << <<9, 0>> >>, << <<3, 4>> >>, << <<6, 6>> >> }
ItemSets == { [It0 EXCEPT !.flags = TRUE], [It0 EXCEPT !.uidi = TRUE], [It0 EXCEPT !.size = TRUE],
              [It0 EXCEPT !.date = TRUE],
              [It0 EXCEPT !.flags = TRUE, !.uidi = TRUE, !.size = TRUE, !.date = TRUE] }
FetchCmds ==
     {[C0 EXCEPT !.op = "FETCH", !.set = s, !.it = it] : s \in QSets, it \in ItemSets}
  \cup {[C0 EXCEPT !.op = "FETCH", !.uid = TRUE, !.set = s, !.it = it] : s \in QUidSets, it \in ItemSets}
  \cup {[C0 EXCEPT !.op = "FETCH", !.set = s, !.it = [It0 EXCEPT !.sec = x]] :
          s \in QSets, x \in 1..NumSections}
  \cup {[C0 EXCEPT !.op = "FETCH", !.uid = TRUE, !.set = s, !.it = [It0 EXCEPT !.sec = x, !.flags = TRUE]] :
          s \in {<< <<1, 0>> >>, << <<0, 0>> >>}, x \in {1, 3}}
  \cup {[C0 EXCEPT !.op = "FETCH", !.set = << <<1, 0>> >>, !.it = [It0 EXCEPT !.sec = x, !.pi = p]] :
          x \in Elems(PartSecs), p \in 1..NumPartials}

PatPool == { <<STAR>>, <<PCT>>, <<>>, <<97>>, <<97, STAR>>, <<97, PCT>>, <<97, DELIM, STAR>>,
             <<97, DELIM, PCT>>, <<PCT, DELIM, PCT>>, <<PCT, DELIM, 98>>, <<STAR, 98>>, <<STAR, DELIM, 99>>,
             <<97, DELIM, 98, DELIM, PCT>>, <<STAR, PCT>>, <<PCT, STAR>>, <<98>>, <<97, 98, PCT>>,
             <<97, DELIM, 98>>, <<99, STAR>>, <<PCT, 98>> }
RefPool == { <<>>, <<97>>, <<97, DELIM>>, <<97, DELIM, 98>>, <<99>>, <<120>> }
ListCmds == {[C0 EXCEPT !.op = op, !.ref = rf, !.pat = p] : op \in {"LIST", "LSUB"}, rf \in RefPool, p \in PatPool}
StatusCmds == {N1("STATUS", n) : n \in Names}

QueryCmds == SearchCmds \cup FetchCmds \cup ListCmds \cup StatusCmds

-----------------------------------------------------------------------------
(* prepared scenarios of mode "q" *)
A  == <<97>>
AB == <<97, 47, 98>>
Ap(n, k, f) == [C0 EXCEPT !.op = "APPEND", !.name = n, !.cat = k, !.fl = f]
Scenarios == <<
  \* 1: every catalogue entry (the last one has no header field at all), sequence numbers differ from UIDs, the highest UID has been expunged
  << N1("CREATE", A), N1("CREATE", <<99>>),
     Ap(A, 1, <<":Seen">>), Ap(A, 2, <<":Deleted">>), Ap(A, 3, <<":DELETED", "kw1">>),
     Ap(A, 4, <<":Flagged", ":Answered">>), Ap(A, 5, <<":Draft", "KW2">>), Ap(A, 2, <<":Seen", "kw1">>),
     Ap(A, 1, <<":Deleted">>), Ap(A, 6, <<>>), N1("SELECT", A),
     [C0 EXCEPT !.op = "STORE", !.set = << <<3, 3>> >>, !.sop = "del", !.fl = <<":deleted">>],
     Mk("EXPUNGE") >>,
  \* 2: three messages, nothing expunged, opened read-only
  << N1("CREATE", A), Ap(A, 3, <<>>), Ap(A, 4, <<":Seen">>), Ap(A, 1, <<"kw2">>), N1("EXAMINE", A) >>,
  \* 3: a hierarchy with subscriptions (for LIST / LSUB)
  << N1("CREATE", A), N1("CREATE", AB), N1("CREATE", <<97, 47, 98, 47, 99>>), N1("CREATE", <<99>>),
     N1("CREATE", <<97, 98>>), N1("SUBSCRIBE", AB), N1("SUBSCRIBE", <<99>>), Ap(AB, 5, <<>>) >>,
  \* 4: a multipart message whose body holds no part at all (it has no section 1), next to an ordinary one
  << N1("CREATE", A), Ap(A, 7, <<>>), Ap(A, 1, <<":Seen">>), N1("SELECT", A) >>
>>

RECURSIVE Fold(_, _, _)
Fold(S, cmds, acc) ==
  IF cmds = <<>> THEN [S |-> S, hist |-> acc]
  ELSE Fold(Exec(S, Head(cmds)).S, Tail(cmds), Append(acc, StepRecF(S, Head(cmds), TRUE)))

-----------------------------------------------------------------------------
GenInit ==
  IF Mode = "q"
  THEN \E i \in 1..Len(Scenarios) :
         LET f == Fold(S0, Scenarios[i], <<>>) IN
         /\ mb = f.S.mb /\ uvc = f.S.uvc /\ uvh = f.S.uvh /\ cn = f.S.cn
         /\ hist = f.hist
         /\ last = f.hist[Len(f.hist)]
  ELSE Init /\ hist = <<>>

GenInitAll == GenInit /\ (IF Mode = "sim" THEN chain \in 1..Chains ELSE chain = 0)

Choices == IF Mode = "sim"
           THEN LET ok == {x \in Alphabet : Allowed(St, x)} IN IF ok = {} THEN {} ELSE {RandomElement(ok)}
           ELSE Alphabet

GenNext ==
  /\ Mode # "q"
  /\ Mode = "sim" => Len(hist) < SimDepth
  /\ chain' = chain
  /\ \E cmd \in Choices :
       /\ Step(cmd)
       /\ hist' = Append(hist, [cmd |-> Compact(cmd), r |-> last'.r, audit |-> last'.audit, sig |-> last'.sig,
                                pure |-> View' = View])

Cmds == IF Mode = "q" THEN QueryCmds ELSE Alphabet
Succs == {StepRec(St, cmd) : cmd \in {x \in Cmds : Allowed(St, x)}}

(* printing hook, evaluated once per distinct state (bfs, q) / per visited state (sim) *)
Emit ==
  CASE Mode = "sim" -> Len(hist) = SimDepth => PrintT(<<"T", ToJson([hist |-> hist, next |-> {}, full |-> TRUE, cur |-> last.audit])>>)
    [] OTHER -> Bounded => PrintT(<<"T", ToJson([hist |-> hist, next |-> Succs, full |-> FALSE, cur |-> last.audit])>>)

GenView == IF Mode = "sim" THEN <<View, chain, Len(hist)>> ELSE <<View, 0, 0>>
=============================================================================
