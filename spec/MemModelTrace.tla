--------------------------- MODULE MemModelTrace ---------------------------
(* Trace validation for property C09 (impl -> spec).  The harness drives a   *)
(* real imapserver + imapmemserver with random command histories (more       *)
(* names, all five catalogue entries, two connections, random search trees,  *)
(* sections, partial ranges, patterns) and records, per command, the         *)
(* normalised result and the audit.  Every record must be exactly what       *)
(* MemModel!Exec / Audit compute in the model state reached so far.          *)
(*                                                                          *)
(* Many histories are concatenated, each starting with a Reset record.  The  *)
(* judge does not stop at the first disagreement: it prints                  *)
(*    <<"BAD", "{line, sig, r, audit}">>                                      *)
(* (sig = MemModel!Sig of the command in the model state, so known findings  *)
(* can be told apart), skips the rest of that history (model and server have *)
(* diverged) and resumes at the next Reset.  A command the model does not    *)
(* explore (MemModel!Allowed) is a driver error: <<"NOTALLOWED", line>>.     *)
(* A result "PANIC" / "CLOSED" / "STALL" / "MALFORMED" / "BAD" equals no     *)
(* prediction, hence is always a disagreement.                               *)
EXTENDS MemModel, Json, IOUtils

VARIABLES l, skip

Trace == ndJsonDeserialize(IOEnv.TRACE_FILE)

TraceInit == Init /\ l = 1 /\ skip = FALSE /\ TLCSet(7, 0)

AuditNames(rec) == {rec.audit.st[j].n : j \in 1..Len(rec.audit.st)}

(* same rule as the harness: named classes are reported as they are, a bare command name gets *)
(* "/audit" when only the audit differs                                                       *)
NamedClass(sig) == \E p \in {"uid-star/", "partial/", "copyuid/", "examine/", "rename/", "lsub/"} :
                      Len(sig) >= Len(p) /\ SubSeq(sig, 1, Len(p)) = p
Suffix(rec, sameR, sig) ==
  IF rec.r.st = "PANIC" THEN "-panic"
  ELSE IF rec.r.st = "CLOSED" THEN "-closed"
  ELSE IF rec.r.st = "STALL" THEN "-stall"
  ELSE IF sameR /\ ~NamedClass(sig) THEN "/audit" ELSE ""

Adopt(S, cmd, r, a) ==
  /\ mb' = S.mb /\ uvc' = S.uvc /\ uvh' = S.uvh /\ cn' = S.cn
  /\ last' = [cmd |-> cmd, r |-> r, audit |-> a, sig |-> ""]

TraceNext ==
  /\ l <= Len(Trace)
  /\ l' = l + 1
  /\ LET rec == Trace[l] IN
     IF rec.ev = "Reset"
       THEN /\ Adopt(S0, C0, [st |-> "INIT"], Audit(S0, Names))
            /\ skip' = FALSE
     ELSE IF skip
       THEN UNCHANGED <<vars, skip>>
     ELSE IF ~Allowed(St, rec.cmd)
       THEN /\ PrintT(<<"NOTALLOWED", l>>)
            /\ skip' = TRUE /\ UNCHANGED vars
     ELSE LET e == Exec(St, rec.cmd)
              a == Audit(e.S, AuditNames(rec))
          IN IF e.r = rec.r /\ a = rec.audit
             THEN Adopt(e.S, rec.cmd, e.r, a) /\ skip' = FALSE
             ELSE /\ PrintT(<<"BAD", ToJson([line |-> l, sig |-> Sig(St, rec.cmd) \o Suffix(rec, e.r = rec.r, Sig(St, rec.cmd)),
                                            r |-> e.r, audit |-> a])>>)
                  /\ IF TLCGet(7) = 0 THEN TLCSet(7, l) ELSE TRUE
                  /\ skip' = TRUE /\ UNCHANGED vars

TraceSpec == TraceInit /\ [][TraceNext]_<<vars, l, skip>>

TraceAccepted ==
  LET d == TLCGet("stats").diameter IN
  IF d - 1 = Len(Trace) /\ TLCGet(7) = 0 THEN TRUE
  ELSE LET at == IF TLCGet(7) # 0 THEN TLCGet(7) ELSE d IN
       /\ PrintT(<<"TRACE_REJECTED_AT", at, Len(Trace)>>)
       /\ IF at <= Len(Trace) THEN PrintT(<<"REJECTED_RECORD", ToJson(Trace[at])>>) ELSE TRUE
       /\ FALSE
=============================================================================
