----------------------------- MODULE ClientFault -----------------------------
(***************************************************************************)
(* Termination of every blocking client call under connection faults       *)
(* (property C10).  A session is a sequence of commands; the server's      *)
(* reply stream is delivered byte by byte; at any offset the connection    *)
(* may be cut cleanly (EOF), fail with a read error, have its writes fail, *)
(* or stall (then either the client's own read timeout fires - if it is    *)
(* inside a response - or the caller calls Close).  Callers honour the     *)
(* contract: a streaming command is consumed or closed.                    *)
(*                                                                         *)
(* The client's read deadline (imapclient/client.go read / readResponse,   *)
(* fetch.go handleFetch): none while it waits for the first octet of a     *)
(* response (a server may stay silent for as long as it likes, IDLE or     *)
(* not), 30 s from the first octet of a response to its CRLF, 5 min while  *)
(* a streamed literal is being consumed.  So a connection that stalls      *)
(* INSIDE a response is given up by the client itself, whatever the caller *)
(* does (a caller blocked in Collect or Wait cannot call Close); one that  *)
(* stalls BETWEEN two responses is the caller's to close.                  *)
(*                                                                         *)
(* Safety : a command reports success only if its tagged completion line   *)
(*          has been received completely (through its CRLF).               *)
(* Liveness: after a fault every issued call returns, Close returns, the   *)
(*          reader goroutine exits.                                        *)
(***************************************************************************)
EXTENDS Naturals, Sequences, FiniteSets, TLC

CONSTANT Layouts     \* set of reply-stream layouts the model is checked for

VARIABLES layout,    \* layout[i]: offset of the reply stream at which command i's tagged line is complete
          delivered, \* bytes of the reply stream the client has received
          fault,     \* "none" | "eof" | "readerr" | "writeerr" | "stall"
          inside,    \* the fault struck inside a response (at least one octet of it received, its CRLF not yet)
          issued,    \* number of commands issued so far (they are issued in order)
          result,    \* [1..NCmds -> "none" | "ok" | "err"]
          reader,    \* "run" | "exited"
          closeSt    \* "no" | "called" | "returned"   (Client.Close by the caller)

vars == <<layout, delivered, fault, inside, issued, result, reader, closeSt>>

NCmds == Len(layout)
EndOff == layout

Total == EndOff[NCmds]

\* layouts of the bounded model: 3 commands whose completions end at offsets 2,4,6 / 1,2,5
McLayouts == {<<2, 4, 6>>, <<1, 2, 5>>}

\* offsets known to lie between two responses: the start of the stream and the end of every tagged completion
\* (untagged responses end at offsets the layout does not name: there both are possible)
Boundary(d) == d = 0 \/ \E i \in 1..NCmds : EndOff[i] = d

Init == /\ layout \in Layouts /\ delivered = 0 /\ fault = "none" /\ inside = FALSE /\ issued = 0
        /\ result = [i \in 1..NCmds |-> "none"] /\ reader = "run" /\ closeSt = "no"

Returned(i) == i \in 1..NCmds /\ result[i] # "none"
LastOk == issued = 0 \/ (issued \in 1..NCmds /\ result[issued] = "ok")

\* the caller issues the next command once the previous call has returned
Issue == /\ issued < NCmds /\ closeSt = "no" /\ reader = "run"
         /\ LastOk                                      \* the previous call returned; a caller stops at the first error
         /\ issued' = issued + 1
         /\ UNCHANGED <<layout, delivered, fault, inside, result, reader, closeSt>>

Deliver == /\ fault = "none" /\ reader = "run" /\ issued > 0 /\ delivered < EndOff[issued]
           /\ delivered' = delivered + 1
           /\ UNCHANGED <<layout, fault, inside, issued, result, reader, closeSt>>

Fault(k) == /\ fault = "none" /\ k \in {"eof", "readerr", "writeerr", "stall"}
            /\ fault' = k
            /\ inside' \in (IF Boundary(delivered) THEN {FALSE} ELSE BOOLEAN)
            /\ UNCHANGED <<layout, delivered, issued, result, reader, closeSt>>

\* a call returns success only with its completion fully received
ReturnOk(i) == /\ i \in 1..issued /\ ~Returned(i) /\ delivered >= EndOff[i] /\ reader = "run"
               /\ result' = [result EXCEPT ![i] = "ok"]
               /\ UNCHANGED <<layout, delivered, fault, inside, issued, reader, closeSt>>

\* the reader notices the fault (EOF, error, its own timeout inside a response, Close) and exits,
\* failing every pending command
ReaderExit == /\ reader = "run"
              /\ \/ fault \in {"eof", "readerr"}
                 \/ fault = "stall" /\ inside          \* its own read deadline
                 \/ closeSt = "called"
                 \/ fault = "writeerr" /\ issued > 0 /\ ~Returned(issued)
              /\ reader' = "exited"
              /\ result' = [i \in 1..NCmds |-> IF i <= issued /\ result[i] = "none" THEN "err" ELSE result[i]]
              /\ UNCHANGED <<layout, delivered, fault, inside, issued, closeSt>>

\* a command issued after the reader is gone fails at once
IssueDead == /\ issued < NCmds /\ reader = "exited" /\ closeSt = "no" /\ LastOk
             /\ issued' = issued + 1 /\ result' = [result EXCEPT ![issued + 1] = "err"]
             /\ UNCHANGED <<layout, delivered, fault, inside, reader, closeSt>>

CallClose == /\ closeSt = "no" /\ closeSt' = "called"
             /\ UNCHANGED <<layout, delivered, fault, inside, issued, result, reader>>
CloseReturns == /\ closeSt = "called" /\ reader = "exited" /\ closeSt' = "returned"
                /\ UNCHANGED <<layout, delivered, fault, inside, issued, result, reader>>

Next == Issue \/ IssueDead \/ Deliver \/ (\E k \in {"eof", "readerr", "writeerr", "stall"} : Fault(k))
        \/ (\E i \in 1..NCmds : ReturnOk(i)) \/ ReaderExit \/ CallClose \/ CloseReturns

\* the caller eventually gives up on a stalled connection and closes the client
Fairness == /\ WF_vars(ReaderExit) /\ WF_vars(CloseReturns) /\ WF_vars(\E i \in 1..NCmds : ReturnOk(i))
            /\ WF_vars(fault # "none" /\ CallClose)

Spec == Init /\ [][Next]_vars /\ Fairness

\* the same system with a caller that never closes the client (it is blocked in one of the calls, or simply waits)
NextNoClose == Next /\ closeSt' = "no"
SpecNoClose == Init /\ [][NextNoClose]_vars
               /\ WF_vars(ReaderExit) /\ WF_vars(\E i \in 1..NCmds : ReturnOk(i))

\* ------------------------------------------------------------- properties (C10)
TypeOK == delivered \in 0..Total /\ issued \in 0..NCmds
NoSuccessWithoutCompletion == \A i \in 1..NCmds : result[i] = "ok" => delivered >= EndOff[i]
AllReturnAfterFault ==
  (fault # "none") ~> (/\ \A i \in 1..issued : Returned(i)
                       /\ closeSt = "returned" /\ reader = "exited")
\* a stall inside a response ends by the client's own timeout: every call returns although nobody closes the client
StallInsideResponseTimesOut ==
  (fault = "stall" /\ inside) ~> (reader = "exited" /\ \A i \in 1..issued : Returned(i))
=============================================================================
