------------------------------ MODULE CmdSpace ------------------------------
(* Property C02: client commands reach the server backend with the caller's *)
(* arguments intact.                                                        *)
(*                                                                          *)
(* Code anchors: imapclient command writers (Client.Login ... Client.Search,*)
(* writeFetchItems, writeSearchKey, statusItems, getSelectOpts) and         *)
(* imapserver command parsers (handleLogin ... handleSearch, handleFetchAtt,*)
(* readSearchKeyWithAtom, readListCmd, readStatusItem), joined over an      *)
(* in-memory connection; observed at a stub imapserver.Session.             *)
(*                                                                          *)
(* This module has three parts.                                             *)
(*  1. The CONFIGURATION state machine: the capability set the server is    *)
(*     configured with (rev1 only / rev1+rev2 / rev1+LITERAL+), and the     *)
(*     extensions enabled on the connection (ENABLE UTF8=ACCEPT, ENABLE     *)
(*     IMAP4rev2).  These select the client's encoder mode (quoted UTF-8,   *)
(*     non-synchronising literals, SEARCH CHARSET) and the server's feature *)
(*     set.  Every command is issued in every reachable configuration.      *)
(*  2. The VALUE SPACE: abstract command records (one shape per command),   *)
(*     what is legal for an advertised feature set, and Catalogue(cfg), the *)
(*     finite set of command instances that is enumerated.                  *)
(*  3. The NORMAL FORM: Norm(cmd) is the written-down meaning of the        *)
(*     property's "semantically equal"; Exp(cfg, cmd) is the sequence of    *)
(*     backend calls (normalised) the command must produce.  Every clause   *)
(*     of Norm cites the sentence that makes the two values equal.          *)
(*                                                                          *)
(* ---- representation of values ----                                      *)
(* String  = sequence of byte values 0..255 (transparent), or one of the   *)
(*           compressed forms whose first element is negative:              *)
(*             <<-2, c, n>>          n copies of byte c                     *)
(*             <<-3, n>>             the harness' fixed pattern of length n *)
(*                                   (contains CR, LF, 8-bit, never NUL)    *)
(*             <<-1, n, h1, h2, z>>  opaque: length n, fingerprint h1 h2    *)
(*                                   (computed by the harness identically   *)
(*                                   for what was sent and what was         *)
(*                                   received), z = 1 iff it has a NUL.     *)
(*           The harness uses a compressed form exactly when the string is  *)
(*           longer than 40 bytes, so every string Norm has to look into    *)
(*           ("inbox", a system flag, a header key) is transparent.         *)
(* Number  = 1..60 literally; 62, 63 stand for 2^32-2, 2^32-1 (61 is a gap  *)
(*           so that no false adjacency arises); 0 is "*" in a number set.  *)
(* Size    = 0..10^9 literally; 2000000001 = 2^32, 2000000002 = 2^63-1.     *)
(* NumSet  = [uid : BOOLEAN, sr : BOOLEAN, r : Seq(<<a, b>>)]               *)
(*           (sr: the SEARCHRES marker "$"; then r = <<>>).  <<a, b>> is    *)
(*           the range between a and b, ends in either order; the harness   *)
(*           builds each range in the documented representation of          *)
(*           imapnum.Range (Start <= Stop, n:* = {n, 0}, * = {0, 0}) and    *)
(*           keeps the ranges in the order given: a caller may write an     *)
(*           unsorted or overlapping slice literal.                         *)
(* Day     = <<set, day, tod, zone>>: set = 1 iff the date is populated,    *)
(*           calendar day number (days since 1970-01-01) of the time IN ITS *)
(*           OWN ZONE, seconds into that day, zone offset in minutes.       *)
(* Instant = [set, t, zone, frac]: seconds since 1970-01-01T00:00:00Z,      *)
(*           zone offset in minutes (100000 + s: an offset of s seconds     *)
(*           that is no whole number of minutes), frac = 1 iff the          *)
(*           sub-second part is non-zero.                                   *)
EXTENDS Integers, Sequences, FiniteSets, TLC

CONSTANT Thorough     \* BOOLEAN: the larger catalogue

Rng(f) == {f[i] : i \in DOMAIN f}
Top == 70             \* "*" inside canonical number sets (above every number, not adjacent to 63)

-----------------------------------------------------------------------------
(* Strings *)
IsCompressed(s) == Len(s) > 0 /\ s[1] < 0
StrLen(s) == IF ~IsCompressed(s) THEN Len(s)
             ELSE IF s[1] = -2 THEN s[3] ELSE s[2]
LowerB(c) == IF c \in 65..90 THEN c + 32 ELSE c
LowerS(s) == IF IsCompressed(s) THEN s ELSE [i \in 1..Len(s) |-> LowerB(s[i])]
HasNul(s) == IF ~IsCompressed(s) THEN 0 \in Rng(s)
             ELSE IF s[1] = -2 THEN s[2] = 0
             ELSE IF s[1] = -1 THEN s[5] = 1 ELSE FALSE
(* bytes that occur in no UTF-8 text (RFC 3629 section 3) *)
NeverUtf8 == {192, 193} \cup 245..255
HasBadByte(s) == IF ~IsCompressed(s) THEN Rng(s) \cap NeverUtf8 # {}
                 ELSE IF s[1] = -2 THEN s[2] \in NeverUtf8 ELSE FALSE

LitMax == 4096        \* imapserver: "Literals are limited to 4096 bytes for this command"
MboxMax == 1300       \* modified UTF-7 grows a name at most 3x; 3 * 1300 < LitMax

(* A string the protocol (as advertised by this server) need not carry:     *)
(* NUL is in no IMAP string (RFC 3501 section 9: CHAR8 = %x01-ff; literal8  *)
(* is not implemented by go-imap); a string longer than LitMax is refused   *)
(* by the server with NO [TOOBIG], which RFC 7888 section 4 allows.  For    *)
(* such arguments the property's weak half still applies: the command is    *)
(* refused, or the argument arrives intact (see Accept).                    *)
HardStr(s) == HasNul(s) \/ StrLen(s) > LitMax \/ HasBadByte(s)
(* a mailbox name (or LIST pattern) travels in modified UTF-7: printable ASCII *)
(* other than "&" represents itself, everything else grows *)
SelfUtf7(c) == c \in 32..126 /\ c # 38
HardMbox(s) == \/ HardStr(s)
               \/ (IsCompressed(s) /\ StrLen(s) > MboxMax /\ ~(s[1] = -2 /\ SelfUtf7(s[2])))
HardData(s) == HasNul(s)           \* APPEND payload: any size up to the 100 MiB limit

RECURSIVE StrLess(_, _)
StrLess(a, b) == IF a = <<>> THEN b # <<>>
                 ELSE IF b = <<>> THEN FALSE
                 ELSE IF a[1] # b[1] THEN a[1] < b[1]
                 ELSE StrLess(Tail(a), Tail(b))
RECURSIVE SortStrs(_)
SortStrs(S) == IF S = {} THEN <<>>
               ELSE LET m == CHOOSE x \in S : \A y \in S : x = y \/ StrLess(x, y)
                    IN <<m>> \o SortStrs(S \ {m})
RECURSIVE SortInts(_)
SortInts(S) == IF S = {} THEN <<>>
               ELSE LET m == CHOOSE x \in S : \A y \in S : x <= y
                    IN <<m>> \o SortInts(S \ {m})

-----------------------------------------------------------------------------
(* NORMAL FORM.  Each clause: what is folded, and the sentence allowing it. *)

(* N1 INBOX.  RFC 3501 section 5.1: "The case-insensitive mailbox name INBOX *)
(* is a special name reserved to mean 'the primary mailbox for this user'"; *)
(* section 9: "All case variants of INBOX (e.g., "iNbOx") MUST be           *)
(* interpreted as INBOX not as an astring."  Applies where the grammar says *)
(* `mailbox` (also the LIST reference: list = "LIST" SP mailbox SP          *)
(* list-mailbox), not to LIST patterns.                                     *)
InboxL == <<105, 110, 98, 111, 120>>
InboxU == <<73, 78, 66, 79, 88>>
NormMbox(s) == IF LowerS(s) = InboxL THEN InboxU ELSE s

(* N2 system flags.  RFC 3501 section 9: flag = "\Answered" / "\Flagged" /  *)
(* "\Deleted" / "\Seen" / "\Draft" / flag-keyword / flag-extension and      *)
(* flag-fetch = flag / "\Recent"; "Except as noted otherwise, all           *)
(* alphabetic characters are case-insensitive.  ... Implementations MUST    *)
(* accept these strings in a case-insensitive fashion."  Only these grammar *)
(* tokens are folded; keywords (atoms) are compared exactly.                *)
SysFlagsL == { <<92, 115, 101, 101, 110>>,                          \* \seen
               <<92, 97, 110, 115, 119, 101, 114, 101, 100>>,       \* \answered
               <<92, 102, 108, 97, 103, 103, 101, 100>>,            \* \flagged
               <<92, 100, 101, 108, 101, 116, 101, 100>>,           \* \deleted
               <<92, 100, 114, 97, 102, 116>>,                      \* \draft
               <<92, 114, 101, 99, 101, 110, 116>> }                \* \recent
NormFlag(f) == IF LowerS(f) \in SysFlagsL THEN LowerS(f) ELSE f
(* N3 a flag list is a set.  RFC 3501 section 2.3.2: "A message has         *)
(* associated with it a list of zero or more named tokens, known as         *)
(* 'flags'.  A flag is set by its addition to this list, and unset by its   *)
(* removal."  Order and repetition carry no meaning; the normal form is the *)
(* sorted duplicate-free list.                                              *)
NormFlags(fs) == SortStrs({NormFlag(fs[i]) : i \in DOMAIN fs})

(* N4 special-use attributes.  RFC 6154 section 6: use-attr = "\All" /      *)
(* "\Archive" / "\Drafts" / "\Flagged" / "\Junk" / "\Sent" / "\Trash"       *)
(* (RFC 8457: "\Important"): grammar tokens, case-insensitive by RFC 3501   *)
(* section 9 (above).  Extension attributes are compared exactly.  The USE  *)
(* list is kept as a list.                                                  *)
UseAttrsL == { <<92, 97, 108, 108>>, <<92, 97, 114, 99, 104, 105, 118, 101>>,
               <<92, 100, 114, 97, 102, 116, 115>>, <<92, 102, 108, 97, 103, 103, 101, 100>>,
               <<92, 106, 117, 110, 107>>, <<92, 115, 101, 110, 116>>,
               <<92, 116, 114, 97, 115, 104>>, <<92, 105, 109, 112, 111, 114, 116, 97, 110, 116>> }
NormAttr(a) == IF LowerS(a) \in UseAttrsL THEN LowerS(a) ELSE a

(* N5 the five header search keys.  RFC 3501 section 6.4.4 defines BCC, CC, *)
(* FROM, SUBJECT, TO <string> as matching "the envelope structure's ...     *)
(* field", i.e. the header of that name; go-imap sends Header{Key,Value}    *)
(* with such a key as the dedicated search key, which is a grammar token    *)
(* (case-insensitive, RFC 3501 section 9), and header field names are       *)
(* case-insensitive (RFC 822 section 3.4.7: "the field-names "From",        *)
(* "FROM", "from", and even "FroM" are semantically equal").  Other header  *)
(* keys are compared exactly.                                               *)
EnvKeysL == { <<98, 99, 99>>, <<99, 99>>, <<102, 114, 111, 109>>,
              <<115, 117, 98, 106, 101, 99, 116>>, <<116, 111>> }
NormHdrKey(k) == IF LowerS(k) \in EnvKeysL THEN LowerS(k) ELSE k

(* N6 number sets.  RFC 3501 section 9 (seq-range): "Example: 2:4 and 4:2   *)
(* are equivalent, as are *:4 and 4:*" and sequence-set "Example: a message *)
(* sequence number set of 2,4:7,9,12:* ..." denotes the set of numbers;     *)
(* "*" is the largest number in use, and "n:*" always includes it (section  *)
(* 6.4.8), so "*" behaves as a point above every number.  Normal form: the  *)
(* sorted disjoint non-adjacent ranges of the union, "*" written Top.       *)
PointOf(n) == IF n = 0 \/ n >= Top THEN Top ELSE n
PairPts(p) == LET a == PointOf(p[1]) b == PointOf(p[2])
              IN IF a <= b THEN a..b ELSE b..a
SetPts(r) == UNION {PairPts(r[i]) : i \in DOMAIN r}
RangesOf(P) ==
  LET starts == SortInts({x \in P : x - 1 \notin P})
      EndOf(x) == CHOOSE y \in P : y >= x /\ y + 1 \notin P /\ \A z \in x..y : z \in P
  IN [i \in 1..Len(starts) |-> <<starts[i], EndOf(starts[i])>>]
NormSet(ns) == [uid |-> ns.uid, sr |-> ns.sr, r |-> RangesOf(SetPts(ns.r))]

(* N7 search dates.  search.go, SearchCriteria: "Only the date is used, the *)
(* time and timezone are ignored"; RFC 3501 section 6.4.4: "SINCE <date>:   *)
(* Messages whose internal date (disregarding time and timezone) is within  *)
(* or later than the specified date."  The date grammar carries day, month, *)
(* year only.  (ON d = SINCE d and BEFORE d+1 needs no clause: the API has  *)
(* no ON field; the client may use ON on the wire, the days must survive.)  *)
NoDay == <<0, 0, 0, 0>>
NormDay(d) == IF d[1] = 1 THEN <<1, d[2], 0, 0>> ELSE NoDay

(* N8 APPEND date-time.  RFC 3501 section 9: date-time = DQUOTE             *)
(* date-day-fixed "-" date-month "-" date-year SP time SP zone DQUOTE with  *)
(* time = 2DIGIT ":" 2DIGIT ":" 2DIGIT -- no fraction of a second is        *)
(* carried.  The value is a point in time (section 2.3.3 "Internal Date");  *)
(* Go: Time.Equal "reports whether t and u represent the same time          *)
(* instant.  Two times can be equal even if they are in different           *)
(* locations."  Normal form: the instant in whole seconds; unset = unset    *)
(* (the backend then uses the current time).                                *)
NoInstant == [set |-> FALSE, t |-> 0, zone |-> 0, frac |-> 0]
NormInstant(d) == IF d.set THEN [set |-> TRUE, t |-> d.t, zone |-> 0, frac |-> 0] ELSE NoInstant

(* N9 zero size bound = unset: no clause needed (Larger/Smaller 0 is 0 on   *)
(* both sides; search.go: zero value = field not populated).                *)

(* N10 SEARCH return options.  RFC 4731 section 3.1: "If the list of result *)
(* options is empty, that requests the server to return an ESEARCH response *)
(* instead of the SEARCH response.  This is equivalent to "(ALL)"."; a      *)
(* SEARCH without RETURN returns all matches (RFC 3501 section 6.4.4).      *)
(* Not applied when SAVE is requested (RFC 5182 section 2.1: with only SAVE *)
(* no result is returned).                                                  *)
NormSRet(o) == IF ~o.min /\ ~o.max /\ ~o.all /\ ~o.count /\ ~o.save
               THEN [o EXCEPT !.all = TRUE] ELSE o

(* N11 UID FETCH implies the UID item.  RFC 3501 section 6.4.8: "server     *)
(* implementations MUST implicitly include the UID message data item as     *)
(* part of any FETCH response caused by a UID command, regardless of        *)
(* whether a UID was specified as a message data item to the FETCH."        *)

(* N12 nil options = zero options ("A nil options pointer is equivalent to  *)
(* a zero options value", doc comments of Client.Fetch/Status/Select/List); *)
(* nil slice = empty slice: done by the harness' conversion (there is one   *)
(* abstract value for both).  Boolean option groups are records, so their   *)
(* order on the wire is irrelevant by construction.  All other list-typed   *)
(* fields (LIST patterns, body sections, header field lists, search         *)
(* criteria lists, NOT/OR lists) are compared as lists.                     *)

RECURSIVE NormCrit(_)
NormCrit(k) ==
  [seq        |-> [i \in 1..Len(k.seq) |-> NormSet(k.seq[i])],
   uidset     |-> [i \in 1..Len(k.uidset) |-> NormSet(k.uidset[i])],
   since      |-> NormDay(k.since),
   before     |-> NormDay(k.before),
   sentsince  |-> NormDay(k.sentsince),
   sentbefore |-> NormDay(k.sentbefore),
   header     |-> [i \in 1..Len(k.header) |-> [k |-> NormHdrKey(k.header[i].k), v |-> k.header[i].v]],
   body       |-> k.body,
   text       |-> k.text,
   flag       |-> NormFlags(k.flag),
   notflag    |-> NormFlags(k.notflag),
   larger     |-> k.larger,
   smaller    |-> k.smaller,
   not        |-> [i \in 1..Len(k.not) |-> NormCrit(k.not[i])],
   or         |-> [i \in 1..Len(k.or) |-> <<NormCrit(k.or[i][1]), NormCrit(k.or[i][2])>>]]

(* Norm of one command / one backend call (they share their shapes). *)
Norm(x) ==
  CASE x.c \in {"CREATE"} -> [x EXCEPT !.mbox = NormMbox(@), !.use = [i \in 1..Len(@) |-> NormAttr(@[i])]]
    [] x.c \in {"DELETE", "SUBSCRIBE", "UNSUBSCRIBE", "SELECT", "STATUS"} -> [x EXCEPT !.mbox = NormMbox(@)]
    [] x.c = "RENAME" -> [x EXCEPT !.mbox = NormMbox(@), !.to = NormMbox(@)]
    [] x.c = "LIST" -> [x EXCEPT !.ref = NormMbox(@)]
    [] x.c = "APPEND" -> [x EXCEPT !.mbox = NormMbox(@), !.flags = NormFlags(@), !.date = NormInstant(@)]
    [] x.c = "FETCH" -> [x EXCEPT !.set = NormSet(@),
                                  !.items = IF x.set.uid THEN [@ EXCEPT !.uid = TRUE] ELSE @]
    [] x.c = "STORE" -> [x EXCEPT !.set = NormSet(@), !.flags = NormFlags(@)]
    [] x.c = "SEARCH" -> [x EXCEPT !.crit = NormCrit(@), !.sret = NormSRet(@)]
    [] x.c \in {"COPY", "MOVE"} -> [x EXCEPT !.set = NormSet(@), !.mbox = NormMbox(@)]
    [] x.c = "UIDEXPUNGE" -> [x EXCEPT !.set = NormSet(@)]
    [] OTHER -> x      \* LOGIN (credentials exact), UNSELECT, EXPUNGE, NAMESPACE, IDLE, ENABLED, CAPS

NormCalls(s) == [i \in 1..Len(s) |-> Norm(s[i])]

-----------------------------------------------------------------------------
(* CONFIGURATION *)
CapsKinds == {"rev1", "rev2", "litplus"}

(* Capabilities the server advertises after authentication for each        *)
(* configuration (imapserver.Conn.availableCaps with Options.Caps of the    *)
(* harness: {IMAP4rev1}; {IMAP4rev1, IMAP4rev2, BINARY, CREATE-SPECIAL-USE}; *)
(* {IMAP4rev1, LITERAL+, and every extension folded into IMAP4rev2, BINARY, *)
(* CREATE-SPECIAL-USE}).  The harness compares the real CAPABILITY response *)
(* with this record (command "CAPABILITY").                                 *)
Ext(caps) == caps # "rev1"
Adv(caps) ==
  [rev1 |-> TRUE, rev2 |-> caps = "rev2", literalminus |-> TRUE, literalplus |-> caps = "litplus",
   saslir |-> TRUE, unselect |-> TRUE, enable |-> TRUE, idle |-> TRUE, utf8accept |-> TRUE,
   namespace |-> Ext(caps), uidplus |-> Ext(caps), esearch |-> Ext(caps), searchres |-> Ext(caps),
   listextended |-> Ext(caps), liststatus |-> Ext(caps), move |-> Ext(caps), statussize |-> Ext(caps),
   binary |-> Ext(caps), createspecialuse |-> Ext(caps)]

Cfgs == [caps : CapsKinds, utf8 : BOOLEAN, rev2 : BOOLEAN]
CfgOK(cfg) == cfg.rev2 => Adv(cfg.caps).rev2     \* only advertised capabilities are enabled

(* the client's encoder mode in a configuration (imapclient beginCommand / search) *)
QuotedUTF8(cfg) == Adv(cfg.caps).rev2 \/ cfg.utf8
NonSyncAll(cfg) == Adv(cfg.caps).literalplus

-----------------------------------------------------------------------------
(* VALUE SPACE: constructors *)
NS(uid, r) == [uid |-> uid, sr |-> FALSE, r |-> r]
SRes == [uid |-> TRUE, sr |-> TRUE, r |-> <<>>]
NoItems == [envelope |-> FALSE, flags |-> FALSE, internaldate |-> FALSE, rfc822size |-> FALSE, uid |-> FALSE]
NoSt == [messages |-> FALSE, uidnext |-> FALSE, uidvalidity |-> FALSE, unseen |-> FALSE,
         deleted |-> FALSE, size |-> FALSE]
NoSel == [sub |-> FALSE, remote |-> FALSE, rec |-> FALSE]
NoLRet == [sub |-> FALSE, children |-> FALSE]
NoLSt == [on |-> FALSE, st |-> NoSt]
NoSRet == [min |-> FALSE, max |-> FALSE, all |-> FALSE, count |-> FALSE, save |-> FALSE]
NoPartial == [on |-> FALSE, off |-> 0, sz |-> 0]
Sec(spec, part, hf, hfn, partial, peek) ==
  [spec |-> spec, part |-> part, hf |-> hf, hfn |-> hfn, partial |-> partial, peek |-> peek]
BinSec(part, partial, peek) == [part |-> part, partial |-> partial, peek |-> peek]
EC == [seq |-> <<>>, uidset |-> <<>>, since |-> NoDay, before |-> NoDay, sentsince |-> NoDay,
       sentbefore |-> NoDay, header |-> <<>>, body |-> <<>>, text |-> <<>>, flag |-> <<>>,
       notflag |-> <<>>, larger |-> 0, smaller |-> 0, not |-> <<>>, or |-> <<>>]
D(day, tod, zone) == <<1, day, tod, zone>>
At(t, zone, frac) == [set |-> TRUE, t |-> t, zone |-> zone, frac |-> frac]

CLogin(u, p) == [c |-> "LOGIN", user |-> u, pass |-> p]
CCreate(m, use) == [c |-> "CREATE", mbox |-> m, use |-> use]
CMbox(name, m) == [c |-> name, mbox |-> m]              \* DELETE SUBSCRIBE UNSUBSCRIBE
CRename(a, b) == [c |-> "RENAME", mbox |-> a, to |-> b]
CSelect(m, ro) == [c |-> "SELECT", mbox |-> m, ro |-> ro]
CList(ref, pats, sel, ret, st) == [c |-> "LIST", ref |-> ref, pats |-> pats, lsel |-> sel, lret |-> ret, lst |-> st]
CStatus(m, st) == [c |-> "STATUS", mbox |-> m, st |-> st]
CAppend(m, flags, date, data) == [c |-> "APPEND", mbox |-> m, flags |-> flags, date |-> date, data |-> data]
CFetch(set, items, bs, secs, bin, binsz) ==
  [c |-> "FETCH", set |-> set, items |-> items, bs |-> bs, secs |-> secs, bin |-> bin, binsz |-> binsz]
CStore(set, op, silent, flags) == [c |-> "STORE", set |-> set, op |-> op, silent |-> silent, flags |-> flags]
CSearch(uid, crit, ret) == [c |-> "SEARCH", uid |-> uid, crit |-> crit, sret |-> ret]
CCopy(name, set, m) == [c |-> name, set |-> set, mbox |-> m]      \* COPY MOVE
CUidExpunge(set) == [c |-> "UIDEXPUNGE", set |-> set]
CSimple(name) == [c |-> name]         \* UNSELECT CLOSE EXPUNGE NAMESPACE IDLE CAPABILITY
CEnable(utf8, rev2) == [c |-> "ENABLE", utf8 |-> utf8, rev2 |-> rev2]

-----------------------------------------------------------------------------
(* What the backend must be called with. *)
Exp(cfg, cmd) ==
  CASE cmd.c = "CLOSE" -> <<[c |-> "EXPUNGE"], [c |-> "UNSELECT"]>>
       \* RFC 3501 section 6.4.2: CLOSE "permanently removes all messages that have the
       \* \Deleted flag set from the currently selected mailbox, and returns to the
       \* authenticated state"
    [] cmd.c = "ENABLE" -> <<[c |-> "ENABLED", utf8 |-> cmd.utf8, rev2 |-> cmd.rev2]>>
       \* no backend call: the connection enables what was asked (RFC 5161 section 3.1:
       \* the ENABLED response lists the extensions enabled by this command)
    [] cmd.c = "CAPABILITY" -> <<[c |-> "CAPS", caps |-> Adv(cfg.caps)]>>
    [] OTHER -> <<Norm(cmd)>>

-----------------------------------------------------------------------------
(* LEGALITY: the command uses only advertised features and protocol-legal   *)
(* values, so that a refusal by the server is a defect, not a misuse.       *)
AnySt(st) == st.messages \/ st.uidnext \/ st.uidvalidity \/ st.unseen \/ st.deleted \/ st.size
StAdvertised(a, st) == (st.size => a.statussize) /\ (st.deleted => a.rev2)
   \* status.go: NumDeleted "requires IMAP4rev2 or QUOTA", Size "requires IMAP4rev2 or STATUS=SIZE"
SetOK(a, ns) == IF ns.sr THEN a.searchres /\ ns.uid /\ ns.r = <<>>
                ELSE ns.r # <<>> /\ \A i \in DOMAIN ns.r : ns.r[i][1] \in 0..63 /\ ns.r[i][2] \in 0..63
AtomByte(b) == b \in 33..126 /\ b \notin {34, 37, 40, 41, 42, 92, 93, 123}
FlagOK(f) == /\ ~IsCompressed(f) /\ Len(f) > 0
             /\ \A i \in 1..Len(f) : IF i = 1 THEN AtomByte(f[i]) \/ f[i] = 92 ELSE AtomByte(f[i])
             /\ (f[1] = 92 => Len(f) > 1)
SizeOK(n) == (n >= 0 /\ n <= 1000000000) \/ n \in {2000000001, 2000000002}
PartOK(p) == \A i \in DOMAIN p : p[i] >= 1 /\ p[i] <= 1000000
PartialOK(p) == p.on => (SizeOK(p.off) /\ SizeOK(p.sz) /\ p.sz > 0)
SecOK(s) == /\ s.spec \in {"", "HEADER", "MIME", "TEXT"}
            /\ PartOK(s.part) /\ PartialOK(s.partial)
            /\ (s.spec = "MIME" => s.part # <<>>)       \* RFC 3501 6.4.5: MIME needs a part prefix
            /\ (s.hf # <<>> \/ s.hfn # <<>>) => (s.spec = "HEADER" /\ (s.hf = <<>> \/ s.hfn = <<>>))
RECURSIVE CritOK(_, _)
CritOK(a, k) ==
  /\ \A i \in DOMAIN k.seq : SetOK(a, k.seq[i]) /\ ~k.seq[i].uid /\ ~k.seq[i].sr
  /\ \A i \in DOMAIN k.uidset : SetOK(a, k.uidset[i]) /\ k.uidset[i].uid
  /\ \A i \in DOMAIN k.flag : FlagOK(k.flag[i])
  /\ \A i \in DOMAIN k.notflag : FlagOK(k.notflag[i])
  /\ SizeOK(k.larger) /\ SizeOK(k.smaller)
  /\ \A i \in DOMAIN k.header : k.header[i].k # <<>>
  /\ \A i \in DOMAIN k.not : CritOK(a, k.not[i])
  /\ \A i \in DOMAIN k.or : CritOK(a, k.or[i][1]) /\ CritOK(a, k.or[i][2])

Legal(cfg, cmd) ==
  LET a == Adv(cfg.caps) IN
  /\ CfgOK(cfg)
  /\ CASE cmd.c = "LOGIN" -> ~cfg.utf8 /\ ~cfg.rev2        \* ENABLE needs the authenticated state
       [] cmd.c = "CREATE" -> (cmd.use # <<>> => a.createspecialuse) /\ \A i \in DOMAIN cmd.use : FlagOK(cmd.use[i]) /\ cmd.use[i][1] = 92
       [] cmd.c = "LIST" -> /\ cmd.pats # <<>> /\ \A i \in DOMAIN cmd.pats : cmd.pats[i] # <<>>
                            /\ Len(cmd.pats) = 1          \* Client.List takes one pattern
                            /\ (cmd.lsel.rec => cmd.lsel.sub)   \* RFC 5258 section 3.1
                            \* (selection and return options are not tied to an advertisement here: the server
                            \* implements the extended syntax whatever it advertises, and the client API does not check)
                            /\ (cmd.lst.on => a.liststatus /\ a.listextended /\ AnySt(cmd.lst.st) /\ StAdvertised(a, cmd.lst.st))
                            /\ (~cmd.lst.on => cmd.lst.st = NoSt)
       [] cmd.c = "STATUS" -> AnySt(cmd.st) /\ StAdvertised(a, cmd.st)
       [] cmd.c = "APPEND" -> (\A i \in DOMAIN cmd.flags : FlagOK(cmd.flags[i])) /\ StrLen(cmd.data) > 0
       [] cmd.c = "FETCH" -> /\ SetOK(a, cmd.set)
                             /\ cmd.bs \in {"none", "body", "ext"}
                             /\ \A i \in DOMAIN cmd.secs : SecOK(cmd.secs[i])
                             /\ \A i \in DOMAIN cmd.bin : PartOK(cmd.bin[i].part) /\ PartialOK(cmd.bin[i].partial)
                             /\ \A i \in DOMAIN cmd.binsz : PartOK(cmd.binsz[i])
                             /\ ((cmd.bin # <<>> \/ cmd.binsz # <<>>) => a.binary)
                             /\ (cmd.set.uid \/ cmd.items # NoItems \/ cmd.bs # "none" \/ cmd.secs # <<>>
                                   \/ cmd.bin # <<>> \/ cmd.binsz # <<>>)
       [] cmd.c = "STORE" -> SetOK(a, cmd.set) /\ cmd.op \in {"set", "add", "del"} /\ \A i \in DOMAIN cmd.flags : FlagOK(cmd.flags[i])
       [] cmd.c = "SEARCH" -> /\ CritOK(a, cmd.crit)
                              /\ ((cmd.sret.min \/ cmd.sret.max \/ cmd.sret.all \/ cmd.sret.count) => a.esearch)
                              /\ (cmd.sret.save => a.searchres)
       [] cmd.c = "COPY" -> SetOK(a, cmd.set)
       [] cmd.c = "MOVE" -> SetOK(a, cmd.set) /\ a.move
       [] cmd.c = "UIDEXPUNGE" -> SetOK(a, cmd.set) /\ cmd.set.uid /\ a.uidplus
       [] cmd.c = "UNSELECT" -> a.unselect
       [] cmd.c = "NAMESPACE" -> a.namespace
       [] cmd.c = "IDLE" -> a.idle
       [] cmd.c = "ENABLE" -> a.enable /\ (cmd.utf8 \/ cmd.rev2) /\ (cmd.rev2 => a.rev2) /\ (cmd.utf8 => a.utf8accept)
       [] OTHER -> TRUE

(* MustOK: every string argument is one the protocol carries, so the        *)
(* command must complete OK and be delivered. *)
RECURSIVE CritHard(_)
CritHard(k) ==
  \/ \E i \in DOMAIN k.header : HardStr(k.header[i].k) \/ HardStr(k.header[i].v)
  \/ \E i \in DOMAIN k.body : HardStr(k.body[i])
  \/ \E i \in DOMAIN k.text : HardStr(k.text[i])
  \/ \E i \in DOMAIN k.not : CritHard(k.not[i])
  \/ \E i \in DOMAIN k.or : CritHard(k.or[i][1]) \/ CritHard(k.or[i][2])
Hard(cmd) ==
  CASE cmd.c = "LOGIN" -> HardStr(cmd.user) \/ HardStr(cmd.pass)
    [] cmd.c \in {"CREATE", "DELETE", "SUBSCRIBE", "UNSUBSCRIBE", "SELECT", "STATUS", "COPY", "MOVE"} -> HardMbox(cmd.mbox)
    [] cmd.c = "RENAME" -> HardMbox(cmd.mbox) \/ HardMbox(cmd.to)
    [] cmd.c = "LIST" -> HardMbox(cmd.ref) \/ \E i \in DOMAIN cmd.pats : HardMbox(cmd.pats[i])
    [] cmd.c = "APPEND" -> HardMbox(cmd.mbox) \/ HardData(cmd.data)
    [] cmd.c = "FETCH" -> \E i \in DOMAIN cmd.secs : \E j \in DOMAIN cmd.secs[i].hf : HardStr(cmd.secs[i].hf[j])
    [] cmd.c = "SEARCH" -> CritHard(cmd.crit)
    [] OTHER -> FALSE
MustOK(cmd) == ~Hard(cmd)

(* The judgement on one observed command: ok = the client call completed OK, *)
(* recv = the backend calls it produced (raw abstract form). *)
Accept(cfg, cmd, ok, recv) ==
  \/ ok /\ NormCalls(recv) = Exp(cfg, cmd)
  \/ ~MustOK(cmd) /\ ~ok /\ recv = <<>>      \* refused as a whole, nothing (altered) delivered

-----------------------------------------------------------------------------
(* CATALOGUE: strings *)
sPlain == <<98, 111, 120>>                  \* box
sSp == <<97, 32, 98>>                       \* a b
sQuote == <<97, 34, 98, 92, 99>>            \* a"b\c
sCrlf == <<97, 13, 10, 98>>                 \* a CR LF b
sNul == <<97, 0, 98>>                       \* a NUL b
sUtf8 == <<195, 169, 116, 195, 169>>        \* ete with acute accents
sBadUtf8 == <<97, 255, 98>>                 \* not UTF-8
sEmpty == <<>>
s4096 == <<-2, 97, 4096>>
s4097 == <<-2, 97, 4097>>
sInbox == <<105, 78, 98, 79, 120>>          \* iNbOx
sAmp == <<97, 38, 98>>                      \* a&b
sAmpDash == <<38, 45>>                      \* &-
sWild == <<97, 37, 98, 42>>                 \* a%b*
sLit == <<123, 53, 125>>                    \* {5}
sNil == <<78, 73, 76>>                      \* NIL
sParen == <<40, 97, 41, 32, 93>>            \* (a) ]
sOther == <<111, 116, 104, 101, 114>>       \* other

(* astring arguments (LOGIN, SEARCH strings): every class *)
AStrs == <<sPlain, sSp, sQuote, sCrlf, sNul, sUtf8, sBadUtf8, sEmpty, s4096, s4097, sInbox, sAmp,
           sAmpDash, sWild, sLit, sNil, sParen>>
(* mailbox names: not the byte string that is no Unicode text (RFC 3501      *)
(* section 5.1.3: names are Unicode in modified UTF-7) *)
Mboxes == <<sPlain, sSp, sQuote, sCrlf, sNul, sUtf8, sEmpty, s4096, s4097, sInbox, sAmp,
            sAmpDash, sWild, sLit, sNil, sParen>>
(* LIST patterns: non-empty (the empty pattern is the delimiter request,    *)
(* RFC 3501 section 6.3.8, a different operation) *)
Pats == <<sPlain, sSp, sQuote, sCrlf, sNul, sUtf8, s4096, s4097, sInbox, sAmp,
          sAmpDash, sWild, sLit, sNil, sParen, <<42>>, <<37>>>>

Nth(s, i) == s[((i - 1) % Len(s)) + 1]
Idx(s) == 1..Len(s)

(* flags *)
fSeen == <<92, 83, 101, 101, 110>>                   \* \Seen
fDeleted == <<92, 68, 101, 108, 101, 116, 101, 100>> \* \Deleted
fAnswered == <<92, 65, 110, 115, 119, 101, 114, 101, 100>>
fFlagged == <<92, 70, 108, 97, 103, 103, 101, 100>>
fDraft == <<92, 68, 114, 97, 102, 116>>
fRecent == <<92, 82, 101, 99, 101, 110, 116>>
fSeenOdd == <<92, 115, 69, 69, 78>>                  \* \sEEN
fFwd == <<36, 70, 111, 114, 119, 97, 114, 100, 101, 100>>   \* $Forwarded
fKw == <<77, 121, 75, 119>>                          \* MyKw
fKw2 == <<120, 45, 49>>                              \* x-1
fExt == <<92, 88, 102, 111, 111>>                    \* \Xfoo
\* keywords spelled like system flags, without the backslash: they are keywords (KEYWORD Seen is not SEEN)
fKwSeen == <<83, 101, 101, 110>>                     \* Seen
fKwDeleted == <<100, 101, 108, 101, 116, 101, 100>>  \* deleted
fKwRecent == <<82, 69, 67, 69, 78, 84>>              \* RECENT
FlagLists == << <<>>, <<fSeen>>, <<fSeen, fDeleted>>, <<fKw>>, <<fSeenOdd, fFwd, fKw2>>,
                <<fAnswered, fFlagged, fDraft, fExt>>, <<fKw, fKw>>, <<fKwSeen, fSeen, fKwDeleted>> >>

(* number sets *)
SeqSets == << <<<<1, 1>>>>, <<<<1, 3>>>>, <<<<1, 1>>, <<3, 3>>, <<5, 5>>>>, <<<<2, 0>>>>, <<<<0, 0>>>>,
              <<<<5, 1>>>>, <<<<1, 2>>, <<2, 4>>>>, <<<<3, 3>>, <<1, 1>>>>, <<<<62, 63>>>>,
              <<<<1, 1>>, <<63, 63>>>>, <<<<4, 6>>, <<7, 9>>, <<12, 0>>>> >>
NumSets(a) == [i \in 1..(2 * Len(SeqSets)) |->
                 IF i <= Len(SeqSets) THEN NS(FALSE, SeqSets[i]) ELSE NS(TRUE, SeqSets[i - Len(SeqSets)])]
              \o (IF a.searchres THEN <<SRes>> ELSE <<>>)

(* FETCH *)
ItemNames == <<"envelope", "flags", "internaldate", "rfc822size", "uid">>
It(S) == [envelope |-> "envelope" \in S, flags |-> "flags" \in S, internaldate |-> "internaldate" \in S,
          rfc822size |-> "rfc822size" \in S, uid |-> "uid" \in S]
ItemSets == IF Thorough THEN SUBSET Rng(ItemNames)
            ELSE {S \in SUBSET Rng(ItemNames) : Cardinality(S) <= 2 \/ Cardinality(S) = 5}
hA == <<65>>
hB == <<66>>
hSubject == <<83, 117, 98, 106, 101, 99, 116>>
P(off, sz) == [on |-> TRUE, off |-> off, sz |-> sz]
Secs == <<
  Sec("", <<>>, <<>>, <<>>, NoPartial, FALSE),                    \* BODY[]
  Sec("HEADER", <<>>, <<>>, <<>>, NoPartial, FALSE),              \* BODY[HEADER]
  Sec("TEXT", <<>>, <<>>, <<>>, NoPartial, FALSE),                \* BODY[TEXT]
  Sec("HEADER", <<>>, <<hA, hB>>, <<>>, NoPartial, FALSE),        \* BODY[HEADER.FIELDS (A B)]
  Sec("HEADER", <<>>, <<>>, <<hA>>, NoPartial, FALSE),            \* BODY[HEADER.FIELDS.NOT (A)]
  Sec("TEXT", <<1, 2>>, <<>>, <<>>, NoPartial, FALSE),            \* BODY[1.2.TEXT]
  Sec("MIME", <<1>>, <<>>, <<>>, NoPartial, FALSE),               \* BODY[1.MIME]
  Sec("", <<1>>, <<>>, <<>>, NoPartial, FALSE),                   \* BODY[1]
  Sec("", <<>>, <<>>, <<>>, P(0, 10), FALSE),                     \* BODY[]<0.10>
  Sec("", <<>>, <<>>, <<>>, NoPartial, TRUE),                     \* BODY.PEEK[]
  Sec("HEADER", <<2>>, <<hSubject>>, <<>>, P(5, 100), TRUE),      \* BODY.PEEK[2.HEADER.FIELDS (Subject)]<5.100>
  Sec("HEADER", <<1, 2>>, <<>>, <<>>, NoPartial, FALSE),          \* BODY[1.2.HEADER]
  Sec("HEADER", <<>>, <<sSp, sQuote, sUtf8, hA>>, <<>>, NoPartial, TRUE),  \* odd header names
  Sec("HEADER", <<12, 1, 3>>, <<>>, <<hB, hA, hB>>, P(2000000001, 2000000002), FALSE),
  Sec("TEXT", <<>>, <<>>, <<>>, P(4096, 1), TRUE) >>
Bins == << BinSec(<<1>>, NoPartial, FALSE), BinSec(<<>>, NoPartial, FALSE),
           BinSec(<<1, 2>>, P(0, 10), TRUE), BinSec(<<3>>, NoPartial, TRUE) >>
BinSzs == << <<1>>, <<>>, <<1, 2, 3>> >>
FetchCases(a) ==
  LET ns == NumSets(a)
      F(i, items, bs, secs, bin, binsz) == CFetch(Nth(ns, i), items, bs, secs, bin, binsz)
      itemSeq == SortStrs({ [i \in 1..5 |-> IF ItemNames[i] \in S THEN 1 ELSE 0] : S \in ItemSets })
      ItOf(v) == It({ItemNames[i] : i \in {j \in 1..5 : v[j] = 1}})
  IN
  (* every number set with a plain item *)
  {CFetch(ns[i], It({"flags"}), "none", <<>>, <<>>, <<>>) : i \in Idx(ns)}
  (* boolean items: singles, pairs, all (thorough: every subset), with BODY / BODYSTRUCTURE *)
  \cup {F(i, ItOf(itemSeq[i]), "none", <<>>, <<>>, <<>>) : i \in {j \in Idx(itemSeq) : ItOf(itemSeq[j]) # NoItems}}
  \cup {F(i + 3, ItOf(itemSeq[i]), Nth(<<"body", "ext">>, i), <<>>, <<>>, <<>>) : i \in Idx(itemSeq)}
  (* sections: singles, with an item, pairs *)
  \cup {F(i, NoItems, "none", <<Secs[i]>>, <<>>, <<>>) : i \in Idx(Secs)}
  \cup {F(i + 5, It({Nth(ItemNames, i)}), "none", <<Secs[i]>>, <<>>, <<>>) : i \in Idx(Secs)}
  \cup UNION {{F(i + j, NoItems, "none", <<Secs[i], Secs[j]>>, <<>>, <<>>) :
                  j \in (IF Thorough THEN Idx(Secs) ELSE {((i * 5) % Len(Secs)) + 1, ((i + 6) % Len(Secs)) + 1})} :
               i \in Idx(Secs)}
  \cup {F(7, It({"uid", "flags"}), "ext", Secs, <<>>, <<>>)}
  (* BINARY *)
  \cup (IF a.binary
        THEN {F(i, NoItems, "none", <<>>, <<Bins[i]>>, <<>>) : i \in Idx(Bins)}
             \cup {F(i + 1, NoItems, "none", <<>>, <<>>, <<BinSzs[i]>>) : i \in Idx(BinSzs)}
             \cup {F(i + j, It({"uid"}), "none", <<Nth(Secs, i + j)>>, <<Bins[i]>>, <<BinSzs[j]>>) : i \in Idx(Bins), j \in Idx(BinSzs)}
             \cup {F(2, NoItems, "none", <<>>, Bins, BinSzs)}
        ELSE {})

(* STORE: 3 ops x silent x flag lists, number sets rotating *)
StoreCases(a) ==
  LET ns == NumSets(a) ops == <<"set", "add", "del">> IN
  {CStore(Nth(ns, 3 * i + j + k), ops[j], k = 1, FlagLists[i]) : i \in Idx(FlagLists), j \in 1..3, k \in 0..1}
  \cup {CStore(ns[i], "add", FALSE, <<fSeen>>) : i \in Idx(ns)}

(* SEARCH *)
Day0 == 18262        \* 2020-01-01
KeyVals == <<sPlain, sSp, sQuote, sCrlf, sUtf8, sEmpty, sLit, sNil, sAmp, sWild, sParen>>
HdrKeys == << <<102, 82, 111, 77>>, <<70, 114, 111, 109>>, <<83, 85, 66, 74, 69, 67, 84>>, <<116, 111>>, <<67, 99>>,
              <<98, 67, 67>>, <<88, 45, 70, 111, 111>>, <<120, 45, 102, 79, 79>>, <<68, 97, 116, 101>>,
              sSp, sUtf8 >>     \* fRoM From SUBJECT to Cc bCC X-Foo x-fOO Date "a b" (8-bit)
BaseCrit ==
  << EC,
     [EC EXCEPT !.seq = <<NS(FALSE, <<<<1, 3>>>>)>>],
     [EC EXCEPT !.seq = <<NS(FALSE, <<<<5, 1>>, <<7, 0>>>>), NS(FALSE, <<<<2, 2>>>>)>>],
     [EC EXCEPT !.uidset = <<NS(TRUE, <<<<1, 0>>>>)>>],
     [EC EXCEPT !.uidset = <<NS(TRUE, <<<<62, 63>>>>), NS(TRUE, <<<<3, 3>>, <<1, 1>>>>)>>, !.seq = <<NS(FALSE, <<<<0, 0>>>>)>>],
     [EC EXCEPT !.since = D(Day0, 0, 0)],
     [EC EXCEPT !.before = D(Day0 + 59, 86399, 0)],                        \* 29-Feb-2020 23:59:59
     [EC EXCEPT !.since = D(Day0, 0, 0), !.before = D(Day0 + 1, 0, 0)],    \* one day: ON
     [EC EXCEPT !.since = D(Day0, 43200, 330), !.before = D(Day0 + 1, 43200, 330)],  \* 24 h apart, noon +0530
     [EC EXCEPT !.since = D(Day0, 0, 0), !.before = D(Day0 + 7, 0, 0)],
     [EC EXCEPT !.since = D(Day0 + 1, 3600, -480), !.before = D(Day0, 0, 0)],       \* empty interval
     [EC EXCEPT !.sentsince = D(Day0 - 1, 86399, 0)],                      \* 31-Dec-2019
     [EC EXCEPT !.sentbefore = D(Day0 + 365, 1, 60)],
     [EC EXCEPT !.sentsince = D(Day0 + 9, 0, 0), !.sentbefore = D(Day0 + 10, 0, 0)],   \* SENTON
     [EC EXCEPT !.sentsince = D(Day0, 0, 0), !.since = D(Day0 + 1, 0, 0), !.sentbefore = D(Day0 + 2, 0, 0), !.before = D(Day0 + 3, 0, 0)],
     [EC EXCEPT !.since = D(11016, 0, 0)],                                 \* 29-Feb-2000
     [EC EXCEPT !.flag = <<fSeen>>],
     [EC EXCEPT !.flag = <<fAnswered, fDeleted, fDraft, fFlagged, fSeen>>],
     [EC EXCEPT !.notflag = <<fSeen, fDeleted>>],
     [EC EXCEPT !.flag = <<fRecent>>, !.notflag = <<fSeen>>],              \* what NEW means
     [EC EXCEPT !.notflag = <<fRecent>>],
     [EC EXCEPT !.flag = <<fKw, fFwd>>, !.notflag = <<fKw2, fSeenOdd>>],
     [EC EXCEPT !.flag = <<fKwSeen, fKwRecent>>, !.notflag = <<fKwDeleted>>],
     [EC EXCEPT !.flag = <<fKwDeleted, fSeen>>, !.notflag = <<fKwSeen>>],
     [EC EXCEPT !.larger = 1],
     [EC EXCEPT !.smaller = 4096],
     [EC EXCEPT !.larger = 100, !.smaller = 2000000001],
     [EC EXCEPT !.larger = 2000000002],
     [EC EXCEPT !.smaller = 100, !.since = D(Day0, 0, 0)],                 \* the C19 pattern
     [EC EXCEPT !.smaller = 100, !.larger = 5, !.before = D(Day0, 0, 0), !.flag = <<fSeen>>, !.body = <<sPlain>>],
     [EC EXCEPT !.body = <<sPlain, sSp>>, !.text = <<sQuote>>],
     [EC EXCEPT !.header = <<[k |-> HdrKeys[1], v |-> sPlain], [k |-> HdrKeys[7], v |-> sSp], [k |-> HdrKeys[3], v |-> sEmpty]>>],
     [EC EXCEPT !.text = <<s4096>>],
     [EC EXCEPT !.body = <<s4097>>],
     [EC EXCEPT !.text = <<sNul>>, !.larger = 3],
     [EC EXCEPT !.body = <<sBadUtf8>>] >>
   \o [i \in Idx(KeyVals) |-> [EC EXCEPT !.body = <<KeyVals[i]>>]]
   \o [i \in Idx(KeyVals) |-> [EC EXCEPT !.text = <<KeyVals[i], Nth(KeyVals, i + 3)>>]]
   \o [i \in Idx(HdrKeys) |-> [EC EXCEPT !.header = <<[k |-> HdrKeys[i], v |-> Nth(KeyVals, i)]>>]]
   \o [i \in Idx(KeyVals) |-> [EC EXCEPT !.header = <<[k |-> Nth(HdrKeys, i + 4), v |-> KeyVals[i]]>>, !.flag = <<fSeen>>]]
(* mixed zones: SINCE and BEFORE 24 h apart as instants but two calendar days apart *)
MixedZoneCrit == [EC EXCEPT !.since = D(Day0, 82800, -120), !.before = D(Day0 + 2, 0, -60)]
MixedZoneCrit2 == [EC EXCEPT !.sentsince = D(Day0, 0, 0), !.sentbefore = D(Day0, 82800, -60)]

Not1(k) == [EC EXCEPT !.not = <<k>>]
Or1(x, y) == [EC EXCEPT !.or = <<<<x, y>>>>]
NestCrit ==
  LET B == BaseCrit n == Len(BaseCrit)
      Pick(m, r) == {j \in 1..n : Thorough \/ j % m = r}
  IN
  {Not1(B[i]) : i \in Pick(2, 1)}
  \cup {Or1(B[i], Nth(B, 2 * i + 3)) : i \in Pick(2, 0)}
  \cup {Not1(Not1(B[i])) : i \in Pick(8, 1)}
  \cup {Not1(Or1(B[i], Nth(B, i + 7))) : i \in Pick(8, 3)}
  \cup {Or1(Not1(B[i]), Or1(Nth(B, i + 1), Nth(B, i + 11))) : i \in Pick(8, 5)}
  \cup {Or1(Or1(B[i], Nth(B, i + 5)), Not1(Nth(B, i + 2))) : i \in Pick(8, 7)}
  \cup {[B[i] EXCEPT !.not = <<Nth(B, i + 1), Nth(B, i + 9)>>, !.or = <<<<Nth(B, i + 2), Nth(B, i + 3)>>, <<EC, Nth(B, i + 4)>>>>] :
          i \in Pick(6, 0)}
SRetSets(a) ==
  {o \in [min : BOOLEAN, max : BOOLEAN, all : BOOLEAN, count : BOOLEAN, save : BOOLEAN] :
     /\ ((o.min \/ o.max \/ o.all \/ o.count) => a.esearch)
     /\ (o.save => a.searchres)}
SearchCases(a) ==
  LET B == BaseCrit
      uidAt(i) == i % 3 = 0
      withRes == IF a.searchres
                 THEN {[EC EXCEPT !.uidset = <<SRes>>], [EC EXCEPT !.uidset = <<SRes, NS(TRUE, <<<<1, 5>>>>)>>, !.flag = <<fSeen>>],
                       Not1([EC EXCEPT !.uidset = <<SRes>>])}
                 ELSE {}
  IN {CSearch(uidAt(i), B[i], NoSRet) : i \in Idx(B)}
     \cup {CSearch(~uidAt(i), B[i], NoSRet) : i \in {j \in Idx(B) : Thorough \/ j <= 8}}
     \cup {CSearch(FALSE, k, NoSRet) : k \in NestCrit}
     \cup {CSearch(TRUE, k, NoSRet) : k \in (IF Thorough THEN NestCrit ELSE {})}
     \cup {CSearch(FALSE, k, NoSRet) : k \in {MixedZoneCrit, MixedZoneCrit2} \cup withRes}
     \cup {CSearch(u, k, o) : u \in BOOLEAN, k \in (IF Thorough THEN {B[1], B[28]} ELSE {B[1]}), o \in SRetSets(a)}

(* LIST *)
SelSets == {s \in [sub : BOOLEAN, remote : BOOLEAN, rec : BOOLEAN] : s.rec => s.sub}
LRetSets == [sub : BOOLEAN, children : BOOLEAN]
StNames(a) == {"messages", "uidnext", "uidvalidity", "unseen"} \cup (IF a.statussize THEN {"size"} ELSE {})
                \cup (IF a.rev2 THEN {"deleted"} ELSE {})
St(S) == [messages |-> "messages" \in S, uidnext |-> "uidnext" \in S, uidvalidity |-> "uidvalidity" \in S,
          unseen |-> "unseen" \in S, deleted |-> "deleted" \in S, size |-> "size" \in S]
StSets(a) == IF Thorough THEN {St(S) : S \in (SUBSET StNames(a)) \ {{}}}
             ELSE {St(S) : S \in {T \in SUBSET StNames(a) : Cardinality(T) \in {1, 2, Cardinality(StNames(a))}}}
ListCases(a) ==
  LET L(ref, p, sel, ret, st) == CList(ref, <<p>>, sel, ret, st) IN
  {L(sEmpty, Pats[i], NoSel, NoLRet, NoLSt) : i \in Idx(Pats)}
  \cup {L(Mboxes[i], <<42>>, NoSel, NoLRet, NoLSt) : i \in Idx(Mboxes)}
  \cup {L(Mboxes[i], Nth(Pats, i + 2), NoSel, NoLRet, NoLSt) : i \in Idx(Mboxes)}
  \cup {L(sEmpty, <<37>>, s, r, NoLSt) : s \in SelSets, r \in LRetSets}
  \cup (IF a.listextended
        THEN {}
             \cup {L(sPlain, sWild, s, r, [on |-> TRUE, st |-> st]) : s \in {NoSel, [NoSel EXCEPT !.sub = TRUE]},
                     r \in (IF Thorough THEN {NoLRet, [NoLRet EXCEPT !.children = TRUE]} ELSE {NoLRet}), st \in StSets(a)}
             \cup {L(sUtf8, sAmp, [sub |-> TRUE, remote |-> TRUE, rec |-> TRUE], [sub |-> TRUE, children |-> TRUE],
                     [on |-> TRUE, st |-> St(StNames(a))])}
        ELSE {})

StatusCases(a) ==
  {CStatus(Mboxes[i], St({Nth(<<"messages", "uidnext", "uidvalidity", "unseen">>, i)})) : i \in Idx(Mboxes)}
  \cup {CStatus(sPlain, st) : st \in StSets(a)}
  \cup {CStatus(sInbox, st) : st \in (IF Thorough THEN StSets(a) ELSE {})}

(* APPEND: flags x date x payload (size class and content class), pairwise *)
T0 == 1577836800      \* 2020-01-01T00:00:00Z
Dates == << NoInstant, At(T0, 0, 0), At(T0 + 3723, 330, 0), At(T0 - 1, -480, 0), At(T0 + 86399, 0, 1),
            At(951782400, 765, 0), At(T0 + 45, -1, 0) >>
ZoneSecDate == At(T0 + 3723, 100000 + 3628, 0)   \* zone +01:00:28
Datas == << <<97, 13, 10, 98, 13, 10>>, <<97, 0, 98>>, <<255, 128, 195, 169, 13, 10>>, <<13, 10>>, <<120>>,
            <<-2, 97, 4096>>, <<-2, 97, 4097>>, <<-3, 4096>>, <<-3, 4097>>, <<-3, 10000>>, <<-2, 0, 5000>> >>
AFlags == << <<>>, <<fSeen>>, <<fSeenOdd, fKw, fDeleted>>, <<fFwd, fKw2>> >>
AppendCases(a) ==
  LET A(m, f, d, x) == CAppend(m, f, d, x) IN
  {A(sPlain, AFlags[i], Dates[j], Nth(Datas, i + 2 * j)) : i \in Idx(AFlags), j \in Idx(Dates)}
  \cup {A(sPlain, AFlags[i], Nth(Dates, i + k), Datas[k]) : i \in Idx(AFlags), k \in Idx(Datas)}
  \cup {A(sInbox, Nth(AFlags, p[1] + p[2]), Dates[p[1]], Datas[p[2]]) :
          p \in {q \in Idx(Dates) \X Idx(Datas) : Thorough \/ (q[1] + q[2]) % 3 = 0}}
  \cup {A(Mboxes[i], Nth(AFlags, i), Nth(Dates, i), Nth(Datas, i)) : i \in Idx(Mboxes)}
  \cup {A(sPlain, <<>>, ZoneSecDate, Datas[1])}
  \cup (IF Thorough THEN {A(sUtf8, AFlags[i], Dates[j], Datas[k]) : i \in Idx(AFlags), j \in Idx(Dates), k \in Idx(Datas)} ELSE {})

(* two string arguments: every value in each position, neighbours differ;   *)
(* thorough: every pair *)
Pairs(S) == IF Thorough THEN {<<S[i], S[j]>> : i \in Idx(S), j \in Idx(S)}
            ELSE {<<S[i], Nth(S, i + 1)>> : i \in Idx(S)} \cup {<<S[i], sOther>> : i \in Idx(S)}
                 \cup {<<sOther, S[i]>> : i \in Idx(S)} \cup {<<S[i], S[i]>> : i \in Idx(S)}

UseLists == << <<<<92, 68, 114, 97, 102, 116, 115>>>>,                                  \* (\Drafts)
               <<<<92, 83, 101, 110, 116>>, <<92, 84, 114, 97, 115, 104>>>>,            \* (\Sent \Trash)
               <<<<92, 100, 82, 97, 70, 116, 83>>>>,                                    \* (\dRaFtS)
               <<fExt, <<92, 65, 108, 108>>>> >>                                        \* (\Xfoo \All)

MboxCases(a) ==
  LET ns == NumSets(a) IN
  {CCreate(Mboxes[i], <<>>) : i \in Idx(Mboxes)}
  \cup (IF a.createspecialuse THEN {CCreate(Nth(Mboxes, 3 * i), UseLists[i]) : i \in Idx(UseLists)} ELSE {})
  \cup {CMbox(n, Mboxes[i]) : n \in {"DELETE", "SUBSCRIBE", "UNSUBSCRIBE"}, i \in Idx(Mboxes)}
  \cup {CRename(p[1], p[2]) : p \in Pairs(Mboxes)}
  \cup {CSelect(Mboxes[i], ro) : i \in Idx(Mboxes), ro \in BOOLEAN}
  \cup {CCopy("COPY", Nth(ns, i), Mboxes[i]) : i \in Idx(Mboxes)}
  \cup {CCopy("COPY", ns[i], Nth(Mboxes, i)) : i \in Idx(ns)}
  \cup (IF a.move THEN {CCopy("MOVE", Nth(ns, i + 1), Mboxes[i]) : i \in Idx(Mboxes)}
                       \cup {CCopy("MOVE", ns[i], Nth(Mboxes, i + 4)) : i \in Idx(ns)} ELSE {})
  \cup (IF a.uidplus THEN {CUidExpunge(ns[i]) : i \in {j \in Idx(ns) : ns[j].uid}} ELSE {})

SimpleCases(a) ==
  {CSimple("CAPABILITY"), CSimple("CLOSE"), CSimple("EXPUNGE"), CSimple("UNSELECT"), CSimple("IDLE")}
  \cup (IF a.namespace THEN {CSimple("NAMESPACE")} ELSE {})

LoginCases == {CLogin(p[1], p[2]) : p \in Pairs(AStrs)}

EnableCases(cfg) ==
  {CEnable(u, r) : u \in BOOLEAN, r \in {x \in BOOLEAN : x => Adv(cfg.caps).rev2}} \ {CEnable(FALSE, FALSE)}

Catalogue(cfg) ==
  LET a == Adv(cfg.caps)
  IN MboxCases(a) \cup SimpleCases(a) \cup ListCases(a) \cup StatusCases(a) \cup AppendCases(a)
     \cup FetchCases(a) \cup StoreCases(a) \cup SearchCases(a) \cup EnableCases(cfg)
     \cup (IF ~cfg.utf8 /\ ~cfg.rev2 THEN LoginCases ELSE {})

-----------------------------------------------------------------------------
(* The configuration state machine.  last = the command in flight ("none"   *)
(* between commands).                                                       *)
VARIABLES caps, utf8, rev2, last
vars == <<caps, utf8, rev2, last>>
Cfg == [caps |-> caps, utf8 |-> utf8, rev2 |-> rev2]
None == [c |-> "none"]

Init == caps \in CapsKinds /\ utf8 = FALSE /\ rev2 = FALSE /\ last = None

(* the client issues a command of the catalogue; ENABLE moves the configuration *)
Issue(cmd) ==
  /\ last = None
  /\ last' = cmd
  /\ UNCHANGED <<caps, utf8, rev2>>
Complete ==
  /\ last # None
  /\ utf8' = (utf8 \/ (last.c = "ENABLE" /\ last.utf8))
  /\ rev2' = (rev2 \/ (last.c = "ENABLE" /\ last.rev2))
  /\ last' = None
  /\ UNCHANGED caps
Next == (last = None /\ \E cmd \in Catalogue(Cfg) : Issue(cmd)) \/ Complete
Spec == Init /\ [][Next]_vars

(* ---- properties of the specification itself (CmdSpace_mc.cfg) ---- *)
IsStr(s) == IF IsCompressed(s)
            THEN /\ s[1] \in {-1, -2, -3} /\ \A i \in 2..Len(s) : s[i] >= 0
                 /\ Len(s) = (CASE s[1] = -1 -> 5 [] s[1] = -2 -> 3 [] OTHER -> 2)
                 /\ (s[1] = -2 => s[2] \in 0..255)
                 /\ StrLen(s) > 40
            ELSE \A i \in DOMAIN s : s[i] \in 0..255
RECURSIVE CritTyped(_)
CritTyped(k) ==
  /\ \A i \in DOMAIN k.header : IsStr(k.header[i].k) /\ IsStr(k.header[i].v)
  /\ \A i \in DOMAIN k.body : IsStr(k.body[i])
  /\ \A i \in DOMAIN k.text : IsStr(k.text[i])
  /\ \A i \in DOMAIN k.flag : IsStr(k.flag[i])
  /\ \A i \in DOMAIN k.notflag : IsStr(k.notflag[i])
  /\ \A d \in {k.since, k.before, k.sentsince, k.sentbefore} : Len(d) = 4 /\ d[1] \in {0, 1} /\ (d[1] = 0 => d = NoDay)
  /\ \A i \in DOMAIN k.not : CritTyped(k.not[i])
  /\ \A i \in DOMAIN k.or : CritTyped(k.or[i][1]) /\ CritTyped(k.or[i][2])
CfgInv == Cfg \in Cfgs /\ CfgOK(Cfg)
(* every catalogue value is legal for the advertised feature set *)
CatalogueLegal == last # None => Legal(Cfg, last)
(* Norm is idempotent, on the command and on what it is expected to deliver *)
NormIdempotent ==
  last # None => /\ Norm(Norm(last)) = Norm(last)
                 /\ NormCalls(Exp(Cfg, last)) = Exp(Cfg, last)
(* a faithful delivery is accepted, a delivery of nothing with OK is not,    *)
(* a refusal is accepted exactly for arguments the protocol need not carry  *)
AcceptSane ==
  last # None => /\ Accept(Cfg, last, TRUE, Exp(Cfg, last))
                 /\ (last.c \notin {"ENABLE", "CAPABILITY", "CLOSE"} => Accept(Cfg, last, TRUE, <<last>>))
                 /\ ~Accept(Cfg, last, TRUE, <<>>)
                 /\ (Accept(Cfg, last, FALSE, <<>>) <=> ~MustOK(last))
(* well-typed: the string-valued fields are strings *)
WellTyped ==
  last # None =>
    CASE last.c = "LOGIN" -> IsStr(last.user) /\ IsStr(last.pass)
      [] last.c \in {"CREATE", "DELETE", "SUBSCRIBE", "UNSUBSCRIBE", "SELECT", "STATUS", "COPY", "MOVE"} -> IsStr(last.mbox)
      [] last.c = "APPEND" -> IsStr(last.mbox) /\ IsStr(last.data) /\ \A i \in DOMAIN last.flags : IsStr(last.flags[i])
      [] last.c = "STORE" -> \A i \in DOMAIN last.flags : IsStr(last.flags[i])
      [] last.c = "SEARCH" -> CritTyped(last.crit) /\ last.uid \in BOOLEAN
      [] last.c = "FETCH" -> \A i \in DOMAIN last.secs : \A j \in DOMAIN last.secs[i].hf : IsStr(last.secs[i].hf[j])
      [] last.c = "RENAME" -> IsStr(last.mbox) /\ IsStr(last.to)
      [] last.c = "LIST" -> IsStr(last.ref) /\ \A i \in DOMAIN last.pats : IsStr(last.pats[i])
      [] OTHER -> TRUE
=============================================================================
