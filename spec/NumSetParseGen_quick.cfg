CONSTANTS
  Max = 8
  Gaps = {6}
  MaxLen = 5
INIT PInit
NEXT PNext
INVARIANT ParserAgrees
CHECK_DEADLOCK FALSE
