CONSTANTS
  MaxCmds = 3
  MaxPending = 3
  MaxNum = 2
  MaxItems = 1
  Kinds = {"SELECT", "IDLE", "CLOSE", "UNAUTH", "LOGIN", "NOOP", "EXPUNGE", "FETCH"}
  Greetings = {"PREAUTH"}
INIT Init
NEXT Next
VIEW McView
INVARIANTS TypeOK IdleAlone
PROPERTIES ExactlyOnce Isolation DataToRightCommand StateDiagram
CHECK_DEADLOCK FALSE
