CONSTANTS
  Subs = {1, 2}
  RegisterBeforeInit = FALSE
  Literal = {1}
  ReleaseOnRefusal = FALSE
  OwnAtTag = TRUE
  Streaming = {}
INIT Init
NEXT Next
INVARIANTS TypeOK NoDataRace AtMostOnce NobodyStuck GoodEnd
CHECK_DEADLOCK FALSE
