--------------------------- MODULE IdleNotifyTrace ---------------------------
(* Judge for the scenarios run on the real server: every record carries the   *)
(* behaviour of the idling client, the size of the burst, and what happened:  *)
(* did the producer's command complete, did the third session's command       *)
(* complete, how many of the changes the idling client was told about.        *)
EXTENDS IdleNotify, Json, IOUtils, Sequences

VARIABLE l
Trace == ndJsonDeserialize(IOEnv.TRACE_FILE)

TraceInit == Init /\ l = 1
Accepts(r) ==
  LET e == ExpectFor(r.client) IN
  /\ r.prod = e.prod /\ r.other = e.other
  /\ (e.told = "all" => r.seen = r.burst)
\* every record is judged; a rejected one is reported and the walk goes on
TraceNext == /\ l <= Len(Trace) /\ l' = l + 1 /\ UNCHANGED vars
             /\ (Accepts(Trace[l]) \/ PrintT(<<"BAD", ToJson([i |-> l, rec |-> Trace[l]])>>))
TraceAccepted ==
  LET d == TLCGet("stats").diameter IN
    IF d - 1 = Len(Trace) THEN TRUE
    ELSE /\ PrintT(<<"TRACE_REJECTED_AT", d, Len(Trace)>>)
         /\ IF d <= Len(Trace) THEN PrintT(<<"REJECTED_RECORD", ToJson(Trace[d])>>) ELSE TRUE
         /\ FALSE
=============================================================================
