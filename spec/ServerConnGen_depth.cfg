CONSTANTS
  Configs <- CoreConfigs
  GenCmds <- FamilyCmds
  MaxDepth = 3
  DepthMode = TRUE
INIT GenInit
NEXT GenNext
VIEW GenView
CHECK_DEADLOCK FALSE
