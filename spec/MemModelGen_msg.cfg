\* every transition of the message instance (thorough)
CONSTANTS
  Names <- NamesAC
  Conns = 1
  CatIds = {1}
  MaxMsgs = 2
  MaxUid = 2
  MaxCreates = 2
  Family = "msg"
  Level = 0
  Mode = "bfs"
  SimDepth = 0
  Chains = 0
INIT GenInitAll
NEXT GenNext
CONSTRAINT Bounded
INVARIANTS Emit TypeOK UidsAscending UidValidityDistinct
PROPERTIES UidsNeverReused UidValidityFresh AppendUidExact CopyUidExact StoreExact RemovalExact QueriesPure
VIEW GenView
CHECK_DEADLOCK FALSE
