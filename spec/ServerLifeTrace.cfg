CONSTANTS
  LitMax = 4096
  AppendMax = 104857600
  NestMax = 1000
  Sizes = {0}
INIT TraceInit
NEXT TraceNext
INVARIANTS CloseAtMostOnce DoneMeansClean
POSTCONDITION TraceAccepted
CHECK_DEADLOCK FALSE
