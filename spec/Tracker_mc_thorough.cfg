CONSTANTS
  Sessions = {"s1", "s2"}
  MaxMsgs = 3
  MaxIds = 4
  MaxK = 2
  MaxQueue = 2
INIT Init
NEXT Next
CONSTRAINT Bounded
INVARIANTS TypeOK QueueLeadsToMailbox TranslationSound NoDuplicates
PROPERTIES EmitsInQueueOrder NoExpungeWhenDisallowed ViewChangesOnlyByEmission SyncAfterFullPoll
CHECK_DEADLOCK FALSE
