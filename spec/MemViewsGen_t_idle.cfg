CONSTANTS
  Sessions = {"s1", "s2"}
  Mailboxes = {"A", "B"}
  Flags <- OnlyDeleted
  MaxMsgs = 2
  MaxUid = 2
  MaxQueue = 3
  Kinds <- KIdle
  SeqSets <- Sets2
  UidSets <- Sets2
  UidForms <- SeqOnly
  AppendFlags <- PlainOrDeleted
  AppendBoxes <- OnlyA
  StoreOps <- Plus
  IdleAny = FALSE
INIT GenInit
NEXT GenNext
CONSTRAINT Bounded
VIEW GenView
INVARIANTS TypeOK RemovedReportedOnce
PROPERTIES StepSeqNums StepNoExpunge StepShrink StepNoop
CHECK_DEADLOCK FALSE
