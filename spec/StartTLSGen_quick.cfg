CONSTANTS
  Configs <- C17Configs
  Cases <- SmallCases
  Faulty = FALSE
  MaxSegs = 3
INIT GenInit
NEXT GenNext
CHECK_DEADLOCK FALSE
