CONSTANTS
  Configs <- C17Configs
  Cases <- AllCases
  Faulty = FALSE
  MaxSegs = 3
INIT GenInit
NEXT GenNext
CHECK_DEADLOCK FALSE
