\* C14: every process finishes under weak fairness (run with LOCKS_NOHIST=1; no VIEW).
SPECIFICATION FairSpec
INVARIANT MutualExclusion NoStuck
PROPERTY Termination
CHECK_DEADLOCK FALSE
