CONSTANTS
  Configs <- AllConfigs
INIT TraceInit
NEXT TraceNext
INVARIANTS TypeOK BackendOnlyWhenPermitted CredentialsOnlyWhenSecure NothingEnabledBeforeAuth
PROPERTIES TraceTLSNeverDowngrades
POSTCONDITION TraceAccepted
CHECK_DEADLOCK FALSE
