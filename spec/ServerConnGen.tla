--------------------------- MODULE ServerConnGen ---------------------------
(* Generator for ServerConn: prints, for every generated transition, the    *)
(* behaviour reaching it with the predicted observation after every step.   *)
(* DepthMode = FALSE: one line per transition of the state graph (history   *)
(* hidden by VIEW).  DepthMode = TRUE: every behaviour up to MaxDepth over  *)
(* the command subset GenCmds (history is part of the view).                *)
EXTENDS ServerConn, Json

CONSTANTS GenCmds, MaxDepth, DepthMode

VARIABLE hist

Exp == [tagged |-> out.tagged, bye |-> out.bye, cont |-> out.cont, recent |-> out.recent,
        calls  |-> [i \in 1..Len(calls) |-> calls[i].m],
        state  |-> state, tls |-> tls, closed |-> closed,
        caps   |-> CapsOf(state, tls)]

Log(c, v, f) == hist' = Append(hist, [c |-> c, v |-> v, f |-> f, exp |-> Exp'])

GenInit == Init /\ hist = <<>>

GenStep ==
  \/ \E c \in GenCmds, f \in 0..2 : Good(c, f) /\ Log(c, "good", f)
  \/ \E c \in GenCmds : BadSyntax(c) /\ Log(c, "bad", 0)

GenNext == /\ Len(hist) < MaxDepth
           /\ GenStep
           /\ PrintT(<<"T", ToJson([cfg |-> cfg, beh |-> hist'])>>)

GenView == IF DepthMode THEN <<cfg, state, tls, enabled, closed, hist>>
           ELSE <<cfg, state, tls, enabled, closed>>
=============================================================================
