CONSTANTS
  Cap = 2
  MaxBurst = 5
  Blocking = FALSE
  Clients = {"reads", "stalls", "done", "drops"}
INIT GenInit
NEXT GenNext
CHECK_DEADLOCK FALSE
