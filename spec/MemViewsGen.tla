---------------------------- MODULE MemViewsGen ----------------------------
(* Generator: MemViews + history.  Every generated transition prints the    *)
(* behaviour that reaches it; each step carries the command, the latitude   *)
(* taken, the normalised responses the specification predicts for every     *)
(* session (exp), the responses it would predict for the issuer under the   *)
(* other admissible latitudes (alts: the implementation may take those; the *)
(* behaviour is then not one of its behaviours and the replay stops without *)
(* verdict), and at quiescence (NOOP) the mailbox list to audit.            *)
(* The cfgs also check the C08 clauses, so one TLC run is model check and   *)
(* generator of the same bounded instance.                                  *)
EXTENDS MemViews, Json

VARIABLE hist

CmdTuple(c) == <<c.k, c.uid, [i \in 1..Len(c.set) |-> <<c.set[i].a, c.set[i].b>>],
                 c.mbox, c.op, FlagSeq(c.fl), c.key>>

LatTag(s, c, lat) ==
  <<IF Cardinality({l.star : l \in LatsEff(s, c)}) = 1 THEN "same"
    ELSE IF lat.star = StarImpl(s, c) THEN "impl" ELSE "rfc",
    IF Cardinality({l.mv : l \in LatsEff(s, c)}) = 1 THEN "same" ELSE lat.mv>>

\* <<session, command, latitude, stale?, exp, alts, audit?, mailbox list, ambiguous?>>
\* ambiguous: another latitude predicts the same responses for the issuer but a
\* different effect; the wire cannot tell which one the server took
StepRec(s, c, lat, dl, r) ==
  LET speakers == SetToSeqS({t \in Sessions : r.out[t] # <<>>})
  IN <<s, CmdTuple(c), LatTag(s, c, lat),
       (SetKind(c) # "none" /\ queue[s] # <<>>),
       [i \in 1..Len(speakers) |-> <<speakers[i], NormOut(r.out[speakers[i]])>>],
       {NormOut(Result(s, c, l2, CHOOSE d \in DlChoices(s, c, l2) : TRUE).out[s]) :
           l2 \in LatsEff(s, c) \ {lat}},
       (c.k = "NOOP" /\ r.sel[s] # None),
       IF c.k = "NOOP" /\ r.sel[s] # None THEN UidsOf(r.mb[r.sel[s]].msgs) ELSE <<>>,
       \E l2 \in LatsEff(s, c) \ {lat} :
          NormOut(Result(s, c, l2, CHOOSE d \in DlChoices(s, c, l2) : TRUE).out[s]) = NormOut(r.out[s]) >>

GenInit == Init /\ hist = <<>>

GenNext ==
  /\ \E s \in Sessions : \E c \in Commands(s) : \E lat \in LatsEff(s, c) :
       \E dl \in DlChoices(s, c, lat) :
          LET r == Result(s, c, lat, dl) IN
          /\ DoR(r)
          /\ hist' = Append(hist, StepRec(s, c, lat, dl, r))
  /\ PrintT(<<"T", ToJson(hist')>>)

GenView == CoreView
=============================================================================
