---------------------------- MODULE RespFuzzGen ----------------------------
(* Generator for C11: every generated line of RespFuzz is printed once as a *)
(* T line: context, tokens, the class the specification assigns (and why),  *)
(* how the scripted server continues, whether delivered values are small.   *)
(* harness/cmd/respfuzz renders the tokens, runs a real client and compares.*)
EXTENDS RespFuzz, Json

MutName(m) ==
  IF m.op = "none" THEN "none"
  ELSE IF m.op = "nest" THEN "nest@" \o ToString(m.i) \o ":" \o m.t
  ELSE IF m.t = "" THEN m.op \o "@" \o ToString(m.i)
  ELSE m.op \o "@" \o ToString(m.i) \o ":" \o m.t

Out(ms, ln, cl) ==
  [k  |-> Bases[base].kind,
   b  |-> Bases[base].name,
   m  |-> IF Len(ms) = 1 THEN MutName(ms[1]) ELSE MutName(ms[1]) \o "+" \o MutName(ms[2]),
   \* a line after which the stream ends cannot be delivered: the command is never completed
   c  |-> IF cl.c = "D" /\ (\E i \in 1..Len(ms) : ms[i].op = "trunc") THEN "X" ELSE cl.c,
   w  |-> cl.w,
   wi |-> cl.at,
   \* a truncated line is the end of the stream; otherwise the command is completed
   e  |-> IF \E i \in 1..Len(ms) : ms[i].op = "trunc" THEN "close" ELSE "ok",
   st |-> IF cl.c = "D" THEN Bases[cl.b].st ELSE "OK",
   tg |-> IF Bases[base].kind \in TaggedKinds THEN 1 ELSE 0,
   sm |-> IF SmallLine(ln) THEN 1 ELSE 0,
   t  |-> ln]

GenNext == Next /\ PrintT(<<"T", ToJson(Out(mut', line', cls'))>>)
GenView == <<base, pos, phase>>
=============================================================================
