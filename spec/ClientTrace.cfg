CONSTANTS
  MaxCmds = 100000
  MaxPending = 8
  MaxNum = 100000
  MaxItems = 1000
INIT TraceInit
NEXT TraceNext
INVARIANTS TypeOK
POSTCONDITION TraceAccepted
CHECK_DEADLOCK FALSE
