CONSTANTS
  MaxCmds = 100000
  MaxPending = 8
  MaxNum = 100000
  MaxItems = 1000
  MaxUid = 100000
  MaxCode = 100000
  NFlagSets = 2
  SyncLit = FALSE
  Kinds = {"NOOP", "LOGIN", "SELECT", "UNSELECT", "STATUS", "LIST", "SEARCH", "ESEARCH", "FETCH", "EXPUNGE", "LOGOUT"}
  Greetings = {"OK"}
INIT TraceInit
NEXT TraceNext
INVARIANTS TypeOK
POSTCONDITION TraceAccepted
CHECK_DEADLOCK FALSE
