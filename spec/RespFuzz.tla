------------------------------ MODULE RespFuzz ------------------------------
(* C11 - the client never panics or blows up on arbitrary server bytes, and *)
(* reports violations of protocol invariants as errors.                     *)
(*                                                                          *)
(* The response grammar of IMAP (RFC 3501/9051 and the extensions the       *)
(* client parses: ESEARCH, SORT/THREAD, QUOTA, METADATA, NAMESPACE, LIST-   *)
(* EXTENDED/LIST-STATUS, CONDSTORE, BINARY, UIDPLUS) used generatively.  A  *)
(* line is a sequence of TOKENS over a token alphabet; the harness renders  *)
(* tokens to bytes (harness/cmd/respfuzz/render.go holds the table; a token *)
(* without entry renders as its own name: "FETCH", "RFC822.SIZE", ...).     *)
(*                                                                          *)
(* Every conformant line is a BASE: a sequence of <<token, slot class>>.    *)
(* Slot class "f" is a fixed token; the other classes say what the grammar  *)
(* allows in that place (a 32-bit number, a sequence number in a result, a  *)
(* string, a set in a result, an opening parenthesis, ...).  For each class *)
(* GoodOf gives the tokens that keep the line conformant and BadOf the      *)
(* tokens that make it violate exactly one of the invariants the property   *)
(* names: sequence number or UID 0 in a SEARCH/ESEARCH/FETCH/EXPUNGE/       *)
(* COPYUID/APPENDUID result, an open-ended ('*') or malformed set in a      *)
(* result, a malformed literal, a number that overflows its width, nesting  *)
(* deeper than the cap.  Tokens in neither set are neutral (the RFC forbids *)
(* them or is silent, the property does not name them): nothing is demanded.*)
(*                                                                          *)
(* Classification of a line for a context (which command is pending):       *)
(*   D  MustDeliver: the line matches a base of the context token by token  *)
(*      with good tokens in every slot, and its nesting tokens are balanced *)
(*   E  MustError:   the line has a conformant prefix that ends in a bad    *)
(*      token in its slot (whatever follows: the violation is there)        *)
(*   X  Either:      everything else                                        *)
(* The classifier is a function of (context, tokens) only; it is used by    *)
(* the generator (RespFuzzGen) and by the judge (RespFuzzTrace), which      *)
(* re-derives the class of lines the Go driver made up.                     *)
(*                                                                          *)
(* For mutated input this module is a generator and a classifier, not a     *)
(* behavioural model: panics, stack depth, allocation exist only in the     *)
(* real code and are observed there.                                        *)
EXTENDS Integers, Sequences, FiniteSets, TLC, IOUtils

CONSTANTS Stride,    \* 1: every single-token mutation; n: one in n of the untargeted ones
          Stride2,   \* 0: no double mutations; n: one in n of the enumerated pairs
          Seed       \* which residue class the strides keep

Min(a, b) == IF a < b THEN a ELSE b

\* the check passes VERIF_SEED (mod 1024) in the environment; cfgs use Seed <- EnvSeed
EnvSeed == IF "RF_SEED" \in DOMAIN IOEnv THEN CHOOSE n \in 0..1023 : ToString(n) = IOEnv.RF_SEED ELSE 1

\* ------------------------------------------------------------------ tokens
Depths == {1, 10, 999, 1000, 1001, 100000}
Cap    == 1000          \* nesting beyond this must be an error
Shallow == 10           \* nesting up to this must be delivered where the grammar nests
NT(f, d) == f \o "_" \o ToString(d)

NumSmall == {"n0", "n1", "n2", "n3", "n7", "n9", "n42", "n100"}
NumNz    == NumSmall \ {"n0"}
\* boundary numbers: 2^32-1, 2^32, 2^63-1, 2^63, 20 digits
Over32   == {"nP32", "nM63", "nP63", "n20d"}
NumTokens == NumSmall \cup {"nM32"} \cup Over32 \cup {"nNeg1", "nLead0"}

SetGood  == {"s1", "s1to3", "s1c5to7", "sRev", "sMax", "sBig", "sHalf"}
SetDyn   == {"sStar", "s1toStar", "sStarTo1", "s1cStar"}
SetZero  == {"s0", "s0to3", "s1to0", "s1c0"}
SetMal   == {"sOver", "sOverR", "sColon", "sCommas", "s20d"}
SetTokens == SetGood \cup SetDyn \cup SetZero \cup SetMal

StrGood  == {"qEmpty", "qA", "qB", "qEsc", "qLong", "lit0", "lit3", "litCRLF", "litBig"}
BadLits  == {"litNoNum", "litNoCRLF", "litOver", "litNeg", "litPlus", "litUnclosed", "litAlpha"}
MboxGood == {"INBOX", "aBox", "qInbox", "qBox", "lit3", "qUtf7"}
FlagGood == {"fSeen", "fAnswered", "fDeleted", "fFlagged", "fDraft", "fRecent", "fX", "kwA", "kwFwd"}
AttrGood == {"fNoselect", "fHasChildren", "fHasNoChildren", "fSubscribed", "fNonExistent", "fSent", "fX"}
CapGood  == {"IMAP4rev1", "IMAP4rev2", "IDLE", "LITERAL-", "CONDSTORE", "aAuthPlain", "MOVE", "UIDPLUS", "METADATA"}

RawNest == {NT("Nlp", d) : d \in (Depths \ {1}) \cup {1000000}}
Fams    == {"mp", "msg", "thr", "val"}
OpenTok(f, d)  == NT("N" \o f, d)
CloseTok(f, d) == NT("C" \o f, d)
NestTokens == {OpenTok(f, d) : f \in Fams, d \in Depths} \cup {CloseTok(f, d) : f \in Fams, d \in Depths} \cup RawNest
DepthOf == TLCEval([t \in NestTokens |->
              CHOOSE d \in Depths \cup {1000000} :
                 t = NT("Nlp", d) \/ \E f \in Fams : t = OpenTok(f, d) \/ t = CloseTok(f, d)])

NumClasses == {"n32", "nz32", "seq", "uid", "n64", "mseq"}
StrClasses == {"str", "nstr", "astr", "mbox"}
OpenClasses  == {"o" \o f : f \in Fams}
CloseClasses == {"c" \o f : f \in Fams}
IgnClasses == {"ign32", "istr", "lpi"}     \* data this client API does not hand to the caller (see below)
SlotClasses == {"f", "set", "flag", "pflag", "attr", "cap", "lp"} \cup NumClasses \cup StrClasses \cup IgnClasses
                 \cup OpenClasses \cup CloseClasses
FamTab == TLCEval([c \in OpenClasses \cup CloseClasses |-> CHOOSE f \in Fams : c = "o" \o f \/ c = "c" \o f])
FamOf(c) == FamTab[c]

\* tokens that keep a line conformant in a slot of class c
GoodDef(c) ==
  CASE c = "n32"  -> NumSmall \cup {"nM32"}
    [] c \in {"nz32", "seq", "uid"} -> NumNz \cup {"nM32"}
    [] c = "n64"  -> NumSmall \cup {"nM32", "nP32", "nM63"}
    [] c = "mseq" -> NumNz \cup {"nM32", "nP32", "nM63"}
    [] c = "set"  -> SetGood
    [] c = "str"  -> StrGood \ {"qEmpty", "lit0"}      \* an empty type / parameter name / encoding: nothing demanded
    [] c = "nstr" -> StrGood \cup {"NIL"}
    [] c = "astr" -> StrGood \cup {"aBox", "aRoot"}
    [] c = "mbox" -> MboxGood
    [] c = "flag" -> FlagGood
    [] c = "pflag" -> FlagGood \cup {"fStar"}
    [] c = "attr" -> AttrGood
    [] c = "cap"  -> CapGood
    [] c = "lp"   -> {"LP"}
    [] c = "ign32" -> NumSmall \cup {"nM32"}
    [] c = "istr" -> StrGood \cup {"aBox", "aRoot"}
    [] c = "lpi"  -> {"LP"}
    [] c \in OpenClasses  -> {OpenTok(FamOf(c), d) : d \in {d \in Depths : d <= Shallow}}
    [] c \in CloseClasses -> {CloseTok(FamOf(c), d) : d \in Depths}
    [] OTHER -> {}

\* tokens that violate an invariant the property names, in a slot of class c.
\* The statement is about data "delivered to the caller": slots whose content this
\* client API has no field for (the RECENT count, the UNSEEN and BADCHARSET codes,
\* unknown STATUS items, NAMESPACE / LIST / ESEARCH / body-structure extension data)
\* have the classes ign32 / istr / lpi / oval with no bad tokens: a client may skip
\* them without looking.  The monitors (panic, recursion, resources) still apply.
BadDef(c) ==
  CASE c \in {"n32", "nz32"} -> Over32                       \* overflow of a 32-bit number
    [] c \in {"seq", "uid"}  -> {"n0"} \cup Over32            \* zero in a result, overflow
    [] c = "n64"  -> {"nP63", "n20d"}                        \* overflow of number64
    [] c = "mseq" -> {"n20d"}
    [] c = "set"  -> SetDyn \cup SetZero \cup SetMal
    [] c \in StrClasses -> BadLits
    [] c = "lp"   -> {t \in RawNest : DepthOf[t] > Cap}
    \* nested values ("val") occur only in data the API discards: nothing is demanded
    [] c \in OpenClasses \ {"oval"} -> {OpenTok(FamOf(c), d) : d \in {d \in Depths : d > Cap}}
    [] OTHER -> {}

\* tables (evaluated once)
GoodTab == TLCEval([c \in SlotClasses |-> GoodDef(c)])
BadTab  == TLCEval([c \in SlotClasses |-> BadDef(c)])
GoodOf(c) == GoodTab[c]
BadOf(c)  == BadTab[c]

\* which invariant a bad token violates (narrows the finding signature)
Why(c, t) ==
  IF t = "n0" THEN (IF c = "seq" THEN "zero-seqnum" ELSE "zero-uid")
  ELSE IF t \in NumTokens THEN "bad-number"
  ELSE IF t \in SetDyn THEN "dynamic-set"
  ELSE IF t \in SetZero THEN "zero-in-set"
  ELSE IF t \in SetMal THEN "bad-set"
  ELSE IF t \in BadLits THEN "bad-literal"
  ELSE "overdeep"

\* a delivered value is small enough to be enumerated / walked by the harness
BigTokens == {"sBig", "sHalf"} \cup {t \in NestTokens : DepthOf[t] > Cap + 1}
SmallLine(toks) == \A i \in 1..Len(toks) : toks[i] \notin BigTokens

\* ------------------------------------------------------------------ grammar helpers
F(t)    == <<[t |-> t, s |-> "f"]>>
V(c, t) == <<[t |-> t, s |-> c]>>
sp      == F("SP")
RECURSIVE J(_)            \* fragments separated by SP
J(fs) == IF Len(fs) = 0 THEN <<>> ELSE IF Len(fs) = 1 THEN fs[1] ELSE fs[1] \o sp \o J(Tail(fs))
RECURSIVE Cat(_)          \* fragments without separator
Cat(fs) == IF Len(fs) = 0 THEN <<>> ELSE fs[1] \o Cat(Tail(fs))
W(ws)  == J([i \in 1..Len(ws) |-> F(ws[i])])        \* fixed words separated by SP
P(fr)  == V("lp", "LP") \o fr \o F("RP")             \* parenthesised; the '(' is a nesting slot
Pi(fr) == V("lpi", "LP") \o fr \o F("RP")            \* parenthesised, inside data the API discards
PJ(fs) == P(J(fs))
Un(fr) == F("STAR") \o sp \o fr \o F("CRLF")         \* untagged response
Tgd(fr) == F("CTAG") \o sp \o fr \o F("CRLF")         \* tagged completion of the pending command
Code(fr) == F("LB") \o fr \o F("RB")
Nest(f, inner) == V("o" \o f, OpenTok(f, 1)) \o inner \o V("c" \o f, CloseTok(f, 1))

B(k, n, toks)      == [kind |-> k, name |-> n, st |-> "OK", commit |-> 0, toks |-> toks]
\* responses that start with a number: the class of that slot is known only
\* after the keyword ( * n EXISTS / EXPUNGE / FETCH ), token 5
BN(k, n, toks)     == [kind |-> k, name |-> n, st |-> "OK", commit |-> 5, toks |-> toks]
BS(k, n, st, toks) == [kind |-> k, name |-> n, st |-> st, commit |-> 0, toks |-> toks]

\* ------------------------------------------------------------------ fragments
Caps2   == J(<<V("cap", "IMAP4rev1"), V("cap", "IDLE")>>)
Caps3   == J(<<V("cap", "IMAP4rev1"), V("cap", "LITERAL-"), V("cap", "aAuthPlain")>>)
FlagsL  == PJ(<<V("flag", "fSeen"), V("flag", "fAnswered"), V("flag", "kwA")>>)
Flags1  == P(V("flag", "fSeen"))
PFlagsL == PJ(<<V("pflag", "fSeen"), V("pflag", "fDeleted"), V("pflag", "fStar")>>)
Empty   == V("lp", "LP") \o F("RP")
StatusOf(st, code, txt) ==       \* resp-cond-state with optional code
  IF code = <<>> THEN J(<<F(st), F(txt)>>) ELSE J(<<F(st), Code(code), F(txt)>>)
CopyUid == J(<<F("COPYUID"), V("nz32", "n42"), V("set", "s1c5to7"), V("set", "s1to3")>>)
AppendUid == J(<<F("APPENDUID"), V("nz32", "n42"), V("uid", "n7")>>)

ListOf(attrs, delim, mbox) == J(<<F("LIST"), attrs, delim, mbox>>)
StatusItems == PJ(<<F("MESSAGES"), V("n32", "n1"), F("UIDNEXT"), V("nz32", "n2")>>)
StatusAll == PJ(<<F("MESSAGES"), V("n32", "n1"), F("UIDNEXT"), V("nz32", "n2"), F("UIDVALIDITY"), V("nz32", "n3"),
                  F("UNSEEN"), V("n32", "n0"), F("DELETED"), V("n32", "n0"), F("SIZE"), V("n64", "n100"),
                  F("APPENDLIMIT"), F("NIL"), F("HIGHESTMODSEQ"), V("mseq", "n9"),
                  F("DELETED-STORAGE"), V("n64", "n0")>>)

Corr == PJ(<<F("TAG"), F("qTAG")>>)       \* search-correlator

\* envelope
Addr   == PJ(<<V("nstr", "qName"), V("nstr", "NIL"), V("nstr", "qUser"), V("nstr", "qHost")>>)
AddrL1 == P(Addr)
AddrL2 == P(Addr \o Addr)
EnvNil == PJ(<<V("nstr", "NIL"), V("nstr", "NIL"), F("NIL"), F("NIL"), F("NIL"), F("NIL"), F("NIL"), F("NIL"),
               V("nstr", "NIL"), V("nstr", "NIL")>>)
EnvFull == PJ(<<V("nstr", "qEnvDate"), V("nstr", "qSubj"), AddrL1, AddrL1, AddrL1, AddrL2, F("NIL"), F("NIL"),
                V("nstr", "qMsgid"), V("nstr", "qMsgid")>>)
EnvLit == PJ(<<V("nstr", "qEnvDate"), V("nstr", "lit3"), AddrL1, F("NIL"), F("NIL"), AddrL1, F("NIL"), F("NIL"),
               V("nstr", "NIL"), V("nstr", "qMsgid")>>)

\* body structures
Param1  == PJ(<<V("str", "qCHARSET"), V("str", "qUSASCII")>>)
Dsp     == PJ(<<V("str", "qATTACHMENT"), PJ(<<V("str", "qFILENAME"), V("str", "qFn")>>)>>)
DspNil  == PJ(<<V("str", "qATTACHMENT"), F("NIL")>>)
Langs   == PJ(<<V("str", "qEN"), V("str", "qDE")>>)
Fields  == J(<<V("nstr", "NIL"), V("nstr", "NIL"), V("str", "q7BIT"), V("n32", "n100")>>)  \* id desc enc octets
TextBody  == PJ(<<F("qTEXT"), V("str", "qPLAIN"), Param1, Fields, V("n64", "n7")>>)
TextBody0 == PJ(<<F("qTEXT"), V("str", "qPLAIN"), F("NIL"), Fields, V("n64", "n7")>>)
TextExt   == PJ(<<F("qTEXT"), V("str", "qPLAIN"), Param1, V("nstr", "qId"), V("nstr", "qDesc"), V("str", "q7BIT"),
                  V("n32", "n100"), V("n64", "n7"), V("nstr", "qMd5"), Dsp, Langs, V("nstr", "qLoc")>>)
TextExtVal == PJ(<<F("qTEXT"), V("str", "qPLAIN"), F("NIL"), Fields, V("n64", "n7"), V("nstr", "NIL"), F("NIL"), F("NIL"),
                   V("nstr", "NIL"), Nest("val", F("qB"))>>)
BasicBody == PJ(<<F("qAPPLICATION"), V("str", "qOCTET"), F("NIL"), V("nstr", "NIL"), V("nstr", "NIL"), V("str", "qBASE64"),
                  V("n32", "n100")>>)
BasicExt  == PJ(<<F("qAPPLICATION"), V("str", "qOCTET"), F("NIL"), V("nstr", "NIL"), V("nstr", "NIL"), V("str", "qBASE64"),
                  V("n32", "n100"), V("nstr", "NIL"), DspNil, V("nstr", "qEN")>>)
MsgBody   == PJ(<<F("qMESSAGE"), F("qRFC822"), F("NIL"), Fields, EnvNil, TextBody0, V("n64", "n7")>>)
\* the short form some servers send for an encapsulated message: basic fields only, no envelope / structure / lines
MsgShort  == PJ(<<F("qMESSAGE"), F("qRFC822"), F("NIL"), Fields>>)
MpMsgShort == P(Cat(<<TextBody0, MsgShort>>) \o sp \o V("str", "qMIXED"))
MpBody    == P(Cat(<<TextBody0, BasicBody>>) \o sp \o V("str", "qMIXED"))
MpExt     == P(Cat(<<TextBody0, TextBody0>>) \o sp \o J(<<V("str", "qMIXED"), PJ(<<V("str", "qA"), V("str", "qB")>>), Dsp, Langs,
                                                          V("nstr", "qLoc")>>))
MpNested  == P(Cat(<<MpBody, TextBody0>>) \o sp \o V("str", "qMIXED"))

Fetch(seqtok, items) == J(<<V("seq", seqtok), F("FETCH"), PJ(items)>>)
Sec(fr)    == Cat(<<F("BODY"), F("LB"), fr, F("RB")>>)
BinSec(fr) == Cat(<<F("BINARY"), F("LB"), fr, F("RB")>>)
Part12Mime == Cat(<<V("nz32", "n1"), F("DOT"), V("nz32", "n2"), F("DOT"), F("MIME")>>)
HdrFields  == J(<<F("HEADER.FIELDS"), PJ(<<V("astr", "aFrom"), V("astr", "aTo")>>)>>)
HdrFieldsN == J(<<F("HEADER.FIELDS.NOT"), P(V("astr", "aFrom"))>>)

\* ------------------------------------------------------------------ the bases
FetchBases(k) ==
  <<BN(k, "fetch.flags",   Un(Fetch("n1", <<F("FLAGS"), FlagsL>>))),
    BN(k, "fetch.flags0",  Un(Fetch("n2", <<F("FLAGS"), Empty>>))),
    BN(k, "fetch.uid",     Un(Fetch("n1", <<F("UID"), V("uid", "n7")>>))),
    BN(k, "fetch.size",    Un(Fetch("n1", <<F("UID"), V("uid", "n7"), F("RFC822.SIZE"), V("n64", "n100")>>))),
    BN(k, "fetch.date",    Un(Fetch("n1", <<F("UID"), V("uid", "n7"), F("INTERNALDATE"), F("qDate")>>))),
    BN(k, "fetch.modseq",  Un(Fetch("n1", <<F("UID"), V("uid", "n7"), F("MODSEQ"), P(V("mseq", "n9"))>>))),
    BN(k, "fetch.env.nil", Un(Fetch("n1", <<F("UID"), V("uid", "n7"), F("ENVELOPE"), EnvNil>>))),
    BN(k, "fetch.env.full", Un(Fetch("n1", <<F("UID"), V("uid", "n7"), F("ENVELOPE"), EnvFull>>))),
    BN(k, "fetch.env.lit", Un(Fetch("n1", <<F("UID"), V("uid", "n7"), F("ENVELOPE"), EnvLit>>))),
    BN(k, "fetch.body.text", Un(Fetch("n1", <<F("UID"), V("uid", "n7"), F("BODY"), TextBody>>))),
    BN(k, "fetch.bs.text",  Un(Fetch("n1", <<F("UID"), V("uid", "n7"), F("BODYSTRUCTURE"), TextExt>>))),
    BN(k, "fetch.bs.extval", Un(Fetch("n1", <<F("UID"), V("uid", "n7"), F("BODYSTRUCTURE"), TextExtVal>>))),
    BN(k, "fetch.body.basic", Un(Fetch("n1", <<F("UID"), V("uid", "n7"), F("BODY"), BasicBody>>))),
    BN(k, "fetch.bs.basic", Un(Fetch("n1", <<F("UID"), V("uid", "n7"), F("BODYSTRUCTURE"), BasicExt>>))),
    BN(k, "fetch.bs.msg",   Un(Fetch("n1", <<F("UID"), V("uid", "n7"), F("BODYSTRUCTURE"), MsgBody>>))),
    BN(k, "fetch.bs.msgshort", Un(Fetch("n1", <<F("UID"), V("uid", "n7"), F("BODYSTRUCTURE"), MsgShort>>))),
    BN(k, "fetch.body.mpmsgshort", Un(Fetch("n1", <<F("UID"), V("uid", "n7"), F("BODY"), MpMsgShort>>))),
    BN(k, "fetch.bs.msgnest", Un(Fetch("n1", <<F("UID"), V("uid", "n7"), F("BODYSTRUCTURE"), Nest("msg", TextBody0)>>))),
    BN(k, "fetch.bs.mp",    Un(Fetch("n1", <<F("UID"), V("uid", "n7"), F("BODYSTRUCTURE"), MpBody>>))),
    BN(k, "fetch.bs.mpext", Un(Fetch("n1", <<F("UID"), V("uid", "n7"), F("BODYSTRUCTURE"), MpExt>>))),
    BN(k, "fetch.body.mpnested", Un(Fetch("n1", <<F("UID"), V("uid", "n7"), F("BODY"), MpNested>>))),
    BN(k, "fetch.bs.mpnest", Un(Fetch("n1", <<F("UID"), V("uid", "n7"), F("BODYSTRUCTURE"), Nest("mp", TextBody0)>>))),
    BN(k, "fetch.sec.all",  Un(Fetch("n1", <<F("UID"), V("uid", "n7"), Sec(<<>>), V("nstr", "lit3")>>))),
    BN(k, "fetch.sec.hdr",  Un(Fetch("n1", <<F("UID"), V("uid", "n7"), Sec(F("HEADER")), V("nstr", "litHdr")>>))),
    BN(k, "fetch.sec.mime", Un(Fetch("n1", <<F("UID"), V("uid", "n7"), Sec(Part12Mime), V("nstr", "NIL")>>))),
    BN(k, "fetch.sec.fields", Un(Fetch("n1", <<F("UID"), V("uid", "n7"), Sec(HdrFields), V("nstr", "litHdr")>>))),
    BN(k, "fetch.sec.fieldsnot", Un(Fetch("n1", <<F("UID"), V("uid", "n7"), Sec(HdrFieldsN), V("nstr", "qA")>>))),
    BN(k, "fetch.sec.partial", Un(Fetch("n1", <<F("UID"), V("uid", "n7"),
                                   Cat(<<Sec(F("TEXT")), F("LT"), V("n32", "n0"), F("GT")>>), V("nstr", "lit3")>>))),
    BN(k, "fetch.sec.part", Un(Fetch("n1", <<F("UID"), V("uid", "n7"), Sec(V("nz32", "n1")), V("nstr", "qA")>>))),
    BN(k, "fetch.binary",   Un(Fetch("n1", <<F("UID"), V("uid", "n7"), BinSec(V("nz32", "n1")), V("nstr", "lit3")>>))),
    BN(k, "fetch.binary8",  Un(Fetch("n1", <<F("UID"), V("uid", "n7"), BinSec(V("nz32", "n1")), F("TILDE") \o F("lit3")>>))),
    BN(k, "fetch.binsize",  Un(Fetch("n1", <<F("UID"), V("uid", "n7"),
                                   Cat(<<F("BINARY.SIZE"), F("LB"), V("nz32", "n1"), F("RB")>>), V("n32", "n42")>>))),
    BN(k, "fetch.combo",    Un(Fetch("nM32", <<F("UID"), V("uid", "nM32"), F("FLAGS"), Flags1, F("RFC822.SIZE"), V("n64", "n100"),
                                   F("INTERNALDATE"), F("qDate"), Sec(<<>>), V("nstr", "lit3")>>))),
    BN(k, "fetch.uidlast",  Un(Fetch("n1", <<F("FLAGS"), Flags1, F("UID"), V("uid", "n7")>>))),
    BN(k, "fetch.two",      Un(Fetch("n1", <<F("UID"), V("uid", "n7")>>)) \o Un(Fetch("n2", <<F("UID"), V("uid", "n9")>>)))>>

SearchBases(k, c) ==
  <<B(k, "search.none", Un(F("SEARCH"))),
    B(k, "search.one",  Un(J(<<F("SEARCH"), V(c, "n1")>>))),
    B(k, "search.many", Un(J(<<F("SEARCH"), V(c, "n2"), V(c, "n3"), V(c, "nM32")>>))),
    B(k, "search.modseq", Un(J(<<F("SEARCH"), V(c, "n2"), V(c, "n3"), PJ(<<F("MODSEQ"), V("mseq", "n9")>>)>>)))>>

ESearchBases(k, c, uid) ==
  LET Pre == IF uid THEN J(<<F("ESEARCH"), Corr, F("UID")>>) ELSE J(<<F("ESEARCH"), Corr>>) IN
  <<B(k, "esearch.none", Un(Pre)),
    B(k, "esearch.all",  Un(J(<<Pre, F("ALL"), V("set", "s1to3")>>))),
    B(k, "esearch.full", Un(J(<<Pre, F("MIN"), V(c, "n1"), F("MAX"), V(c, "n9"), F("COUNT"), V("n32", "n3"),
                                 F("ALL"), V("set", "s1c5to7")>>))),
    B(k, "esearch.count0", Un(J(<<Pre, F("COUNT"), V("n32", "n0")>>))),
    B(k, "esearch.modseq", Un(J(<<Pre, F("ALL"), V("set", "s1"), F("MODSEQ"), V("mseq", "n9")>>))),
    B(k, "esearch.ext",  Un(J(<<Pre, F("aX"), Nest("val", F("qB"))>>))),
    B(k, "esearch.nocorr", Un(IF uid THEN J(<<F("ESEARCH"), F("UID"), F("ALL"), V("set", "s1")>>)
                                     ELSE J(<<F("ESEARCH"), F("ALL"), V("set", "s1")>>)))>>

Bases ==
  \* greeting (no command pending)
  <<B("greeting", "greeting.ok",      Un(StatusOf("OK", J(<<F("CAPABILITY"), Caps3>>), "TXT"))),
    B("greeting", "greeting.preauth", Un(StatusOf("PREAUTH", J(<<F("CAPABILITY"), Caps2>>), "TXT"))),
    B("greeting", "greeting.plain",   Un(StatusOf("OK", <<>>, "TXT2"))),
  \* unsolicited data in selected state (NOOP pending, unilateral data handler installed)
    BN("unsol", "unsol.exists",  Un(J(<<V("n32", "n3"), F("EXISTS")>>))),
    BN("unsol", "unsol.recent",  Un(J(<<V("ign32", "n2"), F("RECENT")>>))),
    BN("unsol", "unsol.expunge", Un(J(<<V("seq", "n1"), F("EXPUNGE")>>))),
    B("unsol", "unsol.flags",    Un(J(<<F("FLAGS"), FlagsL>>))),
    B("unsol", "unsol.flags0",   Un(J(<<F("FLAGS"), Empty>>))),
    BN("unsol", "unsol.fetch.flags", Un(Fetch("n1", <<F("FLAGS"), Flags1>>))),
    BN("unsol", "unsol.fetch.uidmod", Un(Fetch("n2", <<F("UID"), V("uid", "n7"), F("MODSEQ"), P(V("mseq", "n9"))>>))),
    BN("unsol", "unsol.fetch.bs", Un(Fetch("n2", <<F("BODYSTRUCTURE"), MpBody>>))),
    B("unsol", "unsol.ok.alert", Un(StatusOf("OK", F("ALERT"), "TXT"))),
    B("unsol", "unsol.no",       Un(StatusOf("NO", <<>>, "TXT"))),
    B("unsol", "unsol.bad",      Un(StatusOf("BAD", <<>>, "TXT2"))),
    B("unsol", "unsol.bye",      Un(StatusOf("BYE", <<>>, "TXT"))),
    B("unsol", "unsol.code.unseen",  Un(StatusOf("OK", J(<<F("UNSEEN"), V("ign32", "n3")>>), "TXT"))),
    B("unsol", "unsol.code.uidnext", Un(StatusOf("OK", J(<<F("UIDNEXT"), V("nz32", "n7")>>), "TXT"))),
    B("unsol", "unsol.code.uidvalidity", Un(StatusOf("OK", J(<<F("UIDVALIDITY"), V("nz32", "n42")>>), "TXT"))),
    B("unsol", "unsol.code.permflags", Un(StatusOf("OK", J(<<F("PERMANENTFLAGS"), PFlagsL>>), "TXT"))),
    B("unsol", "unsol.code.hms",     Un(StatusOf("OK", J(<<F("HIGHESTMODSEQ"), V("mseq", "n9")>>), "TXT"))),
    B("unsol", "unsol.code.nomodseq", Un(StatusOf("OK", F("NOMODSEQ"), "TXT"))),
    B("unsol", "unsol.code.closed",  Un(StatusOf("OK", F("CLOSED"), "TXT"))),
    B("unsol", "unsol.code.readonly", Un(StatusOf("OK", F("READ-ONLY"), "TXT"))),
    B("unsol", "unsol.code.readwrite", Un(StatusOf("OK", F("READ-WRITE"), "TXT"))),
    B("unsol", "unsol.code.trycreate", Un(StatusOf("NO", F("TRYCREATE"), "TXT"))),
    B("unsol", "unsol.code.parse",   Un(StatusOf("OK", F("PARSE"), "TXT2"))),
    B("unsol", "unsol.code.capability", Un(StatusOf("OK", J(<<F("CAPABILITY"), Caps2>>), "TXT"))),
    B("unsol", "unsol.code.copyuid", Un(StatusOf("OK", CopyUid, "TXT"))),
    B("unsol", "unsol.code.badcharset", Un(StatusOf("NO", J(<<F("BADCHARSET"), Pi(J(<<V("istr", "aBox"), V("istr", "qA")>>))>>), "TXT"))),
    B("unsol", "unsol.code.unknown", Un(StatusOf("OK", J(<<F("aX"), F("TXT"), F("TXT")>>), "TXT"))),
    B("unsol", "unsol.code.overquota", Un(StatusOf("NO", F("OVERQUOTA"), "TXT"))),
    B("unsol", "unsol.code.alreadyexists", Un(StatusOf("NO", F("ALREADYEXISTS"), "TXT"))),
    B("unsol", "unsol.capability", Un(J(<<F("CAPABILITY"), Caps3>>))),
    B("unsol", "unsol.enabled",  Un(J(<<F("ENABLED"), V("cap", "CONDSTORE")>>))),
    B("unsol", "unsol.metadata", Un(J(<<F("METADATA"), V("mbox", "qInbox"), F("aEntry"), F("qEntry2")>>))),
    B("unsol", "unsol.list",     Un(ListOf(P(V("attr", "fHasNoChildren")), F("qSlash"), V("mbox", "INBOX")))),
    B("unsol", "unsol.status",   Un(J(<<F("STATUS"), V("mbox", "aBox"), StatusItems>>))),
  \* unsolicited data, no unilateral data handler installed (the client discards it itself)
    BN("bare", "bare.fetch.flags", Un(Fetch("n1", <<F("FLAGS"), Flags1>>))),
    BN("bare", "bare.fetch.sec",   Un(Fetch("n1", <<F("UID"), V("uid", "n7"), Sec(<<>>), V("nstr", "lit3")>>))),
    BN("bare", "bare.fetch.bs",    Un(Fetch("n2", <<F("BODYSTRUCTURE"), TextBody0>>))),
    BN("bare", "bare.expunge",     Un(J(<<V("seq", "n1"), F("EXPUNGE")>>))),
    BN("bare", "bare.exists",      Un(J(<<V("n32", "n3"), F("EXISTS")>>))),
  \* tagged completions (NOOP pending)
    B("tagged", "tagged.ok",     Tgd(StatusOf("OK", <<>>, "TXT"))),
    BS("tagged", "tagged.no", "NO",   Tgd(StatusOf("NO", <<>>, "TXT2"))),
    BS("tagged", "tagged.bad", "BAD", Tgd(StatusOf("BAD", <<>>, "TXT"))),
    B("tagged", "tagged.ok.code", Tgd(StatusOf("OK", F("READ-WRITE"), "TXT"))),
    BS("tagged", "tagged.no.code", "NO", Tgd(StatusOf("NO", F("TRYCREATE"), "TXT"))),
    B("tagged", "tagged.ok.unknown", Tgd(StatusOf("OK", J(<<F("aX"), F("TXT")>>), "TXT"))),
    B("tagged", "tagged.ok.cap", Tgd(StatusOf("OK", J(<<F("CAPABILITY"), Caps2>>), "TXT"))),
    B("tagged", "tagged.withdata", Un(J(<<V("n32", "n3"), F("EXISTS")>>)) \o Tgd(StatusOf("OK", <<>>, "TXT"))),
  \* SELECT
    B("select", "select.flags",  Un(J(<<F("FLAGS"), FlagsL>>))),
    BN("select", "select.exists", Un(J(<<V("n32", "n3"), F("EXISTS")>>))),
    BN("select", "select.recent", Un(J(<<V("ign32", "n0"), F("RECENT")>>))),
    B("select", "select.permflags", Un(StatusOf("OK", J(<<F("PERMANENTFLAGS"), PFlagsL>>), "TXT"))),
    B("select", "select.uidnext", Un(StatusOf("OK", J(<<F("UIDNEXT"), V("nz32", "n7")>>), "TXT"))),
    B("select", "select.uidvalidity", Un(StatusOf("OK", J(<<F("UIDVALIDITY"), V("nz32", "nM32")>>), "TXT"))),
    B("select", "select.unseen", Un(StatusOf("OK", J(<<F("UNSEEN"), V("ign32", "n2")>>), "TXT"))),
    B("select", "select.hms",    Un(StatusOf("OK", J(<<F("HIGHESTMODSEQ"), V("mseq", "nM63")>>), "TXT"))),
    B("select", "select.nomodseq", Un(StatusOf("OK", F("NOMODSEQ"), "TXT"))),
    B("select", "select.list",   Un(ListOf(Empty, F("qSlash"), V("mbox", "INBOX")))),
    B("select", "select.all",    Un(J(<<F("FLAGS"), FlagsL>>)) \o Un(J(<<V("n32", "n3"), F("EXISTS")>>))
                                 \o Un(StatusOf("OK", J(<<F("UIDVALIDITY"), V("nz32", "n42")>>), "TXT"))
                                 \o Un(StatusOf("OK", J(<<F("UIDNEXT"), V("nz32", "n7")>>), "TXT"))
                                 \o Un(StatusOf("OK", J(<<F("PERMANENTFLAGS"), PFlagsL>>), "TXT"))),
  \* CAPABILITY, ENABLE, LOGIN
    B("capability", "capability.data", Un(J(<<F("CAPABILITY"), Caps3>>))),
    B("enable", "enable.one",    Un(J(<<F("ENABLED"), V("cap", "METADATA")>>))),
    B("enable", "enable.none",   Un(F("ENABLED"))),
    \* the same in a second session on the connection (LOGIN .. UNAUTHENTICATE .. ENABLE): what a session leaves behind
    B("enable2", "enable2.one",  Un(J(<<F("ENABLED"), V("cap", "METADATA")>>))),
    B("login", "login.cap",      Tgd(StatusOf("OK", J(<<F("CAPABILITY"), Caps2>>), "TXT"))),
    BS("login", "login.no", "NO", Tgd(StatusOf("NO", F("AUTHENTICATIONFAILED"), "TXT"))),
  \* LIST (LSUB is not parsed by this client: excluded)
    B("list", "list.basic",  Un(ListOf(P(V("attr", "fHasNoChildren")), F("qSlash"), V("mbox", "INBOX")))),
    B("list", "list.nil",    Un(ListOf(Empty, F("NIL"), V("mbox", "aBox")))),
    B("list", "list.attrs",  Un(ListOf(PJ(<<V("attr", "fNoselect"), V("attr", "fHasChildren")>>), F("qDotS"), V("mbox", "qBox")))),
    B("list", "list.lit",    Un(ListOf(Empty, F("qSlash"), V("mbox", "lit3")))),
    B("list", "list.utf7",   Un(ListOf(Empty, F("qSlash"), V("mbox", "qUtf7")))),
    B("list", "list.childinfo", Un(J(<<ListOf(P(V("attr", "fSubscribed")), F("qSlash"), V("mbox", "aBox")),
                                       PJ(<<F("qCHILDINFO"), P(F("qSUBSCRIBED"))>>)>>))),
    B("list", "list.oldname", Un(J(<<ListOf(Empty, F("qSlash"), V("mbox", "aBox")),
                                     PJ(<<F("qOLDNAME"), P(V("mbox", "qBox"))>>)>>))),
    B("list", "list.ext",    Un(J(<<ListOf(Empty, F("qSlash"), V("mbox", "aBox")),
                                    PJ(<<F("qXEXT"), Nest("val", F("qB"))>>)>>))),
    B("list", "list.two",    Un(ListOf(Empty, F("qSlash"), V("mbox", "INBOX"))) \o Un(ListOf(Empty, F("qSlash"), V("mbox", "aBox")))),
    B("liststatus", "liststatus.pair", Un(ListOf(Empty, F("qSlash"), V("mbox", "aBox")))
                                       \o Un(J(<<F("STATUS"), V("mbox", "aBox"), StatusItems>>))),
  \* STATUS
    B("status", "status.all",   Un(J(<<F("STATUS"), V("mbox", "INBOX"), StatusAll>>))),
    B("status", "status.applimit", Un(J(<<F("STATUS"), V("mbox", "qInbox"), PJ(<<F("APPENDLIMIT"), V("n32", "n100")>>)>>))),
    B("status", "status.empty", Un(J(<<F("STATUS"), V("mbox", "INBOX"), Empty>>))),
    B("status", "status.recent", Un(J(<<F("STATUS"), V("mbox", "INBOX"), PJ(<<F("RECENT"), V("ign32", "n0"), F("MESSAGES"), V("n32", "n1")>>)>>)))>>
  \* SEARCH / ESEARCH / SORT / THREAD
  \o SearchBases("search", "seq") \o SearchBases("uidsearch", "uid")
  \o ESearchBases("esearch", "seq", FALSE) \o ESearchBases("uidesearch", "uid", TRUE)
  \o <<B("sort", "sort.none",  Un(F("SORT"))),
       B("sort", "sort.many",  Un(J(<<F("SORT"), V("nz32", "n2"), V("nz32", "n1"), V("nz32", "nM32")>>))),
       B("uidsort", "uidsort.many", Un(J(<<F("SORT"), V("nz32", "n9"), V("nz32", "n7")>>))),
       B("thread", "thread.none", Un(F("THREAD"))),
       B("thread", "thread.flat", Un(J(<<F("THREAD"), Cat(<<P(V("nz32", "n1")), PJ(<<V("nz32", "n2"), V("nz32", "n3")>>)>>)>>))),
       B("thread", "thread.nested", Un(J(<<F("THREAD"),
            Cat(<<P(V("nz32", "n2")),
                  PJ(<<V("nz32", "n3"), V("nz32", "n7"), Cat(<<P(V("nz32", "n1")), PJ(<<V("nz32", "n9"), V("nz32", "n42")>>)>>)>>)>>)>>))),
       B("thread", "thread.nest", Un(J(<<F("THREAD"), Nest("thr", P(V("nz32", "n3")))>>))),
  \* QUOTA / QUOTAROOT
       B("getquota", "quota.storage", Un(J(<<F("QUOTA"), F("qEmpty"), PJ(<<F("STORAGE"), V("n64", "n9"), V("n64", "n100")>>)>>))),
       B("getquota", "quota.two",   Un(J(<<F("QUOTA"), F("qEmpty"), PJ(<<F("STORAGE"), V("n64", "n9"), V("n64", "nM63"),
                                                                          F("MESSAGE"), V("n64", "n1"), V("n64", "n42")>>)>>))),
       B("getquota", "quota.empty", Un(J(<<F("QUOTA"), F("qEmpty"), Empty>>))),
       B("getquotaroot", "quotaroot.pair", Un(J(<<F("QUOTAROOT"), V("mbox", "INBOX"), V("astr", "qEmpty")>>))
                                           \o Un(J(<<F("QUOTA"), F("qEmpty"), PJ(<<F("STORAGE"), V("n64", "n9"), V("n64", "n100")>>)>>))),
       B("getquotaroot", "quotaroot.none", Un(J(<<F("QUOTAROOT"), V("mbox", "INBOX")>>))),
       B("getquotaroot", "quotaroot.two",  Un(J(<<F("QUOTAROOT"), V("mbox", "qInbox"), V("astr", "qEmpty"), V("astr", "aRoot")>>))),
  \* METADATA
       B("getmetadata", "metadata.one", Un(J(<<F("METADATA"), V("mbox", "qInbox"), PJ(<<F("aEntry"), V("nstr", "qA")>>)>>))),
       B("getmetadata", "metadata.nil", Un(J(<<F("METADATA"), V("mbox", "INBOX"), PJ(<<F("aEntry"), V("nstr", "NIL")>>)>>))),
       B("getmetadata", "metadata.lit", Un(J(<<F("METADATA"), V("mbox", "qInbox"), PJ(<<F("qEntry"), V("nstr", "lit3")>>)>>))),
       B("getmetadata", "metadata.two", Un(J(<<F("METADATA"), V("mbox", "qInbox"),
                                               PJ(<<F("qEntry"), V("nstr", "qA"), F("qEntry2"), V("nstr", "qB")>>)>>))),
       B("getmetadata", "metadata.server", Un(J(<<F("METADATA"), F("qEmpty"), PJ(<<F("aEntry"), V("nstr", "qA")>>)>>))),
  \* NAMESPACE
       B("namespace", "namespace.basic", Un(J(<<F("NAMESPACE"), P(PJ(<<V("str", "qEmpty"), F("qSlash")>>)), F("NIL"), F("NIL")>>))),
       B("namespace", "namespace.full",  Un(J(<<F("NAMESPACE"), P(PJ(<<V("str", "qEmpty"), F("qSlash")>>)),
                                                P(PJ(<<V("str", "qTilde"), F("qSlash")>>)),
                                                P(Cat(<<PJ(<<V("str", "qShared"), F("qSlash")>>), PJ(<<V("str", "qBox"), F("qDotS")>>)>>))>>))),
       B("namespace", "namespace.nil",   Un(J(<<F("NAMESPACE"), F("NIL"), F("NIL"), F("NIL")>>))),
       B("namespace", "namespace.nildelim", Un(J(<<F("NAMESPACE"), P(PJ(<<V("str", "qEmpty"), F("NIL")>>)), F("NIL"), F("NIL")>>))),
       B("namespace", "namespace.ext",   Un(J(<<F("NAMESPACE"),
                                                P(PJ(<<V("str", "qEmpty"), F("qSlash"), V("istr", "qXEXT"), Pi(J(<<V("istr", "qA"), V("istr", "qB")>>))>>)),
                                                F("NIL"), F("NIL")>>)))>>
  \* FETCH (by sequence number, by UID, as the answer to STORE)
  \o FetchBases("fetch") \o FetchBases("uidfetch")
  \o <<BN("store", "store.flags", Un(Fetch("n1", <<F("FLAGS"), FlagsL>>))),
       BN("store", "store.modseq", Un(Fetch("n2", <<F("UID"), V("uid", "n7"), F("MODSEQ"), P(V("mseq", "n9")), F("FLAGS"), Flags1>>))),
  \* EXPUNGE
       BN("expunge", "expunge.one", Un(J(<<V("seq", "n1"), F("EXPUNGE")>>))),
       BN("expunge", "expunge.two", Un(J(<<V("seq", "n3"), F("EXPUNGE")>>)) \o Un(J(<<V("seq", "n3"), F("EXPUNGE")>>))),
  \* COPY / MOVE / APPEND: UIDPLUS response codes
       B("copy", "copy.copyuid", Tgd(StatusOf("OK", CopyUid, "TXT"))),
       B("copy", "copy.plain",   Tgd(StatusOf("OK", <<>>, "TXT"))),
       BS("copy", "copy.no", "NO", Tgd(StatusOf("NO", F("TRYCREATE"), "TXT"))),
       B("move", "move.copyuid", Un(StatusOf("OK", CopyUid, "TXT")) \o Un(J(<<V("seq", "n2"), F("EXPUNGE")>>))
                                 \o Un(J(<<V("seq", "n2"), F("EXPUNGE")>>))),
       B("append", "append.appenduid", Tgd(StatusOf("OK", AppendUid, "TXT"))),
       B("append", "append.plain",     Tgd(StatusOf("OK", <<>>, "TXT"))),
       B("appendsync", "appendsync.appenduid", F("PLUS") \o sp \o F("TXT") \o F("CRLF") \o Tgd(StatusOf("OK", AppendUid, "TXT")))>>

NB == Len(Bases)
Kinds == {Bases[i].kind : i \in 1..NB}
ByKind == TLCEval([k \in Kinds |-> {i \in 1..NB : Bases[i].kind = k}])
\* contexts whose lines carry the tagged completion themselves
TaggedKinds == {"tagged", "login", "copy", "append", "appendsync"}

\* ------------------------------------------------------------------ classification
\* the token of the base itself, or (in a slot) any token that is good for the slot class
OkAt(e, t)  == t = e.t \/ (e.s # "f" /\ t \in GoodOf(e.s))
BadAt(e, t) == e.s # "f" /\ t \in BadOf(e.s)

RECURSIVE FirstNot(_, _, _, _)    \* least j in i..n with a token that is not good for its slot; 0 if none
FirstNot(bt, toks, j, n) ==
  IF j > n THEN 0 ELSE IF OkAt(bt[j], toks[j]) THEN FirstNot(bt, toks, j + 1, n) ELSE j

\* nesting tokens of one family must agree in depth (one pair per family per base)
Balanced(bt, toks) ==
  \A i \in 1..Len(bt) :
     bt[i].s \in OpenClasses =>
        \A j \in 1..Len(bt) : (bt[j].s = "c" \o FamOf(bt[i].s)) => DepthOf[toks[i]] = DepthOf[toks[j]]

\* Tokens are lexical fragments, not lexemes: a number or set token directly followed by another fragment
\* may fuse with it on the wire ("0" "7" is the number 7, "1:0" "7" the set 1:07), so a bad number or set
\* token violates an invariant for certain only when no further digits follow it directly.
Fusing == NumTokens \cup SetGood \cup SetDyn \cup SetZero \cup SetMal
Delimited(toks, j) ==
  toks[j] \in Fusing => (j = Len(toks) \/ toks[j + 1] \notin Fusing)

\* verdict of one base on a line: <<class, why, position of the bad token>>, given the first position j whose token
\* is not good for its slot
VerdictAt(b, toks, j) ==
  LET bt == b.toks IN
  IF j = 0
    THEN IF Len(bt) = Len(toks) /\ Balanced(bt, toks) THEN <<"D", "", 0>> ELSE <<"X", "", 0>>
  ELSE IF BadAt(bt[j], toks[j]) /\ Delimited(toks, j)
          /\ (j >= b.commit \/ (Len(toks) >= b.commit /\ FirstNot(bt, toks, j + 1, b.commit) = 0))
    THEN <<"E", Why(bt[j].s, toks[j]), j>>
  ELSE <<"X", "", 0>>

\* (TLC re-evaluates LET definitions on every use; binding through a singleton set
\* evaluates once)
Verdict(b, toks) ==
  CHOOSE r \in {VerdictAt(b, toks, j) : j \in {FirstNot(b.toks, toks, 1, Min(Len(b.toks), Len(toks)))}} : TRUE

Verdicts(k, toks) == IF k \in Kinds THEN {<<i, Verdict(Bases[i], toks)>> : i \in ByKind[k]} ELSE {}

\* [c: class, w: why, b: index of a base that decides (0 for X), amb: both D and E apply,
\*  at: position of the bad token for E]
ClassFrom(vs) ==
  LET ds == {v \in vs : v[2][1] = "D"}
      es == {v \in vs : v[2][1] = "E"}
  IN IF ds # {} THEN [c |-> "D", w |-> "", b |-> (CHOOSE v \in ds : TRUE)[1], amb |-> es # {}, at |-> 0]
     ELSE IF es # {} THEN LET v == CHOOSE v \in es : \A u \in es : v[1] <= u[1]
                          IN [c |-> "E", w |-> v[2][2], b |-> v[1], amb |-> FALSE, at |-> v[2][3]]
     ELSE [c |-> "X", w |-> "", b |-> 0, amb |-> FALSE, at |-> 0]

Classify(k, toks) == CHOOSE r \in {ClassFrom(vs) : vs \in {Verdicts(k, toks)}} : TRUE

\* ------------------------------------------------------------------ mutations
\* the mutation alphabet ("replace by any token of the alphabet")
AlphaSeq ==
  <<"STAR", "PLUS", "SP", "CRLF", "LP", "RP", "LB", "RB", "LT", "GT", "DOT", "TILDE", "DOLLAR", "BSL", "PCT", "DQ",
    "LBRACE", "RBRACE", "NUL", "HI", "LF", "CR", "COLON", "COMMA", "CTAG", "TAG", "qTAG", "TXT", "NIL",
    "n0", "n1", "n2", "n42", "nM32", "nP32", "nM63", "nP63", "n20d", "nNeg1", "nLead0",
    "s1to3", "s1c5to7", "sBig", "sStar", "s1toStar", "s0", "s0to3", "sOverR", "sColon", "sCommas",
    "fSeen", "fStar", "kwA", "fNoselect", "aBox", "INBOX", "aEntry",
    "qEmpty", "qA", "qEsc", "qUtf8", "qLong", "qTEXT", "qMESSAGE", "qRFC822", "qMIXED", "qDate", "qSlash", "qInbox", "qBadUtf7",
    "lit0", "lit3", "litCRLF", "litBig", "litShort", "litMax", "litHuge",
    "litNoNum", "litNoCRLF", "litOver", "litNeg", "litPlus", "litUnclosed", "litAlpha",
    "Nlp_10", "Nlp_1001", "Crp_10", "Nmp_10", "Cmp_10", "Nthr_10", "Nval_10",
    "OK", "NO", "BAD", "BYE", "PREAUTH", "CAPABILITY", "LIST", "LSUB", "STATUS", "SEARCH", "ESEARCH", "SORT", "THREAD",
    "QUOTA", "QUOTAROOT", "METADATA", "NAMESPACE", "FLAGS", "EXISTS", "EXPUNGE", "RECENT", "FETCH", "ENABLED",
    "UID", "ENVELOPE", "BODY", "BODYSTRUCTURE", "BINARY", "BINARY.SIZE", "MODSEQ", "INTERNALDATE", "RFC822.SIZE", "RFC822",
    "HEADER", "HEADER.FIELDS", "TEXT", "MIME",
    "APPENDUID", "COPYUID", "UIDNEXT", "UIDVALIDITY", "PERMANENTFLAGS", "HIGHESTMODSEQ", "CLOSED", "ALERT",
    "MIN", "MAX", "ALL", "COUNT", "MESSAGES", "APPENDLIMIT", "SIZE", "STORAGE">>
Alphabet == {AlphaSeq[i] : i \in 1..Len(AlphaSeq)}

\* replacements that are always generated for a slot class (boundary numbers in
\* every numeric slot, every set form in every set slot, malformed literals in
\* every string slot, '('^d in every slot that opens a list or body)
TargetSeq(c) ==
  IF c \in NumClasses THEN <<"n0", "n1", "nM32", "nP32", "nM63", "nP63", "n20d", "nNeg1", "nLead0">>
  ELSE IF c = "set" THEN <<"s1", "s1to3", "s1c5to7", "sRev", "sMax", "sBig", "sHalf", "sStar", "s1toStar", "sStarTo1", "s1cStar",
                           "s0", "s0to3", "s1to0", "s1c0", "sOver", "sOverR", "sColon", "sCommas", "s20d", "DOLLAR">>
  ELSE IF c \in StrClasses THEN <<"litNoNum", "litNoCRLF", "litOver", "litNeg", "litPlus", "litUnclosed", "litAlpha",
                                  "litShort", "litMax", "litHuge", "litBig", "lit0", "qLong", "NIL">>
  ELSE IF c \in {"lp", "lpi"} THEN <<"Nlp_10", "Nlp_999", "Nlp_1000", "Nlp_1001">>
  ELSE <<>>
\* '('^d far beyond the cap, in every slot that opens a list or body; in the quick tier
\* a sample of the slots (every 8th in the thorough tier: each such line at a body slot costs the
\* real client tens of seconds on the current tree) (an unbounded-recursion probe is always part of
\* the harness' resource families)
DeepSeq(c) == IF c \in {"lp", "lpi"} THEN <<"Nlp_100000", "Nlp_1000000">> ELSE <<>>
DeepStride == IF Stride <= 2 THEN 8 ELSE Stride \div 2
KeepDeep(bi, i) == DeepStride = 1 \/ ((bi * 131 + i * 31) % DeepStride) = (Seed % DeepStride)

Drop(s, i)   == SubSeq(s, 1, i - 1) \o SubSeq(s, i + 1, Len(s))
Dup(s, i)    == SubSeq(s, 1, i) \o SubSeq(s, i, Len(s))
Swap(s, i)   == [k \in 1..Len(s) |-> IF k = i THEN s[i + 1] ELSE IF k = i + 1 THEN s[i] ELSE s[k]]
Rep(s, i, t) == [s EXCEPT ![i] = t]
Trunc(s, i)  == SubSeq(s, 1, i - 1)                   \* the stream ends before token i
Cut(s, i, t) == SubSeq(s, 1, i - 1) \o <<t, "CRLF">>   \* token i replaced, the rest dropped, line ended

Apply(s, m) ==
  CASE m.op = "none"  -> s
    [] m.op = "drop"  -> Drop(s, m.i)
    [] m.op = "dup"   -> Dup(s, m.i)
    [] m.op = "swap"  -> Swap(s, m.i)
    [] m.op = "trunc" -> Trunc(s, m.i)
    [] m.op = "rep"   -> Rep(s, m.i, m.t)
    [] m.op = "cut"   -> Cut(s, m.i, m.t)
    [] m.op = "nest"  -> Rep(Rep(s, m.i, m.t), m.j, m.u)   \* balanced: opening and closing token of one family

Mut(op, i, t, j, u) == [op |-> op, i |-> i, t |-> t, j |-> j, u |-> u]
Toks(b) == [i \in 1..Len(b.toks) |-> b.toks[i].t]

\* keep one in Stride of the untargeted mutations (residue chosen by Seed)
Keep(bi, i, opc, k) == Stride = 1 \/ ((bi * 131 + i * 31 + opc * 7 + k) % Stride) = (Seed % Stride)

\* the single mutations of base number bi at position i (i = 0: the base itself)
Singles(bi, i) ==
  LET b == Bases[bi]  s == Toks(b)  L == Len(s) IN
  IF i = 0 THEN {Mut("none", 0, "", 0, "")}
  ELSE LET c == b.toks[i].s  tg == TargetSeq(c) IN
       {m \in {Mut("drop", i, "", 0, ""), Mut("dup", i, "", 0, ""), Mut("trunc", i, "", 0, "")} :
            Keep(bi, i, IF m.op = "drop" THEN 1 ELSE IF m.op = "dup" THEN 2 ELSE 3, 0)}
       \cup (IF i < L /\ Keep(bi, i, 4, 0) THEN {Mut("swap", i, "", 0, "")} ELSE {})
       \cup {Mut("rep", i, AlphaSeq[k], 0, "") : k \in {k \in 1..Len(AlphaSeq) : AlphaSeq[k] # s[i] /\ Keep(bi, i, 5, k)}}
       \cup {Mut("rep", i, tg[k], 0, "") : k \in {k \in 1..Len(tg) : tg[k] # s[i]}}
       \cup (IF c \in {"lp", "lpi"} THEN {Mut("cut", i, tg[k], 0, "") : k \in 1..Len(tg)} ELSE {})
       \cup (IF KeepDeep(bi, i) THEN {Mut("rep", i, DeepSeq(c)[k], 0, "") : k \in 1..Len(DeepSeq(c))}
                                      \cup {Mut("cut", i, DeepSeq(c)[k], 0, "") : k \in 1..Len(DeepSeq(c))}
                                 ELSE {})
       \cup (IF c \in OpenClasses
               THEN LET f == FamOf(c)  j == CHOOSE j \in 1..L : b.toks[j].s = "c" \o f IN
                    {Mut("nest", i, OpenTok(f, d), j, CloseTok(f, d)) : d \in Depths \ {1}}
                    \cup {Mut("rep", i, OpenTok(f, d), 0, "") : d \in {d \in Depths \ {1} : d <= Cap + 1 \/ Stride <= 2 \/ KeepDeep(bi, i)}}
                    \cup {Mut("cut", i, OpenTok(f, d), 0, "") : d \in {d \in Depths \ {1} : d <= Cap + 1 \/ Stride <= 2 \/ KeepDeep(bi, i)}}
               ELSE {})

\* double mutations: a second single-token edit (small alphabet) after the first
Alpha2 == <<"LP", "RP", "SP", "CRLF", "NIL", "n0", "nP32", "qEmpty", "litNoNum", "lit3", "LB", "RB", "sStar", "Nlp_1001", "DQ", "STAR">>
Keep2(bi, i, j, a, c) == Stride2 > 0 /\ ((bi * 131 + i * 31 + j * 17 + a * 7 + c) % Stride2) = (Seed % Stride2)
Doubles(bi, i) ==
  LET s == Toks(Bases[bi])  L == Len(s) IN
  IF i = 0 \/ Stride2 = 0 \/ L < 3 THEN {}
  ELSE LET js == ({i + 1, i + 2, i + 3, ((i * 7 + Seed) % (L - 1)) + 1} \cap (1..(L - 1))) \ {i} IN
       {<<m1, m2>> \in
          ({Mut("drop", i, "", 0, ""), Mut("dup", i, "", 0, "")} \cup {Mut("rep", i, Alpha2[a], 0, "") : a \in 1..Len(Alpha2)})
          \X ({Mut("drop", j, "", 0, "") : j \in js} \cup {Mut("rep", j, Alpha2[a], 0, "") : j \in js, a \in 1..Len(Alpha2)}) :
          Keep2(bi, i, m2.i, IF m1.op = "rep" THEN Len(m1.t) ELSE 1, IF m2.op = "rep" THEN Len(m2.t) ELSE 2)}

\* what the generator intends with a mutation, where it is certain ("?" otherwise);
\* the model check compares it with the classifier
Intent(bi, m) ==
  LET b == Bases[bi] IN
  IF m.op = "none" THEN "D"
  ELSE IF m.op \in {"rep", "cut"} /\ b.toks[m.i].s # "f" /\ m.t \in BadOf(b.toks[m.i].s) /\ (m.op = "rep" \/ m.i >= b.commit) THEN "E"
  ELSE IF m.op = "rep" /\ b.toks[m.i].s # "f" /\ m.t \in GoodOf(b.toks[m.i].s) /\ b.toks[m.i].s \notin OpenClasses \cup CloseClasses THEN "D"
  ELSE IF m.op = "nest" THEN (IF DepthOf[m.t] <= Shallow THEN "D" ELSE IF m.t \in BadOf(b.toks[m.i].s) THEN "E" ELSE "X")
  ELSE "?"

\* ------------------------------------------------------------------ the generator as a state machine
VARIABLES base,    \* index into Bases
          pos,     \* position the mutation applies to (0: none)
          phase,   \* "pick" -> "done"
          line,    \* the generated token sequence
          cls,     \* its classification record
          mut      \* the mutation(s) that made it
vars == <<base, pos, phase, line, cls, mut>>

NoMut == Mut("none", 0, "", 0, "")

Init ==
  /\ base \in 1..NB
  /\ pos \in 0..Len(Bases[base].toks)
  /\ phase = "pick"
  /\ line = <<>> /\ cls = [c |-> "X", w |-> "", b |-> 0, amb |-> FALSE, at |-> 0] /\ mut = <<NoMut>>

Generate(ms) ==
  /\ phase' = "done"
  /\ mut' = ms
  /\ line' = IF Len(ms) = 1 THEN Apply(Toks(Bases[base]), ms[1]) ELSE Apply(Apply(Toks(Bases[base]), ms[1]), ms[2])
  /\ cls' = Classify(Bases[base].kind, line')
  /\ UNCHANGED <<base, pos>>

Next ==
  /\ phase = "pick"
  /\ \/ \E m \in Singles(base, pos) : Generate(<<m>>)
     \/ \E d \in Doubles(base, pos) : Generate(<<d[1], d[2]>>)

\* ------------------------------------------------------------------ properties of the classification
TypeOK ==
  /\ base \in 1..NB /\ pos \in 0..Len(Bases[base].toks) /\ phase \in {"pick", "done"}
  /\ cls.c \in {"D", "E", "X"}                                    \* total
  /\ (cls.c = "E") = (cls.w # "")

\* no line is both conformant for one base and invariant-violating for another
Disjoint == ~cls.amb

\* the classifier agrees with the generator's intent wherever that is certain
RouteAgrees == (phase = "done" /\ Len(mut) = 1 /\ Intent(base, mut[1]) # "?") => cls.c = Intent(base, mut[1])

\* every base is conformant for its own context
BasesDeliver == (phase = "done" /\ mut[1].op = "none") => (cls.c = "D" /\ Bases[cls.b].kind = Bases[base].kind)

\* ------------------------------------------------------------------ coverage gate (constant level)
UsedTokens  == UNION {{Bases[i].toks[j].t : j \in 1..Len(Bases[i].toks)} : i \in 1..NB}
UsedClasses == UNION {{Bases[i].toks[j].s : j \in 1..Len(Bases[i].toks)} : i \in 1..NB}
RequiredKinds ==
  {"greeting", "unsol", "bare", "tagged", "select", "capability", "enable", "enable2", "login", "list", "liststatus", "status",
   "search", "uidsearch", "esearch", "uidesearch", "sort", "uidsort", "thread", "getquota", "getquotaroot",
   "getmetadata", "namespace", "fetch", "uidfetch", "store", "expunge", "copy", "move", "append", "appendsync"}
RequiredTokens ==
  \* response names
  {"OK", "NO", "BAD", "BYE", "PREAUTH", "CAPABILITY", "ENABLED", "LIST", "STATUS", "SEARCH", "ESEARCH", "SORT", "THREAD",
   "QUOTA", "QUOTAROOT", "METADATA", "NAMESPACE", "FLAGS", "EXISTS", "EXPUNGE", "RECENT", "FETCH", "PLUS", "CTAG", "TAG",
  \* response codes the client knows, and some it does not
   "APPENDUID", "COPYUID", "PERMANENTFLAGS", "UIDNEXT", "UIDVALIDITY", "HIGHESTMODSEQ", "NOMODSEQ", "CLOSED",
   "UNSEEN", "ALERT", "PARSE", "READ-ONLY", "READ-WRITE", "TRYCREATE", "BADCHARSET", "aX",
  \* FETCH items, sections
   "UID", "RFC822.SIZE", "INTERNALDATE", "ENVELOPE", "BODY", "BODYSTRUCTURE", "BINARY", "BINARY.SIZE", "MODSEQ",
   "HEADER", "HEADER.FIELDS", "HEADER.FIELDS.NOT", "TEXT", "MIME", "LT", "TILDE",
  \* body shapes
   "qTEXT", "qMESSAGE", "qRFC822", "qAPPLICATION", "qMIXED",
  \* STATUS items, ESEARCH items, LIST extended items
   "MESSAGES", "UNSEEN", "DELETED", "SIZE", "APPENDLIMIT", "DELETED-STORAGE",
   "MIN", "MAX", "ALL", "COUNT", "qCHILDINFO", "qOLDNAME", "STORAGE"}
CoverageGate ==
  /\ RequiredKinds \subseteq Kinds
  /\ RequiredTokens \subseteq UsedTokens
  /\ UsedClasses = SlotClasses
  /\ \A c \in SlotClasses : GoodOf(c) \cap BadOf(c) = {}
  /\ \A i \in 1..NB : Bases[i].toks[Len(Bases[i].toks)].t = "CRLF" /\ Bases[i].st \in {"OK", "NO", "BAD"}
  /\ \A i, j \in 1..NB : (Bases[i].name = Bases[j].name /\ Bases[i].kind = Bases[j].kind) => i = j
  /\ \A f \in Fams : \E i \in 1..NB : \E j \in 1..Len(Bases[i].toks) : Bases[i].toks[j].s = "o" \o f
  \* a nesting family occurs at most once per base (Balanced relies on it)
  /\ \A i \in 1..NB : \A f \in Fams : Cardinality({j \in 1..Len(Bases[i].toks) : Bases[i].toks[j].s = "o" \o f}) <= 1
                                       /\ Cardinality({j \in 1..Len(Bases[i].toks) : Bases[i].toks[j].s = "c" \o f})
                                          = Cardinality({j \in 1..Len(Bases[i].toks) : Bases[i].toks[j].s = "o" \o f})
ASSUME CoverageGate
=============================================================================
