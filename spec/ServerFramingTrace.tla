------------------------- MODULE ServerFramingTrace -------------------------
(* Judge for recorded unit sequences: every observed reaction of the real    *)
(* server to a unit must be one the specification allows (Step is            *)
(* nondeterministic exactly where RFC 7888 / the property leave a choice).   *)
EXTENDS ServerFraming, Json, IOUtils

VARIABLE l

Trace == ndJsonDeserialize(IOEnv.TRACE_FILE)

TraceInit == Init /\ l = 1

Reset(r) ==
  /\ litplus' = r.litplus /\ state' = r.state /\ utf8' = r.utf8 /\ sasl' = r.sasl
  /\ closed' = FALSE /\ stuck' = FALSE /\ out' = Obs("OK", 0, "none")

Unit(r) ==
  /\ ~r.stall
  /\ Step(r.u)
  /\ out' = r.obs
  /\ closed' = r.closed
  /\ r.bad = ""          \* everything the server wrote while reacting was a whole well-formed response line

TraceNext ==
  /\ l <= Len(Trace)
  /\ l' = l + 1
  /\ LET r == Trace[l] IN
       \/ r.ev = "Reset" /\ Reset(r)
       \/ r.ev = "Unit" /\ Unit(r)

TraceAccepted ==
  LET d == TLCGet("stats").diameter IN
    IF d - 1 = Len(Trace) THEN TRUE
    ELSE /\ PrintT(<<"TRACE_REJECTED_AT", d, Len(Trace)>>)
         /\ IF d <= Len(Trace) THEN PrintT(<<"REJECTED_RECORD", ToJson(Trace[d])>>) ELSE TRUE
         /\ FALSE
=============================================================================
