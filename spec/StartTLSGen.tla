---------------------------- MODULE StartTLSGen ----------------------------
(* Generator for StartTLS (spec -> impl).  One behaviour per (configuration, *)
(* input stream, segmentation): the segmentation is the sequence `reads` of  *)
(* Deliver sizes, a composition of the stream into at most MaxSegs parts at  *)
(* the model's cut points (a model line has 4 bytes: first half of the text, *)
(* second half, CR, LF; the harness maps them to real offsets).  The         *)
(* receiver is eager (it interprets what it has before it reads again), so   *)
(* a behaviour is determined by its composition and can be re-enacted with   *)
(* one Write per part and a rendez-vous after each.  When everything has     *)
(* been written and the receiver is idle, the case is printed together with  *)
(* the observation the spec predicts.                                        *)
EXTENDS StartTLS, Json

CONSTANT MaxSegs

VARIABLE reads

Busy == SrvCanParse \/ CliCanParse \/ (layer = "tls" /\ Len(buf) > 0)
Terminal == sock = <<>> /\ ~Busy

SrvExp == [resps |-> resps, calls |-> scalls, switched |-> (layer = "tls"), garbage |-> garbage,
           caps |-> CapsOf(state, tls), login |-> IF CanAuth THEN OK ELSE NOTOK,
           state |-> state]
CliExp == [mustErr |-> MustRefuse, handler |-> cl.handler, upgraded |-> cl.upgraded,
           garbage |-> garbage, result |-> NewStartTLSResult]

CaseRec == IF side = "server"
           THEN [side |-> side, cfg |-> cfg, stream |-> stream, segs |-> reads, exp |-> SrvExp]
           ELSE [side |-> side, cfg |-> cfg, stream |-> stream, segs |-> reads, exp |-> CliExp]

GenInit == STInit /\ reads = <<>>

GenDeliver ==
  /\ ~Busy
  /\ \E k \in 1..Len(sock) :
       /\ Len(reads) = MaxSegs - 1 => k = Len(sock)
       /\ Deliver(k)
       /\ reads' = Append(reads, k)

GenInternal == (SrvParse \/ CliParse \/ HandshakeConsume) /\ UNCHANGED reads

GenNext ==
  /\ GenDeliver \/ GenInternal
  /\ Terminal' => PrintT(<<"T", ToJson(CaseRec')>>)
=============================================================================
