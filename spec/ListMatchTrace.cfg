CONSTANTS
  MaxName = 12
  MaxPat = 12
INIT TraceInit
NEXT TraceNext
INVARIANTS TypeOK LemmasCheap
POSTCONDITION TraceAccepted
CHECK_DEADLOCK FALSE
