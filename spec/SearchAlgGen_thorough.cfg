CONSTANTS
  MaxKeys = 3
  WithCat = TRUE
INIT Init
NEXT GenNext
CHECK_DEADLOCK FALSE
