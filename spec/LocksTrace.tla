---------------------------- MODULE LocksTrace ----------------------------
(* C14, implementation -> specification.  A log of the lock operations of  *)
(* the real server under the random stress driver (2..8 sessions, shared   *)
(* mailboxes) is accepted iff                                              *)
(*  (1) mutual exclusion: a mutex is acquired only while nobody holds it    *)
(*      (readers: while no writer holds it) and released only by a holder; *)
(*      the log takes its sequence number after Lock returned and before   *)
(*      Unlock is called, so this holds for the log iff it holds for the    *)
(*      real execution;                                                    *)
(*  (2) every acquisition is an instance of the mined lock protocol: the    *)
(*      triple (command kind of the goroutine, bag of lock classes it      *)
(*      holds, class it acquires) occurs in the templates mined by          *)
(*      `locks mine` (edges file) -- i.e. the stress run exercises no       *)
(*      nesting the model of spec/Locks.tla was not built from;            *)
(*  (3) a goroutine holds nothing when it starts the next command.          *)
(* Records: [o |-> "reset", g |-> #goroutines, m |-> #mutexes] starts a new *)
(* epoch (fresh server); [o |-> "cmd", g, k] goroutine g starts a command   *)
(* of kind k; [o |-> "a"|"r"|"ra"|"rr", g, k, m, c] lock operation on mutex *)
(* number m of class c.                                                    *)
EXTENDS Integers, Sequences, FiniteSets, TLC, Json, IOUtils

Trace == ndJsonDeserialize(IOEnv.TRACE_FILE)
EdgesData == ndJsonDeserialize(IOEnv.EDGES_FILE)

VARIABLES l, owner, readers, held

vars == <<l, owner, readers, held>>

Range(f) == {f[x] : x \in DOMAIN f}
BagOf(seq) == [c \in Range(seq) |-> Cardinality({i \in DOMAIN seq : seq[i] = c})]
EdgeSet == {<<EdgesData[i].k, BagOf(EdgesData[i].held), EdgesData[i].c>> : i \in DOMAIN EdgesData}

Classes(g) == [i \in DOMAIN held[g] |-> held[g][i][2]]
HoldsM(g, m) == \E i \in DOMAIN held[g] : held[g][i][1] = m
Without(s, m) == LET i == CHOOSE j \in DOMAIN s : s[j][1] = m /\ \A j2 \in DOMAIN s : s[j2][1] = m => j2 <= j
                 IN SubSeq(s, 1, i - 1) \o SubSeq(s, i + 1, Len(s))

TraceInit ==
  /\ l = 1
  /\ owner = <<>>
  /\ readers = <<>>
  /\ held = <<>>

Reset(r) ==
  /\ owner' = [m \in 1..r.m |-> 0]
  /\ readers' = [m \in 1..r.m |-> {}]
  /\ held' = [g \in 1..r.g |-> <<>>]

Cmd(r) ==
  /\ held[r.g] = <<>>
  /\ UNCHANGED <<owner, readers, held>>

\* an acquisition in a context the miner never saw does not stop the validation: it is
\* printed (the check then fails as "mined model incomplete", an infrastructure verdict)
KnownEdge(r) ==
  IF <<r.k, BagOf(Classes(r.g)), r.c>> \in EdgeSet THEN TRUE
  ELSE PrintT(<<"UNKNOWN_EDGE", ToJson([k |-> r.k, held |-> Classes(r.g), c |-> r.c])>>)

Acq(r) ==
  /\ owner[r.m] = 0 /\ readers[r.m] = {}          \* mutual exclusion (non-reentrant)
  /\ KnownEdge(r)
  /\ owner' = [owner EXCEPT ![r.m] = r.g]
  /\ held' = [held EXCEPT ![r.g] = Append(@, <<r.m, r.c>>)]
  /\ UNCHANGED readers

Rel(r) ==
  /\ owner[r.m] = r.g
  /\ owner' = [owner EXCEPT ![r.m] = 0]
  /\ held' = [held EXCEPT ![r.g] = Without(@, r.m)]
  /\ UNCHANGED readers

RAcq(r) ==
  /\ owner[r.m] = 0 /\ r.g \notin readers[r.m]
  /\ KnownEdge(r)
  /\ readers' = [readers EXCEPT ![r.m] = @ \cup {r.g}]
  /\ held' = [held EXCEPT ![r.g] = Append(@, <<r.m, r.c>>)]
  /\ UNCHANGED owner

RRel(r) ==
  /\ r.g \in readers[r.m]
  /\ readers' = [readers EXCEPT ![r.m] = @ \ {r.g}]
  /\ held' = [held EXCEPT ![r.g] = Without(@, r.m)]
  /\ UNCHANGED owner

TraceNext ==
  /\ l <= Len(Trace)
  /\ l' = l + 1
  /\ LET r == Trace[l] IN
       \/ r.o = "reset" /\ Reset(r)
       \/ r.o = "cmd"   /\ Cmd(r)
       \/ r.o = "a"     /\ Acq(r)
       \/ r.o = "r"     /\ Rel(r)
       \/ r.o = "ra"    /\ RAcq(r)
       \/ r.o = "rr"    /\ RRel(r)

\* the spec's own invariant on accepted prefixes
Exclusive == \A m \in DOMAIN owner :
   /\ owner[m] # 0 => readers[m] = {} /\ HoldsM(owner[m], m)
   /\ \A g \in DOMAIN held : HoldsM(g, m) => (owner[m] = g \/ g \in readers[m])

TraceAccepted ==
  LET d == TLCGet("stats").diameter IN
    IF d - 1 = Len(Trace) THEN TRUE
    ELSE /\ PrintT(<<"TRACE_REJECTED_AT", d, Len(Trace)>>)
         /\ IF d <= Len(Trace) THEN PrintT(<<"REJECTED_RECORD", ToJson(Trace[d])>>) ELSE TRUE
         /\ FALSE
=============================================================================
