---------------------------- MODULE TrackerGen ----------------------------
(* Generator: Tracker + history.  Every generated transition prints the    *)
(* behaviour that reaches it together with the observation the spec        *)
(* predicts after every step (replayed against imapserver by the harness). *)
EXTENDS Tracker, Json

VARIABLE hist

Obs == [s \in Sessions |->
          [o    |-> s \in open,
           idle |-> s \in idling,
           dec  |-> [c \in 1..Len(view[s]) |-> Decode(s, c)],
           enc  |-> IF s \in open THEN [n \in 1..Len(mbox) |-> Encode(s, n)] ELSE <<>>,
           emit |-> [i \in 1..Len(emitted[s]) |->
                       <<emitted[s][i].t, emitted[s][i].n,
                         IF emitted[s][i].t = "flags" THEN emitted[s][i].ids[1] ELSE 0>>]]]

Log(act, s, x, y) ==
  hist' = Append(hist, [act |-> act, s |-> s, x |-> x, y |-> y,
                        n |-> Len(mbox'), exp |-> Obs'])

GenInit == Init /\ hist = <<>>

GenStep ==
  \/ \E k \in 0..MaxK : AppendMsgs(k) /\ Log("Append", None, k, 0)
  \/ \E i \in 1..MaxMsgs : Expunge(i) /\ Log("Expunge", None, i, 0)
  \/ \E i \in 1..MaxMsgs, src \in Sessions \cup {None} :
        MsgFlags(i, src) /\ Log("MsgFlags", src, i, mbox[i])
  \/ MboxFlags /\ Log("MboxFlags", None, 0, 0)
  \/ \E s \in Sessions : NewSession(s) /\ Log("NewSession", s, 0, 0)
  \/ \E s \in Sessions : CloseSession(s) /\ Log("CloseSession", s, 0, 0)
  \/ \E s \in Sessions : Poll(s, TRUE) /\ Log("Poll", s, 1, 0)
  \/ \E s \in Sessions : Poll(s, FALSE) /\ Log("Poll", s, 0, 0)
  \/ \E s \in Sessions : IdleStart(s) /\ Log("IdleStart", s, 0, 0)
  \/ \E s \in Sessions : IdleStop(s) /\ Log("IdleStop", s, 0, 0)

GenNext == GenStep /\ PrintT(<<"T", ToJson(hist')>>)

GenView == <<mbox, nextId, open, view, queue, idling>>
=============================================================================
