CONSTANTS
  Layouts <- McLayouts
SPECIFICATION Spec
INVARIANTS TypeOK NoSuccessWithoutCompletion
PROPERTIES AllReturnAfterFault
CHECK_DEADLOCK FALSE
