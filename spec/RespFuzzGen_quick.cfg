CONSTANTS
  Stride = 64
  Stride2 = 0
  Seed <- EnvSeed
INIT Init
NEXT GenNext
VIEW GenView
CHECK_DEADLOCK FALSE
