CONSTANTS
  Sessions = {"s1", "s2", "s3", "s4"}
  Mailboxes = {"A", "B"}
  Flags <- BothFlags
  MaxMsgs = 100000
  MaxUid = 100000
  MaxQueue = 100000
  Kinds <- AllKinds
  SeqSets <- SetsSmall
  UidSets <- SetsSmall
  UidForms <- Both
  AppendFlags <- PlainOrDeleted
  AppendBoxes <- OnlyA
  StoreOps <- PlusMinus
  IdleAny = TRUE
INIT TraceInit
NEXT TraceNext
INVARIANTS TypeOK SeqNumsWithinAnnounced NoExpungeDuringNonUid CountShrinksOnlyByExpunge RemovedReportedOnce NoopSynchronises
POSTCONDITION TraceAccepted
CHECK_DEADLOCK FALSE
