CONSTANTS
  MaxCmds = 3
  MaxPending = 3
  MaxNum = 1
  MaxItems = 1
  MaxUid = 0
  MaxCode = 0
  NFlagSets = 1
  SyncLit = FALSE
  Kinds = {"NOOP", "LIST"}
  Greetings = {"PREAUTH"}
  SimDepth = 0
  Count = FALSE
  MaxDepth = 6
INIT GenInit
NEXT GenNext
VIEW DepthView
CHECK_DEADLOCK FALSE
