--------------------------- MODULE ListMatchTrace ---------------------------
(* Implementation -> spec: the harness records random (name, delimiter,     *)
(* reference, pattern) vectors far outside the enumerated bounds (length    *)
(* <= 12, delimiters '/', '.', none and a non-ASCII one, characters that    *)
(* are special in regular expressions, non-ASCII characters) together with  *)
(* what the REAL imapserver.MatchList returned (field got).  Every record   *)
(* is one step of the ListMatch machine; the step is enabled only if the    *)
(* recorded answer is one the reference allows.  The cheap sanity lemmas    *)
(* are checked on every recorded vector as well.                            *)
(* One record per line: {"n":[..],"d":47,"r":[..],"p":[..],"got":true}      *)
EXTENDS ListMatch, Json, IOUtils

VARIABLE l

Trace == ndJsonDeserialize(IOEnv.TRACE_FILE)

VecOf(rec) == [n |-> rec.n, d |-> rec.d, r |-> rec.r, p |-> rec.p]

TraceInit == /\ l = 1
             /\ ph = 0
             /\ v = [n |-> <<>>, d |-> NoDelim, r |-> <<>>, p |-> <<>>]

TraceNext ==
  /\ l <= Len(Trace)
  /\ l' = l + 1
  /\ ph' = 1
  /\ v' = VecOf(Trace[l])
  /\ Trace[l].got \in Allowed(v')

(* Lenient walk (ListMatchTraceAll.cfg), used only after the strict walk has *)
(* rejected a record: every record is taken, and each one whose recorded     *)
(* answer the reference does not allow is printed as a vector with the       *)
(* reference's answers, so that the harness can re-run exactly those inputs  *)
(* against the real code and classify them.                                  *)
TraceNextAll ==
  /\ l <= Len(Trace)
  /\ l' = l + 1
  /\ ph' = 1
  /\ v' = VecOf(Trace[l])
  /\ IF Trace[l].got \in Allowed(v') THEN TRUE
     ELSE PrintT(<<"T", ToJson([line |-> l, n |-> v'.n, d |-> v'.d, r |-> v'.r, p |-> v'.p,
                                got |-> Trace[l].got,
                                e |-> Expected(v'), e2 |-> ExpectedAlt(v')])>>)

TraceAccepted ==
  LET d == TLCGet("stats").diameter IN
    IF d - 1 = Len(Trace) THEN TRUE
    ELSE /\ PrintT(<<"TRACE_REJECTED_AT", d, Len(Trace)>>)
         /\ IF d <= Len(Trace)
              THEN /\ PrintT(<<"REJECTED_RECORD", ToJson(Trace[d])>>)
                   /\ PrintT(<<"REFERENCE_SAYS", Expected(VecOf(Trace[d])),
                                                 ExpectedAlt(VecOf(Trace[d]))>>)
              ELSE TRUE
         /\ FALSE
=============================================================================
