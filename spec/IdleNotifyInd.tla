--------------------------- MODULE IdleNotifyInd ---------------------------
(***************************************************************************)
(* Unbounded safety of the wake-up protocol of IdleNotify (part of C14),   *)
(* by an inductive invariant discharged with Apalache (SMT): for EVERY     *)
(* channel capacity Cap >= 1 and EVERY burst size, go-imap's design        *)
(* (Blocking = FALSE: the notification is a non-blocking send) has no      *)
(* state in which a command still has work to do and nobody can move, and  *)
(* no lost wake-up.  TLC checks the same properties (and the liveness      *)
(* ones) for Cap <= 2, bursts <= 4; the state here is integers and small   *)
(* enumerations only, so the symbolic check is not bounded by those.       *)
(*                                                                         *)
(*   apalache-mc check --cinit=CInit --init=Init    --inv=IndInv --length=0 *)
(*   apalache-mc check --cinit=CInit --init=IndInit --inv=IndInv --length=1 *)
(*   apalache-mc check --cinit=CInit --init=IndInit --inv=Safety --length=0 *)
(***************************************************************************)
EXTENDS IdleNotify

\* every capacity, every bound on the burst, every behaviour of the idling client; the non-blocking design
CInit == /\ Cap \in Nat /\ Cap >= 1
         /\ MaxBurst \in Nat /\ MaxBurst >= 1
         /\ Blocking = FALSE
         /\ Clients = {"reads", "stalls", "done", "drops"}

IndInv ==
  \* types and ranges
  /\ client \in Clients
  /\ burst \in Nat /\ burst >= 1 /\ burst <= MaxBurst
  /\ m \in {"none", "prod", "other"}
  /\ ppc \in {"start", "queue", "notify", "done"}
  /\ cons \in {"select", "poll", "write", "blocked", "gone"}
  /\ opc \in {"start", "hold", "done"}
  /\ sent \in Nat /\ sent <= burst
  /\ ch \in Nat /\ ch <= Cap
  /\ q \in Nat /\ batch \in Nat /\ seen \in Nat
  /\ cap \in BOOLEAN /\ reg \in BOOLEAN
  \* who holds the mailbox lock
  /\ (m = "prod") <=> (ppc \in {"queue", "notify"})
  /\ (m = "other") <=> (opc = "hold")
  \* progress of the producer
  /\ ppc = "start" => sent = 0
  /\ ppc = "done" => sent = burst
  /\ ppc = "notify" => sent >= 1
  \* nothing is lost or invented: every update appended is queued, being written, or has been seen
  /\ sent = q + batch + seen
  \* the consumer
  /\ cons \in {"select", "poll", "gone"} => batch = 0
  /\ cons = "blocked" => batch > 0 /\ client = "stalls"
  /\ reg <=> cons # "gone"
  /\ cons = "gone" => client \in {"done", "drops"}
  \* the channel the producer remembers is stale only once it has been unregistered
  /\ (ppc = "notify" /\ ~cap) => ~reg
  \* no lost wake-up (strengthened to the states in which the consumer will come back to the select)
  /\ (cons \in {"select", "write", "blocked"} /\ reg /\ q > 0) => (ch > 0 \/ (ppc = "notify" /\ cap))

IndInit == IndInv

\* ENABLED Next, spelled out (Apalache has no ENABLED): the guards of the actions
CanMove ==
  \/ (ppc = "start" /\ m = "none")                                \* ProdLock
  \/ ppc = "queue"                                                \* ProdQueue / ProdUnlock
  \/ (ppc = "notify" /\ (~cap \/ ch < Cap \/ ~Blocking))          \* ProdNotify
  \/ (cons = "select" /\ ch > 0)                                  \* ConsRecv
  \/ cons = "poll" \/ cons = "write"                              \* ConsPoll / ConsWrite
  \/ (cons = "select" /\ client \in {"done", "drops"})            \* ConsStop
  \/ (cons = "gone" /\ client = "done" /\ q > 0 /\ ppc = "done")  \* FinalPoll
  \/ (opc = "start" /\ m = "none")                                \* OtherLock
  \/ opc = "hold"                                                 \* OtherUnlock

Safety ==
  /\ Quiescent \/ CanMove                                         \* NoStuck
  /\ NoLostWakeup
  \* the commands themselves are never the ones that wait: whenever one of them has work left, one of THEM can move
  /\ (ppc # "done" \/ opc # "done") =>
        \/ (ppc = "start" /\ m = "none") \/ ppc = "queue" \/ ppc = "notify"
        \/ (opc = "start" /\ m = "none") \/ opc = "hold"

\* ---- guards against a vacuous proof
\* the blocking variant (the producer waits for room in the channel while it holds the mailbox lock) must FAIL Safety
CInitBlocking == /\ Cap \in Nat /\ Cap >= 1 /\ MaxBurst \in Nat /\ MaxBurst >= 1 /\ Blocking = TRUE
                 /\ Clients = {"reads", "stalls", "done", "drops"}
\* IndInv is satisfiable far beyond the bounds TLC explores: this "invariant" must be reported violated
NoStateBeyondTlcBounds == ~(ppc = "done" /\ opc = "done" /\ seen > 100 /\ Cap > 64 /\ client = "reads")
=============================================================================
