--------------------------- MODULE TrackerTrace ---------------------------
(* Trace validation: histories recorded from the real tracker (random      *)
(* driver, more sessions / messages / larger increments than the bounded   *)
(* model) must be behaviours of Tracker, and every logged observation      *)
(* (wire output of each session, full translation tables) must equal what  *)
(* the specification computes.  Many traces are concatenated, separated by *)
(* a Reset record.                                                         *)
EXTENDS Tracker, Json, IOUtils

VARIABLE l

Trace == ndJsonDeserialize(IOEnv.TRACE_FILE)

TraceInit == Init /\ l = 1

EmitOf(s) == [i \in 1..Len(emitted[s]) |->
                <<emitted[s][i].t, emitted[s][i].n,
                  IF emitted[s][i].t = "flags" THEN emitted[s][i].ids[1] ELSE 0>>]
DecOf(s) == [c \in 1..Len(view[s]) |-> Decode(s, c)]
EncOf(s) == [n \in 1..Len(mbox) |-> Encode(s, n)]

\* logged observation = specified observation, for every session
Observed(r) ==
  \A s \in Sessions :
    /\ EmitOf(s)' = r.emit[s]
    /\ s \in open' => DecOf(s)' = r.dec[s] /\ EncOf(s)' = r.enc[s]

Reset ==
  /\ mbox' = <<>> /\ nextId' = 1 /\ open' = {} /\ idling' = {}
  /\ view' = [s \in Sessions |-> <<>>]
  /\ queue' = [s \in Sessions |-> <<>>]
  /\ emitted' = [s \in Sessions |-> <<>>]

TraceNext ==
  /\ l <= Len(Trace)
  /\ l' = l + 1
  /\ LET r == Trace[l] IN
       \/ r.ev = "Reset"        /\ Reset
       \/ r.ev = "Append"       /\ AppendMsgs(r.x) /\ Len(mbox') = r.n /\ Observed(r)
       \/ r.ev = "Expunge"      /\ Expunge(r.x) /\ Observed(r)
       \/ r.ev = "MsgFlags"     /\ MsgFlags(r.x, r.s) /\ mbox[r.x] = r.y /\ Observed(r)
       \/ r.ev = "MboxFlags"    /\ MboxFlags /\ Observed(r)
       \/ r.ev = "NewSession"   /\ NewSession(r.s) /\ Observed(r)
       \/ r.ev = "CloseSession" /\ CloseSession(r.s) /\ Observed(r)
       \/ r.ev = "Poll"         /\ Poll(r.s, r.x = 1) /\ Observed(r)
       \/ r.ev = "IdleStart"    /\ IdleStart(r.s) /\ Observed(r)
       \/ r.ev = "IdleStop"     /\ IdleStop(r.s) /\ Observed(r)

TraceSpec == TraceInit /\ [][TraceNext]_<<vars, l>>

TraceAccepted ==
  LET d == TLCGet("stats").diameter IN
    IF d - 1 = Len(Trace) THEN TRUE
    ELSE /\ PrintT(<<"TRACE_REJECTED_AT", d, Len(Trace)>>)
         /\ IF d <= Len(Trace) THEN PrintT(<<"REJECTED_RECORD", ToJson(Trace[d])>>) ELSE TRUE
         /\ FALSE
=============================================================================
