CONSTANTS
  Sessions = {"s1", "s2", "s3"}
  Mailboxes = {"A"}
  Flags <- OnlyDeleted
  MaxMsgs = 2
  MaxUid = 2
  MaxQueue = 2
  Kinds <- KSlow
  SeqSets <- Sets2
  UidSets <- SetsStar
  UidForms <- SeqOnly
  AppendFlags <- NoFlagsOnly
  AppendBoxes <- OnlyA
  StoreOps <- Plus
  IdleAny = FALSE
INIT GenInit
NEXT GenNext
CONSTRAINT Bounded
VIEW GenView
INVARIANTS TypeOK RemovedReportedOnce
PROPERTIES StepSeqNums StepNoExpunge StepShrink StepNoop
CHECK_DEADLOCK FALSE
