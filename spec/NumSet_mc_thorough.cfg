CONSTANTS
  Max = 12
  Gaps = {7}
INIT Init
NEXT Next
INVARIANTS TypeOK CanonicalForm MembershipIsUnion OneOfTheCanonicalLists ContainsAgrees DynamicIffStar RoundTrip NumsExact
CHECK_DEADLOCK FALSE
