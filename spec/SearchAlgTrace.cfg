CONSTANTS
  MaxKeys = 1
  WithCat = FALSE
INIT TraceInit
NEXT TraceNext
POSTCONDITION AllJudged
CHECK_DEADLOCK FALSE
