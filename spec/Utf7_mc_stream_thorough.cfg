\* the streaming transformer under every schedule, on a smaller input space
CONSTANTS
  CpAlpha = {97, 38, 45, 44, 126, 32, 1, 127, 233, 8364, 65533, 128512}
  ByteAlpha = {38, 45, 65, 71, 103, 50, 44, 47, 97, 61, 128, 13}
  EncMax = 3
  DecMax = 4
  TokMax = 3
  Stream = TRUE
  Caps = {1, 2, 3, 4, 8}
  Chunks = {1, 2, 3, 99}
INIT Init
NEXT Next
INVARIANTS TypeOK OneShotAgrees Contract ScheduleIndependent
PROPERTIES OutputOnlyGrows Terminates
CHECK_DEADLOCK TRUE
