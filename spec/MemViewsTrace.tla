--------------------------- MODULE MemViewsTrace ---------------------------
(* Trace validation for C08: histories recorded from a real imapserver +     *)
(* imapmemserver by a random multi-session driver (1..4 sessions, two         *)
(* mailboxes, long stretches in which one session mutates while the others    *)
(* only FETCH/SEARCH, so views get arbitrarily stale) must be behaviours of   *)
(* MemViews: every record carries the command and the normalised responses    *)
(* each connection received; the step must be Do(s, c, lat, dl) for some      *)
(* admissible latitude, with exactly those responses (FETCH runs as bags).    *)
(* The five clauses of C08 are INVARIANTS of the cfg, so they are evaluated   *)
(* on every observed step.                                                    *)
(* The judge does not stop at the first disagreement: it prints one BAD line  *)
(* (record number, prediction, clause of C08 the observed stream breaks) and  *)
(* continues from the state the specification predicts.                       *)
EXTENDS MemViews, Json, IOUtils

VARIABLE l

Trace == ndJsonDeserialize(IOEnv.TRACE_FILE)

CmdOf(r) == [k |-> r.c.k, uid |-> r.c.uid, set |-> r.c.set, mbox |-> r.c.mbox, op |-> r.c.op,
             fl |-> {r.c.fl[i] : i \in 1..Len(r.c.fl)}, key |-> r.c.key]

\* ---- comparison of a predicted with an observed response stream
RECURSIVE RunLen(_)
RunLen(us) == IF us = <<>> THEN 0 ELSE IF Head(us)[1] # "fetch" THEN 0 ELSE 1 + RunLen(Tail(us))
SameBag(a, b) ==
  /\ Len(a) = Len(b)
  /\ \A i \in 1..Len(a) :
        Cardinality({j \in 1..Len(a) : a[j] = a[i]}) = Cardinality({j \in 1..Len(b) : b[j] = a[i]})
Completion == {"ok", "no", "bad", "garbled"}
SameItem(e, g) ==
  \/ e[1] = "any" /\ g[1] \in Completion
  \/ e[1] = g[1] /\ Len(e) = Len(g) /\ e = g
RECURSIVE SameOut(_, _)
SameOut(a, b) ==
  IF a = <<>> THEN b = <<>>
  ELSE IF b = <<>> THEN FALSE
  ELSE LET ka == RunLen(a) kb == RunLen(b) IN
       IF ka # kb THEN FALSE
       ELSE IF ka = 0 THEN SameItem(Head(a), Head(b)) /\ SameOut(Tail(a), Tail(b))
       ELSE /\ SameBag(SubSeq(a, 1, ka), SubSeq(b, 1, ka))
            /\ SameOut(SubSeq(a, ka + 1, Len(a)), SubSeq(b, ka + 1, Len(b)))

\* ---- the clauses of C08 evaluated directly on an observed stream (the
\* client only knows the announced count n); "" = none broken
RECURSIVE Clause(_, _, _)
Clause(n, obs, nonuid) ==
  IF obs = <<>> THEN ""
  ELSE LET g == Head(obs) IN
       IF g[1] = "exists" THEN (IF g[2] < n THEN "count-shrinks-without-expunge" ELSE Clause(g[2], Tail(obs), nonuid))
       ELSE IF g[1] = "expunge" THEN
            (IF nonuid THEN "expunge-during-nonuid"
             ELSE IF g[2] < 1 \/ g[2] > n THEN "seqnum-out-of-range" ELSE Clause(n - 1, Tail(obs), nonuid))
       ELSE IF g[1] = "fetch" THEN (IF g[2] < 1 \/ g[2] > n THEN "seqnum-out-of-range" ELSE Clause(n, Tail(obs), nonuid))
       ELSE IF g[1] = "search" /\ g[2] = 0 THEN
            (IF \E k \in 1..Len(g[3]) : g[3][k] < 1 \/ g[3][k] > n THEN "seqnum-out-of-range"
             ELSE Clause(n, Tail(obs), nonuid))
       ELSE Clause(n, Tail(obs), nonuid)
NumOf(us, t) == Cardinality({i \in 1..Len(us) : us[i][1] = t})

TraceInit == Init /\ l = 1 /\ TLCSet(7, 0) /\ TLCSet(8, 1)

Legal(s, c) ==
  /\ s \in Sessions
  /\ idle[s] <=> c.k = "DONE"
  /\ held[s].on <=> c.k = "RESUME"
  /\ c.k \in {"CLOSE", "UNSELECT", "FETCH", "STORE", "SEARCH", "EXPUNGE", "UIDEXPUNGE", "COPY", "MOVE", "IDLE", "STALL"}
       => sel[s] # None
  /\ c.k \in {"APPEND", "SELECT", "COPY", "MOVE"} => c.mbox \in Mailboxes

Min(a, b) == IF a < b THEN a ELSE b

TraceCmd(r) ==
  LET s == r.s
      c == CmdOf(r)
      lats == LatsEff(s, c)
      seen == [t \in Sessions |-> IF t \in Idlers(s) THEN Len(r.out[t]) ELSE 0]
      dlOf(lat) == LET e == EffOf(s, c, lat) IN
                   [t \in Sessions |-> Min(seen[t], Len(Q1(t, e.disp)))]
      fits(lat) ==
        LET res == Result(s, c, lat, dlOf(lat)) IN
        /\ dlOf(lat) = seen
        /\ \A t \in Sessions : SameOut(NormOut(res.out[t]), r.out[t])
        /\ r.ad => (res.sel[s] # None /\ r.au = UidsOf(res.mb[res.sel[s]].msgs))
      good == {lat \in lats : fits(lat)}
      \* the implementation's resolution of "*" first: it is the likelier state
      \* when two latitudes cannot be told apart on the wire
      pick(S) == IF \E x \in S : x.star = StarImpl(s, c) /\ x.mv = "none"
                 THEN CHOOSE x \in S : x.star = StarImpl(s, c) /\ x.mv = "none"
                 ELSE IF \E x \in S : x.star = StarImpl(s, c)
                 THEN CHOOSE x \in S : x.star = StarImpl(s, c)
                 ELSE CHOOSE x \in S : TRUE
  IN
  IF ~Legal(s, c)
  THEN /\ PrintT(<<"BAD", ToJson([line |-> l, clause |-> "command-illegal-in-specified-state",
                                  exp |-> <<>>, audit |-> <<>>])>>)
       /\ (TLCGet(7) = 0 => TLCSet(7, l))
       /\ UNCHANGED vars
  ELSE IF good # {}
  THEN LET lat == pick(good) IN DoR(Result(s, c, lat, dlOf(lat)))
  ELSE LET lat == pick(lats)
           res == Result(s, c, lat, dlOf(lat))
           nonuid == c.k \in {"FETCH", "STORE", "SEARCH"} /\ ~c.uid
           cl == Clause(Len(view[s]), r.out[s], nonuid)
           cl2 == IF cl # "" THEN cl
                  ELSE IF NumOf(r.out[s], "expunge") > NumOf(NormOut(res.out[s]), "expunge")
                       THEN "removed-message-reported-more-than-once"
                  ELSE IF NumOf(r.out[s], "expunge") < NumOf(NormOut(res.out[s]), "expunge")
                       THEN "removed-message-not-reported"
                  ELSE IF r.ad /\ SameOut(NormOut(res.out[s]), r.out[s])
                       THEN "list-after-noop-differs"
                  ELSE "response-differs"
       IN /\ PrintT(<<"BAD", ToJson([line |-> l, clause |-> cl2,
                                     exp |-> [t \in Sessions |-> NormOut(res.out[t])],
                                     audit |-> IF r.ad /\ res.sel[s] # None
                                               THEN UidsOf(res.mb[res.sel[s]].msgs) ELSE <<>>])>>)
          /\ (TLCGet(7) = 0 => TLCSet(7, l))
          /\ DoR(res)

Reset ==
  /\ mb' = [m \in Mailboxes |-> [msgs |-> <<>>, next |-> 1]]
  /\ sel' = [s \in Sessions |-> None]
  /\ view' = [s \in Sessions |-> <<>>]
  /\ queue' = [s \in Sessions |-> <<>>]
  /\ idle' = [s \in Sessions |-> FALSE]
  /\ held' = [s \in Sessions |-> NotHeld]
  /\ out' = [s \in Sessions |-> <<>>]
  /\ pre' = [s \in Sessions |-> <<>>]
  /\ last' = [s |-> None, k |-> "init", uid |-> FALSE]

TraceNext ==
  /\ l <= Len(Trace)
  /\ l' = l + 1
  /\ LET r == Trace[l] IN
       \/ r.ev = "Reset" /\ Reset
       \/ r.ev = "cmd" /\ TraceCmd(r)
  /\ TLCSet(8, l + 1)

TraceSpec == TraceInit /\ [][TraceNext]_<<vars, l>>

\* accepted: every record consumed and no BAD line
TraceAccepted ==
  LET done == TLCGet(8) bad == TLCGet(7) IN
    IF done = Len(Trace) + 1 /\ bad = 0 THEN TRUE
    ELSE LET at == IF bad # 0 THEN bad ELSE done IN
         /\ PrintT(<<"TRACE_REJECTED_AT", at, Len(Trace)>>)
         /\ IF at <= Len(Trace) THEN PrintT(<<"REJECTED_RECORD", ToJson(Trace[at])>>) ELSE TRUE
         /\ FALSE
=============================================================================
