\* C14: enumerate every scenario of mined templates; print each stuck state (T lines).
INIT Init
NEXT Next
VIEW View
INVARIANT MutualExclusion
CHECK_DEADLOCK FALSE
