----------------------------- MODULE ClientGen -----------------------------
(* Generator for Client: one line per transition of the bounded graph, with *)
(* the observation the transcript implies after every step.                 *)
EXTENDS Client, Json

VARIABLE hist

Obs == [cstate |-> cstate,
        cmpmbox |-> ~SelPending,           \* the mailbox summary is compared only when no SELECT is in progress
        mbox   |-> mbox,
        alive  |-> alive,
        comp   |-> {[id |-> i, st |-> cmds[i].st, kind |-> cmds[i].kind, arg |-> cmds[i].arg, acc |-> cmds[i].acc] : i \in comp},
        pend   |-> PendingIds,
        uni    |-> uni]

Log(act, s1, s2, n1, n2) ==
  hist' = Append(hist, [act |-> act, s1 |-> s1, s2 |-> s2, n1 |-> n1, n2 |-> n2, exp |-> Obs'])

GenInit == Init /\ hist = <<>>

GenStep ==
  \/ \E k \in Kinds, a \in Mailboxes \cup {None} : Submit(k, a) /\ Log("Submit", k, a, 0, 0)
  \/ \E n \in 0..MaxNum : Exists(n) /\ Log("Exists", None, None, n, 0)
  \/ \E n \in 0..MaxNum : Expunge(n) /\ Log("Expunge", None, None, n, 0)
  \/ \E n \in 0..MaxNum : Search(n) /\ Log("Search", None, None, n, 0)
  \/ \E f \in FlagSets : Flags(f) /\ Log("Flags", f, None, 0, 0)
  \/ \E f \in FlagSets : PermFlags(f) /\ Log("PermFlags", f, None, 0, 0)
  \/ \E n \in 1..MaxNum, f \in FlagSets : Fetch(n, f) /\ Log("Fetch", f, None, n, 0)
  \/ \E m \in Mailboxes, n \in 0..MaxNum : Status(m, n) /\ Log("Status", m, None, n, 0)
  \/ \E m \in Mailboxes : List(m) /\ Log("List", m, None, 0, 0)
  \/ \E i \in 1..MaxCmds, n \in 1..MaxNum : Esearch(i, n) /\ Log("Esearch", None, None, n, i)
  \/ Closed /\ Log("Closed", None, None, 0, 0)
  \/ \E i \in 1..MaxCmds, st \in {"OK", "NO", "BAD"} : Tagged(i, st) /\ Log("Tagged", st, None, i, 0)
  \/ Bye /\ Log("Bye", None, None, 0, 0)

GenNext == GenStep /\ PrintT(<<"T", ToJson(hist')>>)

\* completed commands are history: their status and data are not part of the view, but WHICH positions of the
\* submission order are still pending is (the client keeps its pending commands in a list)
GenView == <<cstate, mbox, alive,
             [i \in 1..Len(cmds) |-> IF cmds[i].st = "pending" THEN <<cmds[i].kind, cmds[i].arg, cmds[i].acc>> ELSE <<"done">>]>>
=============================================================================
