----------------------------- MODULE ClientGen -----------------------------
(* Generator for Client: one line per transition of the bounded graph, with *)
(* the observation the transcript implies after every step.  The first     *)
(* record of a behaviour is the greeting.  With SimDepth > 0 (simulation    *)
(* mode, long random behaviours of a larger instance) a line is printed     *)
(* only for complete behaviours.                                            *)
EXTENDS Client, Json

CONSTANTS SimDepth,  \* 0: print every transition (exhaustive mode)
          Count,     \* TRUE: print nothing (to measure an instance)
          MaxDepth   \* > 0: every BEHAVIOUR of at most MaxDepth steps is generated (the history is part of the view):
                     \*      what a faulty implementation does may depend on the order of past events, not only on
                     \*      the state they lead to

VARIABLE hist

\* no NOOP round trip is possible while an IDLE occupies the connection
NoBarrier == \/ \E i \in PendingOf("IDLE") : cmds[i].ph # "stopping"
             \/ PendingOf("AUTHENTICATE") # {}        \* Authenticate holds the encoder until the exchange is over
             \/ SyncLit /\ \E i \in PendingOf("APPEND") : cmds[i].ph = ""

Obs == [cstate |-> cstate,
        cmpmbox |-> ~SelPending,           \* the mailbox summary is compared only when no SELECT is in progress
        mbox   |-> mbox,
        alive  |-> alive,
        comp   |-> {[id |-> i, st |-> cmds[i].st, kind |-> cmds[i].kind, arg |-> cmds[i].arg,
                     acc |-> [num |-> cmds[i].acc.num, flags |-> cmds[i].acc.flags, perm |-> cmds[i].acc.perm,
                              uidnext |-> cmds[i].acc.uidnext, uidval |-> cmds[i].acc.uidval, list |-> cmds[i].acc.list,
                              items |-> cmds[i].acc.items]] : i \in comp},
        pend   |-> PendingIds,
        uni    |-> uni,
        nobarrier |-> NoBarrier]

Log(act, s1, s2, n1, n2) ==
  hist' = Append(hist, [act |-> act, s1 |-> s1, s2 |-> s2, n1 |-> n1, n2 |-> n2, exp |-> Obs'])

GenInit == Init /\ hist = <<[act |-> "Greet", s1 |-> greet, s2 |-> IF SyncLit THEN "synclit" ELSE None, n1 |-> 0, n2 |-> 0, exp |-> Obs]>>

GenStep ==
  \/ \E k \in Kinds : \E a \in ArgsOf(k) : Submit(k, a) /\ Log("Submit", k, a, 0, 0)
  \/ \E k \in Kinds : \E a \in ArgsOf(k) : SubmitDead(k, a) /\ Log("SubmitDead", k, a, 0, 0)
  \/ \E i \in 1..MaxCmds : IdleDone(i) /\ Log("IdleDone", None, None, i, 0)
  \/ \E i \in 1..MaxCmds : Cont(i) /\ Log("Cont", None, None, i, 0)
  \/ \E n \in 0..MaxNum : Exists(n) /\ Log("Exists", None, None, n, 0)
  \/ \E n \in 0..MaxNum : Expunge(n) /\ Log("Expunge", None, None, n, 0)
  \/ \E n \in 0..MaxNum : Search(n) /\ Log("Search", None, None, n, 0)
  \/ \E n \in 0..MaxNum : Sort(n) /\ Log("Sort", None, None, n, 0)
  \/ \E n \in 0..MaxNum : Thread(n) /\ Log("Thread", None, None, n, 0)
  \/ \E n \in 0..MaxNum : MoveUid(n) /\ Log("MoveUid", None, None, n, 0)
  \/ \E n \in 0..MaxNum : UidNext(n) /\ Log("UidNext", None, None, n, 0)
  \/ \E n \in 0..MaxNum : UidValidity(n) /\ Log("UidValidity", None, None, n, 0)
  \/ \E f \in FlagSets : Flags(f) /\ Log("Flags", f, None, 0, 0)
  \/ \E f \in FlagSets : PermFlags(f) /\ Log("PermFlags", f, None, 0, 0)
  \/ \E n \in 1..MaxNum, f \in FlagSets, u \in 0..MaxUid : Fetch(n, f, u) /\ Log("Fetch", f, None, n, u)
  \/ \E m \in Mailboxes, n \in 0..MaxNum : Status(m, n) /\ Log("Status", m, None, n, 0)
  \/ \E m \in Mailboxes, n \in 0..MaxNum : Quota(m, n) /\ Log("Quota", m, None, n, 0)
  \/ \E m \in Mailboxes, n \in 0..MaxNum : Metadata(m, n) /\ Log("Metadata", m, None, n, 0)
  \/ \E m \in Mailboxes : List(m) /\ Log("List", m, None, 0, 0)
  \/ \E m \in Mailboxes : MetaChanged(m) /\ Log("MetaChanged", m, None, 0, 0)
  \/ \E m \in Mailboxes, r \in Mailboxes : QuotaRoot(m, r) /\ Log("QuotaRoot", m, r, 0, 0)
  \/ \E c \in CapSets : Caps(c) /\ Log("Caps", c, None, 0, 0)
  \/ \E p \in Prefixes : Namespace(p) /\ Log("Namespace", p, None, 0, 0)
  \/ Enabled /\ Log("Enabled", None, None, 0, 0)
  \/ \E i \in 1..MaxCmds, n \in 1..MaxNum : Esearch(i, n) /\ Log("Esearch", None, None, n, i)
  \/ Closed /\ Log("Closed", None, None, 0, 0)
  \/ \E i \in 1..MaxCmds, st \in {"OK", "NO", "BAD"}, code \in 0..MaxCode : Tagged(i, st, code) /\ Log("Tagged", st, None, i, code)
  \/ Bye /\ Log("Bye", None, None, 0, 0)

Complete == ~alive' \/ Len(hist') >= SimDepth \/ (Len(cmds') = MaxCmds /\ PendingIds' = {} /\ cstate' # "selected")
\* depth mode: only maximal behaviours are printed (the replay compares after every step anyway)
Maximal == Len(hist') = MaxDepth + 1 \/ ~alive'
GenNext == /\ (MaxDepth > 0 => Len(hist) <= MaxDepth)
           /\ GenStep
           /\ (~Count /\ (IF MaxDepth > 0 THEN Maximal ELSE (SimDepth = 0 \/ Complete))) => PrintT(<<"T", ToJson(hist')>>)

\* completed commands are history: their status and data are not part of the view, but WHICH positions of the
\* submission order are still pending is (the client keeps its pending commands in a list), and so is, for every
\* pending command, which completions it has witnessed since it was submitted: a list that is compacted wrongly
\* when an element is removed ends up in a state that depends on exactly that
IsSubmit(e) == e.act \in {"Submit", "SubmitDead"}
SubmitIdx(j) == CHOOSE x \in 1..Len(hist) : IsSubmit(hist[x]) /\ Cardinality({y \in 1..x : IsSubmit(hist[y])}) = j
Witnessed(j) == LET tail == SubSeq(hist, SubmitIdx(j) + 1, Len(hist))
                    tg == SelectSeq(tail, LAMBDA e : e.act = "Tagged")
                IN [x \in 1..Len(tg) |-> tg[x].n1]
DepthView == <<vars, [x \in 1..Len(hist) |-> <<hist[x].act, hist[x].s1, hist[x].s2, hist[x].n1, hist[x].n2>>]>>
GenView == <<greet, cstate, mbox, alive,
             [i \in 1..Len(cmds) |-> IF cmds[i].st = "pending" THEN <<cmds[i].kind, cmds[i].arg, cmds[i].ph, cmds[i].acc, Witnessed(i)>> ELSE <<"done">>]>>
=============================================================================
