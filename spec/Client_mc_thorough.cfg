CONSTANTS
  MaxCmds = 3
  MaxPending = 3
  MaxNum = 2
  MaxItems = 2
INIT Init
NEXT Next
INVARIANTS TypeOK
PROPERTIES ExactlyOnce Isolation DataToRightCommand StateDiagram
CHECK_DEADLOCK FALSE
