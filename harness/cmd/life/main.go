// Command life binds spec/ServerLife.tla to imapserver (property C06): valid
// multi-command transcripts are cut at every byte offset (clean close, close
// after the server went quiet, connection reset), mutated transcripts and raw
// garbage are thrown at a real server, and the life-cycle events of every
// connection (NewSession, backend calls with the size of what was buffered,
// IDLE goroutine start/stop, Session.Close, connection close) are recorded in
// their real order for ServerLifeTrace.  Panics in the server log, goroutines
// left behind and connections that do not end are reported directly.
//
//	life cuts <out.ndjson> [-stride n] [-seed s]
//	life fuzz <out.ndjson> [-n cases] [-seed s]
//	life one <case.json> <out.ndjson>
package main

import (
	"bufio"
	"bytes"
	"crypto/tls"
	"encoding/json"
	"errors"
	"flag"
	"fmt"
	"io"
	"math/rand"
	"os"
	"runtime"
	"strings"
	"sync"
	"sync/atomic"
	"time"

	"github.com/emersion/go-imap/v2"
	"github.com/emersion/go-imap/v2/imapserver"

	"verif/harness/vh"
)

type evT map[string]interface{}

type connLog struct {
	mu   sync.Mutex
	evs  []evT
	done chan struct{} // closed when the server closed its end
	nest int           // nesting depth of the search keys this connection's input carries (0: flat)
}

func (l *connLog) add(e evT) {
	l.mu.Lock()
	l.evs = append(l.evs, e)
	l.mu.Unlock()
}

// stub session: logs the size of everything the protocol layer buffered for it.
type stub struct {
	vh.NopSession
	log *connLog
}

func (s *stub) call(m string, kind string, n int64) {
	nest := 0
	if m == "Search" {
		nest = s.log.nest
	}
	s.log.add(evT{"ev": "Call", "m": m, "kind": kind, "n": n, "nest": nest})
}
func maxLen(ss ...string) int64 {
	var m int64
	for _, s := range ss {
		if int64(len(s)) > m {
			m = int64(len(s))
		}
	}
	return m
}
func (s *stub) Close() error { s.log.add(evT{"ev": "SessionClose"}); return nil }
func (s *stub) Login(u, p string) error {
	s.call("Login", "buffered", maxLen(u, p))
	if u == "bad" {
		return imapserver.ErrAuthFailed // rejected credentials: the connection goes on, unauthenticated
	}
	return nil
}
func (s *stub) Select(m string, o *imap.SelectOptions) (*imap.SelectData, error) {
	s.call("Select", "buffered", maxLen(m))
	return &imap.SelectData{NumMessages: 1}, nil
}
func (s *stub) Create(m string, o *imap.CreateOptions) error {
	s.call("Create", "buffered", maxLen(m))
	return nil
}
func (s *stub) Delete(m string) error      { s.call("Delete", "buffered", maxLen(m)); return nil }
func (s *stub) Rename(m, n string) error   { s.call("Rename", "buffered", maxLen(m, n)); return nil }
func (s *stub) Subscribe(m string) error   { s.call("Subscribe", "buffered", maxLen(m)); return nil }
func (s *stub) Unsubscribe(m string) error { s.call("Unsubscribe", "buffered", maxLen(m)); return nil }
func (s *stub) List(w *imapserver.ListWriter, ref string, pats []string, o *imap.ListOptions) error {
	s.call("List", "buffered", maxLen(append([]string{ref}, pats...)...))
	return nil
}
func (s *stub) Status(m string, o *imap.StatusOptions) (*imap.StatusData, error) {
	s.call("Status", "buffered", maxLen(m))
	var z uint32
	var z64 int64
	return &imap.StatusData{Mailbox: m, NumMessages: &z, NumUnseen: &z, NumDeleted: &z, Size: &z64}, nil
}
func (s *stub) Append(m string, r imap.LiteralReader, o *imap.AppendOptions) (*imap.AppendData, error) {
	s.call("Append", "append", r.Size())
	io.Copy(io.Discard, r)
	return &imap.AppendData{UID: 1, UIDValidity: 1}, nil
}
func (s *stub) Idle(w *imapserver.UpdateWriter, stop <-chan struct{}) error {
	s.log.add(evT{"ev": "IdleStart"})
	<-stop
	s.log.add(evT{"ev": "IdleStop"})
	return nil
}
func (s *stub) Unselect() error { s.call("Unselect", "none", 0); return nil }
func (s *stub) Expunge(w *imapserver.ExpungeWriter, u *imap.UIDSet) error {
	s.call("Expunge", "none", 0)
	return nil
}
func (s *stub) Search(k imapserver.NumKind, c *imap.SearchCriteria, o *imap.SearchOptions) (*imap.SearchData, error) {
	var n int64
	if c != nil {
		for _, h := range c.Header {
			n = max64(n, maxLen(h.Key, h.Value))
		}
		n = max64(n, maxLen(c.Body...))
		n = max64(n, maxLen(c.Text...))
	}
	s.call("Search", "buffered", n)
	if k == imapserver.NumKindUID {
		return &imap.SearchData{All: imap.UIDSet{}, UID: true}, nil
	}
	return &imap.SearchData{All: imap.SeqSet{}}, nil
}
func max64(a, b int64) int64 {
	if a > b {
		return a
	}
	return b
}
func (s *stub) Fetch(w *imapserver.FetchWriter, n imap.NumSet, o *imap.FetchOptions) error {
	s.call("Fetch", "none", 0)
	return nil
}
func (s *stub) Store(w *imapserver.FetchWriter, n imap.NumSet, f *imap.StoreFlags, o *imap.StoreOptions) error {
	s.call("Store", "none", 0)
	return nil
}
func (s *stub) Copy(n imap.NumSet, d string) (*imap.CopyData, error) {
	s.call("Copy", "buffered", maxLen(d))
	return nil, nil
}
func (s *stub) Move(w *imapserver.MoveWriter, n imap.NumSet, d string) error {
	s.call("Move", "buffered", maxLen(d))
	return nil
}
func (s *stub) Namespace() (*imap.NamespaceData, error) {
	s.call("Namespace", "none", 0)
	return &imap.NamespaceData{}, nil
}
func (s *stub) Unauthenticate() error { s.call("Unauthenticate", "none", 0); return nil }

var (
	srv    *imapserver.Server
	ln     *vh.Listener
	reg    = &vh.Registry{}
	srvLog = vh.NewLogBuf()
)

// a second server advertises LITERAL+: non-synchronising literals of any size are then legal syntax, the
// limits on what is buffered / appended are the same (transcripts whose name starts with "plus")
var (
	srvPlus *imapserver.Server
	lnPlus  *vh.Listener
)

// a third server can upgrade its connections to TLS (transcripts whose name starts with "tls": the client sends
// STARTTLS, shakes hands and goes on inside TLS)
var (
	srvTLS *imapserver.Server
	lnTLS  *vh.Listener
)

func startServer() {
	srv, ln = newServer(false)
	srvPlus, lnPlus = newServer(true)
	srvTLS, lnTLS = newServerTLS()
}

func newServerTLS() (*imapserver.Server, *vh.Listener) {
	ln := vh.NewListener()
	srv := imapserver.New(&imapserver.Options{
		Caps:      imap.CapSet{imap.CapIMAP4rev1: {}, imap.CapMove: {}},
		TLSConfig: vh.ServerTLSConfig(),
		Logger:    srvLog,
		NewSession: func(c *imapserver.Conn) (imapserver.Session, *imapserver.GreetingData, error) {
			l := reg.Get(c).(*connLog)
			l.add(evT{"ev": "NewSession"})
			return &stub{log: l}, nil, nil
		},
	})
	go srv.Serve(ln)
	return srv, ln
}

// newServer builds a server + listener (a private one is used for cases that end with Server.Close).
func newServer(plus bool) (*imapserver.Server, *vh.Listener) {
	ln := vh.NewListener()
	caps := imap.CapSet{imap.CapIMAP4rev1: {}, imap.CapMove: {}, imap.CapNamespace: {}, imap.CapUnauthenticate: {}}
	if plus {
		caps[imap.CapLiteralPlus] = struct{}{}
	}
	srv := imapserver.New(&imapserver.Options{
		Caps:         caps,
		InsecureAuth: true,
		Logger:       srvLog,
		NewSession: func(c *imapserver.Conn) (imapserver.Session, *imapserver.GreetingData, error) {
			l := reg.Get(c).(*connLog)
			l.add(evT{"ev": "NewSession"})
			return &stub{log: l}, nil, nil
		},
	})
	go srv.Serve(ln)
	return srv, ln
}

var transcripts = map[string]string{
	"basic": "a1 LOGIN user pass\r\na2 CAPABILITY\r\na3 SELECT INBOX\r\na4 FETCH 1:* (FLAGS UID BODY.PEEK[HEADER.FIELDS (FROM TO)]<0.100>)\r\n" +
		"a5 STORE 1 +FLAGS.SILENT (\\Seen \\Deleted)\r\na6 SEARCH OR SUBJECT \"x y\" NOT BEFORE 1-Jan-2020\r\na7 COPY 1,3:5 \"Other box\"\r\n" +
		"a8 CLOSE\r\na9 LOGOUT\r\n",
	"literals": "b1 LOGIN {4+}\r\nuser {4}\r\npass\r\nb2 CREATE {5}\r\nmybox\r\nb3 APPEND mybox (\\Seen) {25+}\r\nSubject: x\r\n\r\nhello world\r\n" +
		"b4 APPEND mybox \" 1-Jan-2020 10:00:00 +0000\" {11}\r\nhello\r\nthere\r\nb5 STATUS mybox (MESSAGES UIDNEXT)\r\nb6 LIST \"\" {1+}\r\n*\r\nb7 NOOP\r\n" +
		"b8 SELECT mybox\r\nb9 SEARCH HEADER {7+}\r\nSubject {3+}\r\nabc\r\n",
	"authidle": "c1 AUTHENTICATE PLAIN\r\nAHVzZXIAcGFzcw==\r\nc2 ENABLE IMAP4rev2 UTF8=ACCEPT\r\nc3 IDLE\r\nDONE\r\nc4 SELECT INBOX\r\nc5 IDLE\r\nDONE\r\n" +
		"c6 UNSELECT\r\nc7 IDLE\r\n",
	"uidmove": "d1 AUTHENTICATE PLAIN AHVzZXIAcGFzcw==\r\nd2 NAMESPACE\r\nd3 EXAMINE INBOX\r\nd4 UID FETCH 1:* (UID RFC822.SIZE)\r\nd5 UID MOVE 2 Trash\r\n" +
		"d6 UID STORE 1 FLAGS (\\Answered)\r\nd7 UID SEARCH UID 1:* LARGER 10\r\nd8 UID EXPUNGE 1:3\r\nd9 EXPUNGE\r\nd10 UNAUTHENTICATE\r\nd11 LOGIN u p\r\n" +
		"d12 RENAME a b\r\nd13 SUBSCRIBE b\r\nd14 LSUB \"\" \"%\"\r\nd15 UNSUBSCRIBE b\r\nd16 DELETE b\r\nd17 LOGOUT\r\n",
	"errors": "e1 NOOP junk\r\ne2 LOGIN\r\ne3 LOGIN u p\r\ne4 FETCH 0 FLAGS\r\ne5 SELECT\r\ne6 SELECT x\r\ne7 FETCH 1 (BODY[\r\ne8 STORE 1 FLAGS \\Bad(\r\n" +
		"e9 SEARCH ((((((ALL))))))\r\ne10 XYZZY\r\ne11 APPEND x {3}\r\nabc\r\ne12 CREATE {5000}\r\ne13 UID\r\n",
	"refused": "f1 LOGIN u p\r\nf2 CREATE {5000+}\r\n" + strings.Repeat("z", 5000) + "\r\nf3 NOOP\r\n",
	// LITERAL+ server: non-synchronising literals at and over the 4096-octet limit in every buffered position,
	// an APPEND over the append limit (announced only), then ordinary commands
	"plusover": "p1 LOGIN {4097+}\r\n" + strings.Repeat("u", 4097) + " pw\r\np2 LOGIN u {5000+}\r\n" + strings.Repeat("p", 5000) + "\r\np3 LOGIN u p\r\n" +
		"p4 CREATE {4096+}\r\n" + strings.Repeat("m", 4096) + "\r\np5 CREATE {4097+}\r\n" + strings.Repeat("m", 4097) + "\r\n" +
		"p6 SELECT INBOX\r\np7 SEARCH SUBJECT {6000+}\r\n" + strings.Repeat("s", 6000) + "\r\np8 APPEND m {5000+}\r\n" + strings.Repeat("a", 5000) + "\r\np9 NOOP\r\n",
	"plushuge": "q1 LOGIN u p\r\nq2 APPEND m {104857601+}\r\nSubject: never sent in full\r\n",
	// credentials the backend rejects, again and again, through LOGIN and through both forms of AUTHENTICATE
	// (the connection must stay a connection like any other: answered, and torn down when the peer goes)
	"authfail": "h1 LOGIN bad pw\r\nh2 AUTHENTICATE PLAIN\r\nAGJhZABwdw==\r\nh3 AUTHENTICATE PLAIN AGJhZABwdw==\r\nh4 AUTHENTICATE PLAIN\r\nAGJhZABwdw==\r\n" +
		"h5 LOGIN bad pw\r\nh6 AUTHENTICATE PLAIN AGJhZABwdw==\r\nh7 AUTHENTICATE PLAIN\r\n*\r\nh8 LOGIN bad {2}\r\npw\r\nh9 AUTHENTICATE PLAIN\r\nAGJhZABwdw==\r\n" +
		"h10 LOGIN u p\r\nh11 UNAUTHENTICATE\r\nh12 AUTHENTICATE PLAIN AGJhZABwdw==\r\nh13 LOGIN bad pw\r\nh14 AUTHENTICATE PLAIN AGJhZABwdw==\r\nh15 NOOP\r\n",
	"cancel": "g1 AUTHENTICATE PLAIN\r\n*\r\ng2 AUTHENTICATE PLAIN\r\n!!!notbase64\r\ng3 LOGIN u p\r\ng4 IDLE\r\nNOTDONE\r\ng5 NOOP\r\n",
}

type caseT struct {
	Name  string `json:"name"`            // transcript name or "fuzz"
	Data  []byte `json:"data"`            // bytes written by the client
	Cut   string `json:"cut"`             // "close" | "quiet-close" | "reset"
	Label string `json:"label,omitempty"` // human readable
	Nest  int    `json:"nest,omitempty"`  // nesting depth of the (balanced) search keys in Data
}

type outcome struct {
	evs      []evT
	noEnd    bool
	panicLog string
}

var panicSeen int64

// teardownMissed counts connections whose session was not closed within the time limit
var teardownMissed int64

// noEndCount counts connections that did not end within the time limit
var noEndCount int64

// runConn plays one case and returns the ordered life-cycle events.
func runConn(cs *caseT) *outcome {
	l := &connLog{done: make(chan struct{}), nest: cs.Nest}
	ln, srv := ln, srv
	plus := strings.HasPrefix(cs.Name, "plus")
	if plus {
		ln, srv = lnPlus, srvPlus
	}
	isTLS := strings.HasPrefix(cs.Name, "tls")
	if isTLS {
		ln, srv = lnTLS, srvTLS
	}
	if cs.Cut == "server-close" {
		srv, ln = newServer(plus) // Server.Close is final: this case gets its own server
	}
	c, sc, err := ln.Dial2(func(server *vh.Conn) {
		reg.Put(server, l)
		server.OnClose = func() { l.add(evT{"ev": "ConnClosed"}); close(l.done) }
		if cs.Cut == "doa" {
			// dead on arrival: the peer is gone before the server has served the connection at all (its
			// very first write, the greeting, fails)
			l.add(evT{"ev": "Cut"})
			server.PeerGone()
		}
	})
	if err != nil {
		panic(err)
	}
	defer reg.Drop(sc)
	// drain server output so that the server never blocks on writes
	var got int64
	var rd io.Reader = c
	var wr io.Writer = c
	if isTLS {
		// STARTTLS in plaintext, the handshake, then the transcript inside TLS (cuts are made on the raw connection)
		c.Write([]byte("s1 STARTTLS\r\n"))
		br := bufio.NewReader(c)
		c.SetReadDeadline(time.Now().Add(3 * time.Second))
		for {
			line, err := br.ReadString('\n')
			if err != nil {
				panic("harness: no answer to STARTTLS: " + err.Error())
			}
			if strings.HasPrefix(line, "s1 ") {
				if !strings.HasPrefix(line, "s1 OK") {
					panic("harness: STARTTLS refused: " + line)
				}
				break
			}
		}
		c.SetReadDeadline(time.Time{})
		tc := tls.Client(c, vh.ClientTLSConfig())
		if err := tc.Handshake(); err != nil {
			panic("harness: TLS handshake failed: " + err.Error())
		}
		rd, wr = tc, tc
	}
	go func() {
		buf := make([]byte, 4096)
		for {
			n, err := rd.Read(buf)
			atomic.AddInt64(&got, int64(n))
			if err != nil {
				return
			}
		}
	}()
	wr.Write(cs.Data)
	switch cs.Cut {
	case "quiet-close":
		// wait until the server has gone quiet (it is blocked reading in whatever mode it reached)
		last, still := int64(-1), 0
		for i := 0; i < 4000 && still < 3; i++ {
			time.Sleep(100 * time.Microsecond)
			if g := atomic.LoadInt64(&got); g == last {
				still++
			} else {
				last, still = g, 0
			}
		}
		l.add(evT{"ev": "Cut"})
		c.CloseWrite()
	case "server-close":
		// the operator shuts the server down while the connection is in whatever mode it reached; on a
		// loaded machine the serve goroutine may not even have started yet: give it the time to greet
		for i := 0; i < 20000 && atomic.LoadInt64(&got) == 0; i++ {
			time.Sleep(100 * time.Microsecond)
		}
		last, still := int64(-1), 0
		for i := 0; i < 4000 && still < 3; i++ {
			time.Sleep(100 * time.Microsecond)
			if g := atomic.LoadInt64(&got); g == last {
				still++
			} else {
				last, still = g, 0
			}
		}
		l.add(evT{"ev": "Cut"})
		go srv.Close()
		// Server.Close only reaches connections whose serve goroutine has registered itself; one that
		// was accepted a moment ago survives it.  That is outside C06 (the peer is not gone): the client
		// then disconnects as well, and the usual cleanup is expected.
		select {
		case <-l.done:
		case <-time.After(100 * time.Millisecond):
			c.CloseWrite()
		}
	case "reset":
		l.add(evT{"ev": "Cut"})
		c.InjectPeerReadError(errors.New("read: connection reset by peer"))
	case "gone":
		// the peer vanishes altogether: the server's reads end and its writes fail
		l.add(evT{"ev": "Cut"})
		c.Close()
	case "doa":
		// already cut when the connection was handed to the server
	default:
		l.add(evT{"ev": "Cut"})
		c.CloseWrite()
	}
	o := &outcome{}
	endWait := 3 * time.Second
	if atomic.LoadInt64(&noEndCount) > 30 {
		// the verdict is settled: a tree on which connections never end must not turn the run into hours
		endWait = 150 * time.Millisecond
	}
	select {
	case <-l.done:
	case <-time.After(endWait):
		o.noEnd = true
		atomic.AddInt64(&noEndCount, 1)
	}
	// the server may close the connection before it tears the session down (BYE): wait until the
	// teardown has finished as well before taking the snapshot of the events
	if !o.noEnd {
		wait := 3 * time.Second
		if atomic.LoadInt64(&teardownMissed) > 10 {
			// the verdict is settled: a tree on which the teardown never comes must not turn the run into hours
			wait = 100 * time.Millisecond
		}
		deadline := time.Now().Add(wait)
		for {
			l.mu.Lock()
			started, closed := false, false
			for _, e := range l.evs {
				switch e["ev"] {
				case "NewSession":
					started = true
				case "SessionClose":
					closed = true
				}
			}
			l.mu.Unlock()
			// NewSession never fails here, so every connection that was accepted gets a session: a
			// history without NewSession only means that the serve goroutine has not run yet
			_ = started
			if closed {
				break
			}
			if time.Now().After(deadline) {
				atomic.AddInt64(&teardownMissed, 1)
				break
			}
			time.Sleep(50 * time.Microsecond)
		}
	}
	c.Close()
	l.mu.Lock()
	o.evs = append([]evT(nil), l.evs...)
	l.mu.Unlock()
	return o
}

func imapGoroutines() int {
	buf := make([]byte, 1<<22)
	n := runtime.Stack(buf, true)
	cnt := 0
	for _, g := range bytes.Split(buf[:n], []byte("\n\n")) {
		if bytes.Contains(g, []byte("imapserver.(*Conn)")) {
			cnt++
		}
	}
	return cnt
}

func runAll(cases []*caseT, outp string, out *vh.Out) {
	f, err := os.Create(outp)
	if err != nil {
		fmt.Fprintln(os.Stderr, err)
		os.Exit(2)
	}
	defer f.Close()
	enc := json.NewEncoder(f)
	var emu sync.Mutex
	jobs := make(chan *caseT, 256)
	var wg sync.WaitGroup
	var nCalls, nNontriv int64
	for i := 0; i < 16; i++ {
		wg.Add(1)
		go func() {
			defer wg.Done()
			for cs := range jobs {
				o := runConn(cs)
				calls := 0
				emu.Lock()
				enc.Encode(evT{"ev": "Reset", "case": cs.Label})
				for _, e := range o.evs {
					enc.Encode(e)
					if e["ev"] == "Call" {
						calls++
					}
				}
				if !o.noEnd {
					enc.Encode(evT{"ev": "Exit"})
				}
				enc.Encode(evT{"ev": "End"})
				emu.Unlock()
				atomic.AddInt64(&nCalls, int64(calls))
				if calls > 0 {
					atomic.AddInt64(&nNontriv, 1)
				}
				closedSeen := false
				for _, e := range o.evs {
					switch e["ev"] {
					case "SessionClose":
						closedSeen = true
					case "Call", "IdleStart":
						if closedSeen {
							out.Mismatch("use-after-close/"+fmt.Sprint(e["ev"]), "the backend session is used after Session.Close: "+cs.Label, cs)
						}
					}
				}
				if o.noEnd {
					out.Mismatch("no-end/"+cs.Name+"/"+cs.Cut, "the server did not close the connection within 3 s after the peer was gone: "+cs.Label, cs)
				}
			}
		}()
	}
	for _, cs := range cases {
		jobs <- cs
	}
	close(jobs)
	wg.Wait()
	// goroutines of the protocol layer must all be gone
	leaked := 0
	for i := 0; i < 200; i++ {
		if leaked = imapGoroutines(); leaked == 0 {
			break
		}
		time.Sleep(10 * time.Millisecond)
	}
	if leaked > 0 {
		out.Mismatch("goroutine-leak", fmt.Sprintf("%d goroutines with imapserver.(*Conn) frames are still alive 2 s after all %d connections ended", leaked, len(cases)), nil)
	}
	for _, line := range srvLog.Snapshot() {
		if strings.Contains(line, "panic") {
			out.Mismatch("panic", "server logged: "+firstLines(line, 12), nil)
			break
		}
	}
	// every connection has ended: the servers' registries of connections must be empty again (a closed connection
	// that stays registered is kept alive for as long as the server lives)
	for name, sv := range map[string]*imapserver.Server{"plain": srv, "literal+": srvPlus, "tls": srvTLS} {
		n := -1
		for k := 0; k < 40000; k++ {
			if n = imapserver.VerifConnCount(sv); n == 0 {
				break
			}
			time.Sleep(50 * time.Microsecond)
		}
		if n != 0 {
			out.Mismatch("registry-retains/"+name, fmt.Sprintf("every connection of the run has ended, the %s server still holds %d of them in its registry (Server.conns)", name, n), nil)
		}
	}
	var samples []interface{}
	for i := 0; i < len(cases) && len(samples) < 3; i += 1 + len(cases)/3 {
		samples = append(samples, cases[i].Label)
	}
	out.Summary(map[string]interface{}{"behaviours": len(cases), "traces": len(cases), "steps": nCalls, "nontrivial": nNontriv,
		"records": nCalls + int64(4*len(cases)), "samples": samples})
}

func firstLines(s string, n int) string {
	ls := strings.Split(s, "\n")
	if len(ls) > n {
		ls = ls[:n]
	}
	return strings.Join(ls, " | ")
}

// what the client says inside TLS after a STARTTLS upgrade
const tlsTranscript = "t2 LOGIN user pass\r\nt3 SELECT INBOX\r\nt4 FETCH 1 FLAGS\r\nt5 IDLE\r\nDONE\r\nt6 LOGOUT\r\n"

func cutCases(stride int, rng *rand.Rand) []*caseT {
	var cases []*caseT
	for k := 0; k <= len(tlsTranscript); k++ {
		if k%(2*stride) != 0 && k != len(tlsTranscript) {
			continue
		}
		for _, cut := range []string{"close", "gone", "quiet-close"} {
			cases = append(cases, &caseT{Name: "tls", Data: []byte(tlsTranscript[:k]), Cut: cut, Label: fmt.Sprintf("tls[:%d]/%s", k, cut)})
		}
	}
	for name, t := range transcripts {
		for k := 0; k <= len(t); k++ {
			cuts := []string{"close"}
			if stride <= 1 || k%stride == rng.Intn(stride) || k == len(t) {
				cuts = append(cuts, "quiet-close", "reset", "gone")
			}
			if k == 0 {
				cuts = append(cuts, "doa")
			}
			if k%(4*stride) == 0 || k == len(t) {
				cuts = append(cuts, "server-close")
			}
			for _, cut := range cuts {
				cases = append(cases, &caseT{Name: name, Data: []byte(t[:k]), Cut: cut, Label: fmt.Sprintf("%s[:%d]/%s", name, k, cut)})
			}
		}
	}
	return cases
}

var tokens = []string{" ", "\r\n", "\n", "\r", "(", ")", "{", "}", "{5}", "{5+}", "{4097}", "{4097+}", "{104857601+}", "{99999999999999999999}", "\"", "\\", "*", "%",
	"NIL", "1:*", "0", "4294967296", "BODY[", "]", "<0.", "~", "$", "\x00", "\x80", "\xff", "a", "UID", "IDLE", "DONE", "AUTHENTICATE", "PLAIN", "LOGIN", "APPEND", "FETCH", "SEARCH"}

func fuzzCases(n int, rng *rand.Rand) []*caseT {
	var cases []*caseT
	names := []string{}
	for k := range transcripts {
		names = append(names, k)
	}
	// deterministic order
	for i := 1; i < len(names); i++ {
		for j := i; j > 0 && names[j] < names[j-1]; j-- {
			names[j], names[j-1] = names[j-1], names[j]
		}
	}
	for i := 0; i < n; i++ {
		var data []byte
		nest := 0
		label := ""
		switch i % 4 {
		case 0, 1: // token-level mutation of a valid transcript
			t := transcripts[names[rng.Intn(len(names))]]
			b := []byte(t)
			for m := 0; m < 1+rng.Intn(3); m++ {
				pos := rng.Intn(len(b) + 1)
				switch rng.Intn(4) {
				case 0: // insert token
					tok := tokens[rng.Intn(len(tokens))]
					b = append(b[:pos], append([]byte(tok), b[pos:]...)...)
				case 1: // delete a span
					end := pos + rng.Intn(6)
					if end > len(b) {
						end = len(b)
					}
					b = append(b[:pos], b[end:]...)
				case 2: // duplicate a span
					end := pos + rng.Intn(12)
					if end > len(b) {
						end = len(b)
					}
					b = append(b[:end], append(append([]byte{}, b[pos:end]...), b[end:]...)...)
				case 3: // replace a byte
					if pos < len(b) {
						b[pos] = byte(rng.Intn(256))
					}
				}
			}
			data, label = b, "mutated transcript"
		case 2: // deep nesting / long lines in list positions
			d := []int{10, 999, 1000, 1001, 5000, 100000}[rng.Intn(6)]
			pre := []string{"a LOGIN u p\r\nb SELECT x\r\nc SEARCH ", "a LOGIN u p\r\nb SELECT x\r\nc FETCH 1 ", "a LOGIN u p\r\nb LIST ", "a LOGIN u p\r\nb STATUS x ", "a LOGIN u p\r\nb APPEND x "}[rng.Intn(5)]
			data = []byte(pre + strings.Repeat("(", d) + "\r\nz NOOP\r\n")
			label = fmt.Sprintf("nesting depth %d after %q", d, pre[len(pre)-10:])
			if rng.Intn(2) == 0 {
				// balanced: a well-formed SEARCH whose keys are nested d deep - beyond the bound it must not be
				// followed into the backend
				d = []int{10, 999, 1000, 1001, 1002, 1500, 20000}[rng.Intn(7)]
				uid := []string{"", "UID "}[rng.Intn(2)]
				key := []string{"ALL", "SEEN", "OR SEEN FLAGGED", "NOT DELETED"}[rng.Intn(4)]
				data = []byte("a LOGIN u p\r\nb SELECT x\r\nc " + uid + "SEARCH " + strings.Repeat("(", d) + key + strings.Repeat(")", d) + "\r\nz NOOP\r\n")
				label = fmt.Sprintf("balanced search keys nested %d deep", d)
				nest = d
			}
		default: // garbage
			b := make([]byte, rng.Intn(300))
			for j := range b {
				if rng.Intn(3) == 0 {
					tok := tokens[rng.Intn(len(tokens))]
					b = append(b[:j], append([]byte(tok), b[j:]...)...)[:len(b)]
				} else {
					b[j] = byte(rng.Intn(256))
				}
			}
			data, label = b, "garbage"
		}
		cut := []string{"close", "quiet-close", "reset", "gone"}[rng.Intn(4)]
		cases = append(cases, &caseT{Name: "fuzz", Data: data, Cut: cut, Label: fmt.Sprintf("%s #%d/%s", label, i, cut), Nest: nest})
	}
	return cases
}

func main() {
	if len(os.Args) < 3 {
		fmt.Fprintln(os.Stderr, "usage: life cuts|fuzz|one ...")
		os.Exit(2)
	}
	mode := os.Args[1]
	out := vh.NewOut()
	defer out.Flush()
	startServer()
	fs := flag.NewFlagSet(mode, flag.ExitOnError)
	seed := fs.Int64("seed", 1, "")
	stride := fs.Int("stride", 4, "")
	n := fs.Int("n", 2000, "")
	switch mode {
	case "cuts":
		fs.Parse(os.Args[3:])
		runAll(cutCases(*stride, rand.New(rand.NewSource(*seed))), os.Args[2], out)
	case "fuzz":
		fs.Parse(os.Args[3:])
		runAll(fuzzCases(*n, rand.New(rand.NewSource(*seed))), os.Args[2], out)
	case "one":
		b, err := os.ReadFile(os.Args[2])
		if err != nil {
			fmt.Fprintln(os.Stderr, err)
			os.Exit(2)
		}
		cs := &caseT{}
		if err := json.Unmarshal(b, cs); err != nil {
			fmt.Fprintln(os.Stderr, err)
			os.Exit(2)
		}
		runAll([]*caseT{cs}, os.Args[3], out)
	}
}
