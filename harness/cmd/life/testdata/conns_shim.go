package imapserver

// VerifConnCount reports how many connections the server holds in its registry.
// Conformance harness only: this file is added to the package at build time with
// `go build -overlay` (checks/c06.py); nothing is written into the repository.
func VerifConnCount(s *Server) int {
	s.mutex.Lock()
	defer s.mutex.Unlock()
	return len(s.conns)
}
