// Command idlenotify binds spec/IdleNotify.tla to the real server (imapserver
// + imapmemserver): one session idles on a mailbox, a second one changes a
// burst of messages in one command (STORE 1:*), a third one then uses the same
// mailbox; the idling session's client keeps reading, stops reading, ends its
// IDLE with DONE or drops the connection while the burst is under way.
// Recorded per scenario: did the producer's command complete, did the third
// session's command complete, how many of the changes reached the idling
// client.  IdleNotifyTrace judges; nothing is decided here.
//
//	idlenotify run <tlc-output> <out.ndjson> [-cap 64] [-seed s]
//	idlenotify one <case.json> <out.ndjson>
package main

import (
	"encoding/json"
	"flag"
	"fmt"
	"math/rand"
	"os"
	"strings"
	"sync"
	"time"

	"github.com/emersion/go-imap/v2"
	"github.com/emersion/go-imap/v2/imapserver"
	"github.com/emersion/go-imap/v2/imapserver/imapmemserver"

	"verif/harness/vh"
)

type caseT struct {
	Client string `json:"client"` // reads | stalls | done | drops
	Cls    string `json:"cls"`    // below | at | above | far
	Burst  int    `json:"burst,omitempty"`
	Delay  int    `json:"delay_us,omitempty"` // when, after the burst was started, the idling client acts
}

type recT struct {
	Client string `json:"client"`
	Cls    string `json:"cls"`
	Burst  int    `json:"burst"`
	Delay  int    `json:"delay_us"`
	Prod   string `json:"prod"`  // done | stuck | failed:<why>
	Other  string `json:"other"` // done | stuck | failed:<why>
	Seen   int    `json:"seen"`
}

const limit = 8 * time.Second

type peer struct {
	c   *vh.Conn
	raw *vh.Raw
}

type world struct {
	srv *imapserver.Server
	ln  *vh.Listener
	log *vh.LogBuf
}

func newWorld(n int) (*world, error) {
	w := &world{log: vh.NewLogBuf()}
	mem := imapmemserver.New()
	u := imapmemserver.NewUser("u", "p")
	u.Create("A", nil)
	mem.AddUser(u)
	w.ln = vh.NewListener()
	w.srv = imapserver.New(&imapserver.Options{
		NewSession: func(c *imapserver.Conn) (imapserver.Session, *imapserver.GreetingData, error) {
			return mem.NewSession(), nil, nil
		},
		Caps:         imap.CapSet{imap.CapIMAP4rev1: {}, imap.CapIdle: {}, imap.CapLiteralPlus: {}},
		InsecureAuth: true,
		Logger:       w.log,
	})
	go w.srv.Serve(w.ln)
	p, err := w.dial()
	if err != nil {
		return nil, err
	}
	defer p.c.Close()
	for i := 0; i < n; i++ {
		msg := fmt.Sprintf("Subject: m%d\r\n\r\nbody", i)
		if _, t, err := p.raw.Cmd(fmt.Sprintf("APPEND A {%d+}\r\n%s", len(msg), msg)); err != nil || t.Name != "OK" {
			return nil, fmt.Errorf("APPEND: %v %+v", err, t)
		}
	}
	return w, nil
}

func (w *world) dial() (*peer, error) {
	c, _, err := w.ln.Dial()
	if err != nil {
		return nil, err
	}
	p := &peer{c: c, raw: vh.NewRaw(c)}
	p.raw.Timeout = limit
	if _, err := p.raw.ReadResp(); err != nil {
		return nil, fmt.Errorf("greeting: %v", err)
	}
	if _, t, err := p.raw.Cmd("LOGIN u p"); err != nil || t.Name != "OK" {
		return nil, fmt.Errorf("LOGIN: %v %+v", err, t)
	}
	return p, nil
}

func (p *peer) sel() error {
	if _, t, err := p.raw.Cmd("SELECT A"); err != nil || t.Name != "OK" {
		return fmt.Errorf("SELECT: %v %+v", err, t)
	}
	return nil
}

func outcome(t *vh.Resp, err error) string {
	switch {
	case err != nil && (strings.Contains(err.Error(), "timeout") || strings.Contains(err.Error(), "deadline")):
		return "stuck"
	case err != nil:
		return "failed:" + err.Error()
	case t.Name != "OK":
		return "failed:" + strings.TrimSpace(t.Raw)
	}
	return "done"
}

// isFetch: an untagged FETCH response (a flag update)
func isFetch(r *vh.Resp) bool { return r.Tag == "*" && r.Name == "FETCH" }

// isBurst: a flag update caused by the burst (the pokes that precede it never set that keyword)
func isBurst(r *vh.Resp) bool { return isFetch(r) && strings.Contains(r.Raw, "burst") }

func sizeOf(cls string, cap int, rng *rand.Rand) int {
	switch cls {
	case "below":
		return 1 + rng.Intn(cap-1)
	case "at":
		return cap
	case "above":
		return cap + 1
	}
	return 2*cap + 2 + rng.Intn(cap)
}

func runCase(cs caseT) (*recT, error) {
	rec := &recT{Client: cs.Client, Cls: cs.Cls, Burst: cs.Burst, Delay: cs.Delay}
	w, err := newWorld(cs.Burst)
	if err != nil {
		return nil, err
	}
	defer w.srv.Close()
	idler, err := w.dial()
	if err != nil {
		return nil, err
	}
	defer idler.c.Close()
	prod, err := w.dial()
	if err != nil {
		return nil, err
	}
	defer prod.c.Close()
	if err := idler.sel(); err != nil {
		return nil, err
	}
	if err := prod.sel(); err != nil {
		return nil, err
	}
	// IDLE; the session registers its wake-up channel only after "+ idling" has been written: poke it with
	// single flag changes until a wake-up gets through (these are not part of the scenario)
	idleTag := idler.raw.NextTag()
	idler.raw.Send(idleTag + " IDLE\r\n")
	if r, err := idler.raw.ReadResp(); err != nil || r.Tag != "+" {
		return nil, fmt.Errorf("IDLE: %v %+v", err, r)
	}
	registered := false
	for try := 0; try < 400 && !registered; try++ {
		op := "+"
		if try%2 == 1 {
			op = "-"
		}
		if _, t, err := prod.raw.Cmd("STORE 1 " + op + "FLAGS.SILENT (poke)"); err != nil || t.Name != "OK" {
			return nil, fmt.Errorf("poke: %v %+v", err, t)
		}
		idler.raw.Timeout = 20 * time.Millisecond
		for {
			r, err := idler.raw.ReadResp()
			if err != nil {
				break
			}
			if isFetch(r) {
				registered = true
			}
		}
	}
	idler.raw.Timeout = limit
	if !registered {
		return nil, fmt.Errorf("the idling session never reacted to a change")
	}
	// drain what the pokes left
	idler.raw.Timeout = 30 * time.Millisecond
	for {
		if _, err := idler.raw.ReadResp(); err != nil {
			break
		}
	}
	idler.raw.Timeout = limit

	var mu sync.Mutex
	seen := 0
	idlerDone := make(chan struct{})
	stopReading := make(chan struct{})
	if cs.Client == "stalls" {
		// from now on nothing is read; the server can have a few octets in flight, then its writes block
		idler.c.SetPeerWindow(96)
	}
	act := func() {
		defer close(idlerDone)
		switch cs.Client {
		case "reads":
			idler.raw.Timeout = 0 // ended by closing the connection
			idler.c.SetReadDeadline(time.Time{})
			for {
				r, err := idler.raw.ReadResp()
				if err != nil {
					return
				}
				if isBurst(r) {
					mu.Lock()
					seen++
					mu.Unlock()
				}
			}
		case "stalls":
			<-stopReading
		case "done":
			time.Sleep(time.Duration(cs.Delay) * time.Microsecond)
			idler.raw.Send("DONE\r\n")
			idler.raw.Timeout = limit
			un, _, err := idler.raw.Until(idleTag)
			for _, r := range un {
				if isBurst(r) {
					mu.Lock()
					seen++
					mu.Unlock()
				}
			}
			if err != nil {
				return
			}
			<-stopReading // the burst is over: NOOP collects what was not sent during the IDLE
			un, _, _ = idler.raw.Cmd("NOOP")
			for _, r := range un {
				if isBurst(r) {
					mu.Lock()
					seen++
					mu.Unlock()
				}
			}
		case "drops":
			time.Sleep(time.Duration(cs.Delay) * time.Microsecond)
			idler.c.Close()
		}
	}
	go act()
	// the burst
	_, t, err := prod.raw.Cmd("STORE 1:* +FLAGS.SILENT (burst)")
	rec.Prod = outcome(t, err)
	// a third session on the same mailbox
	other, err := w.dial()
	if err != nil {
		rec.Other = "failed:" + err.Error()
	} else {
		defer other.c.Close()
		_, t, err := other.raw.Cmd("SELECT A")
		if err == nil && t.Name == "OK" {
			_, t, err = other.raw.Cmd("FETCH 1 FLAGS")
		}
		rec.Other = outcome(t, err)
	}
	if cs.Client == "reads" {
		// give the idling session the time to be told about everything (it is told asynchronously)
		deadline := time.Now().Add(limit)
		for time.Now().Before(deadline) {
			mu.Lock()
			n := seen
			mu.Unlock()
			if n >= cs.Burst {
				break
			}
			time.Sleep(time.Millisecond)
		}
	}
	close(stopReading)
	if cs.Client == "reads" {
		idler.c.Close()
	}
	select {
	case <-idlerDone:
	case <-time.After(limit + time.Second):
	}
	mu.Lock()
	rec.Seen = seen
	mu.Unlock()
	return rec, nil
}

func main() {
	if len(os.Args) < 4 {
		fmt.Fprintln(os.Stderr, "usage: idlenotify run <tlc-output> <out.ndjson> | one <case.json> <out.ndjson>")
		os.Exit(2)
	}
	out := vh.NewOut()
	defer out.Flush()
	fs := flag.NewFlagSet("x", flag.ExitOnError)
	capN := fs.Int("cap", 64, "capacity of the wake-up channel in the tree under test")
	seed := fs.Int64("seed", 1, "")
	reps := fs.Int("reps", 2, "repetitions of a scenario (different sizes within the class, different moments)")
	fs.Parse(os.Args[4:])
	rng := rand.New(rand.NewSource(*seed))
	var cases []caseT
	if os.Args[1] == "one" {
		b, err := os.ReadFile(os.Args[2])
		var cs caseT
		if err != nil || json.Unmarshal(b, &cs) != nil {
			out.Summary(map[string]interface{}{"infra_error": "bad case file"})
			return
		}
		cases = []caseT{cs}
	} else {
		err := vh.ReadTLines(os.Args[2], func(b []byte) error {
			var cs caseT
			if err := json.Unmarshal(b, &cs); err != nil {
				return err
			}
			for k := 0; k < *reps; k++ {
				c := cs
				c.Burst = sizeOf(cs.Cls, *capN, rng)
				c.Delay = []int{0, 50, 300, 1500}[rng.Intn(4)]
				cases = append(cases, c)
			}
			return nil
		})
		if err != nil {
			out.Summary(map[string]interface{}{"infra_error": err.Error()})
			return
		}
	}
	f, err := os.Create(os.Args[3])
	if err != nil {
		out.Summary(map[string]interface{}{"infra_error": err.Error()})
		return
	}
	defer f.Close()
	enc := json.NewEncoder(f)
	var emu sync.Mutex
	jobs := make(chan caseT)
	var wg sync.WaitGroup
	var infra string
	nontrivial := 0
	var samples []interface{}
	for i := 0; i < 8; i++ {
		wg.Add(1)
		go func() {
			defer wg.Done()
			for cs := range jobs {
				rec, err := runCase(cs)
				emu.Lock()
				if err != nil {
					infra = err.Error()
				} else {
					enc.Encode(rec)
					if cs.Cls != "below" {
						nontrivial++
					}
					if len(samples) < 3 {
						samples = append(samples, rec)
					}
				}
				emu.Unlock()
			}
		}()
	}
	for _, cs := range cases {
		jobs <- cs
	}
	close(jobs)
	wg.Wait()
	if infra != "" {
		out.Summary(map[string]interface{}{"infra_error": infra})
		return
	}
	out.Summary(map[string]interface{}{"behaviours": len(cases), "traces": len(cases), "records": len(cases), "steps": len(cases),
		"nontrivial": nontrivial, "samples": samples})
}
